----------------------------- MODULE CRelStoreFn -----------------------------
(***************************************************************************)
(* The relation store of src/relationcls.rs (CRelationSet) as a function   *)
(* of the sequence of calls of `add`; shared by the model CRelStore and    *)
(* the replay trace specification CRelStoreTrace.                          *)
(***************************************************************************)
EXTENDS Naturals, Sequences, FiniteSets, TLC

Dom(f) == DOMAIN f
Sorted(S) == CHOOSE s \in [1..Cardinality(S) -> S] : \A i, j \in 1..Cardinality(S) : i < j => s[i] < s[j]

\* update_tree(p, q): q becomes a tree vertex below p, then its stored neighbours, larger ones first
RECURSIVE UpdateTree(_, _, _, _, _)
RECURSIVE UpdateList(_, _, _, _, _)
UpdateList(ps, dbl, rv, q, lst) ==
  IF lst = <<>> THEN ps ELSE UpdateList(UpdateTree(ps, dbl, rv, q, Head(lst)), dbl, rv, q, Tail(lst))
UpdateTree(ps, dbl, rv, p, q) ==
  IF q \in Dom(ps) THEN ps
  ELSE LET ps1 == ps @@ (q :> Append(ps[p], q))
           gt  == Sorted({e[2] : e \in {e \in Dom(dbl) : e[1] = q}})
           lt  == Sorted({e[2] : e \in {e \in rv : e[1] = q}})
       IN UpdateList(UpdateList(ps1, dbl, rv, q, gt), dbl, rv, q, lt)

Edge(a, b) == IF a < b THEN <<a, b>> ELSE <<b, a>>
\* emit_path: the stored relations along a root path, removed from `doubles` as they are emitted
RECURSIVE EmitPath(_, _, _)
EmitPath(path, dbl, acc) ==     \* returns <<doubles', emitted ids>>
  IF Len(path) < 2 THEN <<dbl, acc>>
  ELSE LET e == Edge(path[1], path[2])
       IN IF e \in Dom(dbl)
          THEN EmitPath(Tail(path), [x \in Dom(dbl) \ {e} |-> dbl[x]], Append(acc, dbl[e]))
          ELSE EmitPath(Tail(path), dbl, acc)

\* ---- the store as a function of the call: st = [paths, doubles, drev, emitted, ncyc]
St0 == [paths |-> (1 :> <<1>>), doubles |-> <<>>, drev |-> {}, emitted |-> <<>>, ncyc |-> 0]

AddPathF(st, p, q, id) ==     \* p < q
  IF p \in Dom(st.paths) /\ q \in Dom(st.paths)
  THEN LET r1 == EmitPath(st.paths[p], st.doubles, <<>>)
           r2 == EmitPath(st.paths[q], r1[1], <<>>)
       IN [st EXCEPT !.doubles = r2[1], !.emitted = st.emitted \o r1[2] \o r2[2] \o <<id>>, !.ncyc = st.ncyc + 1]
  ELSE LET dbl == [x \in Dom(st.doubles) \cup {<<p, q>>} |-> IF x = <<p, q>> THEN id ELSE st.doubles[x]]
           rv  == st.drev \cup {<<q, p>>}
           ps1 == IF p \in Dom(st.paths) THEN UpdateTree(st.paths, dbl, rv, p, q) ELSE st.paths
           ps2 == IF q \in Dom(st.paths) THEN UpdateTree(ps1, dbl, rv, q, p) ELSE ps1
       IN [st EXCEPT !.doubles = dbl, !.drev = rv, !.paths = ps2]

\* CRelationSet::add of the relation number id with large primes l1, l2 (0 = none; l1 < l2 or l2 = 0)
AddF(st, id, l1, l2) ==
  IF l1 = 0 THEN [st EXCEPT !.emitted = Append(st.emitted, id), !.ncyc = st.ncyc + 1]
  ELSE IF l2 = 0 THEN AddPathF(st, 1, l1, id)
  ELSE AddPathF(st, l1, l2, id)

RECURSIVE RunF(_, _, _)
RunF(st, h, k) == IF k > Len(h) THEN st ELSE RunF(AddF(st, k, h[k][1], h[k][2]), h, k + 1)
RunHist(h) == RunF(St0, h, 1)
=============================================================================
