INIT Init
NEXT Next
CONSTANT Lo = 701
CONSTANT Hi = 1600
CONSTANT Extra = {424708}
CONSTANT UMax = 0
INVARIANT GroupLaws
CHECK_DEADLOCK FALSE
