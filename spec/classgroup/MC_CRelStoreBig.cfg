SPECIFICATION Spec
CONSTANT LP = {2, 3, 4, 5}
CONSTANT MaxOps = 6
INVARIANT EmittedInserted
INVARIANT DoublesOK
INVARIANT PathsOK
INVARIANT TreeSpans
INVARIANT CycleCount
CHECK_DEADLOCK FALSE
