INIT Init
NEXT Next
CONSTANT Lo = 3
CONSTANT Hi = 600
CONSTANT Extra = {10148, 2999}
CONSTANT UMax = 60
INVARIANT WitnessSound
CHECK_DEADLOCK FALSE
