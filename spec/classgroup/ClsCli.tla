------------------------------- MODULE ClsCli -------------------------------
(***************************************************************************)
(* The command-line layer of the class-group program (src/bin/ymcls.rs),   *)
(* sibling of spec/factor/Cli.tla: one action per step of main(), in the   *)
(* order of the code:                                                      *)
(*   Usage      --help or a number of positional arguments other than 1, 2 *)
(*              -> usage text on stderr, status 0, nothing on stdout       *)
(*   ReadNumber Int::from_str(..).expect(..): not a decimal integer or     *)
(*              beyond 1024 bits -> refusal "number"; a positive number is *)
(*              negated                                                    *)
(*   SizeGuard  more than 512 bits -> refusal "size"                       *)
(*   ResGuard   D = 2, 3 mod 4 -> refusal "residue"                        *)
(*              (a non-fundamental D = 0, 1 mod 4 is NOT refused: the      *)
(*              library warns and leaves the conductor primes out)         *)
(*   ReadVerb   Verbosity::from_str(..).unwrap() -> refusal "verbosity"    *)
(*   MkPool     --threads N (N > 1): a rayon pool                          *)
(*   CallLib    classgroup::classgroup(&d, &prefs, tpool), which           *)
(*     LibDir     creates OUTPUTDIR (unwrap: refusal "outdir" from inside  *)
(*                the library) and writes args.json,                       *)
(*     LibSieve   writes relations.sieve while sieving (ClsProto.tla),     *)
(*     LibFilter  writes relations.filtered,                               *)
(*     LibIndex   finds the class number or panics ("libfail"), writes the *)
(*                file classnumber,                                        *)
(*     LibGroup   reduces to the group structure or panics ("libfail"; the *)
(*                file classnumber is already there), writes               *)
(*                relations.removed and group.structure.extra              *)
(*   WriteGroup main() writes group.structure                              *)
(*   Print      the same bytes on stdout: "G d1 d2 .." and the coordinates *)
(*   Exit0                                                                 *)
(* What the layer promises to a script: a non-zero status comes with an    *)
(* empty stdout; status 0 with a G line means the printed cyclic factors   *)
(* multiply to the class number the library computed (= the file           *)
(* classnumber) and every file of a successful run exists; a refusal by    *)
(* main() itself happens before anything is created.                       *)
(***************************************************************************)
EXTENDS Integers, Sequences, FiniteSets, TLC, ClsCliRules

\* abstract discriminants: v = |D| (0 = unreadable); H(v) = the class number, Groups(v) = factorisations the
\* library may report (any list of factors > 1 multiplying to h)
Values == {0, 23, 47, 84, 22}
H(v) == CASE v = 23 -> 3 [] v = 47 -> 5 [] v = 84 -> 4 [] OTHER -> 1
Groups(v) == CASE v = 84 -> {<<2, 2>>, <<4>>} [] v = 23 -> {<<3>>} [] v = 47 -> {<<5>>} [] OTHER -> {<<>>}
ProdSeq(s) == IF s = <<>> THEN 1 ELSE LET F[i \in 1..Len(s)] == IF i = 1 THEN s[1] ELSE s[i] * F[i - 1] IN F[Len(s)]

VARIABLES pc, arg, lib, out, files, dir, status, why, entered
vars == <<pc, arg, lib, out, files, dir, status, why, entered>>

Args == [orphans : {0, 1, 2, 3}, help : BOOLEAN, num : {"dec", "garbage"}, size : {"le512", "gt512", "gt1024"},
         res : {"ok", "bad"}, verb : {"ok", "bogus"}, outdir : {"none", "ok", "bad"}, v : Values, threads : {0, 2}]
ArgOK(a) == /\ (a.outdir = "none") <=> (a.orphans < 2)
            /\ (a.v = 0) <=> (a.num = "garbage" \/ a.size # "le512")
            /\ (a.res = "bad") <=> (a.v = 22)

Init == /\ pc = "start" /\ arg \in {a \in Args : ArgOK(a)}
        /\ lib = [h |-> 0, g |-> <<>>] /\ out = <<>> /\ files = {} /\ dir = FALSE /\ status = -1 /\ why = "none" /\ entered = FALSE

Refuse(r) == pc' = "done" /\ status' = 101 /\ why' = r /\ UNCHANGED <<arg, lib, out, files, dir, entered>>
Go(p)     == pc' = p /\ UNCHANGED <<arg, lib, out, files, dir, status, why, entered>>
WithDir   == arg.outdir = "ok"

Usage == /\ pc = "start"
         /\ IF arg.help \/ arg.orphans \notin {1, 2}
              THEN pc' = "done" /\ status' = 0 /\ why' = "usage" /\ UNCHANGED <<arg, lib, out, files, dir, entered>>
              ELSE Go("number")
ReadNumber == pc = "number" /\ (IF arg.num = "garbage" \/ arg.size = "gt1024" THEN Refuse("number") ELSE Go("size"))
SizeGuard  == pc = "size"   /\ (IF arg.size = "gt512" THEN Refuse("size") ELSE Go("res"))
ResGuard   == pc = "res"    /\ (IF arg.res = "bad" THEN Refuse("residue") ELSE Go("verb"))
ReadVerb   == pc = "verb"   /\ (IF arg.verb = "bogus" THEN Refuse("verbosity") ELSE Go("pool"))
MkPool     == pc = "pool"   /\ pc' = "lib_dir" /\ entered' = TRUE /\ UNCHANGED <<arg, lib, out, files, dir, status, why>>
LibDir     == /\ pc = "lib_dir"
              /\ IF arg.outdir = "bad" THEN Refuse("outdir")
                 ELSE /\ pc' = "lib_sieve" /\ dir' = WithDir /\ files' = IF WithDir THEN {"args.json"} ELSE {}
                      /\ UNCHANGED <<arg, lib, out, status, why, entered>>
AddFiles(fs) == files' = IF WithDir THEN files \cup fs ELSE files
LibSieve   == pc = "lib_sieve" /\ pc' = "lib_filter" /\ AddFiles({"relations.sieve"}) /\ UNCHANGED <<arg, lib, out, dir, status, why, entered>>
LibFilter  == pc = "lib_filter" /\ pc' = "lib_index" /\ AddFiles({"relations.filtered"}) /\ UNCHANGED <<arg, lib, out, dir, status, why, entered>>
LibIndex   == /\ pc = "lib_index"
              /\ \/ Refuse("libfail")
                 \/ /\ lib' = [lib EXCEPT !.h = H(arg.v)] /\ AddFiles({"classnumber"}) /\ pc' = "lib_group"
                    /\ UNCHANGED <<arg, out, dir, status, why, entered>>
LibGroup   == /\ pc = "lib_group"
              /\ \/ Refuse("libfail")
                 \/ /\ lib' \in {[lib EXCEPT !.g = g] : g \in Groups(arg.v)}
                    /\ AddFiles({"relations.removed", "group.structure.extra"}) /\ pc' = "write"
                    /\ UNCHANGED <<arg, out, dir, status, why, entered>>
WriteGroup == pc = "write" /\ pc' = "print" /\ AddFiles({"group.structure"}) /\ UNCHANGED <<arg, lib, out, dir, status, why, entered>>
PrintOut   == pc = "print" /\ out' = <<lib.g>> /\ pc' = "exit" /\ UNCHANGED <<arg, lib, files, dir, status, why, entered>>
Exit0      == pc = "exit" /\ pc' = "done" /\ status' = 0 /\ why' = "answer" /\ UNCHANGED <<arg, lib, out, files, dir, entered>>

Next == Usage \/ ReadNumber \/ SizeGuard \/ ResGuard \/ ReadVerb \/ MkPool \/ LibDir \/ LibSieve \/ LibFilter \/ LibIndex
        \/ LibGroup \/ WriteGroup \/ PrintOut \/ Exit0
Spec == Init /\ [][Next]_vars /\ WF_vars(Next)

TypeOK == /\ status \in {-1, 0, 101}
          /\ why \in {"none", "usage", "answer", "number", "size", "residue", "verbosity", "outdir", "libfail"}
\* a non-zero status comes with an empty stdout; so does the usage text
RefusalSilent == (status = 101 \/ why = "usage") => out = <<>>
\* nothing is printed before the whole computation has succeeded (no partial answer on stdout)
PrintLast == out # <<>> => (pc \in {"exit", "done"} /\ out = <<lib.g>>)
\* status 0 after an answer: the printed factors multiply to the library's class number, which is the true one
AnswerRight == (pc = "done" /\ why = "answer") =>
                  (status = 0 /\ Len(out) = 1 /\ ProdSeq(out[1]) = lib.h /\ lib.h = H(arg.v) /\ \A i \in 1..Len(out[1]) : out[1][i] > 1)
\* ... and with an OUTPUTDIR every file of the run exists
AnswerFiles == (pc = "done" /\ why = "answer" /\ WithDir) => files = SuccessFiles
\* refused up front: main()'s own refusals and the usage exit happen before the library is entered, nothing is created
GuardFirst == /\ entered => (arg.num = "dec" /\ arg.size = "le512" /\ arg.res = "ok" /\ arg.verb = "ok" /\ arg.orphans \in {1, 2} /\ ~arg.help)
              /\ (why \in MainRefusals \cup {"usage", "outdir"}) => (files = {} /\ ~dir)
\* the result file of main() is written only by a run that goes on to print the same group
GroupFileOnlyOnSuccess == "group.structure" \in files => (pc \in {"print", "exit", "done"} /\ why \in {"none", "answer"})
RefusalDeclared == pc = "done" => (why \in Expected(arg) /\ status = StatusOf(why))
NoDirWithoutArg == ~WithDir => (files = {} /\ ~dir)
\* documented observation (NOT an invariant of the code, expected violation): the file classnumber is written before
\* the group computation can still fail, so a failed run can leave a class number behind
ClassnumberOnlyOnSuccess == (pc = "done" /\ "classnumber" \in files) => why = "answer"
\* non-vacuity (expected violations)
NeverAnswers == ~(pc = "done" /\ why = "answer" /\ Len(out[1]) = 2)
NeverLibFails == ~(pc = "done" /\ why = "libfail")
Terminates == <>(pc = "done")
=============================================================================
