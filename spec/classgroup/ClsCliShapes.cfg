INIT ShInit
NEXT ShNext
INVARIANT Emit
CHECK_DEADLOCK FALSE
