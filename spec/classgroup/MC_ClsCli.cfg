SPECIFICATION Spec
INVARIANT TypeOK
INVARIANT RefusalSilent
INVARIANT PrintLast
INVARIANT AnswerRight
INVARIANT AnswerFiles
INVARIANT GuardFirst
INVARIANT GroupFileOnlyOnSuccess
INVARIANT RefusalDeclared
INVARIANT NoDirWithoutArg
PROPERTY Terminates
CHECK_DEADLOCK FALSE
