INIT Init
NEXT Next
CONSTANT Lo = 3
CONSTANT Hi = 199
CONSTANT Extra = {}
CONSTANT UMax = 0
INVARIANT Heegner
INVARIANT CountAgree
CHECK_DEADLOCK FALSE
