---------------------------- MODULE ClsProtoTrace ----------------------------
(***************************************************************************)
(* C18 stage "cls-proto" (and the part of C04 that names classgroup.rs):   *)
(* real runs of classgroup::classgroup with thread pools of 1, 2, 3, 4, 8  *)
(* under schedule perturbation, validated against ClsProto.tla.            *)
(*                                                                         *)
(* Trace lines, grouped by discriminant (field "case"):                    *)
(*   op "input": D (digits d, decimal dd), its construction (pre * product *)
(*               of distinct odd primes facs), n = |D| when small enough   *)
(*               for the reduced-form count;                               *)
(*   op "run":   one call with prefs.threads = t under one perturbation;   *)
(*               base = TRUE marks the run without a pool of the same      *)
(*               preference variant bkey (it comes first); abort_at >= 0:  *)
(*               the abort predicate returns true from that poll on.       *)
(*               evs = the hook events of the run in log order, each       *)
(*               <<code, tid, a, b, c>> (harness/src/drivers/cls.rs,       *)
(*               fn compact).  ret = group | none | panic | timeout.       *)
(*                                                                         *)
(* Strict = what the properties state, nothing else:                       *)
(*   cls-terminates   the call comes back (no hang: the watchdog saw all   *)
(*                    progress stop; the process was not killed);          *)
(*   cls-store-assert no panic from the consistency assertion of the       *)
(*                    shared store (p != q) and no poisoned lock (a panic  *)
(*                    while the store was being mutated);                  *)
(*   cls-same-h       a class number returned with a pool equals the one   *)
(*                    returned without a pool for the same D, and the two  *)
(*                    lists of cyclic factors describe isomorphic groups   *)
(*                    (same number of solutions of k x = 0 for every k     *)
(*                    tried: a necessary condition, so no false alarm);    *)
(*   cls-h-true       the class number equals the number of reduced forms  *)
(*                    (HCount of ClassGroup.tla) when |D| is small enough; *)
(*   cls-factors      the cyclic factors multiply to the class number.     *)
(* Drift (the detailed model ClsProto / CRelStore, informational):         *)
(*   path          per-thread program order follows the worker / main      *)
(*                 process of ClsProto (successor relation on event kinds, *)
(*                 given the values the thread read);                      *)
(*   thin_air      an exit steered by done = TRUE happens after some       *)
(*                 thread stored it;  flag_truth: done is stored only when *)
(*                 the store had more than target relations;               *)
(*   writer_excl   the sections [c_w_acq .. c_add] (logged while the write *)
(*                 lock is held) never overlap, and no reader logs from    *)
(*                 inside its read section meanwhile;                      *)
(*   lost_insert   #handed over = #w_req = #w_acq = #store_add = #c_add,   *)
(*                 counters never decrease, what main reads after the join *)
(*                 is what the last insertion left, result() has as many   *)
(*                 relations as were emitted, and the linear algebra gets  *)
(*                 them;                                                   *)
(*   store         the store mutations IN LOCK ORDER follow CRelStoreFn's  *)
(*                 AddF: same emitted relations (large-prime pairs, in     *)
(*                 order) per insertion, same cycle counter, same number   *)
(*                 of emitted relations (runs flagged store_replay);       *)
(*   abort_none    a run in which a poll returned true returns None.       *)
(***************************************************************************)
EXTENDS ClassGroup, CRelStoreFn, TraceLib
VARIABLES l, inp, base

NoEv == <<0, 0, 0, 0, 0>>

F0(replay) ==
  [inW |-> 0, rels |-> 0, reqs |-> 0, acqs |-> 0, sadds |-> 0, adds |-> 0, cyc |-> 0, em |-> 0, target |-> -1,
   doneSt |-> FALSE, sawAbort |-> FALSE, returned |-> FALSE, finalEm |-> -1, resN |-> -1,
   last |-> <<>>, dr |-> {}, replay |-> replay, st |-> St0, hist |-> <<>>, secRel |-> <<0, 0, 0>>, secEm |-> <<>>]

Prev(s, t) == IF t \in DOMAIN s.last THEN s.last[t] ELSE NoEv

NormRel(a, b) == IF b = 0 THEN <<a, 0>> ELSE IF a = 0 THEN <<b, 0>> ELSE IF a < b THEN <<a, b>> ELSE <<b, a>>

\* successor relation of the worker / main processes of ClsProto on logged events (prev p, current x)
PathOK(p, x) ==
  CASE x[1] = 4  -> p[1] = 3 \/ (p[1] = 6 /\ p[4] = 1)                           \* skip: done (no poll) | abort
    [] x[1] = 7  -> (p[1] = 6 /\ p[4] = 0) \/ (p[1] = 3 /\ p[3] = 2)             \* UnitStart after a poll that returned false
    [] x[1] = 5  -> p[1] = 8                                                      \* sequential loop: check after the unit
    [] x[1] = 13 -> p[1] = 5 \/ (p[1] = 6 /\ p[4] = 1)
    [] x[1] \in {9, 10} -> p[1] \in {7, 14} \/ (p[1] = 11 /\ p[3] = 2)           \* top of the polynomial loop
    [] x[1] = 11 /\ x[3] = 1 -> p[1] \in {10, 20, 21} \/ (p[1] = 11 /\ p[3] = 1)  \* before each block
    [] x[1] = 11 /\ x[3] = 2 -> p[1] \in {12, 20, 21} \/ (p[1] = 11 /\ p[3] = 1)  \* after the polynomial
    [] x[1] = 12 -> p[1] = 11 /\ p[3] = 1
    [] x[1] = 14 -> p[1] = 11 /\ p[3] = 2
    [] x[1] = 15 -> p[1] = 20 \/ (p[1] = 11 /\ p[3] = 1)                          \* next smooth value of the block
    [] x[1] = 16 -> p[1] = 15
    [] x[1] = 17 -> p[1] = 16
    [] x[1] = 18 -> p[1] = 17
    [] x[1] = 19 -> p[1] \in {18, 19}
    [] x[1] = 20 -> p[1] \in {18, 19}
    [] x[1] = 21 -> p[1] = 20 /\ p[5] = 1                                         \* break only when the store is complete
    [] x[1] = 8  -> p[1] \in {9, 14} \/ (p[1] = 11 /\ p[3] = 2)
    [] x[1] = 23 -> p[1] = 6 /\ p[4] = 1
    [] x[1] = 24 -> p[1] = 6 /\ p[4] = 0
    [] x[1] = 25 -> p[1] = 24
    [] x[1] = 26 -> p[1] = 25
    [] OTHER -> TRUE
\* what must follow a value read (the hook's read precedes the code's; done never goes back to FALSE)
MustFollow(p, x) ==
  /\ (p[1] = 11 /\ p[3] = 1 /\ p[4] = 1) => x[1] = 12
  /\ (p[1] = 11 /\ p[3] = 2 /\ p[4] = 1) => x[1] = 14
  /\ (p[1] = 20 /\ p[5] = 1) => x[1] = 21
  /\ (p[1] = 6 /\ p[4] = 1) => x[1] \in {4, 13, 23}

CloseSection(s, x) ==      \* x = c_add(len, em, done) of thread x[2]
  LET r   == NormRel(s.secRel[1], s.secRel[2])
      dropped == r[2] = 0 /\ r[1] # 0 /\ r[1] >= s.secRel[3]       \* add() ignores a single large prime >= maxlarge
      h2  == IF dropped THEN s.hist ELSE Append(s.hist, r)
      st2 == IF dropped \/ ~s.replay THEN s.st ELSE AddF(s.st, Len(h2), r[1], r[2])
      new == SubSeq(st2.emitted, Len(s.st.emitted) + 1, Len(st2.emitted))
      pred == [i \in 1..Len(new) |-> h2[new[i]]]
      d1  == IF s.replay /\ pred # s.secEm THEN {"store_emit"} ELSE {}
      d2  == IF s.replay /\ (st2.ncyc # x[3] \/ Len(st2.emitted) # x[4]) THEN {"store_count"} ELSE {}
      d3  == IF x[3] < s.cyc \/ x[4] < s.em \/ x[4] - s.em # Len(s.secEm) THEN {"lost_insert"} ELSE {}
  IN [st |-> st2, hist |-> IF s.replay THEN h2 ELSE s.hist, dr |-> d1 \cup d2 \cup d3]

Step(s, x) ==
  LET t == x[2]
      c == x[1]
      p == Prev(s, t)
      cs == IF c = 20 THEN CloseSection(s, x) ELSE [st |-> s.st, hist |-> s.hist, dr |-> {}]
      excl == (IF c = 17 /\ s.inW # 0 THEN {"writer_excl"} ELSE {})
              \cup (IF c \in {18, 19, 20} /\ s.inW # t THEN {"writer_excl"} ELSE {})
              \cup (IF c \in {11, 24} /\ s.inW # 0 THEN {"writer_excl"} ELSE {})
      needDone == c = 9 \/ (c = 4 /\ p[1] = 3) \/ (c = 13 /\ p[1] = 5)
      drift == (IF ~PathOK(p, x) \/ ~MustFollow(p, x) THEN {"path"} ELSE {})
               \cup (IF needDone /\ ~s.doneSt THEN {"thin_air"} ELSE {})
               \cup (IF c = 14 /\ s.target >= 0 /\ ~(s.cyc > s.target) THEN {"flag_truth"} ELSE {})
               \cup (IF c = 24 /\ (x[3] # s.cyc \/ x[5] # s.em) THEN {"lost_insert"} ELSE {})
               \cup (IF c = 25 /\ x[3] # s.finalEm THEN {"lost_insert"} ELSE {})
               \cup (IF c = 26 /\ x[3] # s.resN THEN {"lost_insert"} ELSE {})
               \cup excl \cup cs.dr
  IN [s EXCEPT
        !.inW = IF c = 17 THEN t ELSE IF c = 20 THEN 0 ELSE @,
        !.rels = IF c = 15 THEN @ + 1 ELSE @,
        !.reqs = IF c = 16 THEN @ + 1 ELSE @,
        !.acqs = IF c = 17 THEN @ + 1 ELSE @,
        !.sadds = IF c = 18 THEN @ + 1 ELSE @,
        !.adds = IF c = 20 THEN @ + 1 ELSE @,
        !.cyc = IF c = 20 THEN x[3] ELSE @,
        !.em = IF c = 20 THEN x[4] ELSE @,
        !.target = IF c = 1 THEN x[5] ELSE @,
        !.doneSt = @ \/ c = 14,
        !.sawAbort = @ \/ (c = 6 /\ x[4] = 1),
        !.returned = @ \/ c = 28,
        !.finalEm = IF c = 24 THEN x[5] ELSE @,
        !.resN = IF c = 25 THEN x[3] ELSE @,
        !.secRel = IF c = 18 THEN <<x[3], x[4], x[5]>> ELSE IF c = 17 THEN <<0, 0, 0>> ELSE @,
        !.secEm = IF c = 19 THEN Append(@, NormRel(x[4], x[5])) ELSE IF c = 17 THEN <<>> ELSE @,
        !.st = cs.st,
        !.hist = cs.hist,
        !.last = (t :> x) @@ @,
        !.dr = @ \cup drift]

Final(e) == FoldLeft(Step, F0(Has(e, "store_replay") /\ e.store_replay), e.evs)

\* number of solutions of k x = 0 in Z/d1 x ... x Z/dr: an isomorphism invariant
NSol(inv, k) == Prod([i \in 1..Len(inv) |-> Gcd(inv[i], k)])
Ks(a, b) == {a[i] : i \in 1..Len(a)} \cup {b[i] : i \in 1..Len(b)}
            \cup {FromInt(k) : k \in {2, 3, 4, 5, 7, 8, 9, 11, 13, 16, 25, 27, 32, 49, 64}}
MaybeIso(a, b) == \A k \in Ks(a, b) : NSol(a, k) = NSol(b, k)

InputOK(e) ==
  /\ IsNat(e.d) /\ e.pre \in {1, 4, 8}
  /\ \A i \in 1..Len(e.facs) : IsNat(e.facs[i]) /\ IsOdd(e.facs[i])
  /\ Mul(FromInt(e.pre), Prod(e.facs)) = e.d
  /\ \A i, j \in 1..Len(e.facs) : i # j => e.facs[i] # e.facs[j]
  /\ Has(e, "n") => (FromInt(e.n) = e.d /\ IsFundamental(e.n))

JudgeRun(i, e) ==
  LET f == Final(e)
      ret == e.ret
      came == ret \in {"group", "none", "panic"} /\ ~(Has(e, "outcome") /\ e.outcome \in {"timeout", "killed"})
      storePanic == ret = "panic" /\ Has(e, "poisoned") /\ (e.poisoned \/ e.msg = "assertion failed: p != q")
      hasBase == e.bkey \in DOMAIN base
      cmp == ~e.base /\ hasBase /\ base[e.bkey].ret = "group" /\ ret = "group"
  IN
  /\ Witness(i, "input_known", inp # <<>> /\ inp.dd = e.dd)
  /\ Strict(i, "cls-terminates", came)
  /\ Strict(i, "cls-store-assert", ~storePanic)
  /\ Strict(i, "cls-same-h", cmp => (e.h = base[e.bkey].h /\ MaybeIso(e.inv, base[e.bkey].inv)))
  /\ Strict(i, "cls-h-true", (ret = "group" /\ inp # <<>> /\ inp.hc >= 0) => e.h = FromInt(inp.hc))
  /\ Strict(i, "cls-factors", ret = "group" => (Prod(e.inv) = e.h /\ \A k \in 1..Len(e.inv) : Gt(e.inv[k], One)))
  /\ Drift(i, "path", "path" \notin f.dr)
  /\ Drift(i, "thin_air", "thin_air" \notin f.dr /\ "flag_truth" \notin f.dr)
  /\ Drift(i, "writer_excl", "writer_excl" \notin f.dr)
  /\ Drift(i, "lost_insert", "lost_insert" \notin f.dr /\
                             (came /\ f.returned => (f.rels = f.reqs /\ f.reqs = f.acqs /\ f.acqs = f.sadds /\ f.sadds = f.adds)))
  /\ Drift(i, "store", "store_emit" \notin f.dr /\ "store_count" \notin f.dr)
  /\ Drift(i, "abort_none", f.sawAbort => ret = "none")
  /\ Drift(i, "none_only_on_abort", (ret = "none" /\ came) => f.sawAbort)
  /\ ((~e.base /\ hasBase /\ base[e.bkey].ret = "group" /\ ret = "panic" /\ ~storePanic) => Note(i, "pool_run_without_result", e.msg))

Init == l = 1 /\ inp = <<>> /\ base = <<>>

Next ==
  /\ l <= NRec
  /\ l' = l + 1
  /\ LET e == Rec[l] IN
     CASE e.op = "input" ->
            /\ Witness(l, "input", InputOK(e))
            /\ inp' = [dd |-> e.dd, hc |-> IF Has(e, "n") THEN HCount(e.n) ELSE -1]
            /\ base' = <<>>
       [] e.op = "run" ->
            /\ JudgeRun(l, e)
            /\ inp' = inp
            /\ base' = IF e.base /\ inp # <<>>
                       THEN (e.bkey :> [ret |-> e.ret, h |-> IF e.ret = "group" THEN e.h ELSE <<>>,
                                        inv |-> IF e.ret = "group" THEN e.inv ELSE <<>>]) @@ base
                       ELSE base
       [] OTHER -> Strict(l, "unknown_op", FALSE) /\ UNCHANGED <<inp, base>>

Spec == Init /\ [][Next]_<<l, inp, base>>
=============================================================================
