SPECIFICATION Spec
CONSTANTS
  Workers = {w1, w2}
  Supply <- SupplyA
  Target = 2
  LP = {2, 3, 4}
  NoPool = FALSE
  UseLock = TRUE
  CheckFirst = FALSE
  AbortEnabled = FALSE
SYMMETRY Perms
INVARIANT TypeOK
INVARIANT WriterExclusive
INVARIANT NoLostInsert
INVARIANT StoreIsModel
INVARIANT StoreInvariants
INVARIANT LinesInserted
INVARIANT ResultIsFile
INVARIANT FlagsTruthful
INVARIANT ResultEnough
INVARIANT NoSpuriousPanic
INVARIANT JoinedQuiet
INVARIANT BreakAfterInsert
INVARIANT CompleteIfSingleComplete
INVARIANT AbortNoNewUnit
INVARIANT AbortNoResult
CHECK_DEADLOCK TRUE
