------------------------------ MODULE CRelStore ------------------------------
(***************************************************************************)
(* C18 (M): the relation store of src/relationcls.rs (CRelationSet).       *)
(*                                                                         *)
(* Relations with large primes are edges of a graph on {1} + large primes  *)
(* (a single large prime p is the edge 1-p).  The store keeps a spanning   *)
(* tree of the component of 1 as root paths (`paths`), the not yet emitted *)
(* edges (`doubles`, `doubles_rev`), and emits relations unchanged: a      *)
(* relation closing a cycle is emitted together with the stored relations  *)
(* of the two root paths.  One action per call of CRelationSet::add.       *)
(* Relations are identified by their position in the history.              *)
(***************************************************************************)
EXTENDS CRelStoreFn, Json
CONSTANTS LP,        \* large primes (naturals > 1)
          MaxOps     \* length of the histories explored
VARIABLES hist,      \* inserted relations: <<l1, l2>>, 0 = no large prime, l1 < l2 or l2 = 0
          paths,     \* vertex -> root path (sequence of vertices starting with 1)
          doubles,   \* <<p, q>> (p < q) -> id of the stored relation
          drev,      \* set of <<q, p>>, never shrinks (as in the code)
          emitted,   \* sequence of relation ids, in emission order
          ncyc       \* sum of n_cycles
vars == <<hist, paths, doubles, drev, emitted, ncyc>>

Init == /\ hist = <<>> /\ paths = St0.paths /\ doubles = St0.doubles /\ drev = St0.drev
        /\ emitted = St0.emitted /\ ncyc = St0.ncyc

Add(l1, l2) ==
  /\ Len(hist) < MaxOps
  /\ hist' = Append(hist, <<l1, l2>>)
  /\ LET st == AddF([paths |-> paths, doubles |-> doubles, drev |-> drev, emitted |-> emitted, ncyc |-> ncyc],
                     Len(hist) + 1, l1, l2)
     IN paths' = st.paths /\ doubles' = st.doubles /\ drev' = st.drev /\ emitted' = st.emitted /\ ncyc' = st.ncyc

Next == \/ Add(0, 0)
        \/ \E p \in LP : Add(p, 0)
        \/ \E p, q \in LP : p < q /\ Add(p, q)
Spec == Init /\ [][Next]_vars

----------------------------------------------------------------------------
Ids(s) == {s[i] : i \in 1..Len(s)}
EdgeOf(id) == IF hist[id][2] = 0 THEN <<1, hist[id][1]>> ELSE <<hist[id][1], hist[id][2]>>
HasLarge(id) == hist[id][1] # 0

\* every emitted relation is one of the inserted ones, emitted once
EmittedInserted ==
  /\ Ids(emitted) \subseteq 1..Len(hist)
  /\ Cardinality(Ids(emitted)) = Len(emitted)
  /\ \A id \in 1..Len(hist) : ~HasLarge(id) => id \in Ids(emitted)

\* stored relations sit on their own edge
DoublesOK == \A e \in Dom(doubles) : doubles[e] \in 1..Len(hist) /\ EdgeOf(doubles[e]) = e
                                       /\ doubles[e] \notin Ids(emitted)

\* root paths are simple, start at 1, end at their vertex, and every step is an inserted relation that is
\* still stored or has been emitted
PathsOK ==
  \A v \in Dom(paths) :
    LET pa == paths[v]
    IN /\ pa[1] = 1 /\ pa[Len(pa)] = v
       /\ \A i, j \in 1..Len(pa) : i # j => pa[i] # pa[j]
       /\ \A i \in 1..(Len(pa) - 1) :
            LET e == Edge(pa[i], pa[i + 1])
            IN /\ pa[i] \in Dom(paths) /\ paths[pa[i]] = SubSeq(pa, 1, i)
               /\ \/ e \in Dom(doubles)
                  \/ \E id \in Ids(emitted) : HasLarge(id) /\ EdgeOf(id) = e

\* the tree spans the component of 1: a stored edge never leaves the tree
TreeSpans == \A e \in Dom(doubles) : (e[1] \in Dom(paths)) <=> (e[2] \in Dom(paths))

\* the emitted relations with large primes form a connected graph through 1 and the counter equals its
\* number of independent cycles plus the full relations
CycleCount ==
  LET em  == {id \in Ids(emitted) : HasLarge(id)}
      vs  == UNION {{EdgeOf(id)[1], EdgeOf(id)[2]} : id \in em} \ {1}
      ful == Cardinality({id \in Ids(emitted) : ~HasLarge(id)})
  IN /\ ncyc = ful + Cardinality(em) - Cardinality(vs)
     /\ vs \subseteq Dom(paths)

\* (G) complete histories, replayed into the real CRelationSet by the harness
EmitReplay == Len(hist) = MaxOps => PrintT(<<"REPLAY", ToJson([hist |-> hist])>>)
=============================================================================
