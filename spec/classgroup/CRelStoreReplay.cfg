SPECIFICATION Spec
CONSTANT LP = {2, 3, 4}
CONSTANT MaxOps = 4
INVARIANT EmitReplay
CHECK_DEADLOCK FALSE
