SPECIFICATION Spec
CONSTANTS
  Workers = {w1, w2}
  Supply <- SupplyC
  Target = 1
  LP = {2, 3, 4}
  NoPool = FALSE
  UseLock = TRUE
  CheckFirst = TRUE
  AbortEnabled = FALSE
SYMMETRY Perms
INVARIANT BreakAfterInsert
CHECK_DEADLOCK TRUE
