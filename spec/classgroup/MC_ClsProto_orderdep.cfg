SPECIFICATION Spec
CONSTANTS
  Workers = {w1, w2}
  Supply <- SupplyT
  Target = 1
  LP = {2, 3, 4}
  NoPool = FALSE
  UseLock = TRUE
  CheckFirst = FALSE
  AbortEnabled = FALSE
SYMMETRY Perms
INVARIANT CompleteIfSingleComplete
CHECK_DEADLOCK TRUE
