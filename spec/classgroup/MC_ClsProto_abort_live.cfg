SPECIFICATION Spec
CONSTANTS
  Workers = {w1, w2}
  Supply <- SupplyC
  Target = 2
  LP = {2, 3, 4}
  NoPool = FALSE
  UseLock = TRUE
  CheckFirst = FALSE
  AbortEnabled = TRUE
PROPERTY Termination
CHECK_DEADLOCK TRUE
