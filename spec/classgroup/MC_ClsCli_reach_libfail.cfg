SPECIFICATION Spec
INVARIANT NeverLibFails
CHECK_DEADLOCK FALSE
