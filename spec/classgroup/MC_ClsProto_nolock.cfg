SPECIFICATION Spec
CONSTANTS
  Workers = {w1, w2}
  Supply <- SupplyA
  Target = 2
  LP = {2, 3, 4}
  NoPool = FALSE
  UseLock = FALSE
  CheckFirst = FALSE
  AbortEnabled = FALSE
SYMMETRY Perms
INVARIANT NoLostInsert
CHECK_DEADLOCK TRUE
