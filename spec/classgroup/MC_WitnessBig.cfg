INIT Init
NEXT Next
CONSTANT Lo = 601
CONSTANT Hi = 2000
CONSTANT Extra = {424708, 1411012}
CONSTANT UMax = 120
INVARIANT WitnessSound
CHECK_DEADLOCK FALSE
