---------------------------- MODULE ClsCliTrace ----------------------------
(***************************************************************************)
(* C18 at the command line: validation of real runs of the ymcls binary    *)
(* built from the tree under test.  One event = one invocation:            *)
(*   cls      the argument class known by construction (fields of          *)
(*            ClsCli!Args: orphans, help, num, size, res, verb, outdir)    *)
(*   status, signal, timeout; why = the outcome read off status and stderr *)
(*            (usage | answer | silent | number | size | residue |         *)
(*            verbosity | outdir | libfail | internal); ploc = file of the *)
(*            panic message                                                *)
(*   gline / inv / ngens / outbad / coordbad / outlines: stdout ("G d1 .." *)
(*            and one coordinate line per generator)                       *)
(*   files, dir_exists, hfile (the file classnumber), gs_same (the file    *)
(*            group.structure has the bytes of stdout)                     *)
(*   n        |D| when small enough for the reduced-form count;            *)
(*   libh     the class number classgroup() returns in-process for this D  *)
(* Strict (the statement of C18, observed at ymcls): whatever group is     *)
(* printed - with any exit status - has cyclic factors > 1 that multiply   *)
(* to the class number: the file classnumber, the library's own answer,    *)
(* and the number of reduced forms when |D| is small.                      *)
(* Drift (the model ClsCli.tla): the invocation is an end state of ClsCli  *)
(* for its argument class - declared outcome and status, refusals of       *)
(* main() are panics of src/bin/ymcls.rs before anything is created, a     *)
(* non-zero status comes with an empty stdout, a success leaves every file *)
(* of the run and group.structure = stdout.                                *)
(***************************************************************************)
EXTENDS ClassGroup, ClsCliRules, TraceLib
VARIABLE l

Files(e) == {e.files[i] : i \in 1..Len(e.files)}
Printed(e) == e.gline \/ e.outlines > 0

\* C18: the reported class group
AnswerOK(e) ==
  e.gline =>
    /\ e.outbad = 0 /\ e.coordbad = 0
    /\ \A i \in 1..Len(e.inv) : IsNat(e.inv[i]) /\ Gt(e.inv[i], One)
    /\ (e.hfile # <<>> /\ Has(e, "hfiled")) => Prod(e.inv) = e.hfile
    /\ Has(e, "libh") => Prod(e.inv) = e.libh
    /\ Has(e, "n") => Prod(e.inv) = FromInt(HCount(e.n))

\* the model: end states of ClsCli.tla
Declared(e) ==
  /\ ~e.timeout /\ e.signal = 0
  /\ e.why \in Expected(e.cls)
  /\ e.status = StatusOf(e.why)
RefusalSilent(e) == (e.status # 0 \/ e.why = "usage") => ~Printed(e)
GuardFirst(e) ==
  /\ e.why \in MainRefusals => (e.ploc = "src/bin/ymcls.rs" /\ e.files = <<>> /\ ~e.dir_exists)
  /\ e.why = "usage" => (e.files = <<>> /\ ~e.dir_exists)
  /\ e.why = "outdir" => e.files = <<>>
  /\ e.why = "libfail" => (e.ploc # "src/bin/ymcls.rs" /\ "group.structure" \notin Files(e))
AnswerFiles(e) ==
  (e.why = "answer" /\ e.cls.outdir = "ok") => (SuccessFiles \subseteq Files(e) /\ e.gs_same /\ e.nsieve > 0 /\ e.hfile # <<>>)
NoStrayDir(e) == e.cls.outdir = "none" => (e.files = <<>> /\ ~e.dir_exists)

InputsOK(e) == /\ e.cls.orphans \in 0..3 /\ e.cls.num \in {"dec", "garbage"} /\ e.cls.size \in {"le512", "gt512", "gt1024"}
               /\ e.cls.res \in {"ok", "bad"} /\ e.cls.outdir \in {"none", "ok", "bad"}
               /\ Has(e, "n") => IsFundamental(e.n)

Init == l = 1
Next == /\ l <= NRec /\ l' = l + 1
        /\ LET e == Rec[l] IN
           /\ Witness(l, "inputs", e.op = "clscli" /\ InputsOK(e))
           /\ Strict(l, "clscli-answer", AnswerOK(e))
           /\ Drift(l, "clscli-declared", Declared(e))
           /\ Drift(l, "clscli-refusal-silent", RefusalSilent(e))
           /\ Drift(l, "clscli-guard-first", GuardFirst(e))
           /\ Drift(l, "clscli-files", AnswerFiles(e) /\ NoStrayDir(e))
           /\ ((e.status # 0 /\ "classnumber" \in Files(e)) => Note(l, "failed_run_left_classnumber_file", e.why))
Spec == Init /\ [][Next]_l
=============================================================================
