SPECIFICATION Spec
CONSTANTS
  Workers = {w1, w2}
  Supply <- SupplyA
  Target = 2
  LP = {2, 3, 4}
  NoPool = FALSE
  UseLock = TRUE
  CheckFirst = FALSE
  AbortEnabled = FALSE
PROPERTY Termination
CHECK_DEADLOCK TRUE
