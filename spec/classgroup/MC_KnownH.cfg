INIT Init
NEXT Next
CONSTANT Lo = 3
CONSTANT Hi = 2
CONSTANT Extra = {10148, 424708, 1411012, 2402548}
CONSTANT UMax = 0
INVARIANT KnownH
CHECK_DEADLOCK FALSE
