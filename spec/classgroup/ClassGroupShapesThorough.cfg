INIT Init
NEXT Next
CONSTANT SmallBound = 3000
CONSTANT CountedBits = {12, 14, 16, 18, 20, 22, 23, 26, 28, 30}
CONSTANT BigBits = {31, 33, 40, 48, 64, 66, 80, 100, 118, 128}
INVARIANT Emit
CHECK_DEADLOCK FALSE
