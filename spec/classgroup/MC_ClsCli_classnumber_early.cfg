SPECIFICATION Spec
INVARIANT ClassnumberOnlyOnSuccess
CHECK_DEADLOCK FALSE
