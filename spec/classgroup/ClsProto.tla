------------------------------ MODULE ClsProto ------------------------------
(***************************************************************************)
(* C18 / C04 (M) - the protocol between the threads of the class-group     *)
(* sieve, src/classgroup.rs (classgroup: 144-209, sieve_a: 304-343,        *)
(* siqs_sieve_poly: 345-382, the hand-over at the end of sieve_block_poly: *)
(* 512-524), composed with the relation store of src/relationcls.rs.       *)
(* Same style as spec/sieveproto/SieveProto.tla (one action per access to  *)
(* shared state), but the store is NOT abstract here: it is the store of   *)
(* CRelStore.tla (the pure operators of CRelStoreFn, and the invariants of *)
(* CRelStore through an INSTANCE), so interleavings and store histories    *)
(* are explored together.                                                  *)
(*                                                                         *)
(* Processes: main + Workers (rayon pool over the values of A; NoPool = TRUE: *)
(* no pool, the single worker is the calling thread and runs the           *)
(* sequential loop, which sieves first and checks afterwards).             *)
(*                                                                         *)
(* Shared state                                                            *)
(*   tasks     sequence of task numbers not yet handed out (par_iter: any  *)
(*             order; the sequential loop: in order)                       *)
(*   lock      RwLock<CRelationSet>: set of readers, optional writer       *)
(*   st, hist  the store (paths, doubles, drev, emitted, ncyc) and the     *)
(*             sequence of relations inserted so far (<<l1, l2>>, 0 = no   *)
(*             large prime).  CRelationSet::add is a read step and a write *)
(*             step so that the need for the write lock is visible         *)
(*             (UseLock = FALSE breaks NoLostInsert and the invariants of  *)
(*             the store).                                                 *)
(*   file      relations.sieve: one line per emitted relation, written by  *)
(*             emit() inside add()                                         *)
(*   done      RELAXED ATOMIC: a load may return any value written so far  *)
(*             or the initial one (doneW)                                  *)
(*   polys     polys_done (fetch_add, only reported)                       *)
(*   abortFlag the caller's predicate; AbortFlips is the fault action      *)
(*                                                                         *)
(* The supply of relations is a constant: Supply[t][p][b] = the sequence   *)
(* of raw relations block b of polynomial p of task t yields (so that the  *)
(* sequential run is one behaviour and "complete whenever the single run   *)
(* is complete" can be stated).  done() is  ncyc > Target ; the final test *)
(* of classgroup() is  ncyc < Target => panic("not enough polynomials").   *)
(*                                                                         *)
(* After the join: the final abort poll (None), the length test, result()  *)
(* = into_inner().to_vec() = the emitted relations, group_structure().     *)
(***************************************************************************)
EXTENDS CRelStoreFn, Naturals, Sequences, FiniteSets, TLC

CONSTANTS Workers,        \* pool threads
          Supply,         \* Supply[t][p][b] : sequence of <<l1, l2>> (l1 < l2 or l2 = 0)
          Target,         \* target number of relations
          LP,             \* large primes that occur (for the instance of CRelStore)
          NoPool,            \* TRUE: no pool
          UseLock,        \* FALSE: model mutation - inserts without the write lock
          CheckFirst,     \* TRUE: model mutation - the completion test of the hand-over is made before the insert
          AbortEnabled    \* TRUE: the AbortFlips fault action exists

VARIABLES pc, mpc, tasks, lock, st, hist, file, doneW, polys, abortFlag,
          cur,     \* cur[w] = [t, p, b, k]: task, polynomial, block, next raw relation of the block
          tmp,     \* tmp[w] = the store and history a worker read at the beginning of its add
          rd,      \* rd[w] = value of done() the worker read under the read lock
          ins,     \* ins[w] = sequence of relations worker w inserted
          sawAbort, unitsAfterTrue, sieved, result

vars == <<pc, mpc, tasks, lock, st, hist, file, doneW, polys, abortFlag, cur, tmp, rd, ins, sawAbort, unitsAfterTrue,
          sieved, result>>

None == "none"
NTasks == Len(Supply)
NPolys(t) == Len(Supply[t])
NBlocks(t, p) == Len(Supply[t][p])
AllBlocks == {<<t, p, b>> : t \in 1..NTasks, p \in 1..3, b \in 1..3}
TotalBlocks == Cardinality({x \in AllBlocks : x[2] <= NPolys(x[1]) /\ x[3] <= NBlocks(x[1], x[2])})
MaxOps == 12

StoreDone(s) == s.ncyc > Target

Init ==
  /\ pc = [w \in Workers |-> "w_init"]
  /\ mpc = "m_fork"
  /\ tasks = [i \in 1..NTasks |-> i]
  /\ lock = [readers |-> {}, writer |-> None]
  /\ st = St0 /\ hist = <<>> /\ file = <<>>
  /\ doneW = {FALSE}
  /\ polys = 0
  /\ abortFlag = FALSE
  /\ cur = [w \in Workers |-> [t |-> 0, p |-> 0, b |-> 0, k |-> 0]]
  /\ tmp = [w \in Workers |-> [st |-> St0, hist |-> <<>>, file |-> <<>>]]
  /\ rd = [w \in Workers |-> FALSE]
  /\ ins = [w \in Workers |-> <<>>]
  /\ sawAbort = [w \in Workers |-> FALSE]
  /\ unitsAfterTrue = [w \in Workers |-> 0]
  /\ sieved = 0
  /\ result = <<>>

Go(w, p) == pc' = [pc EXCEPT ![w] = p]
AfterUnit == IF NoPool THEN "s_done" ELSE "w_idle"

-----------------------------------------------------------------------------
(* main *)
MU == UNCHANGED <<tasks, lock, st, hist, file, doneW, polys, abortFlag, cur, tmp, rd, ins, sawAbort, unitsAfterTrue, sieved>>

Fork == /\ mpc = "m_fork" /\ mpc' = "m_join"
        /\ pc' = [w \in Workers |-> "w_idle"]
        /\ UNCHANGED result /\ MU

Join == /\ mpc = "m_join" /\ \A w \in Workers : pc[w] = "w_end"
        /\ mpc' = "m_abort"
        /\ UNCHANGED <<pc, result>> /\ MU

\* classgroup.rs:181  if prefs.abort() { return None }
FinalAbortCheck ==
        /\ mpc = "m_abort"
        /\ mpc' = IF abortFlag THEN "m_aborted" ELSE "m_len"
        /\ UNCHANGED <<pc, result>> /\ MU

\* classgroup.rs:186-196  rels.read(); if rels.len() < rels.target { panic!("not enough polynomials to sieve") }
FinalLen ==
        /\ mpc = "m_len"
        /\ mpc' = IF st.ncyc < Target THEN "m_panic" ELSE "m_result"
        /\ UNCHANGED <<pc, result>> /\ MU

\* classgroup.rs:198  s.result() = into_inner().to_vec(): the emitted relations, in emission order
TakeResult ==
        /\ mpc = "m_result"
        /\ result' = st.emitted
        /\ mpc' = "m_linalg"
        /\ UNCHANGED pc /\ MU

\* relationcls::group_structure(crels, ..): returns Some(group) or panics (lattice index not determined)
Linalg ==
        /\ mpc = "m_linalg"
        /\ mpc' \in {"m_done", "m_libfail"}
        /\ UNCHANGED <<pc, result>> /\ MU

AbortFlips ==
        /\ AbortEnabled /\ ~abortFlag /\ mpc \in {"m_fork", "m_join", "m_abort"}
        /\ abortFlag' = TRUE
        /\ UNCHANGED <<pc, mpc, tasks, lock, st, hist, file, doneW, polys, cur, tmp, rd, ins, sawAbort, unitsAfterTrue,
                       sieved, result>>

-----------------------------------------------------------------------------
(* workers *)
WU == UNCHANGED <<mpc, result>>

\* rayon hands out any remaining item; the sequential loop takes the first
TakeTask(w) ==
  /\ pc[w] = "w_idle"
  /\ IF tasks # <<>>
     THEN \E i \in (IF NoPool THEN {1} ELSE 1..Len(tasks)) :
            /\ cur' = [cur EXCEPT ![w] = [t |-> tasks[i], p |-> 1, b |-> 1, k |-> 1]]
            /\ tasks' = [j \in 1..(Len(tasks) - 1) |-> IF j < i THEN tasks[j] ELSE tasks[j + 1]]
            /\ Go(w, IF NoPool THEN "u_start" ELSE "t_done")
     ELSE /\ Go(w, "w_end") /\ UNCHANGED <<tasks, cur>>
  /\ UNCHANGED <<lock, st, hist, file, doneW, polys, abortFlag, tmp, rd, ins, sawAbort, unitsAfterTrue, sieved>> /\ WU

\* classgroup.rs:167 / 176   if s.done.load(Relaxed) || ...
LoadDone(w) ==
  /\ pc[w] \in {"t_done", "s_done"}
  /\ \E d \in doneW :
        Go(w, IF d THEN (IF NoPool THEN "w_end" ELSE "w_idle") ELSE IF NoPool THEN "s_poll" ELSE "t_poll")
  /\ UNCHANGED <<tasks, lock, st, hist, file, doneW, polys, abortFlag, cur, tmp, rd, ins, sawAbort, unitsAfterTrue, sieved>> /\ WU

\*                            ... || prefs.abort() { return / break }
PollAbort(w) ==
  /\ pc[w] \in {"t_poll", "s_poll"}
  /\ IF abortFlag
     THEN /\ sawAbort' = [sawAbort EXCEPT ![w] = TRUE]
          /\ Go(w, IF NoPool THEN "w_end" ELSE "w_idle")
     ELSE /\ UNCHANGED sawAbort
          /\ Go(w, IF NoPool THEN "w_idle" ELSE "u_start")
  /\ UNCHANGED <<tasks, lock, st, hist, file, doneW, polys, abortFlag, cur, tmp, rd, ins, unitsAfterTrue, sieved>> /\ WU

\* sieve_a begins
UnitStart(w) ==
  /\ pc[w] = "u_start"
  /\ unitsAfterTrue' = [unitsAfterTrue EXCEPT ![w] = IF sawAbort[w] THEN @ + 1 ELSE @]
  /\ Go(w, "p_done")
  /\ UNCHANGED <<tasks, lock, st, hist, file, doneW, polys, abortFlag, cur, tmp, rd, ins, sawAbort, sieved>> /\ WU

\* classgroup.rs:317   if s.done.load(Relaxed) { return }   (top of the polynomial loop)
LoadDonePoly(w) ==
  /\ pc[w] = "p_done"
  /\ \E d \in doneW : Go(w, IF d THEN AfterUnit ELSE "b_acq")
  /\ UNCHANGED <<tasks, lock, st, hist, file, doneW, polys, abortFlag, cur, tmp, rd, ins, sawAbort, unitsAfterTrue, sieved>> /\ WU

\* read sections: b_* = the test before each block (siqs_sieve_poly:374), q_* = the test after each polynomial (sieve_a:328)
AcqR(w) ==
  /\ pc[w] \in {"b_acq", "q_acq"}
  /\ (UseLock => lock.writer = None)
  /\ lock' = [lock EXCEPT !.readers = @ \cup {w}]
  /\ Go(w, IF pc[w] = "b_acq" THEN "b_read" ELSE "q_read")
  /\ UNCHANGED <<tasks, st, hist, file, doneW, polys, abortFlag, cur, tmp, rd, ins, sawAbort, unitsAfterTrue, sieved>> /\ WU

ReadDone(w) ==
  /\ pc[w] \in {"b_read", "q_read"}
  /\ rd' = [rd EXCEPT ![w] = StoreDone(st)]
  /\ Go(w, IF pc[w] = "b_read" THEN "b_rel" ELSE "q_rel")
  /\ UNCHANGED <<tasks, lock, st, hist, file, doneW, polys, abortFlag, cur, tmp, ins, sawAbort, unitsAfterTrue, sieved>> /\ WU

NextPolyPc(w) == IF cur[w].p < NPolys(cur[w].t) THEN "p_done" ELSE AfterUnit

RelR(w) ==
  /\ pc[w] \in {"b_rel", "q_rel"}
  /\ lock' = [lock EXCEPT !.readers = @ \ {w}]
  /\ IF pc[w] = "b_rel"
     THEN /\ Go(w, IF rd[w] THEN "inc_polys" ELSE "b_sieve")      \* break out of the block loop | sieve the block
          /\ UNCHANGED cur
     ELSE IF rd[w] THEN Go(w, "st_done") /\ UNCHANGED cur
          ELSE /\ Go(w, NextPolyPc(w))
               /\ cur' = [cur EXCEPT ![w].p = @ + 1, ![w].b = 1, ![w].k = 1]
  /\ UNCHANGED <<tasks, st, hist, file, doneW, polys, abortFlag, tmp, rd, ins, sawAbort, unitsAfterTrue, sieved>> /\ WU

\* sieve_block_poly: thread-local work; its smooth values are Supply[t][p][b]
SieveBlock(w) ==
  /\ pc[w] = "b_sieve"
  /\ sieved' = sieved + 1
  /\ cur' = [cur EXCEPT ![w].k = 1]
  /\ Go(w, "r_next")
  /\ UNCHANGED <<tasks, lock, st, hist, file, doneW, polys, abortFlag, tmp, rd, ins, sawAbort, unitsAfterTrue>> /\ WU

Raw(w) == Supply[cur[w].t][cur[w].p][cur[w].b]
NextBlockPc(w) == IF cur[w].b < NBlocks(cur[w].t, cur[w].p) THEN "b_acq" ELSE "inc_polys"

\* the smooth loop: next raw relation, or the block is over
NextRel(w) ==
  /\ pc[w] = "r_next"
  /\ IF cur[w].k <= Len(Raw(w))
     THEN Go(w, "w_acq") /\ UNCHANGED cur
     ELSE /\ Go(w, NextBlockPc(w))
          /\ cur' = [cur EXCEPT ![w].b = @ + 1, ![w].k = 1]
  /\ UNCHANGED <<tasks, lock, st, hist, file, doneW, polys, abortFlag, tmp, rd, ins, sawAbort, unitsAfterTrue, sieved>> /\ WU

\* let mut rels = s.rels.write().unwrap();
AcqW(w) ==
  /\ pc[w] = "w_acq"
  /\ (UseLock => lock.writer = None /\ lock.readers = {})
  /\ lock' = IF UseLock THEN [lock EXCEPT !.writer = w] ELSE lock
  \* mutation CheckFirst: `if rels.done() { break }` evaluated before `rels.add(rel)`
  /\ IF CheckFirst /\ StoreDone(st) THEN Go(w, "w_brk") ELSE Go(w, "w_add")
  /\ UNCHANGED <<tasks, st, hist, file, doneW, polys, abortFlag, cur, tmp, rd, ins, sawAbort, unitsAfterTrue, sieved>> /\ WU

\* rels.add(rel): reads the collections ...
AddRead(w) ==
  /\ pc[w] = "w_add"
  /\ tmp' = [tmp EXCEPT ![w] = [st |-> st, hist |-> hist, file |-> file]]
  /\ Go(w, "w_add2")
  /\ UNCHANGED <<tasks, lock, st, hist, file, doneW, polys, abortFlag, cur, rd, ins, sawAbort, unitsAfterTrue, sieved>> /\ WU

\* ... and writes them back: CRelStoreFn!AddF on what it read; emit() appends the emitted relations to the file
AddWrite(w) ==
  /\ pc[w] = "w_add2"
  /\ LET r  == Raw(w)[cur[w].k]
         id == Len(tmp[w].hist) + 1
         s2 == AddF(tmp[w].st, id, r[1], r[2])
     IN /\ st' = s2
        /\ hist' = Append(tmp[w].hist, r)
        /\ file' = tmp[w].file \o SubSeq(s2.emitted, Len(tmp[w].st.emitted) + 1, Len(s2.emitted))
        /\ ins' = [ins EXCEPT ![w] = Append(@, r)]
  /\ Go(w, "w_chk")
  /\ UNCHANGED <<tasks, lock, doneW, polys, abortFlag, cur, tmp, rd, sawAbort, unitsAfterTrue, sieved>> /\ WU

\* if rels.done() { break }   (still under the write lock)
CheckDoneLocked(w) ==
  /\ pc[w] = "w_chk"
  /\ Go(w, IF ~CheckFirst /\ StoreDone(st) THEN "w_brk" ELSE "w_rel")
  /\ UNCHANGED <<tasks, lock, st, hist, file, doneW, polys, abortFlag, cur, tmp, rd, ins, sawAbort, unitsAfterTrue, sieved>> /\ WU

\* the guard is dropped at the end of the loop body (w_rel) or by the break (w_brk: the rest of the block is skipped)
RelW(w) ==
  /\ pc[w] \in {"w_rel", "w_brk"}
  /\ lock' = IF UseLock THEN [lock EXCEPT !.writer = None] ELSE lock
  /\ IF pc[w] = "w_rel"
     THEN Go(w, "r_next") /\ cur' = [cur EXCEPT ![w].k = @ + 1]
     ELSE Go(w, NextBlockPc(w)) /\ cur' = [cur EXCEPT ![w].b = @ + 1, ![w].k = 1]
  /\ UNCHANGED <<tasks, st, hist, file, doneW, polys, abortFlag, tmp, rd, ins, sawAbort, unitsAfterTrue, sieved>> /\ WU

\* s.polys_done.fetch_add(1, SeqCst)
IncPolys(w) ==
  /\ pc[w] = "inc_polys"
  /\ polys' = polys + 1
  /\ Go(w, "q_acq")
  /\ UNCHANGED <<tasks, lock, st, hist, file, doneW, abortFlag, cur, tmp, rd, ins, sawAbort, unitsAfterTrue, sieved>> /\ WU

\* s.done.store(true, Relaxed)
StoreDoneFlag(w) ==
  /\ pc[w] = "st_done"
  /\ doneW' = doneW \cup {TRUE}
  /\ Go(w, NextPolyPc(w))
  /\ cur' = [cur EXCEPT ![w].p = @ + 1, ![w].b = 1, ![w].k = 1]
  /\ UNCHANGED <<tasks, lock, st, hist, file, polys, abortFlag, tmp, rd, ins, sawAbort, unitsAfterTrue, sieved>> /\ WU

WorkerStep(w) ==
  \/ TakeTask(w) \/ LoadDone(w) \/ PollAbort(w) \/ UnitStart(w) \/ LoadDonePoly(w) \/ AcqR(w) \/ ReadDone(w) \/ RelR(w)
  \/ SieveBlock(w) \/ NextRel(w) \/ AcqW(w) \/ AddRead(w) \/ AddWrite(w) \/ CheckDoneLocked(w) \/ RelW(w)
  \/ IncPolys(w) \/ StoreDoneFlag(w)

MainStep == Fork \/ Join \/ FinalAbortCheck \/ FinalLen \/ TakeResult \/ Linalg

Terminal == mpc \in {"m_done", "m_libfail", "m_panic", "m_aborted"}

Next == MainStep \/ AbortFlips \/ (\E w \in Workers : WorkerStep(w)) \/ (Terminal /\ UNCHANGED vars)

Fairness == WF_vars(MainStep) /\ \A w \in Workers : WF_vars(WorkerStep(w))

Spec == Init /\ [][Next]_vars /\ Fairness

-----------------------------------------------------------------------------
(* properties *)
InAdd(w) == pc[w] \in {"w_add", "w_add2", "w_chk", "w_rel", "w_brk"}
Reading(w) == pc[w] \in {"b_read", "b_rel", "q_read", "q_rel"}
Quiet == \A w \in Workers : pc[w] # "w_add2"

RECURSIVE SumLen(_)
SumLen(ws) == IF ws = {} THEN 0 ELSE LET w == CHOOSE x \in ws : TRUE IN Len(ins[w]) + SumLen(ws \ {w})
\* bag of a sequence
Count(s, x) == Cardinality({i \in 1..Len(s) : s[i] = x})
RECURSIVE SumCount(_, _)
SumCount(ws, x) == IF ws = {} THEN 0 ELSE LET w == CHOOSE y \in ws : TRUE IN Count(ins[w], x) + SumCount(ws \ {w}, x)

TypeOK ==
  /\ lock.readers \subseteq Workers /\ lock.writer \in Workers \cup {None}
  /\ doneW \subseteq BOOLEAN /\ polys \in Nat /\ st.ncyc \in Nat
  /\ \A i \in 1..Len(hist) : hist[i][2] = 0 \/ hist[i][1] < hist[i][2]

\* at most one thread inside CRelationSet::add, and no reader meanwhile
WriterExclusive ==
  /\ Cardinality({w \in Workers : InAdd(w)}) <= 1
  /\ \A w \in Workers : InAdd(w) => ~(\E v \in Workers : Reading(v))

\* every insertion performed by a worker is in the store: the history is an interleaving of the workers' insertions
NoLostInsert ==
  Quiet => /\ Len(hist) = SumLen(Workers)
           /\ \A i \in 1..Len(hist) : Count(hist, hist[i]) = SumCount(Workers, hist[i])

\* the store is the store of CRelStore, in every state in which no add is half-way: the function of the history ...
StoreIsModel == Quiet => st = RunHist(hist)
\* ... and every invariant of CRelStore holds of it
CS == INSTANCE CRelStore WITH paths <- st.paths, doubles <- st.doubles, drev <- st.drev, emitted <- st.emitted, ncyc <- st.ncyc
StoreInvariants ==
  Quiet => /\ CS!EmittedInserted /\ CS!DoublesOK /\ CS!PathsOK /\ CS!TreeSpans /\ CS!CycleCount

\* every line of the relation file is one of the inserted relations (the store emits relations unchanged, it never
\* multiplies them), each at most once, and the file is what result() hands to the linear algebra
LinesInserted ==
  Quiet => /\ file = st.emitted
           /\ \A i \in 1..Len(file) : file[i] \in 1..Len(hist)
           /\ \A i, j \in 1..Len(file) : i # j => file[i] # file[j]
ResultIsFile == mpc \in {"m_linalg", "m_done", "m_libfail"} => (result = file /\ result = st.emitted)

\* a true done flag is only published when the store really was complete (ncyc never decreases)
FlagsTruthful == (TRUE \in doneW) => StoreDone(st)

\* the run does not stop short: it reaches the linear algebra with at least Target relations ...
ResultEnough == mpc \in {"m_result", "m_linalg", "m_done", "m_libfail"} => st.ncyc >= Target
\* ... and the panic "not enough polynomials to sieve" means a real shortage after the WHOLE supply was sieved
NoSpuriousPanic == mpc = "m_panic" => (st.ncyc < Target /\ sieved = TotalBlocks /\ TRUE \notin doneW)
\* after the join nothing is half-way and the lock is free
JoinedQuiet == mpc \notin {"m_fork", "m_join"} => (Quiet /\ lock.readers = {} /\ lock.writer = None)

\* "result independent of the number of workers" in the sense of C04: complete whenever the single-worker run is.
\* The sequential run inserts the supply in order; SeqFinal is the store it ends with when it sieves everything.
RECURSIVE FlatSeq(_)
FlatSeq(s) == IF s = <<>> THEN <<>> ELSE Head(s) \o FlatSeq(Tail(s))
SeqAll == FlatSeq([t \in 1..NTasks |-> FlatSeq([p \in 1..NPolys(t) |-> FlatSeq(Supply[t][p])])])
SeqComplete == RunHist(SeqAll).ncyc >= Target      \* ncyc never decreases along the history
\* holds whenever the supply is ample (some proper prefix suffices in every order): the configs MC_ClsProto_par*
CompleteIfSingleComplete == (SeqComplete /\ ~abortFlag /\ Terminal) => mpc # "m_panic"
\* the number of cycles the store ends with is NOT a function of the set of inserted relations (an edge inserted
\* between two vertices that are both outside the tree and that later both join the tree through other edges stays
\* in `doubles` for ever): with a supply that is just sufficient in the sequential order a parallel run can exhaust
\* it with fewer cycles.  MC_ClsProto_orderdep.cfg exhibits it (expected violation); the parameter tables give a supply
\* of polynomials orders of magnitude above the need, so no real run gets there.
OrderIndependent == (Terminal /\ sieved = TotalBlocks /\ ~abortFlag) => st.ncyc = RunHist(SeqAll).ncyc

\* the hand-over inserts first and tests afterwards: a worker that breaks out of the smooth loop has inserted the
\* relation it held (CheckFirst = TRUE, "completion tested before the last insert", drops it)
BreakAfterInsert == \A w \in Workers : pc[w] = "w_brk" => (ins[w] # <<>> /\ ins[w][Len(ins[w])] = Raw(w)[cur[w].k])

\* abort: a thread whose poll returned true starts no further unit, and an abort seen by a worker is seen by main
AbortNoNewUnit == \A w \in Workers : unitsAfterTrue[w] = 0
AbortNoResult == (\E w \in Workers : sawAbort[w]) => mpc \notin {"m_len", "m_result", "m_linalg", "m_done", "m_libfail", "m_panic"}

Termination == <>Terminal
\* non-vacuity (expected violations): some run reaches the linear algebra with a cycle closed over a stored path
NeverCycleOverPath == ~(mpc = "m_done" /\ \E i \in 1..Len(st.emitted) : hist[st.emitted[i]][1] # 0)
NeverPanics == mpc # "m_panic"
Perms == Permutations(Workers)
=============================================================================
