---------------------------- MODULE ClsCliShapes ----------------------------
(***************************************************************************)
(* Input space of the command-line layer of ymcls (see ClsCli.tla): one    *)
(* record per invocation class, concretised by the harness                 *)
(* (ymqv cls --mode cli), run against the real ymcls binary built from the *)
(* tree under test, validated by ClsCliTrace.tla.                          *)
(*   num      how DISCRIMINANT is built (fund1: fundamental D = 1 mod 4,   *)
(*            fund0: fundamental D = 0 mod 4, res2/res3: D = 2, 3 mod 4,   *)
(*            over: a decimal of `bits` bits, huge: beyond 2^bits >= 2^1024*)
(*            the rest: not a number); sign "-" or "" (ymcls negates)      *)
(*   outdir   "" none | fresh | exists | nested | underfile (cannot be     *)
(*            created); orphans = number of positional arguments           *)
(***************************************************************************)
EXTENDS Naturals, TLC, Json
Sh(num, bits, sign, verbose, threads, extra, outdir) ==
  [num |-> num, bits |-> bits, sign |-> sign, verbose |-> verbose, threads |-> threads, extra |-> extra, outdir |-> outdir,
   orphans |-> IF outdir = "" THEN 1 ELSE 2]

Valid ==
  {Sh(n, b, s, "silent", 0, "", od) : n \in {"fund1", "fund0"}, b \in {8, 16, 23, 36, 48, 64}, s \in {"-", ""},
                                      od \in {"", "fresh"}}
  \cup {Sh(n, b, "-", v, 0, "", "") : n \in {"fund1", "fund0"}, b \in {12, 40}, v \in {"", "info", "verbose", "debug", "0", "3"}}
  \cup {Sh(n, b, "-", "silent", t, "", od) : n \in {"fund1", "fund0"}, b \in {20, 44, 60}, t \in {1, 2, 4}, od \in {"", "exists"}}
  \cup {Sh("fund1", b, "-", "silent", 0, x, od) : b \in {22, 50}, x \in {"dbl_true", "large_8", "fb_60", "threads_bogus"},
                                                 od \in {"", "nested"}}
  \cup {Sh("lead_zeros", 20, s, "silent", 0, "", "") : s \in {"-", ""}}
Refused ==
  {Sh(n, 1, "", "silent", 0, "", od) : n \in {"empty", "letters", "hex", "float", "trailing", "unicode"},
                                       od \in {"", "fresh"}}
  \cup {Sh(n, b, s, v, 0, "", od) : n \in {"res2", "res3"}, b \in {8, 30, 62}, s \in {"-", ""}, v \in {"silent", "loud"}, od \in {"", "fresh"}}
  \cup {Sh("over", b, s, "silent", t, "", od) : b \in {513, 514, 600, 1000, 1023, 1024, 1025}, s \in {"-", ""}, t \in {0, 2}, od \in {"", "fresh"}}
  \cup {Sh("huge", b, "-", "silent", 0, "", "") : b \in {1100, 2048, 5000}}
  \cup {Sh(n, 24, "-", v, 0, "", od) : n \in {"fund1", "fund0"}, v \in {"loud", "Info", "4", "-1"}, od \in {"", "fresh"}}
  \cup {Sh(n, 24, "-", "silent", 0, "", "underfile") : n \in {"fund1", "fund0"}}
UsageSet ==
  {r \in {[num |-> "fund1", bits |-> 16, sign |-> "-", verbose |-> "", threads |-> 0, extra |-> x, outdir |-> "fresh", orphans |-> o] :
             x \in {"", "help"}, o \in {0, 1, 2, 3}} : r.extra = "help" \/ r.orphans \notin {1, 2}}

ClsCliShapes == Valid \cup Refused \cup UsageSet

VARIABLE s
ShInit == s \in ClsCliShapes
ShNext == UNCHANGED s
Emit == PrintT(<<"SHAPE", ToJson(s)>>)
=============================================================================
