---------------------------- MODULE ClsCliRules ----------------------------
(***************************************************************************)
(* Constant-level rules of the command-line layer of ymcls shared by the   *)
(* model (ClsCli.tla, where the invariant RefusalDeclared ties them to the *)
(* steps of main()) and by the trace specification (ClsCliTrace.tla).      *)
(***************************************************************************)
\* which outcome an argument class gets (the order of the checks in src/bin/ymcls.rs main())
Expected(a) ==
  IF a.help \/ a.orphans \notin {1, 2} THEN {"usage"}
  ELSE IF a.num = "garbage" \/ a.size = "gt1024" THEN {"number"}
  ELSE IF a.size = "gt512" THEN {"size"}
  ELSE IF a.res = "bad" THEN {"residue"}
  ELSE IF a.verb = "bogus" THEN {"verbosity"}
  ELSE IF a.outdir = "bad" THEN {"outdir"}
  \* the library is entered: a group is printed, or the library refuses by a panic of its own (no lattice index ..)
  ELSE {"answer", "libfail"}

StatusOf(w) == IF w \in {"usage", "answer"} THEN 0 ELSE 101
\* refusals made by main() itself, before the library is entered and before anything is created
MainRefusals == {"number", "size", "residue", "verbosity"}
\* files of OUTPUTDIR after a successful run (dense linear algebra, |D| below ~200 bits)
SuccessFiles == {"args.json", "relations.sieve", "relations.filtered", "classnumber", "relations.removed",
                 "group.structure.extra", "group.structure"}
=============================================================================
