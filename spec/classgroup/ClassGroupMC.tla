----------------------------- MODULE ClassGroupMC -----------------------------
(***************************************************************************)
(* C18 (M): the definitions of ClassGroup.tla checked by TLC on themselves.*)
(*                                                                         *)
(* One state per discriminant -n of the configured set; the invariants are *)
(*  Heegner      h = 1 exactly for the nine known discriminants            *)
(*  CountAgree   the set of reduced forms and the counting operator agree, *)
(*               every member is a reduced form, distinct b for a given a  *)
(*  KnownH       class numbers asserted by the repository's own test       *)
(*  GroupLaws    composition/reduction is a group law on the reduced forms *)
(*               (closed, unit, inverse = conjugate, f^h = 1) and the      *)
(*               number of classes of order <= 2 is 2^(t-1) (genus theory) *)
(*  WitnessSound for every u in range whose norm (u^2+n)/4 is smooth, the   *)
(*               relation read off u by the sign rule is trivial by form   *)
(*               arithmetic; with one unramified sign flipped the witness   *)
(*               rule refuses it and form arithmetic says exactly          *)
(*               "P^(2e) is trivial"                                        *)
(***************************************************************************)
EXTENDS ClassGroup, TLC
CONSTANTS Lo, Hi, Extra, UMax
VARIABLE n

\* The discriminants are reached in two steps (0 -> -m -> m) so that the invariants, guarded by n > 0, are
\* evaluated by TLC's worker threads (large stacks, in parallel) and not while computing initial states.
Cases == {m \in Lo..Hi : IsFundamental(m)} \cup Extra
Init == n = 0
Next == \/ n = 0 /\ n' \in {0 - m : m \in Cases}
        \/ n < 0 /\ n' = 0 - n

HeegnerSet == {3, 4, 7, 8, 11, 19, 43, 67, 163}
Heegner == n > 0 => ((ClassNumber(n) = 1) <=> (n \in HeegnerSet))

CountAgree == n > 0 =>
  /\ HCount(n) = ClassNumber(n)
  /\ \A f \in ReducedForms(n) : IsReducedForm(n, f[1], f[2], f[3])
  /\ <<1, n % 2, (n + (n % 2)) \div 4>> \in ReducedForms(n)      \* the unit form

Known == [x \in {10148, 424708, 1411012, 2402548} |->
            CASE x = 10148 -> 60 [] x = 424708 -> 64 [] x = 1411012 -> 124 [] x = 2402548 -> 176]
KnownH == (n > 0 /\ n \in DOMAIN Known) => (HCount(n) = Known[n] /\ ClassNumber(n) = Known[n])

\* ---- form arithmetic on the reduced forms of -n
BF(f) == [a |-> FromInt(f[1]), b |-> IFromInt(f[2])]
NumPrimeDivisors(m) == Cardinality({p \in 2..m : m % p = 0 /\ IsPrimeI(p)})
RECURSIVE Pow2I(_)
Pow2I(k) == IF k = 0 THEN 1 ELSE 2 * Pow2I(k - 1)

GroupLaws == n > 0 =>
  LET N  == FromInt(n)
      RF == {BF(f) : f \in ReducedForms(n)}
      h  == Cardinality(RF)
      U  == UnitF(N)
  IN /\ U \in RF
     /\ \A f \in RF : /\ ReduceF(N, f) = f
                      /\ ComposeF(N, f, U) = f
                      /\ ComposeF(N, f, ConjF(N, f)) = U
                      /\ PowF(N, f, h) = U
     /\ \A f, g \in RF : ComposeF(N, f, g) \in RF /\ ComposeF(N, f, g) = ComposeF(N, g, f)
     /\ Cardinality({f \in RF : ComposeF(N, f, f) = U}) = Pow2I(NumPrimeDivisors(n) - 1)

\* ---- the sign rule read off a sieve value is sound
SmoothPrimes == {2, 3, 5, 7, 11, 13, 17, 19, 23}
RECURSIVE Val(_, _)
Val(m, p) == IF m % p = 0 THEN 1 + Val(m \div p, p) ELSE 0
RECURSIVE PowI(_, _)
PowI(p, k) == IF k = 0 THEN 1 ELSE p * PowI(p, k - 1)
BPlusOf(N, p) == CHOOSE b \in 0..p : IsBPlus(N, p, b)

WitnessSoundAt(u) ==
  LET N  == FromInt(n)
      m  == (u * u + n) \div 4
      ps == SetToSeq({p \in SmoothPrimes : m % p = 0})
      smooth == m = FoldLeft(LAMBDA acc, p : acc * PowI(p, Val(m, p)), 1, ps)
      U  == IFromInt(u)
      bp == [i \in 1..Len(ps) |-> BPlusOf(N, ps[i])]
      F  == [i \in 1..Len(ps) |->
               <<ps[i], (IF SignAt(N, U, ps[i], bp[i]) < 0 THEN 0 - 1 ELSE 1) * Val(m, ps[i])>>]
      unram == {i \in 1..Len(ps) : ~Ramified(N, ps[i])}
      Flip(i) == [F EXCEPT ![i] = <<F[i][1], 0 - F[i][2]>>]
  IN ((u * u + n) % 4 = 0 /\ m > 1 /\ smooth) =>
       /\ WitnessTrivial(N, U, F, bp)
       /\ ArithTrivial(N, F, bp)
       /\ \A i \in unram :
            /\ (unram \ {i}) # {} => ~WitnessTrivial(N, U, Flip(i), bp)
            /\ ArithTrivial(N, Flip(i), bp)
                 <=> (PrimeFormF(N, ps[i], bp[i], 2 * Val(m, ps[i])) = UnitF(N))
WitnessSound == n > 0 => \A u \in 0..UMax : WitnessSoundAt(u)
=============================================================================
