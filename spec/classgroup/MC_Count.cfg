INIT Init
NEXT Next
CONSTANT Lo = 200
CONSTANT Hi = 2999
CONSTANT Extra = {}
CONSTANT UMax = 0
INVARIANT CountAgree
CHECK_DEADLOCK FALSE
