---------------------------- MODULE ClassGroupTrace ----------------------------
(***************************************************************************)
(* C18 - a reported class group is the true class group.                   *)
(*                                                                         *)
(* Events (one run of classgroup::classgroup = one "case"):                *)
(*   noresult  the routine returned None, panicked or did not come back:   *)
(*             the property says nothing (recorded, never judged)          *)
(*   result    the returned ClassGroup (h, invariants, coordinates), the    *)
(*             content of the classnumber file; n = |D| as an integer when *)
(*             it is below the counting bound; facs = certified prime      *)
(*             factorisation of |D| when the harness knows it              *)
(*   line      one line of relations.sieve: signed primes F, the sieve     *)
(*             value u logged with the relation that has this factor list, *)
(*             b+ witnesses, and (when known for all its primes) the       *)
(*             reported coordinates co of its primes                       *)
(***************************************************************************)
EXTENDS ClassGroup, Certs, TraceLib
VARIABLE l

\* ---- preconditions / certificates supplied by the harness (Witness)
FacPrimes(e) == [i \in 1..Len(e.facs) |-> ChainPrime(e.facs[i])]

FundamentalBy(n, ps) ==
  LET odd  == SelectSeq(ps, LAMBDA p : p # <<2>>)
      twos == Len(ps) - Len(odd)
  IN /\ Prod(ps) = n
     /\ \A i, j \in 1..Len(odd) : i # j => odd[i] # odd[j]
     /\ \/ twos = 0 /\ ModSmall(n, 4) = 3          \* D = 1 mod 4
        \/ twos = 2 /\ ModSmall(n, 16) = 4         \* D = 4D', D' = 3 mod 4
        \/ twos = 3                                \* D = 4D', D' = 2 mod 4

ResultWitness(e) ==
  /\ IsNat(e.d) /\ IsNat(e.h)
  /\ Has(e, "n") => (FromInt(e.n) = e.d /\ IsFundamental(e.n))
  /\ Has(e, "pw") => \A i \in 1..Len(e.pw) : IsPrimeI(e.pw[i][1]) /\ IsBPlus(e.d, e.pw[i][1], e.pw[i][2])
  /\ Has(e, "facs") => ((\A i \in 1..Len(e.facs) : ChainOK(e.facs[i])) /\ FundamentalBy(e.d, FacPrimes(e)))

\* ---- the property
ClassNumberOK(e) ==
  /\ Has(e, "hfile") /\ e.hfile = e.h                       \* the classnumber file says the same
  /\ Has(e, "n") => e.h = FromInt(HCount(e.n))              \* and it is the number of reduced forms
  /\ Has(e, "pw") => KilledByH(e.d, e.h, e.pw)              \* and (any size) it kills the classes of prime forms

StructureOK(e) ==
  /\ InvariantsOK(e.h, e.inv)
  /\ Has(e, "facs") => TwoRank(e.inv) = Cardinality({FacPrimes(e)[i] : i \in 1..Len(e.facs)}) - 1

CoordsOK(e) ==
  /\ \A i \in 1..Len(e.gens) :
       /\ Len(e.gens[i][2]) = Len(e.inv)
       /\ \A j \in 1..Len(e.inv) : Lt(e.gens[i][2][j], e.inv[j])
  /\ ComponentsOnto(e.inv, e.gens)

LineU(e) == IF Has(e, "u") THEN e.u ELSE IZero
LineOK(e) == ~e.bad /\ RelationTrivial(e.d, Has(e, "u"), LineU(e), e.F, e.bp)
KillOK(e) == Has(e, "co") => Killed(e.inv, e.F, e.co)
\* consistency of the two ways of deciding triviality, on the lines the harness marks (xc)
XCheck(e) == (Has(e, "xc") /\ Has(e, "u") /\ WitnessTrivial(e.d, e.u, e.F, e.bp)) => ArithTrivial(e.d, e.F, e.bp)

Judge1(e) ==
  CASE e.op = "noresult" -> TRUE
    [] e.op = "result" ->
         /\ Witness(l, "result-cert", ResultWitness(e))
         /\ Strict(l, "classnumber", ClassNumberOK(e))
         /\ Strict(l, "structure", StructureOK(e))
         /\ Strict(l, "coordinates", CoordsOK(e))
    [] e.op = "line" ->
         /\ Witness(l, "bplus-cert", BPlusWitnessOK(e.d, e.F, e.bp))
         /\ Witness(l, "arith-xcheck", XCheck(e))
         /\ Strict(l, "relation", LineOK(e))
         /\ Strict(l, "killed", KillOK(e))
    [] OTHER -> Witness(l, "unknown-op", FALSE)

Init == l = 1
Next == l <= NRec /\ l' = l + 1 /\ Judge1(Rec[l])
Spec == Init /\ [][Next]_l
=============================================================================
