----------------------------- MODULE ClsProtoMC -----------------------------
(***************************************************************************)
(* Relation supplies for the configurations of ClsProto.tla                *)
(* (Supply[task][polynomial][block] = sequence of <<l1, l2>>).             *)
(***************************************************************************)
EXTENDS ClsProto

\* T(polys) = a task; P(blocks) = a polynomial; a block is a sequence of relations <<l1, l2>>
\* 2 tasks x 1 polynomial x 1 block x 3 raw relations, large primes 2, 3: partials, a double, a full relation
SupplyA == << << << << <<2, 0>>, <<2, 3>>, <<0, 0>> >> >> >>,
              << << << <<3, 0>>, <<2, 0>>, <<3, 0>> >> >> >> >>
\* 2 tasks x 2 polynomials x (1..2 blocks), large primes 2, 3, 4
SupplyB == << << << << <<2, 0>>, <<0, 0>> >>, << <<3, 4>> >> >>, << << <<3, 0>> >> >> >>,
              << << << <<2, 3>> >> >>, << << <<4, 0>>, <<2, 0>> >> >> >> >>
\* 2 tasks x 2 polynomials x 1 block, enough full relations early: the done flag stops the others
SupplyC == << << << << <<0, 0>>, <<0, 0>> >> >>, << << <<2, 0>> >> >> >>,
              << << << <<0, 0>>, <<2, 0>> >> >>, << << <<0, 0>> >> >> >> >>
\* just sufficient in the sequential order only: a triangle on 2, 3, 4 and the edge 1-2 (see OrderIndependent)
SupplyT == << << << << <<2, 0>> >> >> >>,
              << << << <<2, 3>>, <<3, 4>>, <<2, 4>> >> >> >> >>
\* 3 tasks (a third worker has something to take)
SupplyD == << << << << <<2, 0>>, <<2, 3>> >> >> >>, << << << <<3, 0>> >> >> >>, << << << <<0, 0>>, <<2, 0>> >> >> >> >>
\* 2 tasks x 2 polynomials x 1 block x up to 3 raw relations, large primes 2, 3, 4 with doubles (thorough)
SupplyE == << << << << <<2, 0>>, <<3, 4>>, <<2, 3>> >> >>, << << <<4, 0>>, <<0, 0>> >> >> >>,
              << << << <<2, 4>>, <<3, 0>> >> >>, << << <<2, 0>>, <<3, 4>>, <<4, 0>> >> >> >> >>
=============================================================================
