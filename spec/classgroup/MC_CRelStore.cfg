SPECIFICATION Spec
CONSTANT LP = {2, 3, 4}
CONSTANT MaxOps = 5
INVARIANT EmittedInserted
INVARIANT DoublesOK
INVARIANT PathsOK
INVARIANT TreeSpans
INVARIANT CycleCount
CHECK_DEADLOCK FALSE
