INIT Init
NEXT Next
CONSTANT Lo = 3
CONSTANT Hi = 700
CONSTANT Extra = {10148}
CONSTANT UMax = 0
INVARIANT GroupLaws
CHECK_DEADLOCK FALSE
