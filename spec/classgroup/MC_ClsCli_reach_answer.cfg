SPECIFICATION Spec
INVARIANT NeverAnswers
CHECK_DEADLOCK FALSE
