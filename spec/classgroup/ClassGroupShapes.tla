--------------------------- MODULE ClassGroupShapes ---------------------------
(***************************************************************************)
(* Input space of the C18 driver: every negative fundamental discriminant  *)
(* -n with n < SmallBound, and (bit size, residue class) shapes that the   *)
(* harness fills with seeded fundamental discriminants.                    *)
(***************************************************************************)
EXTENDS ClassGroup, TLC, Json
CONSTANTS SmallBound, CountedBits, BigBits
VARIABLE s

\* residue classes: D = 1 mod 8 (n = 7 mod 8), D = 5 mod 8 (n = 3 mod 8), D = 4D' with D' = 3 mod 4
\* (n = 4m, m = 1 mod 4) and D' = 2 mod 4 (m = 2 mod 4)
Classes == {"7mod8", "3mod8", "4m1", "4m2"}
ClassOf(n) == IF n % 8 = 7 THEN "7mod8" ELSE IF n % 8 = 3 THEN "3mod8"
              ELSE IF (n \div 4) % 4 = 1 THEN "4m1" ELSE "4m2"

Init == \/ s \in [kind : {"small"}, n : {n \in 3..(SmallBound - 1) : IsFundamental(n)}]
        \/ s \in [kind : {"rand"}, bits : CountedBits \cup BigBits, cls : Classes]
Next == UNCHANGED s
Emit == PrintT(<<"SHAPE", ToJson(IF s.kind = "small" THEN [kind |-> "small", n |-> s.n, cls |-> ClassOf(s.n)] ELSE s)>>)
=============================================================================
