SPECIFICATION Spec
CONSTANTS
  Workers = {w1, w2}
  Supply <- SupplyA
  Target = 5
  LP = {2, 3, 4}
  NoPool = FALSE
  UseLock = TRUE
  CheckFirst = FALSE
  AbortEnabled = FALSE
SYMMETRY Perms
INVARIANT NeverPanics
CHECK_DEADLOCK TRUE
