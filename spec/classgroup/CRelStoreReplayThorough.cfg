SPECIFICATION Spec
CONSTANT LP = {2, 3, 4}
CONSTANT MaxOps = 5
INVARIANT EmitReplay
CHECK_DEADLOCK FALSE
