--------------------------- MODULE CRelStoreTrace ---------------------------
(***************************************************************************)
(* Replay of the histories generated from CRelStore.tla into the real      *)
(* CRelationSet: the relations it emitted (identified by their position in *)
(* the history), in order, and its cycle counter, against the model.       *)
(* This binds the model to the code; a difference is model drift (the      *)
(* property C18 does not depend on which relations the store keeps).       *)
(***************************************************************************)
EXTENDS CRelStoreFn, TraceLib
VARIABLE l

StoreOK(e) ==
  /\ ~Has(e, "outcome")
  /\ LET st == RunHist(e.hist) IN st.emitted = e.got /\ st.ncyc = e.ncyc

Init == l = 1
Next == l <= NRec /\ l' = l + 1 /\ Drift(l, "store", StoreOK(Rec[l]))
Spec == Init /\ [][Next]_l
=============================================================================
