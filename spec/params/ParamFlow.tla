------------------------------ MODULE ParamFlow ------------------------------
(***************************************************************************)
(* C20, second leg - how the derived parameters FLOW into their consumers. *)
(*                                                                         *)
(* One small state machine per consumer family:                            *)
(*   siqs : select -> fbase -> factors -> select_a -> sieve_new ->         *)
(*          first_poly -> first_block -> done                              *)
(*   mpqs : select -> fbase -> interval -> bounds -> first_block -> done   *)
(*   qs   : select -> fbase -> blocks -> bounds -> first_block -> done     *)
(*   cls  : like siqs (A selection, unit form when nfacs = 0)              *)
(*   ecm / pm1 (stage 2): select -> row -> steps -> poly -> ntt -> done    *)
(* Every precondition that Params.tla states as a consumer contract is the *)
(* GUARD of the action that consumes the value; NoStuck says that no       *)
(* reachable state has a false guard, i.e. the composition of the          *)
(* per-function contracts along the real order of consumption.             *)
(* FlowIsContract ties the composition back to the contracts of the first  *)
(* leg (a flow that reaches `done` satisfies SiqsOK / MpqsOK / ...).       *)
(*                                                                         *)
(* The module holds NO copy of any table.  Its input is the dump of the    *)
(* REAL parameter functions (the trace of the first leg, release profile)  *)
(* read through IOEnv: DUMP_P = the "params" events in driver order,       *)
(* DUMP_S = the "stage2" events (sorted by table, then B2).  Breakpoints   *)
(* (`match` arm boundaries, table rows, selection midpoints) are DERIVED   *)
(* from the dump: a size where a step-valued parameter changes value, or   *)
(* where the first difference of a numeric parameter jumps; plus the size  *)
(* guards of the consumers and a uniform grid.  Every initial state is a   *)
(* (consumer, breakpoint, side) and is printed as a SHAPE line that drives *)
(* the real consumer runs of harness/src/drivers/c20.rs (mode flow).       *)
(***************************************************************************)
EXTENDS Params, TLC, TLCExt, Json, IOUtils

CONSTANTS Mutation    \* "none", or a deliberately broken reading of the dump (non-vacuity configurations)

DP == ndJsonDeserialize(IOEnv.DUMP_P)
DS == ndJsonDeserialize(IOEnv.DUMP_S)

HasF(e, f) == f \in DOMAIN e
MaxBits == 512
MinBits == 16                 \* smallest size at which the sieves are driven (C03's domain starts there)
Algs == <<"siqs", "mpqs", "qs", "cls">>
AlgIdx(a) == CASE a = "siqs" -> 1 [] a = "mpqs" -> 2 [] a = "qs" -> 3 [] a = "cls" -> 4
NShapes == {"lo1", "hi"}      \* n = 1 mod 8 (smallest of its size) / n = 7 mod 8 (largest)

\* position of a configuration in the dump (order of the driver's loops); checked by IndexOK below
Pos(a, b, sh, dbl) ==
  (IF b = 1 THEN 0 ELSE 8 + (b - 2) * 16) + (IF sh = "hi" /\ b > 1 THEN 8 ELSE 0) + (IF dbl THEN 4 ELSE 0) + AlgIdx(a)
P(a, b, sh, dbl) == DP[Pos(a, b, sh, dbl)]

ASSUME IndexOK ==
  /\ Len(DP) = 8 + (MaxBits - 1) * 16
  /\ \A b \in 2..MaxBits : \A a \in {"siqs", "mpqs", "qs", "cls"} : \A sh \in NShapes : \A dbl \in BOOLEAN :
       LET r == P(a, b, sh, dbl) IN r.op = "params" /\ r.alg = a /\ r.bits = b /\ r.shape = sh /\ r.dbl = dbl

\* integer view of a dumped value (-1: absent or beyond 31 bits)
IV(r, f) == IF HasF(r, f) /\ FitsInt(r[f]) THEN ToInt(r[f]) ELSE -1
Abs(x) == IF x < 0 THEN 0 - x ELSE x

-----------------------------------------------------------------------------
(* breakpoints derived from the dump                                       *)
\* (which field is step-valued is a property of its use - a count of blocks / factors / a divisor - not of the tables;
\*  the interval of MPQS and the block count of the classical sieve are formulas, not `match` arms)
StepF(a) == CASE a = "siqs" -> {"nfacs", "adiv", "interval"} [] a = "mpqs" -> {}
              [] a = "qs" -> {} [] a = "cls" -> {"nfacs", "interval"}
SlopeF(a) == CASE a = "siqs" -> {"fb", "acount", "lpf", "dlf"} [] a = "mpqs" -> {"fb", "interval", "lpf", "dlf"}
               [] a = "qs" -> {"fb", "nblocks", "lpf"} [] a = "cls" -> {"fb", "acount", "lpf", "dlf"}

StepAt(a, sh, dbl, f, b) == IV(P(a, b, sh, dbl), f) # IV(P(a, b - 1, sh, dbl), f)
\* the increment into b differs from the increment before it by at least 2 and by at least 1/8 of the value
KinkAt(a, sh, dbl, f, b) ==
  LET v0 == IV(P(a, b - 2, sh, dbl), f)
      v1 == IV(P(a, b - 1, sh, dbl), f)
      v2 == IV(P(a, b, sh, dbl), f)
      dd == Abs((v2 - v1) - (v1 - v0))
  IN dd >= 2 /\ 8 * dd >= Abs(v2)

\* sizes b (first size of a new arm) per family, with the parameter that shows it
BreakAt(a, sh, dbl) ==
  {<<b, f>> \in ((MinBits + 2)..Limit(a)) \X (StepF(a) \cup SlopeF(a)) :
      IF f \in StepF(a) THEN StepAt(a, sh, dbl, f, b) ELSE KinkAt(a, sh, dbl, f, b)}

\* only the factor base of SIQS depends on n beyond its size (n = 1 mod 8: the size class of n/4)
ShapesOf(a) == IF a = "siqs" THEN NShapes ELSE {"hi"}
GridStep == 32

SRec(a, b, sh, dbl, side, why) == [fam |-> a, bits |-> b, shape |-> sh, dbl |-> dbl, side |-> side, why |-> why]

ShapesAt(a, sh, dbl) ==
  \* both sides of every derived breakpoint
  UNION {{SRec(a, bf[1] - 1, sh, dbl, "lo", bf[2]), SRec(a, bf[1], sh, dbl, "hi", bf[2])} : bf \in BreakAt(a, sh, dbl)}
  \* both sides of the consumer's own size guard
  \cup {SRec(a, Limit(a), sh, dbl, "lo", "limit"), SRec(a, Limit(a) + 1, sh, dbl, "hi", "limit")}
  \* a uniform grid in between
  \cup {SRec(a, b, sh, dbl, "grid", "grid") : b \in {x \in MinBits..Limit(a) : x % GridStep = 0}}
PerAlg(a) == UNION {ShapesAt(a, sh, dbl) : sh \in ShapesOf(a), dbl \in BOOLEAN}
SieveShapes == UNION {PerAlg(a) : a \in {"siqs", "mpqs", "qs", "cls"}}

\* stage 2: every row requested exactly, and both neighbours of every change of the selected row
NS == Len(DS)
S2Rec(i, side) == [fam |-> DS[i].table, idx |-> i, side |-> side]
S2Shapes ==
  {S2Rec(i, "row") : i \in {j \in 1..NS : HasF(DS[j], "row") /\ DS[j].row = DS[j].b2}}
  \cup UNION {{S2Rec(i, "lo"), S2Rec(i + 1, "hi")} :
              i \in {j \in 1..(NS - 1) : DS[j].table = DS[j + 1].table /\ HasF(DS[j], "row") /\ HasF(DS[j + 1], "row")
                                         /\ DS[j].row # DS[j + 1].row}}

-----------------------------------------------------------------------------
(* the record a flow reads, possibly through a deliberately broken lens     *)
Mut(k, r) ==
  CASE Mutation = "none" -> r
    [] Mutation = "interval_unaligned" ->
         IF k.fam = "siqs" /\ HasF(r, "interval") /\ k.bits = 200 THEN [r EXCEPT !.interval = Add(r.interval, One)] ELSE r
    [] Mutation = "too_few_primes" ->
         IF k.fam = "siqs" /\ HasF(r, "fb") /\ k.bits = 64 THEN [r EXCEPT !.fb = Zero] ELSE r
    [] Mutation = "d2_not_pow2" ->
         IF k.fam = "pm1" /\ HasF(r, "d2") /\ r.used THEN [r EXCEPT !.d2 = Add(r.d2, N(2))] ELSE r
    [] OTHER -> r

Cur(k) == IF k.fam \in {"ecm", "pm1"} THEN Mut(k, DS[k.idx]) ELSE Mut(k, P(k.fam, k.bits, k.shape, k.dbl))

Stages(f) ==
  CASE f = "siqs" -> <<"select", "fbase", "factors", "select_a", "sieve_new", "first_poly", "first_block", "done">>
    [] f = "cls"  -> <<"select", "fbase", "factors", "select_a", "sieve_new", "first_poly", "first_block", "done">>
    [] f = "mpqs" -> <<"select", "fbase", "interval", "bounds", "first_block", "done">>
    [] f = "qs"   -> <<"select", "fbase", "blocks", "bounds", "first_block", "done">>
    [] OTHER      -> <<"select", "row", "steps", "poly", "ntt", "done">>

\* precondition of the action that LEAVES stage s (what the code run at that point asserts or relies on)
Guard(f, s, e) ==
  CASE s = "select" -> ~HasF(e, "outcome") /\ (f = "siqs" => Ge(e.fbs, One))        \* the parameter functions returned
    [] s = "fbase" -> FBaseOK(e.fb)                                                  \* FBase::new
    [] s = "factors" ->                                                               \* select_siqs_factors
         IF f = "siqs" THEN NFacsOK(e.nfacs, Fb8(e.fb))
         ELSE FitsInt(e.nfacs) /\ (IF ToInt(e.nfacs) = 0 THEN e.bits < 128 ELSE NFacsOK(e.nfacs, Fb8(e.fb)))
    [] s = "select_a" ->                                                              \* select_a (+ classgroup's assertion)
         /\ MaskFits(e.nfacs) /\ Ge(e.acount, One)
         /\ (f = "siqs" => Ge(e.adiv, N(3)))
         /\ (f = "cls" => ACountFits(e.acount, e.nfacs))
    [] s = "sieve_new" ->                                                             \* bounds, SieveSIQS::new, Sieve::new
         IntervalOK(e.interval) /\ LargeOK(PMin(e), e.lpf) /\ (e.dbl => DoubleOK(PMin(e), e.dlf))
    [] s = "first_poly" ->                                                            \* prepare_a, Poly::first, _finish_polynomial
         IF f = "cls" /\ ToInt(e.nfacs) = 0 THEN TRUE ELSE AFits(e.bits, e.interval)
    [] s = "interval" -> ~e.interval_neg /\ IntervalOK(e.interval)                    \* mpqs: interval as u32, D selection
    [] s = "blocks" -> Ge(e.nblocks, One) /\ Lt(Mul(e.nblocks, N(BlockSize)), Pow2(31))
    [] s = "bounds" ->
         IF f = "mpqs" THEN LargeOK(PMin(e), e.lpf) /\ (e.dbl => DoubleOK(PMin(e), e.dlf))
         ELSE Ge(e.lpf, One) /\ Lt(Mul(PMin(e), e.lpf), Pow2(32)) /\ Lt(MaxCofQs(PMin(e), e.lpf, e.dbl), Pow2(64))
    [] s = "first_block" ->                                                           \* sieve_block_poly / sieve_block: threshold as u8
         CASE f \in {"siqs", "cls"} ->
                ThresholdOK(e.bits, e.interval, MaxCofSiqs(PMin(e), e.lpf, e.dlf, e.dbl), MaxCofSiqs(PMax(e), e.lpf, e.dlf, e.dbl))
           [] f = "mpqs" ->
                /\ e.bits \div 2 + BitLen(Shr(e.interval, 1)) >= BitLen(MaxCofMpqs(PMin(e), e.lpf, e.dlf, e.dbl))
                /\ e.bits \div 2 + BitLen(Shr(e.interval, 1)) - BitLen(MaxCofMpqs(PMax(e), e.lpf, e.dlf, e.dbl)) < 256
           [] OTHER -> e.bits \div 2 + 16 >= BitLen(MaxCofQs(PMin(e), e.lpf, e.dbl))
    \* stage 2
    [] s = "row" -> FitsInt(e.d1) /\ FitsInt(e.d2)                                    \* the row fits the integer types used
    [] s = "steps" -> ToInt(e.d1) >= 6 /\ ToInt(e.d1) % 6 = 0 /\ ToInt(e.d2) >= 2     \* baby / giant step sets
    [] s = "poly" -> f = "ecm" \/ Phi(ToInt(e.d1)) + 1 <= ToInt(e.d2)                 \* P = prod(x - g^b) fits the convolution
    [] s = "ntt" -> f = "ecm" \/ (IsPow2Int(ToInt(e.d2)) /\ ToInt(e.d2) \div 2 >= 28) \* chirp-z: power of two, NTT ring exists
    [] OTHER -> TRUE

FamOK(f, e) ==
  CASE f = "siqs" -> SiqsOK(e) [] f = "mpqs" -> MpqsOK(e) [] f = "qs" -> QsOK(e) [] f = "cls" -> ClsOK(e)
    [] f = "ecm" -> EcmRowOK(e.d1, e.d2) [] f = "pm1" -> Pm1RowOK(e.d1, e.d2)

-----------------------------------------------------------------------------
VARIABLES fl, sg          \* the flow (a shape) and the index of its stage

Terminal == {"done", "refused", "unused"}
StageName == IF sg = 0 THEN "refused" ELSE IF sg = -1 THEN "unused" ELSE Stages(fl.fam)[sg]

Init == fl \in (SieveShapes \cup S2Shapes) /\ sg = 1

\* the consumer refuses by itself above its size limit; P-1 does not read the row below its threshold
Refuses == fl.fam \notin {"ecm", "pm1"} /\ fl.bits > Limit(fl.fam)
Unused == fl.fam \in {"ecm", "pm1"} /\ ~Cur(fl).used

Next ==
  /\ StageName \notin Terminal
  /\ fl' = fl
  /\ IF sg = 1 /\ Refuses THEN sg' = 0
     ELSE IF sg = 1 /\ Unused /\ ~HasF(Cur(fl), "outcome") THEN sg' = -1
     \* (IF: the guard is evaluated as a value - TLC would otherwise branch on its disjunctions)
     ELSE IF Guard(fl.fam, StageName, Cur(fl)) THEN sg' = sg + 1 ELSE FALSE

Spec == Init /\ [][Next]_<<fl, sg>>

\* no reachable state has a violated guard
NoStuck ==
  StageName \in Terminal \/ (sg = 1 /\ (Refuses \/ (Unused /\ ~HasF(Cur(fl), "outcome")))) \/ Guard(fl.fam, StageName, Cur(fl))

\* the composition is the contract of the first leg
FlowIsContract == StageName = "done" => FamOK(fl.fam, Cur(fl))

ShapeOf ==
  IF fl.fam \in {"ecm", "pm1"}
  THEN LET e == DS[fl.idx] IN [fam |-> fl.fam, b2 |-> e.b2, side |-> fl.side, row |-> e.row]
  ELSE fl

PrintShapes == sg = 1 => PrintT(<<"SHAPE", ToJson(ShapeOf)>>)
=============================================================================
