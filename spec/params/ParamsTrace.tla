----------------------------- MODULE ParamsTrace -----------------------------
(***************************************************************************)
(* C20 - trace specification: every line is the dump of the parameters     *)
(* the REAL functions derive for one configuration (bit length x double    *)
(* large prime switch x sieve variant; requested B2 x stage-2 table;       *)
(* modulus size x convolution size).  StrictC20 = the contract of the      *)
(* consumer (module Params) holds for the dumped values; a parameter       *)
(* function that panicked (arithmetic underflow ...) is not an action of   *)
(* the specification.                                                      *)
(***************************************************************************)
EXTENDS Params, TraceLib
VARIABLE l

Ok(e) ==
  CASE e.op = "params" ->
         (CASE e.alg = "siqs" -> SiqsOK(e)
            [] e.alg = "mpqs" -> MpqsOK(e)
            [] e.alg = "qs"   -> QsOK(e)
            [] e.alg = "cls"  -> ClsOK(e)
            [] OTHER -> FALSE)
    [] e.op = "stage2" ->
         \* (d1, d2) are read by ECM and P+1 for every request, by P-1 only on its polynomial path
         IF ~e.used THEN TRUE
         ELSE IF e.table = "ecm" THEN EcmRowOK(e.d1, e.d2) ELSE Pm1RowOK(e.d1, e.d2)
    [] e.op = "conv" ->
         \* no row = the request is refused; above 500 bits convolve_modn refuses by assertion
         (~e.row) \/ e.bits > 500 \/ ConvOK(e.bits, e.lgsize, e.fsize, e.logpack, e.stride)
    [] OTHER -> FALSE

Accept(e) == IF Has(e, "outcome") THEN FALSE ELSE Ok(e)

Supported(e) == e.op # "params" \/ e.bits <= Limit(e.alg)

Tag(e) == IF e.op = "params" THEN e.alg ELSE IF e.op = "stage2" THEN e.table ELSE e.op

Judge20(i, e) ==
  IF Supported(e) THEN Strict(i, Tag(e), Accept(e))
  ELSE IF Accept(e) THEN TRUE ELSE Note(i, "beyond-limit", <<e.alg, e.bits>>)

MaskNote(i, e) ==
  IF e.op = "params" /\ e.alg \in {"siqs", "cls"} /\ ~Has(e, "outcome") /\ ~MaskFits(e.nfacs)
  THEN Note(i, "select_a-mask-over-64", <<e.alg, e.bits>>) ELSE TRUE

Init == l = 1
Next == l <= NRec /\ l' = l + 1 /\ Judge20(l, Rec[l]) /\ MaskNote(l, Rec[l])
Spec == Init /\ [][Next]_l
=============================================================================
