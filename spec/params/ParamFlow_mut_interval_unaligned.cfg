SPECIFICATION Spec
CONSTANT Mutation = "interval_unaligned"
INVARIANTS NoStuck
CHECK_DEADLOCK FALSE
