SPECIFICATION Spec
CONSTANT Mutation = "too_few_primes"
INVARIANTS NoStuck
CHECK_DEADLOCK FALSE
