SPECIFICATION Spec
CONSTANT Mutation = "d2_not_pow2"
INVARIANTS NoStuck
CHECK_DEADLOCK FALSE
