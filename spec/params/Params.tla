------------------------------- MODULE Params -------------------------------
(***************************************************************************)
(* C20 - consumer contracts of the parameter tables of yamaquasi.          *)
(*                                                                         *)
(* This module contains NO copy of any table or formula of params.rs /     *)
(* siqs.rs / mpqs.rs / qsieve.rs / classgroup.rs / pollard_pm1.rs /        *)
(* arith_fft.rs.  It states what the code that CONSUMES the derived        *)
(* parameters asserts or structurally needs (array sizes, alignment,       *)
(* integer widths, subtractions that must not underflow, shapes asserted   *)
(* by the stage-2 code, packing inequalities of the convolution).  A       *)
(* retuned table that still satisfies its consumers is accepted.           *)
(*                                                                         *)
(* Every predicate is a NECESSARY condition for the consumer to work on    *)
(* every input of the given size: when the exact value of a quantity       *)
(* depends on the number being factored (largest factor-base prime, the    *)
(* leading coefficient A), the bound that makes the requirement weakest    *)
(* is used, so a rejection means the consumer breaks for every input of    *)
(* that size.                                                              *)
(*                                                                         *)
(* Numbers that may exceed 31 bits are BigNat digit sequences.             *)
(***************************************************************************)
EXTENDS BigNat

N(k) == FromInt(k)

BlockSize == 32768          \* sieve::BLOCK_SIZE; intervals are sieved block by block

\* Largest input size for which each consumer accepts work.
\*  qs   : qsieve::qsieve returns immediately above 400 bits (qsieve.rs, guard at the top)
\*  mpqs : mpqs::mpqs returns immediately above 448 bits "so that sqrt(n) * interval size always fits
\*         in 256 bits" (mpqs.rs, guard at the top)
\*  siqs, cls : no guard of their own; they use the same 256-bit polynomial coefficients (siqs::Poly is
\*         made of I256, shared by the class group sieve), so the same limit is the supported one.
\* Sizes above the limit are still dumped and evaluated, but a failure there is reported as
\* information (drift), not as a violation of the property.
Limit(alg) == CASE alg = "qs" -> 400 [] alg = "mpqs" -> 448 [] alg = "siqs" -> 448 [] alg = "cls" -> 448

-----------------------------------------------------------------------------
(* factor base: fbase::FBase::new(n, size)                                 *)
\*  - enumerates the first 2*size+40 primes with fbase::primes, whose sieve bound k * bitlen(k) is a u32;
\*  - drops the primes of 25 bits or more (so a request beyond the primes below 2^24 saturates);
\*  - keeps 8 * min(ceil(size/8), found/8) of those modulo which n is a square: size >= 1 or bound()
\*    panics on an empty base.
FBaseOK(fb) ==
  /\ Ge(fb, One)
  /\ LET k == Add(MulSmall(fb, 2), N(40)) IN Lt(MulSmall(k, BitLen(k)), Pow2(32))

\* Bounds on the largest prime of the factor base, valid for every n, from facts dumped by the driver with
\* the library's own prime enumeration: pk1 = the fb8-th prime, pk2 = the (2 fb+40)-th prime (<<>> when
\* beyond the enumerated table), pi24 = number of primes below 2^24.
Saturated(e) == Gt(Add(MulSmall(e.fb, 2), N(40)), e.pi24)
PMax(e) == IF e.pk2 # <<>> /\ Lt(e.pk2, Pow2(24)) THEN e.pk2 ELSE Sub(Pow2(24), One)
\* not saturated: the base holds fb8 primes, so its largest is at least the fb8-th prime.  Saturated: it
\* holds either fb8 primes or every admissible prime below 2^24, whose largest exceeds 2^23.
PMin(e) == IF ~Saturated(e) THEN e.pk1
           ELSE IF e.pk1 # <<>> /\ Lt(e.pk1, Pow2(23)) THEN e.pk1 ELSE Pow2(23)

Fb8(fb) == 8 * ((ToInt(fb) + 7) \div 8)          \* number of primes actually kept (alignment to 8)

\* interval sizes: a positive whole number of blocks (Sieve::new takes mm / BLOCK_SIZE blocks and the
\* loop runs while offset < mm/2), block offsets are computed in i32/u32 (sieve.rs smooths)
IntervalOK(mm) ==
  /\ Ge(mm, N(BlockSize))
  /\ ModSmall(mm, BlockSize) = 0
  /\ Lt(mm, Pow2(31))

\* large prime bound: maxlarge = maxprime * lpf as u64 (then clamped to 32 bits by siqs/mpqs/cls).
\* lpf = 0 would make fbase::cofactor reject every candidate (cofactor 1 > 0 * 0).
LargeOK(p, lpf) == Ge(lpf, One) /\ Lt(Mul(p, lpf), Pow2(64))
\* double large prime bound: maxprime^2 * dlf computed in u64
DoubleOK(p, dlf) == Lt(Mul(Mul(p, p), dlf), Pow2(64))

Clamp32(x) == IF Lt(x, Pow2(32)) THEN x ELSE Sub(Pow2(32), One)

\* smallest possible "max_cofactor" of the SIQS / class group sieve (sieve_block_poly) for a factor
\* base whose largest prime is at least pmin
MaxCofSiqs(pmin, lpf, dlf, dbl) ==
  LET maxlarge == Clamp32(Mul(pmin, lpf))
      maxdouble == IF dbl THEN Mul(Mul(pmin, pmin), dlf) ELSE Zero
  IN IF Gt(maxdouble, Mul(pmin, pmin)) THEN maxdouble
     ELSE IF Gt(maxlarge, pmin) THEN maxlarge ELSE One

\* sieve threshold  bits/2 + bitlen(M/2 or M/4) - bitlen(max_cofactor)  is computed in u32 and cast to u8
ThresholdOK(bits, mm, cofmin, cofmax) ==
  /\ bits \div 2 + BitLen(Shr(mm, 2)) >= BitLen(cofmin)            \* no underflow, even for type 2
  /\ bits \div 2 + BitLen(Shr(mm, 1)) - BitLen(cofmax) < 256       \* fits u8, even for type 1

\* _finish_polynomial asserts  A.bits + 2 * bitlen(M) < 255.  A is selected within 1/3 of
\* sqrt(n/2)/(M/2) (type 2) or sqrt(2n)/(M/2) (type 1), hence A.bits >= (bits-2)/2 - bitlen(M/2).
AFits(bits, mm) == Max2(0, (bits - 2) \div 2 - BitLen(Shr(mm, 1))) + 2 * BitLen(mm) < 255

\* polynomial families: 2^(nfacs-1) polynomials per A (usize shift), nfacs primes must be drawn from
\* the kept factor base minus its first element (select_siqs_factors asserts len > nfacs)
NFacsOK(nfacs, fb8) ==
  /\ FitsInt(nfacs) /\ ToInt(nfacs) >= 1 /\ ToInt(nfacs) <= 63
  /\ fb8 >= ToInt(nfacs) + 2

\* select_a samples subsets of the 4*nfacs candidate factors with a bit mask (1 << g).  The mask was a
\* u64 on the pinned tree (overflow from nfacs = 17 on: found by this contract as a note, repaired by
\* fix 024760c); it is a u128 now, so the consumer needs 4*nfacs <= 128.
MaskFits(nfacs) == FitsInt(nfacs) /\ 4 * ToInt(nfacs) <= 128

SiqsOK(e) ==
  /\ FBaseOK(e.fb)
  /\ MaskFits(e.nfacs)
  /\ NFacsOK(e.nfacs, Fb8(e.fb))
  /\ Ge(e.acount, One)                                 \* at least one A to sieve
  /\ Ge(e.adiv, N(3))                                  \* select_a: assert!(div >= 3)
  /\ IntervalOK(e.interval)
  /\ LargeOK(PMin(e), e.lpf)
  /\ (e.dbl => DoubleOK(PMin(e), e.dlf))
  /\ ThresholdOK(e.bits, e.interval, MaxCofSiqs(PMin(e), e.lpf, e.dlf, e.dbl),
                 MaxCofSiqs(PMax(e), e.lpf, e.dlf, e.dbl))
  /\ AFits(e.bits, e.interval)
  /\ Ge(e.fbs, One)                                    \* params::factor_base_size itself

\* MPQS (mpqs.rs): interval is an i64 used as u32; maxlarge clamped to 32 bits and raised to
\* 2 * maxprime with double large primes; threshold uses M/2.
MaxCofMpqs(p, lpf, dlf, dbl) ==
  LET ml0 == Clamp32(Mul(p, lpf))
      maxlarge == IF dbl /\ Lt(ml0, MulSmall(p, 2)) THEN MulSmall(p, 2) ELSE ml0
  IN IF dbl THEN Mul(Mul(p, p), dlf)
     ELSE IF Gt(maxlarge, p) THEN maxlarge ELSE One

MpqsOK(e) ==
  /\ FBaseOK(e.fb)
  /\ ~e.interval_neg
  /\ IntervalOK(e.interval)
  /\ LargeOK(PMin(e), e.lpf)
  /\ (e.dbl => DoubleOK(PMin(e), e.dlf))
  /\ e.bits \div 2 + BitLen(Shr(e.interval, 1)) >= BitLen(MaxCofMpqs(PMin(e), e.lpf, e.dlf, e.dbl))
  /\ e.bits \div 2 + BitLen(Shr(e.interval, 1)) - BitLen(MaxCofMpqs(PMax(e), e.lpf, e.dlf, e.dbl)) < 256

\* classical QS (qsieve.rs): nblocks blocks per large block; maxlarge = maxprime * lpf is NOT clamped
\* and fbase::cofactor computes maxlarge * maxlarge in u64, so maxlarge must stay below 2^32;
\* threshold = bits/2 + magnitude - bitlen(max_cofactor) with magnitude >= 16, asserted < 256.
MaxCofQs(p, lpf, dbl) ==
  LET maxlarge == Mul(p, lpf)
  IN IF dbl THEN MulSmall(Mul(maxlarge, p), 2)
     ELSE IF Gt(maxlarge, p) THEN maxlarge ELSE One

QsOK(e) ==
  /\ FBaseOK(e.fb)
  /\ Ge(e.nblocks, One) /\ Lt(Mul(e.nblocks, N(BlockSize)), Pow2(31))
  /\ Ge(e.lpf, One)
  /\ Lt(Mul(PMin(e), e.lpf), Pow2(32))
  /\ Lt(MaxCofQs(PMin(e), e.lpf, e.dbl), Pow2(64))
  /\ e.bits \div 2 + 16 >= BitLen(MaxCofQs(PMin(e), e.lpf, e.dbl))

\* class group sieve (classgroup.rs): like SIQS; nfacs = 0 selects the unit form, which Poly::first
\* only supports below 128 bits
\* The class group sieve asserts that it obtained at least `acount` distinct leading coefficients
\* (classgroup.rs: assert!(a_ints.len() >= a_count)), and A values are nfacs-subsets of a pool of
\* at most 4*nfacs factor-base primes (siqs::select_siqs_factors): acount <= C(4*nfacs, nfacs).
\* The binomial exceeds 2^31 from nfacs = 11 on, where every table value is far below it.
RECURSIVE BinomFrom(_, _, _, _)
BinomFrom(n, k, i, acc) == IF i > k THEN acc ELSE BinomFrom(n, k, i + 1, (acc * (n - k + i)) \div i)
Binom4(k) == BinomFrom(4 * k, k, 1, 1)          \* C(4k, k), k <= 8: every intermediate < 2^31
ACountFits(acount, nfacs) ==
  LET k == ToInt(nfacs) IN k = 0 \/ k >= 9 \/ (FitsInt(acount) /\ ToInt(acount) <= Binom4(k))

ClsOK(e) ==
  /\ MaskFits(e.nfacs)
  /\ ACountFits(e.acount, e.nfacs)
  /\ FBaseOK(e.fb)
  /\ FitsInt(e.nfacs)
  /\ IF ToInt(e.nfacs) = 0 THEN e.bits < 128
     ELSE NFacsOK(e.nfacs, Fb8(e.fb)) /\ AFits(e.bits, e.interval)
  /\ Ge(e.acount, One)
  /\ IntervalOK(e.interval)
  /\ LargeOK(PMin(e), e.lpf)
  /\ (e.dbl => DoubleOK(PMin(e), e.dlf))
  /\ ThresholdOK(e.bits, e.interval, MaxCofSiqs(PMin(e), e.lpf, e.dlf, e.dbl),
                 MaxCofSiqs(PMax(e), e.lpf, e.dlf, e.dbl))

-----------------------------------------------------------------------------
(* stage 2 of ECM / P+1 (params::stage2_params) and of P-1 (its own table) *)

RECURSIVE PhiFrom(_, _, _)
\* Euler phi by trial division: n = remaining cofactor, p = next trial divisor, acc = phi so far
PhiFrom(n, p, acc) ==
  IF n = 1 THEN acc
  ELSE IF p * p > n THEN acc * (n - 1)
  ELSE IF n % p = 0
       THEN LET RECURSIVE Strip(_, _)
                Strip(m, a) == IF m % p = 0 THEN Strip(m \div p, a * p) ELSE <<m, a>>
                s == Strip(n \div p, acc * (p - 1))
            IN PhiFrom(s[1], p + 1, s[2])
  ELSE PhiFrom(n, p + 1, acc)
Phi(n) == PhiFrom(n, 2, 1)

RECURSIVE IsPow2Int(_)
IsPow2Int(n) == n = 1 \/ (n > 1 /\ n % 2 = 0 /\ IsPow2Int(n \div 2))

\* ecm::ecm_curve, ecm128::ecm_curve: baby steps b in 1..d1/2 coprime to d1, assert bs[0] = 1, gaps
\* between consecutive b must be even and >= 2 (index gap/2 - 1), giant steps 1..d2 with the first two
\* always pushed; pp1::pp1 asserts d1 % 6 = 0 on the same table.
EcmRowOK(d1, d2) ==
  /\ FitsInt(d1) /\ FitsInt(d2)
  /\ ToInt(d1) >= 6 /\ ToInt(d1) % 6 = 0
  /\ ToInt(d2) >= 2

\* pollard_pm1::pm1_stage2_polyeval: assert d1 % 6 = 0; assert d2 power of two; the ring is built for
\* size d2/2 and its NTT context is unwrapped (needs d2/2 >= FFT_THRESHOLD = 28); P = prod(x - g^b) over
\* the phi(d1) residues b has phi(d1)+1 coefficients, each multiplied by negsteps[i] (length d2) and
\* convolved in size d2; NTT roots exist up to order 2^32.
Pm1RowOK(d1, d2) ==
  /\ FitsInt(d1) /\ FitsInt(d2)
  /\ ToInt(d1) >= 6 /\ ToInt(d1) % 6 = 0
  /\ IsPow2Int(ToInt(d2))
  /\ ToInt(d2) \div 2 >= 28
  /\ Phi(ToInt(d1)) + 1 <= ToInt(d2)

-----------------------------------------------------------------------------
(* arith_fft::convolve_modn dispatch (bits, size) -> (fsize, logpack, stride):             *)
(* A = 2^logpack coefficients are packed per transform element of fsize bits (N = fsize/64 *)
(* words) at word offsets stride*j; the product of two elements is a polynomial of degree  *)
(* 2A-2 in X = 2^(64 stride) whose coefficients are sums of at most `size` products of two *)
(* residues < 2^bits.                                                                      *)
RECURSIVE Pow2I(_)
Pow2I(k) == IF k = 0 THEN 1 ELSE 2 * Pow2I(k - 1)

ConvOK(bits, lgsize, fsize, logpack, stride) ==
  LET words == fsize \div 64
      A     == Pow2I(logpack)
      need  == 2 * bits + lgsize                 \* bit length bound of one output coefficient
  IN /\ fsize \in {1024, 2048, 4096, 8192, 16384}        \* the instantiated transforms
     /\ logpack <= lgsize                               \* at least one transform element
     /\ Pow2I(Max2(0, lgsize - logpack)) <= 256 * words  \* mulfft: assert!(l <= 256 * N)
     /\ IF stride = 0
        THEN /\ logpack = 0
             /\ words >= 16                              \* 16 words are read back
             /\ need <= fsize                            \* no wrap modulo 2^fsize + 1
        ELSE /\ (2 * A - 1) * stride <= words            \* all 2A-1 output digits inside the element
             /\ need <= 64 * stride                      \* output digits do not overlap
             /\ stride * (A - 1) + 8 <= words            \* the 8-word copy of the last input stays inside
             /\ 64 * stride >= bits                      \* an input copy only overwrites zero words
             /\ stride < 24                              \* ZmodN::redc_large takes fewer than 24 words
=============================================================================
