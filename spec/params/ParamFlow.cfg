SPECIFICATION Spec
CONSTANT Mutation = "none"
INVARIANTS NoStuck FlowIsContract PrintShapes
CHECK_DEADLOCK FALSE
