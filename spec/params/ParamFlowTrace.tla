--------------------------- MODULE ParamFlowTrace ---------------------------
(***************************************************************************)
(* C20, second leg - trace specification of the REAL consumer runs driven  *)
(* by the SHAPE lines of ParamFlow.tla (harness/src/drivers/c20.rs, mode   *)
(* flow).  One event per run:                                              *)
(*   op "flow"  : a sieve consumer (siqs / mpqs / qs / cls) on a           *)
(*                constructed n of exactly the size of the shape; kind     *)
(*                "first" = constructor chain + first polynomial, "real" = *)
(*                the whole consumer bounded by an abort predicate;        *)
(*   op "flow2" : the real stage 2 of ECM / ECM128 / P+1 / P-1 for one     *)
(*                requested B2 (a table row or a neighbour of a selection  *)
(*                midpoint).                                               *)
(* Strict = the words of the property, "parameter tables satisfy their     *)
(* consumers' preconditions at every size": (a) the consumer does not      *)
(* panic (assertion, overflow, index) in its constructor or first unit of  *)
(* work with the parameters of that size - a returned failure, a completed *)
(* or an aborted run are all fine; (b) the parameters the real functions   *)
(* report for that very n satisfy the contracts of Params.tla.  Everything *)
(* shaped like the implementation (which row the consumer re-reads, how    *)
(* many steps it builds, polynomial lengths) is Drift.                     *)
(***************************************************************************)
EXTENDS Params, TraceLib
VARIABLE l

ParamsOK(e) ==
  CASE e.alg = "siqs" -> SiqsOK(e) [] e.alg = "mpqs" -> MpqsOK(e) [] e.alg = "qs" -> QsOK(e) [] e.alg = "cls" -> ClsOK(e)
    [] OTHER -> FALSE

Supported(e) == e.bits <= Limit(e.alg)
Ended(e) == Has(e, "outcome")                 \* panic / timeout: not an action of the specification
\* "abort": the consumer took the whole process down (recorded by the runner for the run that was in progress)
Panic(e) == Has(e, "outcome") /\ e.outcome \in {"panic", "abort"}

\* the failure lies in the constructor or the first unit of work: direct first-unit runs, parameter functions,
\* runs bounded to one unit by the abort predicate, or no unit finished yet
InFirstUnit(e) == e.kind \in {"first", "params"} \/ e.abort = 1 \/ e.units_done = 0

FlowStrict(e) ==
  IF ~Supported(e) THEN TRUE
  ELSE IF Panic(e) THEN ~InFirstUnit(e)
  ELSE IF Ended(e) THEN TRUE                  \* a deadline is never a verdict (reported as drift below)
  ELSE ParamsOK(e)

FlowDrift(e) ==
  IF Ended(e) THEN Supported(e) /\ Panic(e) /\ InFirstUnit(e)        \* already strict; anything else is reported here
  ELSE /\ (e.kind = "first" /\ Supported(e) => e.ended = "first_unit_done" /\ e.tasks >= 1)
       \* the factor base the consumer built is the one the parameter asked for (a multiple of 8, at most fb8)
       /\ (e.kind = "real" /\ e.stage_seen => e.run_fb % 8 = 0 /\ e.run_fb >= 8 /\ e.run_fb <= Fb8(e.fb))
       \* above its size guard the consumer refuses before building anything
       /\ (e.kind = "real" /\ e.alg \in {"siqs", "mpqs", "qs"} /\ ~Supported(e) => ~e.stage_seen)
       /\ (e.kind = "real" /\ e.alg \in {"siqs", "mpqs", "qs"} /\ Supported(e) /\ e.ended = "returned" => e.stage_seen)

RowOK(e) == IF e.m = "pm1" THEN Pm1RowOK(e.d1, e.d2) ELSE EcmRowOK(e.d1, e.d2)

Flow2Strict(e) == IF Panic(e) THEN FALSE ELSE IF Ended(e) THEN TRUE ELSE RowOK(e)

Flow2Drift(e) ==
  IF Ended(e) THEN Panic(e)
  ELSE /\ (e.hdr => e.hd1 = e.d1 /\ e.hd2 = e.d2)                     \* the consumer read the row the selector reports
       /\ (e.m = "pm1" => e.hdr /\ e.conv /\ e.plen = Phi(ToInt(e.d1)) + 2 /\ e.cd2 = ToInt(e.d2)
                          /\ e.nvals = e.cd2 - e.plen + 2)
       /\ (e.m \in {"ecm", "ecm128"} /\ e.nb > 0 => 2 * e.nb = Phi(ToInt(e.d1)) /\ e.ng = ToInt(e.d2))

Tag(e) == IF e.op = "flow" THEN e.alg ELSE e.m

JudgeFlow(i, e) ==
  CASE e.op = "flow"  -> Strict(i, Tag(e), FlowStrict(e)) /\ Drift(i, Tag(e), FlowDrift(e))
    [] e.op = "flow2" -> Strict(i, Tag(e), Flow2Strict(e)) /\ Drift(i, Tag(e), Flow2Drift(e))
    [] OTHER -> Strict(i, "unknown-op", FALSE)

Init == l = 1
Next == l <= NRec /\ l' = l + 1 /\ JudgeFlow(l, Rec[l])
Spec == Init /\ [][Next]_l
=============================================================================
