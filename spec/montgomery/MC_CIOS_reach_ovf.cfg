SPECIFICATION Spec
CONSTANTS W = 8
          SIZE = 2
INVARIANT OverflowBranchUnreachable
CHECK_DEADLOCK FALSE
