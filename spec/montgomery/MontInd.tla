------------------------------- MODULE MontInd -------------------------------
(***************************************************************************)
(* C07 - the combined multiplication / Montgomery reduction loop at the    *)
(* level of NUMBERS, for a symbolic word base B and unbounded integers.    *)
(*                                                                         *)
(* MontCIOS.tla is the word-level model (arrays of words, carries), checked*)
(* by TLC for B = 4, 8, 16 and up to 3 words.  This module RESTATES one    *)
(* outer iteration as what it computes on numbers: with T the value of the *)
(* window z[i .. i+SIZE] (plus the overflow flag),                         *)
(*      x_i = i-th word of x,   s = T + x_i y,   m = (s mod B) ninv mod B, *)
(*      T'  = (s + m n) / B                                                *)
(* and Finish as the conditional subtraction.  TLC checks on the small     *)
(* bases that every step of MontCIOS is such a step (MC_MontInd.tla).      *)
(* Ghosts: xhi / xlo = the words of x not yet / already consumed           *)
(* (x = xhi Bi + xlo), Bi = B^i, K = the multiple of n added so far.       *)
(*                                                                         *)
(* Proved inductive (TLAPS, MontProofs.tla) for EVERY base B >= 1, every   *)
(* modulus n >= 1 with n ninv = -1 mod B, every x >= 0, 0 <= y < n and any *)
(* number of iterations:                                                   *)
(*      T Bi = xlo y + K n,   0 <= T < 2 n,   the division by B is exact,  *)
(*      at the end  res < n  and  res Bi = xlo y + K n,  i.e.              *)
(*      res B^i = (x mod B^i) y  (mod n).                                  *)
(***************************************************************************)
EXTENDS Integers

CONSTANT
  \* @type: Int;
  B

VARIABLES
  \* @type: Int;
  n,
  \* @type: Int;
  ninv,
  \* @type: Int;
  x,
  \* @type: Int;
  y,
  \* @type: Int;
  T,
  \* @type: Int;
  xhi,
  \* @type: Int;
  xlo,
  \* @type: Int;
  Bi,
  \* @type: Int;
  K,
  \* @type: Str;
  pc,
  \* @type: Int;
  res

vars == <<n, ninv, x, y, T, xhi, xlo, Bi, K, pc, res>>

Init ==
  /\ n \in Int /\ n >= 1
  /\ ninv \in Int /\ 0 <= ninv /\ ninv < B /\ ((n * ninv + 1) % B) = 0
  /\ x \in Int /\ 0 <= x
  /\ y \in Int /\ 0 <= y /\ y < n
  /\ T = 0 /\ xhi = x /\ xlo = 0 /\ Bi = 1 /\ K = 0 /\ pc = "loop" /\ res = 0

Iter ==
  /\ pc = "loop"
  /\ LET xi == xhi % B
         s  == T + xi * y
         m  == ((s % B) * ninv) % B
     IN /\ T' = (s + m * n) \div B
        /\ xhi' = xhi \div B
        /\ xlo' = xlo + xi * Bi
        /\ Bi' = Bi * B
        /\ K' = K + m * Bi
  /\ UNCHANGED <<n, ninv, x, y, pc, res>>

Finish ==
  /\ pc = "loop" /\ pc' = "done"
  /\ res' = IF T >= n THEN T - n ELSE T
  /\ K' = IF T >= n THEN K - Bi ELSE K
  /\ UNCHANGED <<n, ninv, x, y, T, xhi, xlo, Bi>>

Done == pc = "done" /\ UNCHANGED vars
Next == Iter \/ Finish \/ Done
Spec == Init /\ [][Next]_vars

-----------------------------------------------------------------------------
TypeOK == /\ n \in Int /\ ninv \in Int /\ x \in Int /\ y \in Int /\ T \in Int /\ xhi \in Int /\ xlo \in Int
          /\ Bi \in Int /\ K \in Int /\ res \in Int /\ pc \in {"loop", "done"}
Pre == n >= 1 /\ 0 <= ninv /\ ninv < B /\ ((n * ninv + 1) % B) = 0 /\ 0 <= y /\ y < n
Window == 0 <= T /\ T < 2 * n
Split == x = xhi * Bi + xlo /\ xhi >= 0
Congr == (pc = "loop" => T * Bi = xlo * y + K * n) /\ (pc = "done" => res * Bi = xlo * y + K * n)
ResultOK == pc = "done" => 0 <= res /\ res < n
IndInv == TypeOK /\ Pre /\ Window /\ Split /\ Congr /\ ResultOK

\* broken variants
\* m computed without the multiplication by ninv
IterBadM ==
  /\ pc = "loop"
  /\ LET xi == xhi % B
         s  == T + xi * y
         m  == s % B
     IN /\ T' = (s + m * n) \div B
        /\ xhi' = xhi \div B
        /\ xlo' = xlo + xi * Bi
        /\ Bi' = Bi * B
        /\ K' = K + m * Bi
  /\ UNCHANGED <<n, ninv, x, y, pc, res>>
\* no conditional subtraction
FinishBad ==
  /\ pc = "loop" /\ pc' = "done"
  /\ res' = T /\ K' = K
  /\ UNCHANGED <<n, ninv, x, y, T, xhi, xlo, Bi>>
IndInit ==
  /\ n \in Int /\ ninv \in Int /\ x \in Int /\ y \in Int /\ T \in Int /\ xhi \in Int /\ xlo \in Int
  /\ Bi \in Int /\ K \in Int /\ res \in Int /\ pc \in {"loop", "done"}
  /\ IndInv
CInit16 == B = 16
NextBadM == IterBadM
NextBadF == FinishBad
=============================================================================
