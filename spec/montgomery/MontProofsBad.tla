----------------------------- MODULE MontProofsBad -----------------------------
(***************************************************************************)
(* Non-vacuity of MontProofs: the key step "the division by B is exact"    *)
(* for the quotient digit computed WITHOUT the factor ninv (MontInd!        *)
(* IterBadM), and the result bound without the conditional subtraction     *)
(* (MontInd!FinishBad).  Both claims are FALSE: tlapm must report failed   *)
(* obligations for this module.                                            *)
(***************************************************************************)
EXTENDS MontProofs

THEOREM BadMExact ==
  ASSUME NEW s \in Int, NEW nn \in Int, NEW ni \in Int, nn >= 1, ((nn * ni + 1) % B) = 0, s >= 0
  PROVE  ((s + (s % B) * nn) % B) = 0
  BY BAssump, DivMod, ModUniq, Z3

THEOREM FinishBadOK == IndInv /\ FinishBad => ResultOK'
  BY BAssump, Z3 DEF IndInv, TypeOK, Pre, Window, Split, Congr, ResultOK, FinishBad
=============================================================================
