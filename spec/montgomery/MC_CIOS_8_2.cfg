SPECIFICATION Spec
CONSTANTS W = 8
          SIZE = 2
INVARIANT ResultOK
CHECK_DEADLOCK FALSE
