------------------------------ MODULE MontCIOS ------------------------------
(***************************************************************************)
(* Word-level model of the combined multiplication / Montgomery reduction  *)
(* loop of the modular ring (arith_montgomery.rs: _mint_mulmod followed by *)
(* the conditional subtraction in ZmodN::mul), parametric in the word base *)
(* W (the code uses 2^64) and the word count SIZE.  One action per outer    *)
(* loop iteration.  Checked exhaustively for small W: all odd moduli with  *)
(* SIZE words, all residues x, y < n.                                      *)
(*                                                                         *)
(* This proves the design (including the two corner branches the code is   *)
(* unsure about: the `overflow` correction and the final carry marked      *)
(* "FIXME: can it happen?"), not the code; the code is bound by the trace  *)
(* specification MontgomeryTrace.                                          *)
(***************************************************************************)
EXTENDS Naturals, Sequences, TLC
CONSTANTS W, SIZE
VARIABLES n, x, y, z, i, ovf, finalCarry, pc, res

vars == <<n, x, y, z, i, ovf, finalCarry, pc, res>>

RECURSIVE Pow(_, _)
Pow(b, e) == IF e = 0 THEN 1 ELSE b * Pow(b, e - 1)
WS == Pow(W, SIZE)

\* words of a number, index 0..SIZE-1
Word(v, j) == (v \div Pow(W, j)) % W
\* -n^-1 mod W
Ninv == CHOOSE t \in 0..(W-1) : (n * t + 1) % W = 0

\* value of z restricted to indices lo..hi
RECURSIVE ValZ(_, _, _)
ValZ(zz, lo, hi) == IF lo > hi THEN 0 ELSE zz[lo] + W * ValZ(zz, lo + 1, hi)

Init ==
  /\ n \in {m \in (IF SIZE = 1 THEN 3 ELSE Pow(W, SIZE - 1))..(WS - 1) : m % 2 = 1}
  /\ x \in 0..(n - 1)
  /\ y \in 0..(n - 1)
  /\ z = [j \in 0..(2 * SIZE) |-> 0]
  /\ i = 0 /\ ovf = FALSE /\ finalCarry = FALSE /\ pc = "loop" /\ res = 0

\* inner loop "accumulate a * v in z at offset i" (a one word, v a SIZE-word number):
\* returns <<new z, carry>>
RECURSIVE MulAcc(_, _, _, _, _, _)
MulAcc(zz, a, v, off, j, carry) ==
  IF j = SIZE THEN <<zz, carry>>
  ELSE LET t == a * Word(v, j) + zz[off + j] + carry
       IN MulAcc([zz EXCEPT ![off + j] = t % W], a, v, off, j + 1, t \div W)

Iter ==
  /\ pc = "loop" /\ i < SIZE
  /\ LET s1 == MulAcc(z, Word(x, i), y, i, 0, 0)
         m  == (s1[1][i] * Ninv) % W
         s2 == MulAcc(s1[1], m, n, i, 0, 0)
         z2 == s2[1]
         t1 == z2[i + SIZE] + s1[2]
         c1 == t1 \div W
         t2 == (t1 % W) + s2[2]
         c2 == t2 \div W
         z3 == [z2 EXCEPT ![i + SIZE] = t2 % W]
     IN /\ z2[i] = 0                                  \* the code's debug_assert!(z[i] == 0)
        /\ IF c1 + c2 > 0
           THEN IF i + 1 < SIZE
                THEN z' = [z3 EXCEPT ![i + SIZE + 1] = c1 + c2] /\ ovf' = ovf
                ELSE z' = z3 /\ ovf' = TRUE
           ELSE z' = z3 /\ ovf' = ovf
  /\ i' = i + 1
  /\ UNCHANGED <<n, x, y, finalCarry, pc, res>>

\* copy out, overflow correction (add W^SIZE - n), then ZmodN::mul's conditional subtraction
Finish ==
  /\ pc = "loop" /\ i = SIZE
  /\ LET r0 == ValZ(z, SIZE, 2 * SIZE - 1)
         r1 == IF ovf THEN r0 + (WS - n) ELSE r0       \* may carry into word SIZE
         fc == ovf /\ r1 >= WS
         \* mint_lt treats a non-zero extra word as "not less"; mint_sub works on SIZE words and clears it
         r2 == IF r1 >= n THEN (r1 - n) % WS ELSE r1
     IN /\ finalCarry' = fc
        /\ res' = r2
  /\ pc' = "done"
  /\ UNCHANGED <<n, x, y, z, i, ovf>>

Next == Iter \/ Finish \/ (pc = "done" /\ UNCHANGED vars)
Spec == Init /\ [][Next]_vars

\* the property: Montgomery product, fully reduced
ResultOK == pc = "done" => (res < n /\ (res * WS) % n = (x * y) % n)
\* reachability questions, checked as separate (expected-to-fail or hold) invariants
OverflowBranchUnreachable == ~ovf
FinalCarryUnreachable == ~finalCarry
=============================================================================
