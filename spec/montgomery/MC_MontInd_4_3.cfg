SPECIFICATION Spec
CONSTANTS W = 4
          SIZE = 3
INVARIANT IndOnOrig
INVARIANT EndAll
PROPERTY StepsMatch
PROPERTY InitMatch
CHECK_DEADLOCK FALSE
