SPECIFICATION Spec
CONSTANTS W = 4
          SIZE = 2
INVARIANT ResultOK
CHECK_DEADLOCK FALSE
