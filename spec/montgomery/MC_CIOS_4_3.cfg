SPECIFICATION Spec
CONSTANTS W = 4
          SIZE = 3
INVARIANT ResultOK
CHECK_DEADLOCK FALSE
