--------------------------- MODULE MontgomeryTrace ---------------------------
(***************************************************************************)
(* C07 - Montgomery modular arithmetic equals ordinary arithmetic mod n.   *)
(*                                                                         *)
(* Contracts of the modular ring (general multiword, 64-bit and 128-bit    *)
(* variants) over plain integers, evaluated on the values the real code    *)
(* returned.  R = 2^(64 k), k = number of 64-bit words of n.  "raw" values *)
(* are internal (Montgomery) representatives: raw = value * R mod n.       *)
(***************************************************************************)
EXTENDS BigNat, TraceLib
VARIABLE l

Words(n) == (BitLen(n) + 63) \div 64
R(k) == Pow2(64 * k)

\* r is the Montgomery product of raw a and raw b:  r*R == a*b (mod n), r < n
MontMulOK(n, k, a, b, r) == Lt(r, n) /\ Cong(Mul(r, R(k)), Mul(a, b), n)

Ok(e) ==
  CASE e.op = "zn_conv" ->
         \* from_int(x) = m (raw), to_int(m) = back, words() = k, one() = o, zero() = z
         /\ e.k = Words(e.n)
         /\ Lt(e.m, e.n) /\ e.m = Mod(Mul(e.x, R(e.k)), e.n)
         /\ e.back = e.x
         /\ e.o = Mod(R(e.k), e.n) /\ e.z = <<>>
    [] e.op = "zn_mul" -> MontMulOK(e.n, Words(e.n), e.a, e.b, e.r)
    [] e.op = "zn_addsub" ->
         /\ e.s = Mod(Add(e.a, e.b), e.n)
         /\ e.d = Mod(Sub(Add(e.a, e.n), e.b), e.n)
    [] e.op = "zn_inv" ->
         \* inv(a) = Some(i) with i*a == R^2 (mod n) iff gcd(a, n) = 1
         LET g == Gcd(e.n, e.a) IN
         IF e.some THEN g = One /\ Lt(e.r, e.n) /\ Cong(Mul(e.r, e.a), R(2 * Words(e.n)), e.n)
         ELSE g # One
    [] e.op = "zn_redc" -> \* x < n*R ; r*R == x
         Lt(e.r, e.n) /\ Cong(Mul(e.r, R(Words(e.n))), e.x, e.n)
    [] e.op = "zn_gcd" -> e.g = Gcd(e.n, e.a)
    [] e.op = "mg64" ->
         \* n odd < 2^64: ninv*n == -1 mod 2^64; mul, redc, inv with R = 2^64
         /\ LowBits(Add(Mul(e.n, e.ninv), One), 64) = <<>>
         /\ MontMulOK(e.n, 1, e.a, e.b, e.r)
         /\ Lt(e.rd, e.n) /\ Cong(Mul(e.rd, R(1)), e.x, e.n)
         /\ LET g == Gcd(e.n, e.a) IN
            IF e.inv_some THEN g = One /\ Lt(e.inv, e.n) /\ Cong(Mul(e.inv, e.a), R(2), e.n)
            ELSE g # One
    [] e.op = "m128" ->
         \* n odd < 2^128; the code uses R = 2^64 when n < 2^64, else 2^128 (same as the general ring)
         LET k == Words(e.n) IN
         /\ LowBits(Add(Mul(e.n, e.ninv), One), 64 * k) = <<>>
         /\ e.r1 = Mod(R(k), e.n) /\ e.r2 = Mod(R(2 * k), e.n)
         /\ MontMulOK(e.n, k, e.a, e.b, e.r)
         /\ e.s = Mod(Add(e.a, e.b), e.n)
         /\ e.d = Mod(Sub(Add(e.a, e.n), e.b), e.n)
         /\ e.r = e.rz /\ e.s = e.sz /\ e.d = e.dz       \* same function as the general ring
    [] OTHER -> FALSE

\* a call that panicked or did not return is not an action of the specification
Accept(e) == IF Has(e, "outcome") THEN FALSE ELSE Ok(e)

Init == l = 1
Next == l <= NRec /\ l' = l + 1 /\ Strict(l, Rec[l].op, Accept(Rec[l]))
Spec == Init /\ [][Next]_l
=============================================================================
