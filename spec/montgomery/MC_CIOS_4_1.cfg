SPECIFICATION Spec
CONSTANTS W = 4
          SIZE = 1
INVARIANT ResultOK
CHECK_DEADLOCK FALSE
