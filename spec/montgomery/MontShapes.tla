----------------------------- MODULE MontShapes -----------------------------
(***************************************************************************)
(* Input space of the C07 driver: the full product of abstract operand     *)
(* shapes.  The harness only concretises a shape with seeded random filling*)
(* so this module is the single statement of what the driver covers.       *)
(***************************************************************************)
EXTENDS Naturals, TLC, Json
CONSTANTS MaxWords
VARIABLE s

NShapes == {"max_minus",     \* 2^(64k) - small odd delta
            "half_plus",     \* 2^(64k-1) + small
            "ones",          \* all-ones words (2^(64k)-1)
            "topbit",        \* single top bit + 1
            "smallest",      \* 2^(64(k-1)) + small: smallest k-word modulus
            "random",        \* random odd k-word
            "shortbits",     \* random odd with bit length 64(k-1)+1 .. 64k-1
            "smallfactor"}   \* 3 * 5 * 7 * (random) : shares factors with many residues
XShapes == {"zero", "one", "nm1", "nm2", "rmodn", "lowones", "random", "highones", "half"}
Ops == {"conv", "mul", "sqr", "addsub", "inv", "redc", "redc_large", "gcd"}

Init == s \in [k : 1..MaxWords, n : NShapes, x : XShapes, y : XShapes, op : Ops]
Next == UNCHANGED s
\* sqr/conv/inv/redc/gcd use only x: drop the redundant y dimension
Relevant == s.op \in {"mul", "addsub"} \/ s.y = "zero"
Emit == Relevant => PrintT(<<"SHAPE", ToJson(s)>>)
=============================================================================
