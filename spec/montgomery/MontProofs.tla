------------------------------ MODULE MontProofs ------------------------------
(***************************************************************************)
(* C07 - TLAPS proof that MontInd!IndInv is an inductive invariant of      *)
(* MontInd!Spec for every word base B >= 1 (B need not be a power of two). *)
(*      tlapm --threads 4 MontProofs.tla                                   *)
(***************************************************************************)
EXTENDS MontInd, TLAPS

ASSUME BAssump == B \in Int /\ B >= 1

LEMMA DivMod == ASSUME NEW x \in Int, NEW p \in Int, p >= 1
                PROVE  x = (x \div p) * p + (x % p) /\ (x \div p) \in Int /\ (x % p) \in 0..(p - 1)
  BY Z3

LEMMA MulNonneg == ASSUME NEW a \in Int, NEW b \in Int, a >= 0, b >= 0 PROVE a * b >= 0
  BY Z3

LEMMA Uniq == ASSUME NEW p \in Int, NEW q \in Int, NEW r \in Int, p >= 1,
                     0 <= q * p + r, q * p + r < p, 0 <= r, r < p
              PROVE  q = 0
<1>1. CASE q >= 1
  <2>0. (q - 1) \in Int /\ (q - 1) >= 0 /\ p >= 0 BY <1>1, Z3
  <2>1. (q - 1) * p >= 0  BY <2>0, MulNonneg, Z3
  <2>2. q * p = (q - 1) * p + p  BY Z3
  <2> QED BY <2>1, <2>2, Z3
<1>2. CASE q <= -1
  <2>0. (0 - q - 1) \in Int /\ (0 - q - 1) >= 0 /\ p >= 0 BY <1>2, Z3
  <2>1. (0 - q - 1) * p >= 0  BY <2>0, MulNonneg, Z3
  <2>2. (0 - q - 1) * p = 0 - q * p - p  BY Z3
  <2>3. q * p \in Int BY Z3
  <2>4. q * p <= 0 - p BY <2>1, <2>2, <2>3, Z3
  <2> QED BY <2>4, <2>3, Z3
<1> QED BY <1>1, <1>2, Z3

LEMMA ModUniq == ASSUME NEW x \in Int, NEW p \in Int, NEW q \in Int, NEW r \in Int, p >= 1,
                        x = q * p + r, 0 <= r, r < p
                 PROVE  x % p = r
<1> DEFINE d == x \div p
<1> DEFINE m == x % p
<1>1. x = d * p + m /\ d \in Int /\ m \in 0..(p - 1)  BY DivMod
<1> HIDE DEF d, m
<1>2a. (q - d) * p = q * p - d * p /\ q * p \in Int /\ d * p \in Int BY <1>1, Z3
<1>2. (q - d) * p + r = m  BY <1>1, <1>2a, Z3
<1>3. (q - d) \in Int /\ 0 <= (q - d) * p + r /\ (q - d) * p + r < p BY <1>1, <1>2, Z3
<1>4. q - d = 0  BY <1>3, Uniq, Z3
<1>5. m = r BY <1>1, <1>2, <1>4, Z3
<1> QED BY <1>5 DEF m


LEMMA MulMono == ASSUME NEW a \in Int, NEW b \in Int, NEW c \in Int, NEW d \in Int,
                        0 <= a, a <= c, 0 <= b, b <= d
                 PROVE  a * b <= c * d /\ 0 <= a * b
<1>1. (c - a) \in Int /\ (d - b) \in Int /\ (c - a) >= 0 /\ (d - b) >= 0 /\ c >= 0  BY Z3
<1>2. c * (d - b) >= 0  BY <1>1, MulNonneg
<1>3. (c - a) * b >= 0  BY <1>1, MulNonneg
<1>4. c * d - a * b = c * (d - b) + (c - a) * b  BY Z3
<1>5. a * b >= 0  BY MulNonneg
<1>6. c * d \in Int /\ a * b \in Int /\ c * (d - b) \in Int /\ (c - a) * b \in Int  BY Z3
<1> QED BY <1>2, <1>3, <1>4, <1>5, <1>6, Z3

\* v = w p  =>  v div p = w
LEMMA ExactDiv == ASSUME NEW v \in Int, NEW w \in Int, NEW p \in Int, p >= 1, v = w * p
                  PROVE  v \div p = w
<1> DEFINE d == v \div p
<1> DEFINE r == v % p
<1>1. v = d * p + r /\ d \in Int /\ r \in 0..(p - 1)  BY DivMod
<1>2. v = w * p + 0 /\ 0 <= 0 /\ 0 < p /\ 0 \in Int  BY Z3
<1>3. r = 0  BY <1>2, ModUniq
<1> HIDE DEF d, r
<1>4. (d - w) * p = d * p - w * p /\ d * p \in Int /\ w * p \in Int  BY <1>1, Z3
<1>4a. d * p = v  BY <1>1, <1>3, <1>4, Z3
<1>4b. w * p = v  BY <1>4, Z3
<1>4c. (d - w) * p = 0  BY <1>4, <1>4a, <1>4b, Z3
<1>5. (d - w) \in Int /\ 0 <= (d - w) * p + 0 /\ (d - w) * p + 0 < p  BY <1>1, <1>4c, Z3
<1>6. d - w = 0  BY <1>5, <1>2, Uniq, Z3
<1> QED BY <1>1, <1>6, Z3 DEF d

\* cancel a positive factor in an inequality
LEMMA MulLeCancel == ASSUME NEW a \in Int, NEW b \in Int, NEW p \in Int, p >= 1, a * p <= b * p
                     PROVE  a <= b
<1>1. SUFFICES ASSUME a >= b + 1 PROVE FALSE  BY Z3
<1>2. (a - b - 1) \in Int /\ (a - b - 1) >= 0 /\ p >= 0  BY <1>1, Z3
<1>3. (a - b - 1) * p >= 0  BY <1>2, MulNonneg
<1>4. (a - b - 1) * p = a * p - b * p - p /\ a * p \in Int /\ b * p \in Int  BY Z3
<1> QED BY <1>3, <1>4, Z3

THEOREM InitOK == Init => IndInv
  BY BAssump, Z3 DEF Init, IndInv, TypeOK, Pre, Window, Split, Congr, ResultOK

THEOREM StepOK == IndInv /\ [Next]_vars => IndInv'
<1> SUFFICES ASSUME IndInv, [Next]_vars PROVE IndInv'  OBVIOUS
<1> USE BAssump
<1>0. /\ n \in Int /\ ninv \in Int /\ x \in Int /\ y \in Int /\ T \in Int /\ xhi \in Int /\ xlo \in Int
      /\ Bi \in Int /\ K \in Int /\ res \in Int /\ pc \in {"loop", "done"}
      /\ n >= 1 /\ 0 <= ninv /\ ninv < B /\ ((n * ninv + 1) % B) = 0 /\ 0 <= y /\ y < n
      /\ 0 <= T /\ T < 2 * n /\ x = xhi * Bi + xlo /\ xhi >= 0
      BY DEF IndInv, TypeOK, Pre, Window, Split
<1>a. CASE Iter
  <2> DEFINE xi == xhi % B
  <2> DEFINE xq == xhi \div B
  <2> DEFINE s  == T + xi * y
  <2> DEFINE s0 == s % B
  <2> DEFINE q1 == s \div B
  <2> DEFINE u  == s0 * ninv
  <2> DEFINE m  == u % B
  <2> DEFINE q2 == u \div B
  <2> DEFINE e  == n * ninv + 1
  <2> DEFINE q3 == e \div B
  <2> DEFINE v  == s + m * n
  <2> DEFINE w  == q1 + s0 * q3 - q2 * n
  <2> HIDE DEF xi, xq, s, s0, q1, u, m, q2, e, q3, v, w
  <2>1. pc = "loop" /\ T' = v \div B /\ xhi' = xq /\ xlo' = xlo + xi * Bi /\ Bi' = Bi * B /\ K' = K + m * Bi
        /\ UNCHANGED <<n, ninv, x, y, pc, res>>
        BY <1>a DEF Iter, xi, xq, s, s0, q1, u, m, q2, e, q3, v, w
  <2>2. xhi = xq * B + xi /\ xq \in Int /\ xi \in 0..(B - 1)  BY <1>0, DivMod DEF xi, xq
  <2>3. xi * y \in Int /\ 0 <= xi * y /\ xi * y <= (B - 1) * (n - 1)
    <3>1. xi \in Int /\ 0 <= xi /\ xi <= B - 1 /\ (B - 1) \in Int /\ (n - 1) \in Int /\ 0 <= y /\ y <= n - 1
          BY <2>2, <1>0, Z3
    <3>2. xi * y <= (B - 1) * (n - 1) /\ 0 <= xi * y  BY <3>1, <1>0, MulMono
    <3> QED BY <3>1, <3>2, <1>0, Z3
  <2>4. s \in Int /\ s >= 0 /\ s = T + xi * y  BY <2>3, <1>0, Z3 DEF s
  <2>5. s = q1 * B + s0 /\ q1 \in Int /\ s0 \in 0..(B - 1)  BY <2>4, DivMod DEF s0, q1
  <2>6. u \in Int /\ u = s0 * ninv  BY <2>5, <1>0, Z3 DEF u
  <2>7. u = q2 * B + m /\ q2 \in Int /\ m \in 0..(B - 1)  BY <2>6, DivMod DEF m, q2
  <2>8. e \in Int /\ e = n * ninv + 1  BY <1>0, Z3 DEF e
  <2>9. e = q3 * B /\ q3 \in Int
    <3>1. e = q3 * B + (e % B) /\ q3 \in Int  BY <2>8, DivMod DEF q3
    <3>2. e % B = 0  BY <1>0 DEF e
    <3> QED BY <3>1, <3>2, Z3
  <2>10. m * n \in Int /\ 0 <= m * n /\ m * n <= (B - 1) * n
    <3>1. m \in Int /\ 0 <= m /\ m <= B - 1 /\ (B - 1) \in Int /\ 0 <= n /\ n <= n  BY <2>7, <1>0, Z3
    <3>2. m * n <= (B - 1) * n /\ 0 <= m * n  BY <3>1, <1>0, MulMono
    <3> QED BY <3>1, <3>2, <1>0, Z3
  <2>11. s0 \in Int /\ xi \in Int /\ m \in Int  BY <2>2, <2>5, <2>7
  <2>12. v = w * B
    <3>1. m = s0 * ninv - q2 * B  BY <2>7, <2>6, <2>11, Z3
    <3>2. n * ninv + 1 = q3 * B  BY <2>9, <2>8
    <3>3. s + (s0 * ninv - q2 * B) * n = q1 * B + s0 * (n * ninv + 1) - (q2 * n) * B
          BY <2>5, <2>7, <2>11, <1>0, Z3
    <3>4. q1 * B + s0 * (q3 * B) - (q2 * n) * B = (q1 + s0 * q3 - q2 * n) * B
          BY <2>5, <2>7, <2>9, <2>11, <1>0, Z3
    <3> QED BY <3>1, <3>2, <3>3, <3>4, <2>4 DEF v, w
  <2>13. v \in Int /\ w \in Int  BY <2>4, <2>5, <2>7, <2>9, <2>10, <2>11, <1>0, Z3 DEF v, w
  <2>14. v \div B = w  BY <2>12, <2>13, ExactDiv
  <2>15. 0 <= v /\ v <= (2 * n - 1) * B
    <3> DEFINE c1 == (B - 1) * (n - 1)
    <3> DEFINE c2 == (B - 1) * n
    <3> DEFINE c3 == (2 * n - 1) * B
    <3> DEFINE a1 == xi * y
    <3> DEFINE a2 == m * n
    <3>1. c1 + c2 + (2 * n - 1) = c3  BY <1>0, Z3
    <3>2. c1 \in Int /\ c2 \in Int /\ c3 \in Int  BY <1>0, Z3
    <3>3. a1 \in Int /\ 0 <= a1 /\ a1 <= c1 /\ a2 \in Int /\ 0 <= a2 /\ a2 <= c2  BY <2>3, <2>10
    <3>4. v = T + a1 + a2 /\ v \in Int  BY <2>4, <3>3, <1>0, Z3 DEF v
    <3>4a. T \in Int /\ n \in Int /\ 0 <= T /\ T <= 2 * n - 1  BY <1>0, Z3
    <3> HIDE DEF c1, c2, c3, a1, a2
    <3>5. 0 <= v /\ v <= c3  BY <3>1, <3>2, <3>3, <3>4, <3>4a, Z3
    <3> QED BY <3>5 DEF c3
  <2>16. 0 <= w /\ w <= 2 * n - 1
    <3>1. 0 * B <= w * B /\ w * B <= (2 * n - 1) * B  BY <2>12, <2>13, <2>15, Z3
    <3>2. 0 <= w  BY <3>1, <2>13, MulLeCancel, Z3
    <3>3. w <= 2 * n - 1  BY <3>1, <2>13, <1>0, MulLeCancel, Z3
    <3> QED BY <3>2, <3>3
  <2>17. T' = w  BY <2>1, <2>14
  <2>18. Window'  BY <2>17, <2>16, <2>13, <2>1, <1>0, Z3 DEF Window
  <2>19. Split'
    <3>1. xq * (Bi * B) + (xlo + xi * Bi) = (xq * B + xi) * Bi + xlo  BY <2>2, <2>11, <1>0, Z3
    <3>2. xq >= 0
      <4>2. SUFFICES ASSUME xq <= -1 PROVE FALSE  BY <2>2, Z3
      <4>3. (0 - xq - 1) \in Int /\ (0 - xq - 1) >= 0 /\ B >= 0  BY <4>2, <2>2, Z3
      <4>4. (0 - xq - 1) * B >= 0  BY <4>3, MulNonneg
      <4>5. (0 - xq - 1) * B = 0 - xq * B - B /\ xq * B \in Int  BY <2>2, Z3
      <4> QED BY <4>4, <4>5, <2>2, <1>0, Z3
    <3> QED BY <3>1, <3>2, <2>1, <2>2, <1>0 DEF Split
  <2>20. Congr'
    <3>1. T * Bi = xlo * y + K * n  BY <2>1 DEF IndInv, Congr
    <3>2. w * (Bi * B) = (w * B) * Bi  BY <2>13, <1>0, Z3
    <3>3. (T + xi * y + m * n) * Bi = T * Bi + (xi * Bi) * y + (m * Bi) * n  BY <2>11, <1>0, Z3
    <3>4. (xlo + xi * Bi) * y + (K + m * Bi) * n = xlo * y + K * n + (xi * Bi) * y + (m * Bi) * n  BY <2>11, <1>0, Z3
    <3>5. w * B = T + xi * y + m * n  BY <2>12, <2>4 DEF v
    <3>6. T' * Bi' = xlo' * y' + K' * n'  BY <2>1, <2>17, <3>1, <3>2, <3>3, <3>4, <3>5
    <3> QED BY <3>6, <2>1 DEF Congr
  <2>21. TypeOK'  BY <2>1, <2>2, <2>11, <2>13, <2>17, <1>0, Z3 DEF TypeOK
  <2>22. Pre' /\ ResultOK'  BY <2>1 DEF IndInv, Pre, ResultOK
  <2> QED BY <2>18, <2>19, <2>20, <2>21, <2>22 DEF IndInv
<1>b. CASE Finish
  <2>1. pc = "loop" /\ pc' = "done" /\ UNCHANGED <<n, ninv, x, y, T, xhi, xlo, Bi>>
        /\ res' = (IF T >= n THEN T - n ELSE T) /\ K' = (IF T >= n THEN K - Bi ELSE K)
        BY <1>b DEF Finish
  <2>2. T * Bi = xlo * y + K * n  BY <2>1 DEF IndInv, Congr
  <2>3. (T - n) * Bi = T * Bi - n * Bi /\ (K - Bi) * n = K * n - n * Bi  BY <1>0, Z3
  <2>4. res' * Bi' = xlo' * y' + K' * n'  BY <2>1, <2>2, <2>3, <1>0, Z3
  <2>5. 0 <= res' /\ res' < n' /\ res' \in Int /\ K' \in Int  BY <2>1, <1>0, Z3
  <2> QED BY <2>1, <2>4, <2>5 DEF IndInv, TypeOK, Pre, Window, Split, Congr, ResultOK
<1>c. CASE Done
  BY <1>c DEF Done, vars, IndInv, TypeOK, Pre, Window, Split, Congr, ResultOK
<1>d. CASE UNCHANGED vars
  BY <1>d DEF vars, IndInv, TypeOK, Pre, Window, Split, Congr, ResultOK
<1> QED BY <1>a, <1>b, <1>c, <1>d DEF Next

THEOREM Inductive == Spec => []IndInv
  BY InitOK, StepOK, PTL DEF Spec
=============================================================================
