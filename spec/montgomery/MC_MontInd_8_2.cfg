SPECIFICATION Spec
CONSTANTS W = 8
          SIZE = 2
INVARIANT IndOnOrig
INVARIANT EndAll
PROPERTY StepsMatch
PROPERTY InitMatch
CHECK_DEADLOCK FALSE
