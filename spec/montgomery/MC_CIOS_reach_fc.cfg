SPECIFICATION Spec
CONSTANTS W = 8
          SIZE = 2
INVARIANT FinalCarryUnreachable
CHECK_DEADLOCK FALSE
