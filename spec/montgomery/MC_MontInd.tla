------------------------------ MODULE MC_MontInd ------------------------------
(***************************************************************************)
(* TLC link between the word-level model MontCIOS.tla (what C07 checks)    *)
(* and the number-level restatement MontInd.tla used for the unbounded     *)
(* proof: with T = value of the window z[i .. i+SIZE] (plus the overflow   *)
(* flag after the last iteration), every step of MontCIOS is a step of     *)
(* MontInd (StepsMatch: in particular the word-level carries implement     *)
(* T' = (T + x_i y + m n) / B and the overflow correction + conditional    *)
(* subtraction implement res = T - n or T), and MontInd!IndInv holds on    *)
(* the reachable states.                                                   *)
(***************************************************************************)
EXTENDS MontCIOS, Integers

BiOf == Pow(W, i)
TofZ == IF i < SIZE THEN ValZ(z, i, i + SIZE) ELSE ValZ(z, SIZE, 2 * SIZE - 1) + (IF ovf THEN WS ELSE 0)
XhiOf == x \div BiOf
XloOf == x % BiOf
KOf == ((IF pc = "done" THEN res ELSE TofZ) * BiOf - XloOf * y) \div n

I == INSTANCE MontInd WITH B <- W, ninv <- Ninv, T <- TofZ, xhi <- XhiOf, xlo <- XloOf, Bi <- BiOf, K <- KOf

IndOnOrig == I!IndInv
StepsMatch == [][I!Next]_(I!vars)
InitMatch == I!Init
\* at the end all of x has been consumed: the partial claim of MontInd is the full ResultOK
EndAll == (pc = "done") => (XloOf = x /\ BiOf = WS)
=============================================================================
