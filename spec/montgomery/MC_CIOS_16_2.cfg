SPECIFICATION Spec
CONSTANTS W = 16
          SIZE = 2
INVARIANT ResultOK
CHECK_DEADLOCK FALSE
