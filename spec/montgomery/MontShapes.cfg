INIT Init
NEXT Next
CONSTANT MaxWords = 8
INVARIANT Emit
CHECK_DEADLOCK FALSE
