----------------------------- MODULE Stage2Trace -----------------------------
(***************************************************************************)
(* C16 (V) - group-order methods find every factor their bounds promise    *)
(* and return nothing false.                                               *)
(*                                                                         *)
(* grid   StrictC16a: Promise evaluated on the baby exponents and giant    *)
(*        multiples a real run LOGGED (hooks), for the B2 the run reports  *)
(*        (P-1: min(requested, reported)); equality with the transcribed   *)
(*        loops of Stage2Sets is drift only.                               *)
(* inst   FoundIfPromised on n = p*q built to order.  The event carries    *)
(*        certificates, all re-verified here (Witness): p prime (trial     *)
(*        division or Pocklington), the group order at p divides s*l with  *)
(*        s a product of prime powers below B1 and l a prime in            *)
(*        (B1, B2eff]; q prime and its group order divisible by a prime f  *)
(*        beyond everything the run can reach, so q is never caught and    *)
(*        "every prime factor caught at the same step" cannot happen.      *)
(*        Group models: multiplicative group (P-1), Lucas sequence         *)
(*        V_0 = 2, V_1 = s, V_2k = V_k^2 - 2, V_2k+1 = V_k V_k+1 - s on    *)
(*        the norm-1 torus (P+1), the Edwards law of C15 (ECM).            *)
(*        Strict: the run returns a split of n one part of which is p.     *)
(* split  NothingFalse for rho64 / rho / rho_impl / gcd_factors.           *)
(* expmod, cheb  the exponentiation helpers equal their definitions.       *)
(***************************************************************************)
EXTENDS BigNat, TraceLib, Certs, Stage2Sets
VARIABLE l

L(n) == INSTANCE EdwardsLaw WITH MulM <- LAMBDA x, y : MulMod(x, y, n),
                                  AddM <- LAMBDA x, y : AddMod(x, y, n),
                                  SubM <- LAMBDA x, y : SubMod(x, y, n),
                                  ZeroM <- Zero, OneM <- One

SeqSet(s) == {s[i] : i \in 1..Len(s)}
BitsMSB(k) == LET b == BitLen(k) IN [i \in 1..b |-> Bit(k, b - i)]

\* Lucas sequence V_k(s) mod n (k a BigNat), by the binary ladder on (V_j, V_j+1)
LucasV(s, k, n) ==
  LET two == Mod(FromInt(2), n)
      st == FoldLeft(LAMBDA acc, bt :
                       LET a == acc[1]  b == acc[2]
                           ab == SubMod(MulMod(a, b, n), s, n)
                       IN IF bt = 0 THEN <<SubMod(MulMod(a, a, n), two, n), ab>>
                          ELSE <<ab, SubMod(MulMod(b, b, n), two, n)>>,
                     <<two, s>>, BitsMSB(k))
  IN st[1]

RECURSIVE PowI(_, _)
PowI(r, e) == IF e = 0 THEN 1 ELSE r * PowI(r, e - 1)

-----------------------------------------------------------------------------
(* grid events *)
B2Eff(e) == IF e.m = "pm1" THEN Min2I(e.b2, e.b2rep) ELSE e.b2rep
LoOf(e) == IF Has(e, "d1") /\ e.d1 > 0 THEN Max2I(e.b1, MaxPF(e.d1)) ELSE e.b1

GridStrict(e) ==
  CASE e.m \in {"ecm", "ecm128", "pp1"} -> PromisePM(SeqSet(e.giants), SeqSet(e.babies), e.d1, LoOf(e), B2Eff(e))
    [] e.m = "pm1" /\ e.kind = "poly"  -> PromiseMinus(Pm1PolyGiantsLogged(e.nvals), SeqSet(e.babies), e.d1, LoOf(e), B2Eff(e))
    [] e.m = "pm1" /\ e.kind = "walk"  -> PromiseWalk(SeqSet(e.walk), e.b1, B2Eff(e))
    [] e.m = "pm1b" -> e.first <= e.last
    [] OTHER -> FALSE

GridModel(e) ==
  CASE e.m \in {"ecm", "ecm128"} -> SeqSet(e.babies) = EcmBabies(e.d1) /\ SeqSet(e.giants) = EcmGiants(e.d2)
    [] e.m = "pp1" -> SeqSet(e.babies) = Pp1Babies(e.d1) /\ SeqSet(e.giants) = Pp1Giants(e.d2)
    [] e.m = "pm1" /\ e.kind = "poly" ->
         SeqSet(e.babies) = Pm1PolyBabies(e.d1) /\ Pm1PolyGiantsLogged(e.nvals) = Pm1PolyGiants(e.d1, e.d2)
    [] e.m = "pm1b" -> e.first = 503
    [] OTHER -> TRUE

-----------------------------------------------------------------------------
(* constructed instances *)
SfacOK(e) ==
  /\ \A i \in 1..Len(e.sfac) : IsPrimeI(e.sfac[i][1]) /\ e.sfac[i][2] >= 1 /\ PowI(e.sfac[i][1], e.sfac[i][2]) < e.b1
  /\ e.s = Prod([i \in 1..Len(e.sfac) |-> FromInt(PowI(e.sfac[i][1], e.sfac[i][2]))])

Reach(e) == Max2I(Max2I(4 * e.d1 * (e.d2 + 2), 4 * e.b2rep), Max2I(4 * e.b2, e.b1))

CommonCert(e) ==
  /\ ChainOK(e.pchain) /\ ChainPrime(e.pchain) = e.p
  /\ IsPrimeI(e.q) /\ IsPrimeI(e.l) /\ IsPrimeI(e.f)
  /\ Mul(e.p, FromInt(e.q)) = e.n /\ e.p # FromInt(e.q)
  /\ e.b1 > 3 /\ e.l > LoOf(e) /\ e.l <= B2Eff(e)
  /\ SfacOK(e)
  /\ e.f > Reach(e)

IdClean(R) == R[1] = Zero /\ R[2] = R[3] /\ R[3] # Zero
NonIdClean(R) == R[3] # Zero /\ ~(R[1] = Zero /\ R[2] = R[3])
RedP(P, m) == <<Mod(P[1], m), Mod(P[2], m), Mod(P[3], m)>>
CurveMod(e, m) == [a |-> Sub(m, One), d |-> Mod(e.d, m)]
EMul(e, m, k, P) == L(m)!ScalarMul(CurveMod(e, m), BitsMSB(k), RedP(P, m))

MethodCert(e) ==
  LET q == FromInt(e.q)
      lb == FromInt(e.l)
  IN
  CASE e.m \in {"pm1", "pm1b"} ->
         /\ Sub(e.p, One) = Mul(e.s, lb)
         /\ (e.q - 1) % e.f = 0
         /\ PowMod(FromInt(2), FromInt((e.q - 1) \div e.f), q) # One
         /\ (e.m = "pm1b" => (e.budget >= 1024 /\ e.l >= 503 /\ e.l <= e.lastrun /\ e.b1 <= 500))
    [] e.m = "pp1" ->
         LET sd == FromInt(e.seed)
             disc == Mod(Sub(Mul(sd, sd), FromInt(4)), e.p)
             nq == e.q + e.qsign
         IN
         /\ Add(e.p, One) = Mul(e.s, lb)
         /\ e.seed > 2
         /\ PowMod(disc, Shr(Sub(e.p, One), 1), e.p) = Sub(e.p, One)          \* seed^2 - 4 is a non-residue mod p
         /\ e.qsign \in {1, -1} /\ nq % e.f = 0
         /\ LucasV(Mod(sd, q), FromInt(nq), q) = FromInt(2)
         /\ LucasV(Mod(sd, q), FromInt(nq \div e.f), q) # FromInt(2)
    [] e.m \in {"ecm", "ecm128"} ->
         /\ L(e.n)!OnCurve([a |-> Sub(e.n, One), d |-> e.d], e.g)
         /\ IdClean(EMul(e, e.p, Mul(e.s, lb), e.g))                          \* the order at p divides s * l
         /\ e.s[1] % 4 = 0                                                    \* (s even: the stage-1 test sees x = 0 for order 2 too)
         /\ IdClean(EMul(e, q, FromInt(e.qc * e.f), e.g))
         /\ NonIdClean(EMul(e, q, FromInt(e.qc), e.g))                        \* f divides the order at q
    [] OTHER -> FALSE

PartsOK(n, parts) == /\ Len(parts) >= 2
                     /\ \A i \in 1..Len(parts) : Gt(parts[i], One)
                     /\ Prod(parts) = n

FoundIfPromised(e) == e.some /\ PartsOK(e.n, e.parts) /\ \E i \in 1..Len(e.parts) : e.parts[i] = e.p

-----------------------------------------------------------------------------
(* splits *)
SplitStrict(e) ==
  IF ~e.some THEN TRUE
  ELSE IF e.via = "gcd_factors"
       THEN /\ Prod(e.parts) = e.n
            /\ \A i \in 1..e.nfac : Gt(e.parts[i], One)
            /\ e.parts[Len(e.parts)] # Zero
            \* "separates p unless caught at the same step": the values are cumulative products in which the
            \* known prime e.primes[j] enters at position e.pos[j]; a returned factor may only combine primes
            \* that entered at the same position
            /\ \A k \in 1..e.nfac : \A i, j \in 1..Len(e.primes) :
                  (Divides(e.primes[i], e.parts[k]) /\ Divides(e.primes[j], e.parts[k])) => e.pos[i] = e.pos[j]
       ELSE PartsOK(e.n, e.parts)
\* a batch of calls (one event = a few hundred numbers): every answer is a proper split
SplitsStrict(e) ==
  /\ Len(e.rs) = Len(e.ns)
  /\ \A i \in 1..Len(e.ns) : e.rs[i].some => PartsOK(e.ns[i], e.rs[i].parts)
\* documented contract of gcd_factors: product of the factors = gcd(n, last) / gcd(n, first)
SplitModel(e) ==
  e.via = "gcd_factors" =>
     Mul(Prod(SubSeq(e.parts, 1, e.nfac)), Gcd(e.n, e.first)) = Gcd(e.n, e.last)

-----------------------------------------------------------------------------
Ok(e) ==
  CASE e.op = "row"  -> TRUE
    [] e.op = "grid" -> GridStrict(e)
    [] e.op = "inst" -> FoundIfPromised(e)
    [] e.op = "split" -> SplitStrict(e)
    [] e.op = "splits" -> SplitsStrict(e)
    [] e.op = "expmod" -> e.r = PowMod(e.g, e.e, e.n)
    [] e.op = "cheb" -> e.r = LucasV(e.g, e.e, e.n)
    [] OTHER -> FALSE

Certified(e) ==
  CASE e.op = "inst" -> CommonCert(e) /\ MethodCert(e)
    [] e.op = "grid" -> ~Has(e, "nogrid") \/ Has(e, "outcome")
    [] OTHER -> TRUE

Model(e) ==
  CASE e.op = "grid" -> GridModel(e)
    [] e.op = "split" -> (e.some => SplitModel(e))
    [] OTHER -> TRUE

Accept(e) == IF Has(e, "outcome") THEN FALSE ELSE Ok(e)

Init == l = 1
Next == /\ l <= NRec /\ l' = l + 1
        /\ LET e == Rec[l]
               cert == Certified(e) IN
           /\ Witness(l, e.op, cert)
           /\ Strict(l, e.op, cert => Accept(e))
           /\ Drift(l, e.op, (cert /\ ~Has(e, "outcome")) => Model(e))
Spec == Init /\ [][Next]_l
=============================================================================
