----------------------------- MODULE Stage2Sets -----------------------------
(***************************************************************************)
(* C16 - stage-2 coverage over small integers.                             *)
(*                                                                         *)
(* A stage-2 run looks for one further prime l in the group order by       *)
(* comparing "giant" multiples k*d1 with "baby" exponents b: the prime l   *)
(* is caught iff l divides some k*d1 + b or k*d1 - b that the run forms    *)
(* (P-1 chirp-z: k*d1 - b only; the P-1 prime walk: the primes visited).   *)
(* Promise(C, lo, hi): every prime in (lo, hi] is caught by the set C of   *)
(* formed values.  The baby/giant sets below are transcriptions of the     *)
(* loops of ecm.rs / ecm128.rs / pp1.rs / pollard_pm1.rs (used by the      *)
(* model Stage2Grid and, as "drift" reference, by the trace specification, *)
(* which judges the sets the real runs LOG).                               *)
(***************************************************************************)
EXTENDS Naturals, Integers, Sequences, FiniteSets

RECURSIVE GcdI(_, _)
GcdI(x, y) == IF y = 0 THEN x ELSE GcdI(y, x % y)

\* n a TLC integer below 2^31
IsPrimeI(n) ==
  /\ n >= 2
  /\ (n < 4 \/ (n % 2 # 0 /\ \A k \in 1..23170 : LET d == 2 * k + 1 IN d > n \div d \/ n % d # 0))

RECURSIVE MaxPFFrom(_, _)
MaxPFFrom(n, d) == IF n = 1 THEN 1
                   ELSE IF d * d > n THEN n
                   ELSE IF n % d = 0 THEN LET r == MaxPFFrom(n \div d, d) IN IF r > d THEN r ELSE d
                   ELSE MaxPFFrom(n, d + 1)
MaxPF(n) == MaxPFFrom(n, 2)               \* largest prime factor

Max2I(a, b) == IF a >= b THEN a ELSE b
Min2I(a, b) == IF a <= b THEN a ELSE b

-----------------------------------------------------------------------------
(* formed values; G (giant multiples) and Bs (baby exponents) are finite sets of naturals *)
SetMaxI(S) == IF S = {} THEN 0 ELSE CHOOSE x \in S : \A y \in S : x >= y
AbsI(x) == IF x >= 0 THEN x ELSE 0 - x

\* is l = k*d1 + b or k*d1 - b for some k in G, b in Bs?  InG / InB are characteristic functions (constant
\* time look-ups: TLC's set membership on large enumerated sets is linear)
CharFn(S, hi) == [x \in 0..hi |-> x \in S]
HitPM(l, InG, InB, d1, maxk, maxb) ==
  LET span == (maxb \div d1) + 1
      k0   == l \div d1
  IN \E k \in Max2I(0, k0 - span)..Min2I(maxk, k0 + span + 1) :
        InG[k] /\ LET b == AbsI(l - k * d1) IN b <= maxb /\ InB[b] /\ (k > 0 \/ l = b)
HitMinus(l, InG, InB, d1, maxk, maxb) ==
  LET span == (maxb \div d1) + 1
      k0   == l \div d1
  IN \E k \in Max2I(1, k0)..Min2I(maxk, k0 + span + 1) :
        InG[k] /\ LET b == k * d1 - l IN b >= 0 /\ b <= maxb /\ InB[b]

\* Hit(_) says whether a value is formed; reach = the largest formed value
Caught(Hit(_), l, reach) == Hit(l) \/ \E j \in 2..(reach \div l) : Hit(j * l)
\* cheap sieve first: most numbers are discarded before the grid is consulted
SmallFactor(l) == l > 7 /\ (l % 2 = 0 \/ l % 3 = 0 \/ l % 5 = 0 \/ l % 7 = 0)
Promise(Hit(_), lo, hi, reach) == \A l \in (lo + 1)..hi : SmallFactor(l) \/ Hit(l) \/ ~IsPrimeI(l) \/ Caught(Hit, l, reach)
Uncovered(Hit(_), lo, hi, reach) == {l \in (lo + 1)..hi : ~SmallFactor(l) /\ ~Hit(l) /\ IsPrimeI(l) /\ ~Caught(Hit, l, reach)}

\* the three grid shapes, from sets
PromisePM(G, Bs, d1, lo, hi) ==
  LET maxk == SetMaxI(G)  maxb == SetMaxI(Bs)
      InG == CharFn(G, maxk)  InB == CharFn(Bs, maxb)
  IN Promise(LAMBDA l : HitPM(l, InG, InB, d1, maxk, maxb), lo, hi, maxk * d1 + maxb)
UncoveredPM(G, Bs, d1, lo, hi) ==
  LET maxk == SetMaxI(G)  maxb == SetMaxI(Bs)
      InG == CharFn(G, maxk)  InB == CharFn(Bs, maxb)
  IN Uncovered(LAMBDA l : HitPM(l, InG, InB, d1, maxk, maxb), lo, hi, maxk * d1 + maxb)
PromiseMinus(G, Bs, d1, lo, hi) ==
  LET maxk == SetMaxI(G)  maxb == SetMaxI(Bs)
      InG == CharFn(G, maxk)  InB == CharFn(Bs, maxb)
  IN Promise(LAMBDA l : HitMinus(l, InG, InB, d1, maxk, maxb), lo, hi, maxk * d1)
UncoveredMinus(G, Bs, d1, lo, hi) ==
  LET maxk == SetMaxI(G)  maxb == SetMaxI(Bs)
      InG == CharFn(G, maxk)  InB == CharFn(Bs, maxb)
  IN Uncovered(LAMBDA l : HitMinus(l, InG, InB, d1, maxk, maxb), lo, hi, maxk * d1)
PromiseWalk(W, lo, hi) ==
  LET mx == SetMaxI(W)  InW == CharFn(W, mx)
  IN Promise(LAMBDA l : l <= mx /\ InW[l], lo, hi, mx)

-----------------------------------------------------------------------------
(* transcription of the loops *)
\* ecm.rs / ecm128.rs: for b in 1..d1/2 { if gcd(b, d1) == 1 { bs.push(b) } };  dg, dg2, then for _ in 2..d2
EcmBabies(d1) == {b \in 1..((d1 \div 2) - 1) : GcdI(b, d1) = 1}
EcmGiants(d2) == {1, 2} \cup {k \in 3..d2 : TRUE}
\* pp1.rs: exp = 1; while exp + 2 < d1/2 { exp += 2; if exp % 3 != 0 && gcd(exp, d1) == 1 {push} };  two, dg, for _ in 2..=d2
Pp1Babies(d1) == {1} \cup {x \in 3..((d1 \div 2) - 1) : x % 2 = 1 /\ x % 3 # 0 /\ GcdI(x, d1) = 1}
Pp1Giants(d2) == {0, 1} \cup {k \in 2..d2 : TRUE}
\* pollard_pm1.rs chirp-z: b = 1; while b < d1 { b += 2; if b % 3 == 0 || gcd(b, d1) != 1 {continue}; push };
\* the convolution of size d2 yields P(g^(k d1)) for k = 0 .. d2 - len(P), len(P) = #babies + 1
Pm1PolyBabies(d1) == {1} \cup {b \in 3..(d1 + 1) : b % 2 = 1 /\ b % 3 # 0 /\ GcdI(b, d1) = 1}
Pm1PolyGiants(d1, d2) == 0..(d2 - (Cardinality(Pm1PolyBabies(d1)) + 1))
\* giant multiples from what the run logged: nvals values were kept, the first is overwritten
Pm1PolyGiantsLogged(nvals) == 0..(nvals - 2)
=============================================================================
