SPECIFICATION Spec
INVARIANT RowReport
CHECK_DEADLOCK FALSE
