----------------------------- MODULE Stage2Grid -----------------------------
(***************************************************************************)
(* C16 (M) - for every row (B2, d1, d2) of both stage-2 parameter tables   *)
(* of the code (the rows are read from the file named by ROWS, which the   *)
(* harness dumps from the real tables) and every method using that table,  *)
(* the grid the method's loops build (transcribed in Stage2Sets) covers    *)
(* every prime in (B1, B2] where B2 is the value the row reports and B1    *)
(* the smallest admissible bound (at least the largest prime factor of     *)
(* d1).  One state per row, one successor per method.  A row that fails is printed         *)
(* (<<"ROWFAIL", ...>>) with the uncovered band: this is where an          *)
(* off-by-one in an index range, or a table value rounded above what the   *)
(* grid reaches, shows.                                                    *)
(***************************************************************************)
EXTENDS Stage2Sets, TLC, Json, IOUtils

Rows == ndJsonDeserialize(IOEnv.ROWS)

MethodsOf(r) == IF r.table = "params" THEN {"ecm", "ecm128", "pp1"}
                ELSE IF r.poly THEN {"pm1poly"} ELSE {}

Unc(m, r, lo, hi) ==
  CASE m \in {"ecm", "ecm128"} -> UncoveredPM(EcmGiants(r.d2), EcmBabies(r.d1), r.d1, lo, hi)
    [] m = "pp1"               -> UncoveredPM(Pp1Giants(r.d2), Pp1Babies(r.d1), r.d1, lo, hi)
    [] m = "pm1poly"           -> UncoveredMinus(Pm1PolyGiants(r.d1, r.d2), Pm1PolyBabies(r.d1), r.d1, lo, hi)

B1Of(r) == Max2I(16, MaxPF(r.d1))

VARIABLES i, m
vars == <<i, m>>
\* two levels (row, then method) so that TLC's workers share the rows
Init == i \in 1..Len(Rows) /\ m = "none"
Next == m = "none" /\ m' \in MethodsOf(Rows[i]) /\ i' = i
Spec == Init /\ [][Next]_vars

\* reporting invariant: always TRUE, prints the uncovered band of a failing row
RowReport ==
  LET r == Rows[i]
      u == Unc(m, r, B1Of(r), r.b2)
  IN IF m = "none" THEN TRUE ELSE
     IF u = {} THEN PrintT(<<"ROWOK", m, r.b2, r.d1, r.d2>>)
     ELSE PrintT(<<"ROWFAIL", m, r.b2, r.d1, r.d2, Cardinality(u), SetMaxI({0 - x : x \in u}), SetMaxI(u)>>)
\* the invariant proper
RowPromise == m # "none" => Unc(m, Rows[i], B1Of(Rows[i]), Rows[i].b2) = {}
=============================================================================
