SPECIFICATION Spec
CONSTANTS Limit = 1048576  BlockSize = 4096  T1 = 1048576  Tier1 = {2, 3}
INVARIANT ModelExact
CHECK_DEADLOCK FALSE
