---------------------------- MODULE PrimalityTrace ----------------------------
(***************************************************************************)
(* C06 - primality decisions are exact on 64 bits and one-sided above.     *)
(*                                                                         *)
(* "p is prime" is never taken from the library.  It is                    *)
(*   - computed here (own table of primes below 2^16, trial division) for  *)
(*     p < 2^31,                                                           *)
(*   - or established by a witness the harness attached and this module    *)
(*     verifies: a non-trivial divisor (composite) or a Pocklington chain  *)
(*     down to a prime below 2^31 (prime).  A witness that does not verify *)
(*     is a tool error, never a verdict.                                   *)
(*                                                                         *)
(*  isprime_block  n consecutive integers from lo (< 2^31): r64 / rmp are  *)
(*                 the offsets for which isprime64 / pseudoprime answered  *)
(*                 true: both must be exactly the primes of the block.     *)
(*  isprime64      one p < 2^64: isprime64(p) = (p is prime) and           *)
(*                 pseudoprime(p) = isprime64(p).                          *)
(*  pseudoprime    one p >= 2^64: prime => true; even => false; composite  *)
(*                 of a listed family (Carmichael by Korselt's criterion,  *)
(*                 psi_k, p(2p-1), p(3p-2), (6k+1)(12k+1)(18k+1)) => false.*)
(*                 Other composites accepted would only be a note.         *)
(***************************************************************************)
EXTENDS BigNat, TraceLib, Certs, SieveDefs06
VARIABLE l

ASSUME P256 = {p \in 2..255 : IsPrimeDef(p)}
ASSUME \A n \in (0..1000) \cup (65000..65535) : (n \in SmallPrimeSet) <=> IsPrimeDef(n)

P2048 == Sorted({q \in SmallPrimeSet : q < 2048})
\* n a TLC integer < 2^31
IsPrime31(n) ==
  IF n < W16 THEN n \in SmallPrimeSet
  ELSE IF n < 4194304 THEN \A p \in P2048 : n % p # 0
  ELSE \A p \in SmallPrimeSet : p > n \div p \/ n % p # 0

SeqSet(s) == { s[i] : i \in 1..Len(s) }
Two64 == Pow2(64)

\* ---- witnesses
WitnessOK(e) ==
  CASE e.wit.kind = "small" -> e.p = FromInt(e.wit.ps) /\ e.wit.ps < 2147483647
    [] e.wit.kind = "div"   -> CompositeBy(e.p, e.wit.d)
    [] e.wit.kind = "chain" -> ChainOK(e.wit.chain) /\ ChainPrime(e.wit.chain) = e.p
    [] OTHER -> FALSE
Truth(e) ==
  CASE e.wit.kind = "small" -> IsPrime31(e.wit.ps)
    [] e.wit.kind = "div"   -> FALSE
    [] e.wit.kind = "chain" -> TRUE
    [] OTHER -> FALSE

\* ---- composite families (structure verified here from the logged factors fs)
Korselt(n, fs) ==
  /\ Len(fs) >= 3 /\ Prod(fs) = n
  /\ \A i \in 1..Len(fs) : \A j \in 1..Len(fs) : i # j => fs[i] # fs[j]
  /\ \A i \in 1..Len(fs) : Gt(fs[i], One) /\ Mod(Sub(n, One), Sub(fs[i], One)) = <<>>
FamilyOK(e) ==
  LET n == e.p  fs == e.fs IN
  CASE e.fam = "p2p1"       -> Len(fs) = 2 /\ fs[2] = Sub(MulSmall(fs[1], 2), One) /\ Mul(fs[1], fs[2]) = n
    [] e.fam = "p3p2"       -> Len(fs) = 2 /\ fs[2] = Sub(MulSmall(fs[1], 3), FromInt(2)) /\ Mul(fs[1], fs[2]) = n
    [] e.fam = "chernick"   -> /\ Len(fs) = 3 /\ ModSmall(fs[1], 6) = 1
                               /\ fs[2] = Sub(MulSmall(fs[1], 2), One) /\ fs[3] = Sub(MulSmall(fs[1], 3), FromInt(2))
                               /\ Prod(fs) = n
    [] e.fam = "carmichael" -> Korselt(n, fs)
    [] e.fam = "psi"        -> Len(fs) = 2 /\ fs[2] = Sub(MulSmall(fs[1], 2), One) /\ Mul(fs[1], fs[2]) = n
    [] OTHER -> TRUE
Listed == {"p2p1", "p3p2", "chernick", "carmichael", "psi"}

Verdict(i, e) ==
  IF Has(e, "outcome") THEN Strict(i, e.op, FALSE)          \* a call that panics or does not return is rejected
  ELSE
  CASE e.op = "isprime_block" ->
         LET exp == { k \in 0..(e.n - 1) : IsPrime31(e.lo + k) } IN
         /\ Strict(i, "isprime64.block", SeqSet(e.r64) = exp)
         /\ Strict(i, "pseudoprime.block", SeqSet(e.rmp) = exp)
    [] e.op = "isprime64" ->
         /\ Witness(i, "isprime64.witness", WitnessOK(e) /\ Lt(e.p, Two64))
         /\ Strict(i, "isprime64.exact", e.r64 = Truth(e))
         /\ Strict(i, "pseudoprime.agrees", e.rmp = e.r64)
    [] e.op = "pseudoprime" ->
         /\ Witness(i, "pseudoprime.witness", WitnessOK(e) /\ Ge(e.p, Two64) /\ e.wit.kind # "small")
         /\ Witness(i, "pseudoprime.family", e.wit.kind = "div" /\ e.fam \in Listed => FamilyOK(e))
         /\ Strict(i, "pseudoprime.prime_rejected", e.wit.kind = "chain" => e.r)
         /\ Strict(i, "pseudoprime.even_accepted", IsEven(e.p) => ~e.r)
         /\ Strict(i, "pseudoprime.listed_composite_accepted", (e.wit.kind = "div" /\ e.fam \in Listed) => ~e.r)
         /\ Drift(i, "pseudoprime.composite_accepted", e.wit.kind = "div" => ~e.r)
    [] OTHER -> Strict(i, "unknown op", FALSE)

Init == l = 1
Next == l <= NRec /\ l' = l + 1 /\ Verdict(l, Rec[l])
Spec == Init /\ [][Next]_l
=============================================================================
