----------------------------- MODULE SieveDefs06 -----------------------------
(***************************************************************************)
(* The specification's own prime numbers, from the definition.             *)
(*                                                                         *)
(*   SmallPrimeSet     the primes below 2^16: integers of 2..65535 that    *)
(*                     are not a product p*j, j >= 2, of a prime p < 256   *)
(*                     (P256 itself is filtered by the bare definition);   *)
(*   SegPrimeIdx(b)    for 0 <= b < 2^16, the offsets i in 0..65535 such   *)
(*                     that b*2^16 + i is prime: an offset is struck out   *)
(*                     iff it is o_p + j*p for a prime p < 2^16, o_p the   *)
(*                     least offset with p | b*2^16 + o_p (b >= 1, so the  *)
(*                     multiple is never p itself).  Every composite below *)
(*                     2^32 has a prime factor below 2^16.                 *)
(*                                                                         *)
(* Nothing here comes from the code under test.  Values of a block with    *)
(* b >= 2^15 exceed TLC's 32-bit integers, hence offsets and the residue   *)
(* b*2^16 mod p computed in two steps of 8 bits.                           *)
(* The set constructors are tiered by the size of p only so that the       *)
(* number of (p, j) pairs TLC enumerates stays near 10 * 65536 per block.  *)
(***************************************************************************)
EXTENDS Naturals, Sequences, FiniteSets, TLC

\* Identity on finite sets.  (TLC keeps a constructed set as an unsorted list until something needs it
\* sorted; asking for the cardinality sorts it in place, after which membership is a binary search.)
Sorted(S) == IF Cardinality(S) >= 0 THEN S ELSE {}

W16 == 65536

P256 == {p \in 2..255 : \A d \in 2..(p - 1) : p % d # 0}

SmallPrimeSet ==
  LET ca == Sorted({ IF p * j < W16 THEN p * j ELSE 4 : p \in {q \in P256 : q < 16}, j \in 2..32767 })
      cb == Sorted({ IF p * j < W16 THEN p * j ELSE 4 : p \in {q \in P256 : q >= 16}, j \in 2..4095 })
  IN Sorted({ n + 0 : n \in {m \in 2..(W16 - 1) : m \notin ca /\ m \notin cb} })

\* (b * 2^16) mod p for 0 <= b < 2^16, 2 <= p < 2^16, all intermediate values below 2^24
Mod16(b, p) == ((((b % p) * 256) % p) * 256) % p

Struck(b, lo, hi, jmax) ==
  Sorted({ LET o == (p - Mod16(b, p)) % p
               v == o + j * p
           IN IF v < W16 THEN v ELSE W16
           : p \in {q \in SmallPrimeSet : lo <= q /\ q < hi}, j \in 0..jmax })

SegPrimeIdx(b) ==
  IF b = 0 THEN SmallPrimeSet
  ELSE LET c1 == Struck(b, 2, 16, 32767)
           c2 == Struck(b, 16, 256, 4095)
           c3 == Struck(b, 256, 2048, 255)
           c4 == Struck(b, 2048, W16, 31)
       IN Sorted({ i + 0 : i \in {k \in 0..(W16 - 1) : k \notin c1 /\ k \notin c2 /\ k \notin c3 /\ k \notin c4} })

\* direct definition, for cross-checking the above on small arguments (ASSUME in the users of this module)
\* (n < 2^16: a composite n has a divisor d with 2 <= d <= 255)
IsPrimeDef(n) == n >= 2 /\ \A d \in 2..255 : d >= n \/ n % d # 0
=============================================================================
