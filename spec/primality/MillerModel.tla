----------------------------- MODULE MillerModel -----------------------------
(***************************************************************************)
(* C06 (M) - model of the tiered Miller test of isprime64.                 *)
(*                                                                         *)
(* Miller(n, b) transcribes the closure `miller` of lib.rs (b^podd, then   *)
(* tz squarings with the two early exits); IsPrime64Model(n) the table     *)
(* lookup below 199, the even test and the tiers {2,3} | +{5,7,11} above   *)
(* T1 | +{13..37} above T2 (thresholds are constants: 2^20, 2^40).         *)
(* Checked: for every n of the range the model answers exactly             *)
(* "n is prime" (trial division).  With the range below T1 this is the     *)
(* design fact the first threshold rests on: bases 2 and 3 alone decide    *)
(* every integer below T1 (the least strong pseudoprime to 2 and 3 is      *)
(* 1373653 > 2^20).  The other thresholds rest on published values.        *)
(* The range is cut into blocks so that TLC's workers share the work.      *)
(***************************************************************************)
EXTENDS Naturals, Sequences, FiniteSets, TLC
CONSTANTS Limit,      \* check every n < Limit   (Limit <= 2^20: products stay below 2^31)
          BlockSize, T1,
          Tier1       \* the bases used below T1: {2, 3} in the code
VARIABLES blk, ok

SmallTable == {n \in 2..199 : \A d \in 2..(n - 1) : n % d # 0}      \* fbase::SMALL_PRIMES (46 primes, last 199)

\* a*b mod n for a, b < n <= 2^20 without exceeding 2^31
MulMod(a, b, n) == (((a * (b \div 1024)) % n) * 1024 + a * (b % 1024)) % n

RECURSIVE PowAcc(_, _, _, _)
PowAcc(x, sq, e, n) ==                     \* while exp > 0 { if exp & 1 { x = x*sq }; sq = sq*sq; exp /= 2 }
  IF e = 0 THEN x
  ELSE PowAcc(IF e % 2 = 1 THEN MulMod(x, sq, n) ELSE x, MulMod(sq, sq, n), e \div 2, n)

RECURSIVE Tz(_)
Tz(m) == IF m % 2 = 1 THEN 0 ELSE 1 + Tz(m \div 2)
RECURSIVE Shr(_, _)
Shr(m, k) == IF k = 0 THEN m ELSE Shr(m \div 2, k - 1)

RECURSIVE SquareLoop(_, _, _, _)
SquareLoop(pow, k, n, okSoFar) ==          \* for _ in 0..tz { pow = pow^2; if pow == -1 {ok = true; break} else if pow == 1 {break} }
  IF k = 0 THEN okSoFar
  ELSE LET p2 == MulMod(pow, pow, n) IN
       IF p2 = n - 1 THEN TRUE ELSE IF p2 = 1 THEN okSoFar ELSE SquareLoop(p2, k - 1, n, okSoFar)

Miller(n, b) ==
  LET tz == Tz(n - 1)
      podd == Shr(n, tz)                   \* the code shifts p, not p - 1: same value, p is odd
      pow == PowAcc(1, b % n, podd, n)
  IN SquareLoop(pow, tz, n, pow = 1 \/ pow = n - 1)

IsPrime64Model(n) ==
  IF n < 199 THEN n \in SmallTable
  ELSE IF n % 2 = 0 THEN FALSE
  ELSE /\ \A b \in Tier1 : Miller(n, b)
       /\ (n >= T1 => \A b \in {5, 7, 11} : Miller(n, b))

IsPrimeDef(n) == n >= 2 /\ \A d \in 2..1024 : d >= n \/ n % d # 0          \* n < 2^20

NBlocks == (Limit + BlockSize - 1) \div BlockSize
Init == blk \in 0..(NBlocks - 1) /\ ok = "todo"
Next == /\ ok = "todo"
        /\ ok' = IF \A n \in (blk * BlockSize)..(blk * BlockSize + BlockSize - 1) :
                      n >= Limit \/ (IsPrime64Model(n) <=> IsPrimeDef(n))
                 THEN "yes" ELSE "no"
        /\ UNCHANGED blk
Spec == Init /\ [][Next]_<<blk, ok>>
ModelExact == ok # "no"
=============================================================================
