SPECIFICATION Spec
CONSTANTS Limit = 65536  BlockSize = 1024  T1 = 1048576  Tier1 = {2, 3}
INVARIANT ModelExact
CHECK_DEADLOCK FALSE
