SPECIFICATION Spec
INVARIANT NeverFails
CHECK_DEADLOCK FALSE
