INIT Init
NEXT Next
CONSTANT Prop = "C01"
CONSTANT Thorough = TRUE
INVARIANT Emit
CHECK_DEADLOCK FALSE
