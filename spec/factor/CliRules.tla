------------------------------ MODULE CliRules ------------------------------
(***************************************************************************)
(* Constant-level rules of the command-line layer shared by the model      *)
(* (Cli.tla, where the invariant RefusalDeclared ties them to the steps of *)
(* main()) and by the trace specification (CliTrace.tla).                  *)
(***************************************************************************)
\* which refusal an argument class gets (the order of the checks in main())
Expected(a) ==
  IF a.help \/ a.orphans # 1 THEN {"usage"}
  ELSE IF a.num = "garbage" \/ a.size = "gt1024" THEN {"number"}
  \* above the limit: refused by the guard of main() - or, should main() hand it over, by the library's own up-front
  \* refusal (its failure value); never answered
  ELSE IF a.size = "gt500" THEN {"size", "failure"}
  ELSE IF a.verb = "bogus" THEN {"verbosity"}
  ELSE IF a.mode = "bogus" THEN {"mode"}
  ELSE {"answer", "failure"}

\* exit status that goes with an outcome
StatusOf(w) == IF w \in {"usage", "answer"} THEN 0 ELSE 101
=============================================================================
