SPECIFICATION Spec
INVARIANT TypeOK
INVARIANT RefusalSilent
INVARIANT AnswerComplete
INVARIANT UsageSilent
INVARIANT GuardFirst
INVARIANT RefusalDeclared
PROPERTY Terminates
CHECK_DEADLOCK FALSE
