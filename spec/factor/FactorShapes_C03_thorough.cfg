INIT Init
NEXT Next
CONSTANT Prop = "C03"
CONSTANT Thorough = TRUE
INVARIANT Emit
CHECK_DEADLOCK FALSE
