SPECIFICATION Spec
CONSTANTS
 MaxOmega = 4
 Selectors = {"auto"}
 RhoMayFail = FALSE
 LiarPseudoprime = FALSE
 Lucky = TRUE
 AllowAbort = TRUE
 MaxDivs = 2
INVARIANTS ProductInv LevelsMatch ResultShape Measure DepthBound NoDeadBranch AutoComplete
PROPERTY Termination
CHECK_DEADLOCK FALSE
