INIT Init
NEXT Next
CONSTANT Prop = "C02"
CONSTANT Thorough = FALSE
INVARIANT Emit
CHECK_DEADLOCK FALSE
