---------------------------- MODULE FactorShapes ----------------------------
(***************************************************************************)
(* Input space of the C01 / C02 / C03 drivers: the constrained product     *)
(*   shape x bit-length class x selector x preferences                     *)
(* printed by TLC, one JSON record per state.  The harness only            *)
(* concretises a record with seeded random primes (certified pool), so     *)
(* this module is the single statement of what is driven through factor(). *)
(*                                                                         *)
(* `bits` bounds the part of n that survives the entry point's own trial   *)
(* division by the 46 primes below 200, which is what the size             *)
(* preconditions of Rho / Squfof / Qs64 (asserted on the reduced n) and    *)
(* the working ranges of DESIGN 3/C02 speak about.                         *)
(***************************************************************************)
EXTENDS Naturals, TLC, Json
CONSTANTS Prop,      \* "C01" | "C02" | "C03"
          Thorough   \* BOOLEAN
VARIABLE s

Algs == {"auto", "rho", "squfof", "qs64", "pm1", "ecm", "ecm128", "qs", "mpqs", "siqs"}
Word64Algs == {"rho", "squfof", "qs64"}     \* asserted precondition: reduced n <= 64 bits
QsAlgs == {"qs", "mpqs", "siqs"}

\* shapes whose prime factorisation is known by construction (pool primes > 200 unless said otherwise)
Generic == {"prime", "p2", "pk", "pq", "pq13", "closepq", "p2q", "p2q2", "pqr",
            "smallpq",      \* 5..8 primes < 200 times pq
            "fbcollide",    \* one prime factor in 200..2000 times pq
            "p3q",          \* p^3 * q with p a prime in 200..1000 (inside every factor base): the sieve's divisors
                            \* split p^3 unevenly and the divisor-combination loop meets factors it cannot split
            "twotiny"}      \* 2..3 distinct primes in 211..400 (just above trial division, p-1 very smooth: caught
                            \* together at the same gcd step of P-1 / ECM stage 1) times one large prime
\* special values (no bit-length dimension of their own: bits is the exponent / size where it applies)
Special == {"zero", "one", "two", "pow2", "smooth", "le200sq"}
\* word-boundary values 2^bits - d, 2^bits + d, 2^bits - 1 (factorisation not known by construction)
Boundary == {"wbminus", "wbplus", "ones"}

NoPref == [threads |-> 0, fb |-> 0, lf |-> 0, dbl |-> 0, isz |-> 0]
\* fb: 0 none, 1 = half the default factor base, 2 = twice; lf: large-prime multiplier; dbl: 0 none 1 true 2 false;
\* isz: interval size
P(t, f, l, d, i) == [threads |-> t, fb |-> f, lf |-> l, dbl |-> d, isz |-> i]
QsPrefs == {NoPref, P(1,0,0,0,0), P(2,0,0,0,0), P(4,0,0,0,0),
            P(0,1,0,0,0), P(0,2,0,0,0), P(0,0,1,0,0), P(0,0,50,0,0), P(0,0,0,1,0), P(0,0,0,2,0),
            P(0,0,0,0,32768), P(0,0,0,0,131072),
            P(2,2,50,1,131072), P(4,1,1,2,32768), P(2,0,50,1,0)}
ThreadPrefs == {NoPref, P(1,0,0,0,0), P(2,0,0,0,0), P(4,0,0,0,0)}

MaxQs == IF Thorough THEN 120 ELSE 100

AutoBits == {24, 40, 50, 52, 56, 64, 65, 72, 80, 81, 90, 100, 110, 128} \cup (IF Thorough THEN {140, 160} ELSE {})
W64Bits == {16, 20, 24, 32, 40, 48, 52, 56, 58, 59, 60, 61, 62, 63, 64}
Pm1Bits == {24, 48, 64, 80, 100, 128}
Ecm128Bits == {24, 40, 56, 64, 72, 80}
EcmBits == {24, 40, 56, 64}
QsBits == {b \in {24, 32, 40, 48, 56, 64, 72, 80, 90, 100, 110, 120, 130, 150} : b <= MaxQs}
QsPrefBits == {48, 64, 80, 96}

BitsFor(a) == CASE a = "auto" -> AutoBits
                [] a \in Word64Algs -> W64Bits
                [] a = "pm1" -> Pm1Bits
                [] a = "ecm" -> EcmBits
                [] a = "ecm128" -> Ecm128Bits
                [] OTHER -> QsBits

Rec(sh, b, a, p) == [shape |-> sh, bits |-> b, alg |-> a, pref |-> p]

\* the general grid: every selector on every generic shape at every size class of that selector
Grid == {Rec(sh, b, a, NoPref) : sh \in Generic, a \in Algs, b \in 16..200} 
GridOK(r) == r.bits \in BitsFor(r.alg)

\* preference combinations on the sieves (and thread counts on everything that takes a pool)
PrefSet ==
  {Rec(sh, b, a, p) : sh \in {"pq", "p2q", "fbcollide"}, b \in QsPrefBits, a \in QsAlgs, p \in QsPrefs \ {NoPref}}
  \cup {Rec(sh, b, a, p) : sh \in {"pq", "pqr", "smallpq"}, b \in {64, 90, 128}, a \in {"auto", "ecm"}, p \in ThreadPrefs \ {NoPref}}

\* pure ECM inside its working range: several factors <= 40 bits and one large prime
EcmSet == {Rec("smallcof", b, "ecm", p) : b \in {64, 100, 128, 160} \cup (IF Thorough THEN {200, 256} ELSE {}),
                                           p \in {NoPref, P(2,0,0,0,0)}}
          \cup {Rec("smallcof", b, "auto", NoPref) : b \in {100, 128, 160}}

SpecialSet == {Rec(sh, b, a, NoPref) : sh \in Special, b \in {1, 12, 64, 65, 200}, a \in Algs}
SpecialOK(r) == (r.shape \in {"zero", "one", "two", "le200sq"} => r.bits = 1)

BoundarySet ==
  {Rec(sh, 64, a, NoPref) : sh \in {"wbminus", "ones"}, a \in Algs \ {"ecm"}}     \* <= 64 bits: every selector
  \cup {Rec("wbplus", 64, a, NoPref) : a \in {"auto", "pm1", "siqs", "mpqs"}}
  \cup {Rec(sh, 128, a, NoPref) : sh \in Boundary, a \in {"auto", "pm1"}}
  \cup {Rec(sh, b, "auto", NoPref) : sh \in {"wbminus", "wbplus"}, b \in {32, 63, 96, 127}}

\* C03 edges: semiprimes at every bit length 16..64 (balanced and 1:2) for the selectors whose crashes live at
\* small sizes, and 65..130 step 4-5 for the multiword ones
EdgeAlgs == {"auto", "rho", "squfof", "qs64", "ecm128", "qs", "mpqs", "siqs"}
EdgeSet ==
  {Rec(sh, b, a, NoPref) : sh \in {"pq", "pq13"}, b \in 16..64, a \in EdgeAlgs}
  \cup {Rec(sh, b, a, NoPref) : sh \in {"pq", "pq13"}, b \in {65, 68, 72, 76, 80, 85, 90, 95, 100}, a \in {"auto", "qs", "mpqs", "siqs"}}
  \cup {Rec("pq13", b, "auto", NoPref) : b \in {105, 110, 115, 120, 125, 126, 127, 128, 129, 130}}
  \* the largest word-sized numbers without small factors (see the driver: p q just below 2^bits), every selector that
  \* works on machine words, and the sizes where a multiplier k <= 50 pushes k n to the word boundary (2^64/k)
  \cup {Rec("topword", b, a, NoPref) : b \in {32, 48, 59, 60, 61, 62, 63, 64}, a \in {"auto", "rho", "squfof", "qs64", "ecm128"}}
  \* the 128-bit ECM up to its own word boundary (a 1:2 split keeps the smaller factor within reach of ECM)
  \cup {Rec("pq13", b, "ecm128", NoPref) : b \in {65, 96, 112, 120, 126, 127, 128}}
\* near the size limit: q * P with q - 1 smooth (found at once by P-1 / ECM) so that the call finishes;
\* classical QS above its 400-bit guard and MPQS above its 448-bit guard; above 512 bits ("oversize")
LimitSet ==
  {Rec("qP", b, a, NoPref) : b \in {400, 401, 448, 449, 499, 500, 501, 505, 511, 512}, a \in {"auto", "pm1", "ecm"}}
  \cup {Rec("bigprime", b, a, NoPref) : b \in {400, 500, 512}, a \in Algs \ Word64Algs}
  \cup {Rec("qP", b, "qs", NoPref) : b \in {401, 449, 500, 512}}
  \cup {Rec("qP", b, "mpqs", NoPref) : b \in {449, 500, 512}}
  \cup {Rec("qP", b, a, NoPref) : b \in 501..512, a \in {"ecm", "pm1"}}
  \* the self-initialising sieve has no size guard: it must still answer or fail cleanly (it cannot finish a
  \* 300..460-bit input inside any budget, so only sizes where it stops by itself are driven)
  \cup {Rec("qP", b, "siqs", NoPref) : b \in {480, 512}}
  \cup {Rec(sh, b, a, NoPref) : sh \in {"over_random", "over_qP", "over_p2", "over_pow2"},
                                b \in {513, 520, 576, 640, 768, 1000, 1023}, a \in {"auto", "pm1", "ecm", "siqs", "qs"}}

\* answers with two or more entries above one machine word (the order of the returned list is decided on multiword values)
WideSet == {Rec("pq", b, a, NoPref) : b \in {132, 136, 144, 160}, a \in {"auto", "siqs", "mpqs"}}
           \cup {Rec("pqr", 200, "siqs", NoPref)}
           \* volume (240 instances per repetition): semiprimes just above the size where SIQS picks its multiplier and
           \* factor base from their widest ranges
           \cup {Rec("pqvol", b, "siqs", NoPref) : b \in {108, 120}}
\* P-1 on structured non-squarefree inputs p^2 q [r]: p and q come out of different stage-1 blocks (see the driver)
Pm1Structured == {Rec("sp2q", b, "pm1", NoPref) : b \in {100, 118, 130, 150}}

C01Set == {r \in Grid : GridOK(r)} \cup PrefSet \cup EcmSet \cup {r \in SpecialSet : SpecialOK(r)} \cup BoundarySet \cup WideSet \cup Pm1Structured \cup {r \in EdgeSet : r.shape = "topword"}

\* C02: selectors the property names, inside the working ranges of DESIGN 3/C02
C02Auto == {Rec(sh, b, "auto", p) : sh \in Generic, b \in AutoBits, p \in {NoPref}}
           \cup {Rec(sh, b, "auto", p) : sh \in {"pq", "p2q", "pqr", "smallpq"}, b \in {64, 90, 128}, p \in ThreadPrefs}
           \cup {r \in SpecialSet : SpecialOK(r) /\ r.alg = "auto" /\ r.shape \notin {"zero", "le200sq"}}
C02Qs == {Rec(sh, b, a, p) : sh \in Generic, b \in {x \in QsBits : x >= 40}, a \in QsAlgs, p \in {NoPref}}
         \cup {Rec(sh, b, a, p) : sh \in {"pq"}, b \in {64, 96}, a \in QsAlgs, p \in {P(2,0,0,0,0), P(4,0,0,0,0)}}
C02Ecm == EcmSet \cup {Rec(sh, b, "ecm128", NoPref) : sh \in Generic, b \in Ecm128Bits}
C02Set == C02Auto \cup C02Qs \cup C02Ecm

\* large sieve inputs cannot finish inside any budget: they are bounded by an abort predicate that turns true at
\* its k-th poll (the call must then return the composite part or the failure value); with and without a pool -
\* a pool starts workers at distant task indices, where index arithmetic is largest.  k shrinks with the size
\* so that a call stays far below the hang deadline of the driver even in the checked profile on a loaded machine
\* (measured unloaded: 260 bits, 12 polls: 8 s; 300 bits, 4 polls: 10 s; deadline 600 s).
AbortPref(t, k) == [threads |-> t, fb |-> 0, lf |-> 0, dbl |-> 0, isz |-> 0, abort |-> k]
BigSieveSet == {Rec("pq", b, a, AbortPref(t, 40)) : b \in {160, 200}, a \in {"mpqs", "siqs"}, t \in {0, 2, 4}}
               \cup {Rec("pq", 260, a, AbortPref(t, 12)) : a \in {"mpqs", "siqs"}, t \in {0, 2, 4}}
               \cup {Rec("pq", 300, a, AbortPref(t, 4)) : a \in {"mpqs", "siqs"}, t \in {0, 2, 4}}
               \cup {Rec("pq", b, "qs", AbortPref(t, 40)) : b \in {160, 200}, t \in {0, 2}}
               \cup {Rec("pq", 260, "qs", AbortPref(t, 12)) : t \in {0, 2}}
               \cup {Rec("pq", 200, "auto", AbortPref(t, 40)) : t \in {0, 4}}
               \cup {Rec("pq", 260, "auto", AbortPref(t, 12)) : t \in {0, 4}}
               \* thorough: further up (measured in the checked profile: 340 bits, 3 polls: 24 s / 12 s; MPQS 380 bits: 30 s)
               \cup (IF Thorough THEN {Rec("pq", 340, a, AbortPref(t, 3)) : a \in {"mpqs", "siqs"}, t \in {0, 4}}
                                      \cup {Rec("pq", 380, "mpqs", AbortPref(0, 3))}
                                 ELSE {})

C03Set == {r \in Grid : GridOK(r) /\ r.bits \in {24, 48, 64, 80, 100}} \cup EdgeSet \cup LimitSet \cup BigSieveSet
          \cup {r \in SpecialSet : SpecialOK(r)} \cup BoundarySet
          \cup {r \in PrefSet : r.bits \in {48, 80}} \cup Pm1Structured

All == CASE Prop = "C01" -> C01Set [] Prop = "C02" -> C02Set [] OTHER -> C03Set

Init == s \in All
Next == UNCHANGED s
Emit == PrintT(<<"SHAPE", ToJson(s)>>)
=============================================================================
