SPECIFICATION Spec
CONSTANTS
 MaxOmega = 4
 Selectors = {"rho"}
 RhoMayFail = TRUE
 LiarPseudoprime = FALSE
 Lucky = FALSE
 AllowAbort = FALSE
 MaxDivs = 2
INVARIANTS NoDeadBranch

CHECK_DEADLOCK FALSE
