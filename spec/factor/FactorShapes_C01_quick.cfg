INIT Init
NEXT Next
CONSTANT Prop = "C01"
CONSTANT Thorough = FALSE
INVARIANT Emit
CHECK_DEADLOCK FALSE
