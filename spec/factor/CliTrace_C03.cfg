SPECIFICATION Spec
CONSTANT Prop = "C03"
POSTCONDITION TraceComplete
CHECK_DEADLOCK FALSE
