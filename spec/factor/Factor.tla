------------------------------- MODULE Factor -------------------------------
(***************************************************************************)
(* The orchestration of yamaquasi::factor / factor_impl (src/lib.rs) as a  *)
(* state machine: one action per branch of the code, the recursion made    *)
(* explicit as a stack of frames, the sub-algorithms (rho, P-1, ECM,       *)
(* SQUFOF, the sieves) nondeterministic but bound by their contracts.      *)
(*                                                                         *)
(* Abstract numbers.  A number is a product of the five abstract primes    *)
(*      2, 3      "small" : below 200, removed by the trial division       *)
(*      5, 7, 11  "large" : size classes 20, 30 and 45 bits                *)
(* coded as the ordinary integer (so product, gcd, divisibility, perfect   *)
(* powers, primality and sorting are exact and native) while the *bit      *)
(* length* the code branches on is the sum of the size classes, e.g.       *)
(* 5*7 ~ 50 bits (rho), 5*11 ~ 65 (P-1, ECM128, fallback ECM128),          *)
(* 5*7*11 ~ 95 (fallback SIQS), 7*11^3 ~ 165 (multiprecision ECM).         *)
(*                                                                         *)
(* Checked: ProductInv, ResultShape (C01); AutoComplete (C02, under the    *)
(* explicit assumption Lucky); NoDeadBranch, Measure, Termination (C03).   *)
(***************************************************************************)
EXTENDS Naturals, Sequences, SequencesExt, FiniteSets, FiniteSetsExt, TLC

CONSTANTS MaxOmega,         \* inputs have at most this many prime factors (with multiplicity)
          Selectors,        \* subset of the ten selectors
          RhoMayFail,       \* may pollard_rho::rho return None on a composite of at most 64 bits ?
          LiarPseudoprime,  \* may pseudoprime() accept a composite ?
          Lucky,            \* assumption QsSplits + SmallEcmSplits: the last-resort algorithm of Auto splits
          AllowAbort,       \* may the abort callback flip to TRUE during the run ?
          MaxDivs           \* a sieve returns between 1 and MaxDivs proper divisors

VARIABLES pc,       \* "trial" | "run" | "done" | "panic"
          n0, alg,  \* the input and the selector
          stack,    \* frames of pending factor_impl calls, innermost last
          outs,     \* stack of factor vectors: outs[1] is `factors` of factor(); a perfect-power branch pushes a fresh one
          pm1done,  \* Preferences::pm1_done
          abort,    \* value the abort callback returns from now on
          result,   \* sorted factor list | <<0, 0>> standing for Err(FactoringFailure) once pc = "done"
          why       \* which assertion fired when pc = "panic"
vars == <<pc, n0, alg, stack, outs, pm1done, abort, result, why>>

-----------------------------------------------------------------------------
Primes == {2, 3, 5, 7, 11}
SmallPrimes == {2, 3}
SizeBits == [p \in Primes |-> CASE p = 2 -> 1 [] p = 3 -> 2 [] p = 5 -> 20 [] p = 7 -> 30 [] OTHER -> 45]

RECURSIVE NumsUpTo(_)
NumsUpTo(k) == IF k = 0 THEN {1} ELSE LET s == NumsUpTo(k - 1) IN s \cup {x * p : x \in s, p \in Primes}
Nums == NumsUpTo(MaxOmega)

RECURSIVE V(_, _)
V(p, n) == IF n % p = 0 THEN 1 + V(p, n \div p) ELSE 0
AbsBits(n) == FoldSet(LAMBDA p, acc : acc + V(p, n) * SizeBits[p], 0, Primes)
Omega(n) == FoldSet(LAMBDA p, acc : acc + V(p, n), 0, Primes)
IsPrime(n) == n \in Primes
RECURSIVE Gcd(_, _)
Gcd(a, b) == IF b = 0 THEN a ELSE Gcd(b, a % b)
Divisors(n) == {d \in Nums : n % d = 0}
ProperDivs(n) == Divisors(n) \ {1, n}
ProdSeq(s) == FoldLeft(LAMBDA acc, x : acc * x, 1, s)
RECURSIVE Pow(_, _)
Pow(b, e) == IF e = 0 THEN 1 ELSE b * Pow(b, e - 1)

\* arith::perfect_power: exponent = gcd of the exponents (the code finds it as 2, 3, or 2 then 2)
PPExp(n) == IF n = 1 THEN 1 ELSE CHOOSE k \in 1..8 : /\ \A p \in Primes : V(p, n) % k = 0
                                                       /\ \A j \in (k + 1)..8 : \E q \in Primes : V(q, n) % j # 0
PPRoot(n) == CHOOSE r \in Divisors(n) : Pow(r, PPExp(n)) = n

SmallPart(n) == FoldSet(LAMBDA p, acc : acc * Pow(p, V(p, n)), 1, SmallPrimes)
SmallSeq(n) == [i \in 1..V(2, n) |-> 2] \o [i \in 1..V(3, n) |-> 3]

Word64 == {"rho", "squfof", "qs64"}
Sieves == {"qs", "mpqs", "siqs"}

\* contract of a splitting sub-algorithm: parts > 1 whose product is n (a proper split)
Splits2(n) == {<<d, n \div d>> : d \in ProperDivs(n)}
\* P-1 may return several factors, and a last part 1 when it factored n completely (factor_impl(1) returns at once)
SplitsMulti(n) == Splits2(n) \cup {Append(s, 1) : s \in Splits2(n)} \cup
   {<<d, e, (n \div d) \div e>> : <<d, e>> \in {x \in ProperDivs(n) \X ProperDivs(n) :
                                                   (n \div x[1]) % x[2] = 0 /\ (n \div x[1]) \div x[2] > 1}}

-----------------------------------------------------------------------------
(* the gcd combination of the sieve's divisors, lib.rs "Use non trivial divisors to factor n", literally *)
RetainStep(acc, f) ==
  LET g == Gcd(f, acc.residue)
      split == g # f /\ g # 1
  IN [keep |-> IF split THEN acc.keep ELSE Append(acc.keep, f),
      splits |-> IF split THEN Append(acc.splits, f) ELSE acc.splits,
      residue |-> acc.residue \div g]
SecondStep(acc, f) ==
  LET g == Gcd(f, acc.residue)
  IN [facs |-> IF g # f /\ g # 1 THEN acc.facs \o <<f \div g, g>> ELSE Append(acc.facs, f),
      residue |-> acc.residue \div g]
\* one iteration of `for d in divs`: [ok |-> assert!(residue.is_one()) holds, facs |-> new list]
CombineOne(st, d) ==
  IF ~st.ok THEN st
  ELSE LET r1 == FoldLeft(RetainStep, [keep |-> <<>>, splits |-> <<>>, residue |-> d], st.facs)
       IN IF r1.residue # 1 THEN [ok |-> FALSE, facs |-> st.facs]
          ELSE [ok |-> TRUE, facs |-> FoldLeft(SecondStep, [facs |-> r1.keep, residue |-> d], r1.splits).facs]
Combine(n, divs) == FoldLeft(CombineOne, [ok |-> TRUE, facs |-> <<n>>], divs)
\* relations::final_step sorts and dedups the divisors it returns
DivSeqs(n) == {SetToSortSeq(D, <) : D \in {X \in SUBSET ProperDivs(n) : Cardinality(X) \in 1..MaxDivs}}

-----------------------------------------------------------------------------
Top == stack[Len(stack)]
Pop == SubSeq(stack, 1, Len(stack) - 1)
SetTop(f) == [stack EXCEPT ![Len(stack)] = f]
Frame(n) == [n |-> n, pc |-> "enter", rest |-> <<>>, ar |-> ""]
PushOut(x) == [outs EXCEPT ![Len(outs)] = Append(@, x)]
Running == pc = "run" /\ stack # <<>>
Panic(msg) == pc' = "panic" /\ why' = msg /\ UNCHANGED <<n0, alg, stack, outs, pm1done, abort, result>>
Same == UNCHANGED <<n0, alg, pm1done, abort, result, pc, why>>

\* pseudoprime(x): exact on primes; on composites exact unless LiarPseudoprime
SaysPrime(x) == IF IsPrime(x) THEN {TRUE} ELSE IF LiarPseudoprime /\ x > 1 THEN {TRUE, FALSE} ELSE {FALSE}

Init ==
  /\ n0 \in Nums \cup {0}
  /\ alg \in Selectors
  \* documented size precondition of Rho / Squfof / Qs64: at most 64 bits after trial division
  /\ (alg \in Word64 /\ n0 # 0) => AbsBits(n0 \div SmallPart(n0)) <= 64
  /\ pc = "trial" /\ stack = <<>> /\ outs = <<<<>>>> /\ pm1done = FALSE /\ abort = FALSE /\ result = <<>> /\ why = ""

\* factor(): zero, trial division by the small primes, then factor_impl(nred)
TrialDivide ==
  /\ pc = "trial"
  /\ IF n0 = 0
     THEN pc' = "done" /\ result' = <<0>> /\ UNCHANGED <<stack, outs>>
     ELSE /\ pc' = "run" /\ outs' = <<SmallSeq(n0)>> /\ stack' = <<Frame(n0 \div SmallPart(n0))>> /\ UNCHANGED result
  /\ UNCHANGED <<n0, alg, pm1done, abort, why>>

AbortFlips == AllowAbort /\ pc = "run" /\ ~abort /\ abort' = TRUE /\ UNCHANGED <<pc, n0, alg, stack, outs, pm1done, result, why>>

\* if n.is_one() { return }
RetOne == Running /\ Top.pc = "enter" /\ Top.n = 1 /\ stack' = Pop /\ UNCHANGED outs /\ Same

\* perfect power: factor the root into a fresh vector ...
PerfectPower ==
  /\ Running /\ Top.pc = "enter" /\ Top.n > 1 /\ PPExp(Top.n) > 1
  /\ stack' = Append(SetTop([Top EXCEPT !.pc = "ppret"]), Frame(PPRoot(Top.n)))
  /\ outs' = Append(outs, <<>>)
  /\ Same
\* ... and repeat it k times
PPReturn ==
  /\ Running /\ Top.pc = "ppret"
  /\ LET sub == outs[Len(outs)]
         k == PPExp(Top.n)
         rep == FoldLeft(LAMBDA acc, i : acc \o sub, <<>>, [i \in 1..k |-> i])
     IN outs' = [SubSeq(outs, 1, Len(outs) - 1) EXCEPT ![Len(outs) - 1] = @ \o rep]
  /\ stack' = Pop /\ Same

NotPP == Running /\ Top.pc = "enter" /\ Top.n > 1 /\ PPExp(Top.n) = 1
\* else if pseudoprime(n) { factors.push(n) }
PushPseudoprime == NotPP /\ TRUE \in SaysPrime(Top.n) /\ outs' = PushOut(Top.n) /\ stack' = Pop /\ Same
Dispatch ==
  /\ NotPP /\ FALSE \in SaysPrime(Top.n)
  /\ stack' = SetTop([Top EXCEPT !.pc = IF alg = "auto" THEN "auto_rho" ELSE "alg", !.ar = alg])
  /\ UNCHANGED outs /\ Same

\* recursion into the parts of a split, one after the other
Recurse(parts) == stack' = SetTop([Top EXCEPT !.pc = "recurse", !.rest = parts]) /\ UNCHANGED outs
RecurseStep ==
  /\ Running /\ Top.pc = "recurse"
  /\ IF Top.rest = <<>> THEN stack' = Pop
     ELSE stack' = Append(SetTop([Top EXCEPT !.rest = Tail(@)]), Frame(Head(Top.rest)))
  /\ UNCHANGED outs /\ Same
GoTo(p) == stack' = SetTop([Top EXCEPT !.pc = p]) /\ UNCHANGED outs
PushFail == outs' = PushOut(Top.n) /\ stack' = Pop

\* Auto: Pollard rho below 52 bits
AutoRho ==
  /\ Running /\ Top.pc = "auto_rho"
  /\ IF AbsBits(Top.n) < 52
     THEN \/ \E s \in Splits2(Top.n) : Recurse(s)
          \/ RhoMayFail /\ GoTo("auto_pm1")
     ELSE GoTo("auto_pm1")
  /\ Same
\* Auto: P-1 once per call of factor(), above 64 bits
AutoPm1 ==
  /\ Running /\ Top.pc = "auto_pm1"
  /\ IF AbsBits(Top.n) > 64 /\ ~pm1done
     THEN /\ pm1done' = TRUE
          /\ \/ \E s \in SplitsMulti(Top.n) : Recurse(s)
             \/ GoTo("auto_ecm")
     ELSE GoTo("auto_ecm") /\ UNCHANGED pm1done
  /\ UNCHANGED <<n0, alg, abort, result, pc, why>>
\* Auto: ECM128 (52..128 bits) or multiprecision ECM; may fail
AutoEcm ==
  /\ Running /\ Top.pc = "auto_ecm"
  /\ \/ \E s \in Splits2(Top.n) : Recurse(s)
     \/ stack' = SetTop([Top EXCEPT !.pc = "alg", !.ar = IF AbsBits(Top.n) <= 80 THEN "ecm128" ELSE "siqs"]) /\ UNCHANGED outs
  /\ Same

LastResort == alg = "auto" /\ Lucky /\ ~abort   \* the assumption under which AutoComplete is claimed

AlgPm1 == /\ Running /\ Top.pc = "alg" /\ Top.ar = "pm1"
          /\ ((\E s \in SplitsMulti(Top.n) : Recurse(s)) \/ PushFail) /\ Same
AlgEcm == /\ Running /\ Top.pc = "alg" /\ Top.ar \in {"ecm", "ecm128"}
          /\ \/ \E s \in Splits2(Top.n) : Recurse(s)
             \/ ~LastResort /\ PushFail
          /\ Same
AlgWord(a) == /\ Running /\ Top.pc = "alg" /\ Top.ar = a
              /\ IF AbsBits(Top.n) > 64 THEN Panic("assert!(n.bits() <= 64)")
                 ELSE /\ \/ \E s \in Splits2(Top.n) : Recurse(s)
                         \/ a # "rho" /\ PushFail
                         \/ a = "rho" /\ RhoMayFail /\ GoTo("qs")      \* falls out of the match into the sieve block
                      /\ Same
AlgSieve == Running /\ Top.pc = "alg" /\ Top.ar \in Sieves /\ GoTo("qs") /\ Same

\* the sieve block
QsAbortCheck == Running /\ Top.pc = "qs" /\ abort /\ PushFail /\ Same
QsUnreachable == Running /\ Top.pc = "qs" /\ ~abort /\ Top.ar \notin Sieves /\ Panic("unreachable!(impossible)")
QsRun ==
  /\ Running /\ Top.pc = "qs" /\ ~abort /\ Top.ar \in Sieves
  /\ \/ ~LastResort /\ PushFail /\ Same                                       \* no divisor (failure or interrupted)
     \/ Top.ar = "siqs" /\ (\E d \in ProperDivs(Top.n) \cap Primes : Recurse(<<d, Top.n \div d>>)) /\ Same   \* UnexpectedFactor(d)
     \/ \E ds \in DivSeqs(Top.n) :
           LET c == Combine(Top.n, ds) IN
           IF c.ok THEN stack' = SetTop([Top EXCEPT !.pc = "final", !.rest = c.facs]) /\ UNCHANGED outs /\ Same
           ELSE Panic("assert!(residue.is_one())")
\* for f in facs { if f == n push; else if !pseudoprime(f) recurse; else push }
FinalStep ==
  /\ Running /\ Top.pc = "final"
  /\ IF Top.rest = <<>> THEN stack' = Pop /\ UNCHANGED outs
     ELSE LET x == Head(Top.rest)
              t == SetTop([Top EXCEPT !.rest = Tail(@)])
          IN IF x = Top.n THEN stack' = t /\ outs' = PushOut(x)
             ELSE \E b \in SaysPrime(x) :
                    IF b THEN stack' = t /\ outs' = PushOut(x)
                    ELSE stack' = Append(t, Frame(x)) /\ UNCHANGED outs
  /\ Same

\* check_factors and sort
Finish ==
  /\ pc = "run" /\ stack = <<>>
  /\ LET fs == outs[1] IN
     IF Len(fs) = 1 /\ fs[1] # n0 THEN Panic("assert_eq!(n, p)")
     ELSE IF ProdSeq(fs) # n0 THEN Panic("assert_eq!(n, product)")
     ELSE /\ pc' = "done"
          /\ IF Len(fs) = 1
             THEN \E b \in SaysPrime(fs[1]) : result' = IF b THEN fs ELSE <<0, 0>>     \* Err(FactoringFailure)
             ELSE result' = SortSeq(fs, <)
          /\ UNCHANGED <<n0, alg, stack, outs, pm1done, abort, why>>

Next ==
  \/ TrialDivide \/ AbortFlips \/ RetOne \/ PerfectPower \/ PPReturn \/ PushPseudoprime \/ Dispatch \/ RecurseStep
  \/ AutoRho \/ AutoPm1 \/ AutoEcm \/ AlgPm1 \/ AlgEcm \/ AlgWord("rho") \/ AlgWord("squfof") \/ AlgWord("qs64") \/ AlgSieve
  \/ QsAbortCheck \/ QsUnreachable \/ QsRun \/ FinalStep \/ Finish

Spec == Init /\ [][Next]_vars /\ WF_vars(Next)

-----------------------------------------------------------------------------
(* invariants *)

\* which factor vector a frame works for: one more than the number of perfect-power frames below it
Level(i) == 1 + Cardinality({j \in 1..(i - 1) : stack[j].pc = "ppret"})
Pending(f) == IF f.pc \in {"recurse", "final"} THEN ProdSeq(f.rest) ELSE f.n
TargetOf(j) == IF j = 1 THEN n0
               ELSE LET pps == SelectSeq(stack, LAMBDA f : f.pc = "ppret") IN PPRoot(pps[j - 1].n)
\* C01: product of what was pushed and of what is still to be decomposed is the number being factored, at every level
ProductInv ==
  pc = "run" =>
    \A j \in 1..Len(outs) :
       ProdSeq(outs[j]) * FoldLeft(LAMBDA acc, i : IF Level(i) = j THEN acc * Pending(stack[i]) ELSE acc, 1,
                                   [i \in 1..Len(stack) |-> i]) = TargetOf(j)
LevelsMatch == pc = "run" => Len(outs) = 1 + Cardinality({j \in 1..Len(stack) : stack[j].pc = "ppret"})

\* C01: shape of the returned list
ResultShape ==
  (pc = "done" /\ result # <<0, 0>>) =>
     /\ n0 = 0 => result = <<0>>
     /\ n0 = 1 => result = <<>>
     /\ n0 >= 2 => /\ \A i \in 1..Len(result) : result[i] > 1 /\ n0 % result[i] = 0
                   /\ ProdSeq(result) = n0
                   /\ \A i \in 1..(Len(result) - 1) : result[i] <= result[i + 1]

\* C03: every nested call works on a proper divisor of its caller's number => recursion depth <= Omega(n) + 1
Measure == \A i \in 2..Len(stack) : stack[i].n < stack[i - 1].n /\ stack[i - 1].n % stack[i].n = 0
DepthBound == Len(stack) <= MaxOmega + 1
\* C03: no assertion / unreachable! of lib.rs can fire
NoDeadBranch == pc # "panic"
\* C03 (liveness): every run ends
Termination == <>(pc \in {"done", "panic"})

\* C02: in automatic mode, without abort, if the last-resort algorithm splits (Lucky) and pseudoprime is exact,
\* the result is the prime factorisation
AutoComplete ==
  (pc = "done" /\ alg = "auto" /\ ~abort /\ Lucky /\ ~LiarPseudoprime /\ n0 >= 1) =>
     /\ result # <<0, 0>>
     /\ \A i \in 1..Len(result) : IsPrime(result[i])
=============================================================================
