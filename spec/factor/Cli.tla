-------------------------------- MODULE Cli --------------------------------
(***************************************************************************)
(* The command-line layer of the factoring program (src/bin/ymqs.rs): one  *)
(* action per step of main(), in the order of the code:                    *)
(*                                                                         *)
(*   Usage       wrong number of positional arguments / --help: the usage  *)
(*               text goes to stderr, status 0, nothing on stdout          *)
(*   ReadNumber  U1024::from_str(NUMBER).expect(..): not a decimal number  *)
(*               or above 1024 bits -> refusal "number"                    *)
(*   SizeGuard   bits > 500 -> refusal "size" (README: 500 bits)           *)
(*   ReadVerb    Verbosity::from_str(..).unwrap() -> refusal "verbosity"   *)
(*   ReadMode    Algo::from_str(..).unwrap()      -> refusal "mode"        *)
(*   CallFactor  factor(n, alg, prefs): Ok(list) or Err(FactoringFailure)  *)
(*               (the library is the model Factor.tla; here it is any      *)
(*               list C01 allows, or the failure value)                    *)
(*   Unwrap      Err -> refusal "failure"                                  *)
(*   Print       one factor per line on stdout                             *)
(*   Exit0                                                                 *)
(*                                                                         *)
(* A refusal is a panic located in src/bin/ymqs.rs itself (status 101,     *)
(* nothing printed).  What the layer promises to a script reading its      *)
(* output: status 0 <=> stdout is a complete factor list of the argument   *)
(* (C01 at the command line); a non-zero status comes with an empty stdout *)
(* and is one of the declared refusals (C03: answers or fails cleanly);    *)
(* factor() is never entered with an argument above the size limit (C03:   *)
(* "refused up front").                                                    *)
(*                                                                         *)
(* CliShapes.tla is the input space handed to the driver: one record per    *)
(* invocation class, concretised by the harness (ymqv cli), run against    *)
(* the real binary built from the tree under test, and validated by        *)
(* CliTrace.tla.                                                           *)
(***************************************************************************)
EXTENDS Integers, Sequences, FiniteSets, TLC, Json, CliRules

\* ------------------------------------------------------------------ model
\* abstract arguments: v = value of the number (0 = unreadable), size class, option validity
NumKinds  == {"dec", "garbage"}
SizeKinds == {"le500", "gt500", "gt1024"}
Values    == {0, 1, 2, 12, 35}

\* factor lists the library may return for v (C01: product, no 0/1 for v >= 2; [0] for 0; [] for 1)
Lists(v) == CASE v = 0 -> {<<0>>}
              [] v = 1 -> {<<>>}
              [] v = 2 -> {<<2>>}
              [] v = 12 -> {<<2, 2, 3>>, <<2, 6>>, <<3, 4>>, <<12>>}
              [] v = 35 -> {<<5, 7>>, <<35>>}
ProdSeq(s) == IF s = <<>> THEN 1 ELSE LET F[i \in 1..Len(s)] == IF i = 1 THEN s[1] ELSE s[i] * F[i - 1] IN F[Len(s)]

VARIABLES pc, arg, lib, out, status, why, entered
vars == <<pc, arg, lib, out, status, why, entered>>

Args == [orphans : {0, 1, 2}, help : BOOLEAN, num : NumKinds, size : SizeKinds, v : Values,
         verb : {"ok", "bogus"}, mode : {"ok", "bogus"}]

Init == /\ pc = "start" /\ arg \in Args /\ lib = [st |-> "none", fs |-> <<>>] /\ out = <<>> /\ status = -1 /\ why = "none"
        /\ entered = FALSE

Refuse(r) == pc' = "done" /\ status' = 101 /\ why' = r /\ UNCHANGED <<arg, lib, out, entered>>
Go(p)     == pc' = p /\ UNCHANGED <<arg, lib, out, status, why, entered>>

Usage == /\ pc = "start"
         /\ IF arg.help \/ arg.orphans # 1
              THEN pc' = "done" /\ status' = 0 /\ why' = "usage" /\ UNCHANGED <<arg, lib, out, entered>>
              ELSE Go("number")
ReadNumber == pc = "number" /\ (IF arg.num = "garbage" \/ arg.size = "gt1024" THEN Refuse("number") ELSE Go("guard"))
SizeGuard  == pc = "guard"  /\ (IF arg.size = "gt500" THEN Refuse("size") ELSE Go("verb"))
ReadVerb   == pc = "verb"   /\ (IF arg.verb = "bogus" THEN Refuse("verbosity") ELSE Go("mode"))
ReadMode   == pc = "mode"   /\ (IF arg.mode = "bogus" THEN Refuse("mode") ELSE Go("factor"))
CallFactor == /\ pc = "factor"
              /\ lib' \in {[st |-> "ok", fs |-> f] : f \in Lists(arg.v)} \cup {[st |-> "failure", fs |-> <<>>]}
              /\ entered' = TRUE
              /\ pc' = "unwrap" /\ UNCHANGED <<arg, out, status, why>>
Unwrap == pc = "unwrap" /\ (IF lib.st = "failure" THEN Refuse("failure") ELSE Go("print"))
PrintOne == /\ pc = "print" /\ Len(out) < Len(lib.fs)
          /\ out' = Append(out, lib.fs[Len(out) + 1])
          /\ UNCHANGED <<pc, arg, lib, status, why, entered>>
Exit0  == /\ pc = "print" /\ Len(out) = Len(lib.fs)
          /\ pc' = "done" /\ status' = 0 /\ why' = "answer" /\ UNCHANGED <<arg, lib, out, entered>>

Next == Usage \/ ReadNumber \/ SizeGuard \/ ReadVerb \/ ReadMode \/ CallFactor \/ Unwrap \/ PrintOne \/ Exit0
Spec == Init /\ [][Next]_vars /\ WF_vars(Next)

TypeOK == /\ pc \in {"start", "number", "guard", "verb", "mode", "factor", "unwrap", "print", "done"}
          /\ status \in {-1, 0, 101}
          /\ why \in {"none", "usage", "answer", "number", "size", "verbosity", "mode", "failure"}

\* a non-zero status comes with an empty stdout
RefusalSilent == status = 101 => out = <<>>
\* status 0 after an answer: stdout is a complete list for the argument
AnswerComplete == (pc = "done" /\ why = "answer") => (status = 0 /\ ProdSeq(out) = (IF arg.v = 0 THEN 0 ELSE arg.v))
\* the usage text is not an answer: nothing on stdout
UsageSilent == why = "usage" => out = <<>>
\* refused up front: the library is never entered with an unreadable or oversize argument, or invalid options
GuardFirst == entered => (arg.num = "dec" /\ arg.size = "le500" /\ arg.verb = "ok" /\ arg.mode = "ok" /\ arg.orphans = 1)
RefusalDeclared == pc = "done" => why \in Expected(arg)
\* non-vacuity (expected to be violated): some run answers, some run is refused by the library's failure value
NeverAnswers == ~(pc = "done" /\ why = "answer" /\ Len(out) = 3)
NeverFails   == ~(pc = "done" /\ why = "failure")
Terminates == <>(pc = "done")
=============================================================================
