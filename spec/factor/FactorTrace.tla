----------------------------- MODULE FactorTrace -----------------------------
(***************************************************************************)
(* C01 / C02 / C03 - validation of real runs of yamaquasi::factor.         *)
(*                                                                         *)
(* One run (one "case") is the event sequence                              *)
(*    call  (n, selector, preferences, for constructed inputs the primes)  *)
(*    f_small | fi_enter | fi_pp | fi_ppend | fi_alg | fi_split | fi_divs  *)
(*            | fi_push         (hooks inside factor / factor_impl)        *)
(*    ret   (list | failure | panic | timeout | abort)                     *)
(* plus stand-alone events  small  (one call on an n < 2^31, no hooks) and *)
(* cert (a primality certificate chain of the harness' prime pool).        *)
(*                                                                         *)
(* The constant Prop selects which property's statement is the Strict      *)
(* predicate; everything that only describes how the code works today      *)
(* (which pending number a step refers to, permutation of pushes) is Drift.*)
(*                                                                         *)
(* Abstract state of a run, as in Factor.tla: a stack of frames; a frame   *)
(* is the factorisation in progress of `target`:                           *)
(*     out  = factors already pushed,  pend = numbers not yet decomposed   *)
(* ProductInv:  Prod(out) * Prod(pend) = target  in every frame after      *)
(* every step.  A perfect power p^k opens a frame for p (the code factors  *)
(* the root into a fresh vector and repeats it k times).                   *)
(***************************************************************************)
EXTENDS Certs, TraceLib
CONSTANT Prop
VARIABLES l, st

LimitBits == 500      \* documented limit (README); the ring asserts 512 and the CLI admits 512: 501..512 may answer or refuse, not crash

-----------------------------------------------------------------------------
(* certified primes: the certificate file named by CERTS is validated (op "cert", Witness) by a run of this
   same module; here it only provides the set of numbers those chains prove prime *)
CertRec == ndJsonDeserialize(IOEnv.CERTS)
Certified == {ChainPrime(CertRec[i].chain) : i \in 1..Len(CertRec)}

-----------------------------------------------------------------------------
(* small integers (n < 2^31): trial division *)
SqrtBound(n) == Pow2Int((BitLenInt(n) + 1) \div 2)
IsPrimeTD(p) == p >= 2 /\ \A d \in 2..SqrtBound(p) : (d * d > p) \/ (p % d # 0)
ProdInt(s) == FoldLeft(LAMBDA acc, x : acc * x, 1, s)

SortedInt(s) == \A i \in 1..(Len(s) - 1) : s[i] <= s[i + 1]
Sorted(s) == \A i \in 1..(Len(s) - 1) : Le(s[i], s[i + 1])

-----------------------------------------------------------------------------
(* the statement of C01 on a returned list *)
ListOK(n, fs) ==
  IF n = Zero THEN fs = <<Zero>>
  ELSE IF n = One THEN fs = <<>>
  ELSE /\ \A i \in 1..Len(fs) : fs[i] # Zero /\ fs[i] # One /\ Divides(fs[i], n)
       /\ Prod(fs) = n
       /\ Sorted(fs)

SmallListOK(n, fs) ==
  IF n = 0 THEN fs = <<0>>
  ELSE IF n = 1 THEN fs = <<>>
  ELSE /\ \A i \in 1..Len(fs) : fs[i] >= 2 /\ fs[i] <= n /\ n % fs[i] = 0
       /\ Len(fs) <= 31           \* factors >= 2 of n < 2^31: keeps the product inside TLC integers
       /\ ProdInt(fs) = n
       /\ SortedInt(fs)

-----------------------------------------------------------------------------
(* working ranges of C02 (DESIGN 3/C02).  nred = part of n that survives the entry point's trial division
   by the primes < 200 = product of the constructed primes > 199 *)
Nred(primes) == Prod(SelectSeq(primes, LAMBDA p : Gt(p, FromInt(199))))
SecondLargestBits(primes) ==    \* primes sorted non-decreasing
  IF Len(primes) < 2 THEN 0 ELSE BitLen(primes[Len(primes) - 1])
InScopeC02(alg, primes) ==
  LET b == BitLen(Nred(primes)) IN
  CASE alg = "auto" -> TRUE
    [] alg \in {"qs", "mpqs", "siqs"} -> b >= 40 /\ b <= 200
    [] alg = "ecm" -> SecondLargestBits(primes) <= 40
    [] alg = "ecm128" -> b <= 80
    [] OTHER -> FALSE
SmallInScopeC02(alg) == alg \in {"auto", "ecm", "ecm128"}

-----------------------------------------------------------------------------
(* frames *)
Frame(t, k) == [target |-> t, k |-> k, out |-> <<>>, pend |-> <<t>>]
Top == st.frames[Len(st.frames)]
SetTop(f) == [st EXCEPT !.frames = [@ EXCEPT ![Len(@)] = f]]
IndexOf(s, x) == SelectInSeq(s, LAMBDA y : y = x)          \* 0 if absent
RemoveOne(s, x) == LET i == IndexOf(s, x) IN SubSeq(s, 1, i - 1) \o SubSeq(s, i + 1, Len(s))
FrameInv(f) == Mul(Prod(f.out), Prod(f.pend)) = f.target
RECURSIVE Rep(_, _)
Rep(s, k) == IF k = 0 THEN <<>> ELSE s \o Rep(s, k - 1)

Idle == [n |-> Zero, alg |-> "", primes |-> <<>>, known |-> FALSE, frames |-> <<>>, track |-> FALSE, algseen |-> FALSE,
         open |-> FALSE]

AllGe1(s) == \A i \in 1..Len(s) : s[i] # Zero

(* Step(e) = <<strict, drift, new state>> for a hook event while tracking *)
Step(e) ==
  LET f == Top IN
  CASE e.op = "f_small" ->
         \* trial division in factor(): the single pending number loses the factor p
         LET m == IF Len(f.pend) = 1 THEN f.pend[1] ELSE One
             p == FromInt(e.p)
             ok == Len(f.pend) = 1 /\ e.p > 1 /\ Divides(p, m)
         IN <<ok, TRUE, IF ok THEN SetTop([f EXCEPT !.out = Append(@, p), !.pend = <<Div(m, p)>>]) ELSE [st EXCEPT !.track = FALSE]>>
    [] e.op = "fi_enter" ->
         LET here == IndexOf(f.pend, e.n) # 0
         IN <<TRUE, here,
              IF ~here THEN [st EXCEPT !.track = FALSE]
              ELSE IF e.n = One THEN SetTop([f EXCEPT !.pend = RemoveOne(@, e.n)]) ELSE st>>
    [] e.op = "fi_pp" ->
         LET here == IndexOf(f.pend, e.n) # 0
             ok == e.k >= 2 /\ Gt(e.p, One) /\ PowInt(e.p, e.k) = e.n
         IN <<ok, here,
              IF ok /\ here THEN [st EXCEPT !.frames = Append(@, Frame(e.p, e.k))] ELSE [st EXCEPT !.track = FALSE]>>
    [] e.op = "fi_ppend" ->
         LET good == Len(st.frames) >= 2 /\ f.pend = <<>> /\ PowInt(f.target, f.k) = e.n
             par == st.frames[Len(st.frames) - 1]
             here == good /\ IndexOf(par.pend, e.n) # 0
             par2 == [par EXCEPT !.pend = RemoveOne(@, e.n), !.out = @ \o Rep(f.out, f.k)]
         IN <<TRUE, here,
              IF here THEN [st EXCEPT !.frames = Append(SubSeq(@, 1, Len(@) - 2), par2)] ELSE [st EXCEPT !.track = FALSE]>>
    [] e.op = "fi_alg" -> <<TRUE, IndexOf(f.pend, e.n) # 0, [st EXCEPT !.algseen = TRUE]>>
    [] e.op = "fi_divs" ->
         \* divisors handed back by a sieve: implementation detail (a wrong one trips the code's own assertion)
         <<TRUE, \A i \in 1..Len(e.divs) : Divides(e.divs[i], e.n) /\ Gt(e.divs[i], One) /\ Lt(e.divs[i], e.n), st>>
    [] e.op = "fi_split" ->
         \* every split multiplies back to its parent (P-1 reports a complete factorisation with a last part 1,
         \* which factor_impl(1) drops: a part 1 is harmless, a part 0 is not)
         LET here == IndexOf(f.pend, e.n) # 0
             ok == Len(e.parts) >= 1 /\ AllGe1(e.parts) /\ Prod(e.parts) = e.n
         IN <<ok, here,
              IF ok /\ here THEN SetTop([f EXCEPT !.pend = RemoveOne(@, e.n) \o e.parts]) ELSE [st EXCEPT !.track = FALSE]>>
    [] e.op = "fi_push" ->
         LET here == IndexOf(f.pend, e.n) # 0
         IN <<TRUE, here,
              IF here THEN SetTop([f EXCEPT !.pend = RemoveOne(@, e.n), !.out = Append(@, e.n)]) ELSE [st EXCEPT !.track = FALSE]>>
    [] OTHER -> <<TRUE, FALSE, [st EXCEPT !.track = FALSE]>>

StepOps == {"f_small", "fi_enter", "fi_pp", "fi_ppend", "fi_alg", "fi_divs", "fi_split", "fi_push"}

-----------------------------------------------------------------------------
(* outcome of a call *)
Answered(e) == e.kind \in {"list", "failure"}
\* "refused up front" (DESIGN 3/C03): above the size limit the call may stop at the size assertion of the
\* modular ring, before any sub-algorithm was entered
Refused(e) == /\ BitLen(st.n) > LimitBits
              /\ e.kind = "panic" /\ e.file = "src/arith_montgomery.rs"
              /\ ~st.algseen

RetStrict(e) ==
  CASE Prop = "C01" -> (e.kind = "list" => ListOK(st.n, e.fs))
    [] Prop = "C02" ->
         (st.known /\ InScopeC02(st.alg, st.primes) /\ e.kind \in {"list", "failure"}) =>
            \* the complete prime factorisation: every element is one of the certified primes n was built from
            (e.kind = "list" /\ \A i \in 1..Len(e.fs) : \E j \in 1..Len(st.primes) : e.fs[i] = st.primes[j])
    [] OTHER -> Answered(e) \/ Refused(e)

\* the returned list is the sorted multiset of the pushes (how the code works today)
RetDrift(e) ==
  (Prop = "C01" /\ st.track /\ e.kind = "list" /\ st.n # Zero) =>
     /\ Len(st.frames) = 1 /\ Top.pend = <<>>
     /\ Len(e.fs) = Len(Top.out) /\ Prod(e.fs) = Prod(Top.out)

SmallStrict(e) ==
  CASE Prop = "C01" -> (e.kind = "list" => SmallListOK(e.n, e.fs))
    [] Prop = "C02" -> (SmallInScopeC02(e.alg) /\ e.kind \in {"list", "failure"}) =>
                          (e.kind = "list" /\ (e.n >= 2 => \A i \in 1..Len(e.fs) : IsPrimeTD(e.fs[i])))
    [] OTHER -> Answered(e)

-----------------------------------------------------------------------------
CallState(e) ==
  [n |-> e.n, alg |-> e.alg, primes |-> e.primes, known |-> e.known,
   frames |-> <<Frame(e.n, 1)>>, track |-> e.hooks /\ e.n # Zero, algseen |-> FALSE, open |-> TRUE]

\* witnesses of a call: the constructed primes are certified and multiply to n (needed by C02 only)
CallWitness(e) ==
  (Prop = "C02" /\ e.known) =>
     /\ \A i \in 1..Len(e.primes) : e.primes[i] \in Certified
     /\ Prod(e.primes) = e.n

Init == l = 1 /\ st = Idle

Next ==
  /\ l <= NRec
  /\ l' = l + 1
  /\ LET e == Rec[l] IN
     CASE e.op = "cert" -> Witness(l, "cert", ChainOK(e.chain)) /\ st' = st
       [] e.op = "small" -> Strict(l, "small", SmallStrict(e)) /\ st' = Idle
       [] e.op = "call" -> Witness(l, "call", CallWitness(e)) /\ st' = CallState(e)
       [] e.op = "ret" ->
            /\ Witness(l, "ret-without-call", st.open)
            /\ Strict(l, "ret", RetStrict(e))
            /\ Drift(l, "ret-pushes", RetDrift(e))
            /\ st' = Idle
       [] e.op \in StepOps ->
            IF Prop = "C01" /\ st.track
            THEN LET r == Step(e) IN
                 /\ Strict(l, e.op, r[1])
                 /\ Drift(l, e.op, r[2])
                 /\ Strict(l, "ProductInv", r[3].track => \A i \in 1..Len(r[3].frames) : FrameInv(r[3].frames[i]))
                 /\ st' = r[3]
            ELSE st' = IF e.op = "fi_alg" THEN [st EXCEPT !.algseen = TRUE] ELSE st
       [] OTHER -> Witness(l, "unknown-op", FALSE) /\ st' = st

Spec == Init /\ [][Next]_<<l, st>>
=============================================================================
