SPECIFICATION Spec
CONSTANTS
 MaxOmega = 4
 Selectors = {"auto", "rho", "squfof", "qs64", "pm1", "ecm", "ecm128", "qs", "mpqs", "siqs"}
 RhoMayFail = FALSE
 LiarPseudoprime = TRUE
 Lucky = FALSE
 AllowAbort = FALSE
 MaxDivs = 2
INVARIANTS ProductInv LevelsMatch ResultShape Measure DepthBound NoDeadBranch

CHECK_DEADLOCK FALSE
