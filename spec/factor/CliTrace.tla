------------------------------ MODULE CliTrace ------------------------------
(***************************************************************************)
(* C01 / C03 at the command line: validation of real runs of the ymqs      *)
(* binary built from the tree under test.  One event = one invocation:     *)
(*   cls     the argument class (fields of Cli!Args that the driver knows  *)
(*           by construction: orphans, help, num, size, verb, mode)        *)
(*   n       the value of NUMBER (digits) when it is a decimal <= 1024 bits*)
(*   status  exit status (-1 when the process was killed by a signal),     *)
(*   signal, timeout                                                       *)
(*   out     the lines of stdout that are decimal numbers (digits),        *)
(*   outbad  the number of other stdout lines                              *)
(*   why     the outcome read off status and stderr: usage | answer |      *)
(*           number | size | verbosity | mode | failure | internal, and    *)
(*   ploc    the source file of the panic message, if any                  *)
(* An invocation is accepted iff it is the end state of a behaviour of     *)
(* Cli.tla for this argument class: the outcome is one Cli!Expected allows *)
(* with its status, refusals are panics of src/bin/ymqs.rs itself with an  *)
(* empty stdout, and an answer is a complete factor list of NUMBER.        *)
(***************************************************************************)
EXTENDS BigNat, CliRules, TraceLib
CONSTANT Prop
VARIABLE l

ListOK(n, fs) ==
  IF n = Zero THEN fs = <<Zero>>
  ELSE IF n = One THEN fs = <<>>
  ELSE /\ \A i \in 1..Len(fs) : fs[i] # Zero /\ fs[i] # One /\ Divides(fs[i], n)
       /\ Prod(fs) = n

\* C03: terminates, by one of the declared exits
Total(e) ==
  /\ ~e.timeout /\ e.signal = 0
  /\ e.why \in Expected(e.cls)
  /\ e.status = StatusOf(e.why)
  /\ e.status # 0 => (e.out = <<>> /\ e.outbad = 0 /\ e.ploc = "src/bin/ymqs.rs")
  /\ e.why = "usage" => (e.out = <<>> /\ e.outbad = 0)

\* C01: what is printed with status 0 is a factor list of the argument
Answer(e) == (e.status = 0 /\ e.why = "answer") => (e.outbad = 0 /\ Has(e, "n") /\ ListOK(e.n, e.out))

InputsOK(e) == /\ e.cls.orphans \in 0..2 /\ e.cls.num \in {"dec", "garbage"} /\ e.cls.size \in {"le500", "gt500", "gt1024"}
               /\ (Has(e, "n") => (IsNat(e.n) /\ (e.cls.size = "le500" <=> BitLen(e.n) <= 500)))
               /\ \A i \in 1..Len(e.out) : IsNat(e.out[i])

Init == l = 1
Next == /\ l <= NRec /\ l' = l + 1
        /\ LET e == Rec[l] IN
           /\ Witness(l, "inputs", e.op = "cli" /\ InputsOK(e))
           /\ IF Prop = "C01" THEN Strict(l, "cli-answer", Answer(e))
              ELSE Strict(l, "cli-total", Total(e))
Spec == Init /\ [][Next]_l
=============================================================================
