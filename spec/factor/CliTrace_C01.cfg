SPECIFICATION Spec
CONSTANT Prop = "C01"
POSTCONDITION TraceComplete
CHECK_DEADLOCK FALSE
