INIT Init
NEXT Next
CONSTANT Prop = "C02"
CONSTANT Thorough = TRUE
INVARIANT Emit
CHECK_DEADLOCK FALSE
