----------------------------- MODULE CliShapes -----------------------------
(***************************************************************************)
(* Input space of the command-line layer (see Cli.tla): one record per     *)
(* invocation class, concretised by the harness (ymqv cli), run against    *)
(* the real ymqs binary built from the tree under test, validated by       *)
(* CliTrace.tla.                                                           *)
(***************************************************************************)
EXTENDS Naturals, TLC, Json
\* ------------------------------------------------------------ input space
\* One record per invocation class.  num: how the NUMBER argument is built; bits: its size (where it applies);
\* mode / verbose / threads / fb / large / dbl: options ("" = not given); orphans: number of positional arguments.
Sh(num, bits, mode, verbose, threads, extra) ==
  [num |-> num, bits |-> bits, mode |-> mode, verbose |-> verbose, threads |-> threads, extra |-> extra, orphans |-> 1]

Modes == {"", "auto", "ecm", "qs", "mpqs", "siqs", "pm1", "rho", "squfof", "qs64", "ecm128"}
Valid ==
  {Sh(sh, b, m, v, 0, "") : sh \in {"pq", "p2q", "prime", "smooth"}, b \in {20, 48, 64, 90}, m \in {"", "qs", "mpqs", "siqs", "ecm"},
                            v \in {"", "silent"}}
  \cup {Sh("pq", b, m, "silent", 0, "") : b \in {30, 60}, m \in Modes}
  \cup {Sh("pq", b, "", "silent", t, "") : b \in {64, 100, 128}, t \in {1, 2, 4}}
  \cup {Sh("pq", 80, m, v, 0, x) : m \in {"qs", "mpqs", "siqs"}, v \in {"silent", "info", "verbose", "debug", "0", "3"},
                                  x \in {"", "dbl_true", "dbl_false", "large_50", "fb_400"}}
  \cup {Sh(sh, 1, m, v, 0, "") : sh \in {"zero", "one", "two", "lead_zeros"}, m \in {"", "siqs", "ecm"},
                                 v \in {"", "silent"}}
  \* near the size limit: q * P with q - 1 smooth, found at once by P-1 (the call finishes)
  \cup {Sh("qP", b, "", "silent", 0, "") : b \in {400, 480, 499, 500}}
Refused ==
  {Sh(sh, 1, m, "silent", 0, "") : sh \in {"empty", "letters", "negative", "hex", "float", "trailing", "unicode"}, m \in {"", "siqs"}}
  \cup {Sh(sh, b, m, "silent", 0, "") : sh \in {"qP", "over_random"}, b \in {501, 502, 511, 512, 513, 600, 1000, 1024},
                                       m \in {"", "ecm", "siqs", "qs"}}
  \cup {Sh("over_random", b, "", "silent", 0, "") : b \in {1025, 1100, 2048, 5000}}
  \cup {Sh("pq", 40, m, "silent", 0, "") : m \in {"bogus", "QS", "ecm ", "siqs,qs"}}
  \cup {Sh("pq", 40, "", v, 0, "") : v \in {"loud", "Info", "4", "-1"}}
UsageSet ==
  {[num |-> "pq", bits |-> 40, mode |-> "", verbose |-> "", threads |-> 0, extra |-> x, orphans |-> o] :
      x \in {"", "help"}, o \in {0, 1, 2}} \ {Sh("pq", 40, "", "", 0, "")}

CliShapes == Valid \cup Refused \cup UsageSet

VARIABLE s
ShInit == s \in CliShapes
ShNext == UNCHANGED s
Emit == PrintT(<<"SHAPE", ToJson(s)>>)
=============================================================================
