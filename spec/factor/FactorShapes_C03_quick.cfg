INIT Init
NEXT Next
CONSTANT Prop = "C03"
CONSTANT Thorough = FALSE
INVARIANT Emit
CHECK_DEADLOCK FALSE
