---- MODULE Cli_TTrace_1790441873 ----
EXTENDS Cli, Sequences, TLCExt, Toolbox, Naturals, TLC

_expression ==
    LET Cli_TEExpression == INSTANCE Cli_TEExpression
    IN Cli_TEExpression!expression
----

_trace ==
    LET Cli_TETrace == INSTANCE Cli_TETrace
    IN Cli_TETrace!trace
----

_inv ==
    ~(
        TLCGet("level") = Len(_TETrace)
        /\
        pc = ("factor")
        /\
        lib = ("none")
        /\
        arg = ([v |-> 1, orphans |-> 1, help |-> FALSE, num |-> "dec", size |-> "le500", verb |-> "ok", mode |-> "ok"])
        /\
        why = ("none")
        /\
        entered = (FALSE)
        /\
        out = (<<>>)
        /\
        status = (-1)
    )
----

_init ==
    /\ entered = _TETrace[1].entered
    /\ out = _TETrace[1].out
    /\ why = _TETrace[1].why
    /\ pc = _TETrace[1].pc
    /\ lib = _TETrace[1].lib
    /\ status = _TETrace[1].status
    /\ arg = _TETrace[1].arg
----

_next ==
    /\ \E i,j \in DOMAIN _TETrace:
        /\ \/ /\ j = i + 1
              /\ i = TLCGet("level")
        /\ entered  = _TETrace[i].entered
        /\ entered' = _TETrace[j].entered
        /\ out  = _TETrace[i].out
        /\ out' = _TETrace[j].out
        /\ why  = _TETrace[i].why
        /\ why' = _TETrace[j].why
        /\ pc  = _TETrace[i].pc
        /\ pc' = _TETrace[j].pc
        /\ lib  = _TETrace[i].lib
        /\ lib' = _TETrace[j].lib
        /\ status  = _TETrace[i].status
        /\ status' = _TETrace[j].status
        /\ arg  = _TETrace[i].arg
        /\ arg' = _TETrace[j].arg

\* Uncomment the ASSUME below to write the states of the error trace
\* to the given file in Json format. Note that you can pass any tuple
\* to `JsonSerialize`. For example, a sub-sequence of _TETrace.
    \* ASSUME
    \*     LET J == INSTANCE Json
    \*         IN J!JsonSerialize("Cli_TTrace_1790441873.json", _TETrace)

=============================================================================

 Note that you can extract this module `Cli_TEExpression`
  to a dedicated file to reuse `expression` (the module in the 
  dedicated `Cli_TEExpression.tla` file takes precedence 
  over the module `Cli_TEExpression` below).

---- MODULE Cli_TEExpression ----
EXTENDS Cli, Sequences, TLCExt, Toolbox, Naturals, TLC

expression == 
    [
        \* To hide variables of the `Cli` spec from the error trace,
        \* remove the variables below.  The trace will be written in the order
        \* of the fields of this record.
        entered |-> entered
        ,out |-> out
        ,why |-> why
        ,pc |-> pc
        ,lib |-> lib
        ,status |-> status
        ,arg |-> arg
        
        \* Put additional constant-, state-, and action-level expressions here:
        \* ,_stateNumber |-> _TEPosition
        \* ,_enteredUnchanged |-> entered = entered'
        
        \* Format the `entered` variable as Json value.
        \* ,_enteredJson |->
        \*     LET J == INSTANCE Json
        \*     IN J!ToJson(entered)
        
        \* Lastly, you may build expressions over arbitrary sets of states by
        \* leveraging the _TETrace operator.  For example, this is how to
        \* count the number of times a spec variable changed up to the current
        \* state in the trace.
        \* ,_enteredModCount |->
        \*     LET F[s \in DOMAIN _TETrace] ==
        \*         IF s = 1 THEN 0
        \*         ELSE IF _TETrace[s].entered # _TETrace[s-1].entered
        \*             THEN 1 + F[s-1] ELSE F[s-1]
        \*     IN F[_TEPosition - 1]
    ]

=============================================================================



Parsing and semantic processing can take forever if the trace below is long.
 In this case, it is advised to uncomment the module below to deserialize the
 trace from a generated binary file.

\*
\*---- MODULE Cli_TETrace ----
\*EXTENDS Cli, IOUtils, TLC
\*
\*trace == IODeserialize("Cli_TTrace_1790441873.bin", TRUE)
\*
\*=============================================================================
\*

---- MODULE Cli_TETrace ----
EXTENDS Cli, TLC

trace == 
    <<
    ([pc |-> "start",lib |-> "none",arg |-> [v |-> 1, orphans |-> 1, help |-> FALSE, num |-> "dec", size |-> "le500", verb |-> "ok", mode |-> "ok"],why |-> "none",entered |-> FALSE,out |-> <<>>,status |-> -1]),
    ([pc |-> "number",lib |-> "none",arg |-> [v |-> 1, orphans |-> 1, help |-> FALSE, num |-> "dec", size |-> "le500", verb |-> "ok", mode |-> "ok"],why |-> "none",entered |-> FALSE,out |-> <<>>,status |-> -1]),
    ([pc |-> "guard",lib |-> "none",arg |-> [v |-> 1, orphans |-> 1, help |-> FALSE, num |-> "dec", size |-> "le500", verb |-> "ok", mode |-> "ok"],why |-> "none",entered |-> FALSE,out |-> <<>>,status |-> -1]),
    ([pc |-> "verb",lib |-> "none",arg |-> [v |-> 1, orphans |-> 1, help |-> FALSE, num |-> "dec", size |-> "le500", verb |-> "ok", mode |-> "ok"],why |-> "none",entered |-> FALSE,out |-> <<>>,status |-> -1]),
    ([pc |-> "mode",lib |-> "none",arg |-> [v |-> 1, orphans |-> 1, help |-> FALSE, num |-> "dec", size |-> "le500", verb |-> "ok", mode |-> "ok"],why |-> "none",entered |-> FALSE,out |-> <<>>,status |-> -1]),
    ([pc |-> "factor",lib |-> "none",arg |-> [v |-> 1, orphans |-> 1, help |-> FALSE, num |-> "dec", size |-> "le500", verb |-> "ok", mode |-> "ok"],why |-> "none",entered |-> FALSE,out |-> <<>>,status |-> -1])
    >>
----


=============================================================================

---- CONFIG Cli_TTrace_1790441873 ----

INVARIANT
    _inv

CHECK_DEADLOCK
    \* CHECK_DEADLOCK off because of PROPERTY or INVARIANT above.
    FALSE

INIT
    _init

NEXT
    _next

CONSTANT
    _TETrace <- _trace

ALIAS
    _expression
=============================================================================
\* Generated on Sat Sep 26 16:57:54 UTC 2026