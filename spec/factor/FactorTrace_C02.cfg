SPECIFICATION Spec
CONSTANT Prop = "C02"
POSTCONDITION TraceComplete
CHECK_DEADLOCK FALSE
