SPECIFICATION Spec
CONSTANTS
  Scenario = "large"
INVARIANTS CursorInv ReportComplete NoLossVeryLarge
CHECK_DEADLOCK FALSE
