------------------------------ MODULE SieveTrace ------------------------------
(***************************************************************************)
(* C13 - trace specification of the block sieve (sieve.rs), public API.    *)
(*                                                                         *)
(* Abstract state: the factor base, the current root tables (position 0 =  *)
(* start of the interval) and the overflow accounting of the bucket        *)
(* tables.  A case is: fb, then any number of  new / rehash  events, each  *)
(* followed by its  block  events.                                         *)
(*                                                                         *)
(* StrictC13 (= ReportComplete): for every reported position i of block b  *)
(* and every prime index j with                                            *)
(*        (b * 32768 + i) mod p_j  \in  {r1_j, r2_j}                       *)
(* j is in the list returned with the report - except for the documented,  *)
(* counted overflow: a bucket table (primes of 16, 17 or 18 bits) keeps    *)
(* `slots` overflowing hits and counts all of them in n_overflows, so at   *)
(* most max(0, n_overflows - slots) (position, prime) pairs of that table  *)
(* may be missing over the whole interval.  Extra listed primes and        *)
(* unreported positions are not part of the guarantee.                     *)
(***************************************************************************)
EXTENDS TraceLib, FiniteSets, SequencesExt
VARIABLES l, st

BS == 32768
RECURSIVE BitLenInt(_)
BitLenInt(n) == IF n = 0 THEN 0 ELSE 1 + BitLenInt(n \div 2)

TableClasses == {16, 17, 18}           \* bit lengths served by the 256-wide bucket tables
Zero3 == [c \in TableClasses |-> 0]

RECURSIVE SumSeq(_)
SumSeq(s) == IF s = <<>> THEN 0 ELSE Head(s) + SumSeq(Tail(s))
Max2(a, b) == IF a >= b THEN a ELSE b

\* pairs that the tables of class c have dropped: what was counted beyond the kept overflow slots
LostOf(novf) ==
  [c \in TableClasses |->
     SumSeq([k \in 1..Len(novf) |-> IF novf[k].log = c THEN Max2(0, novf[k].n - novf[k].slots) ELSE 0])]

\* ---- the loss the bucket tables can have, computed from the INPUTS (root tables), not from the sieve's counters:
\* a table of class c holds, per bucket of `bw` positions, `cap` hits; further hits go to `slots` overflow records
\* (table-wide) and only what exceeds those is dropped.  (bw, cap, slots are read from the code, so a re-tuned
\* table changes nothing here.)  Counting walks every hit of every prime of the class; for very large inputs the
\* sieve's own counters are used instead (HitsBudget).
HitsBudget == 14000
ClassSeq(ps, c) == SelectSeq([j \in 1..Len(ps) |-> j], LAMBDA j : BitLenInt(ps[j]) = c)
AddHits(cnt, p, r, L, bw) ==
  IF r >= L THEN cnt
  ELSE FoldLeft(LAMBDA c2, k : [c2 EXCEPT ![(r + (k - 1) * p) \div bw] = @ + 1], cnt, [k \in 1..(((L - 1 - r) \div p) + 1) |-> k])
BucketCounts(ps, r1, r2, c, L, bw) ==
  FoldLeft(LAMBDA cnt, j : AddHits(AddHits(cnt, ps[j], r1[j], L, bw), ps[j], r2[j], L, bw),
           [b \in 0..((L \div bw) - 1) |-> 0], ClassSeq(ps, c))
TrueLost(ps, r1, r2, c, L, bw, cap, slots) ==
  LET cnt == BucketCounts(ps, r1, r2, c, L, bw)
      ovf == FoldLeft(LAMBDA a, b : a + Max2(0, cnt[b - 1] - cap), 0, [b \in 1..(L \div bw) |-> b])
  IN Max2(0, ovf - slots)
SlotsOf(novf, c) == LET k == SelectSeq([i \in 1..Len(novf) |-> i], LAMBDA i : novf[i].log = c)
                    IN IF k = <<>> THEN 0 ELSE novf[k[1]].slots
Computable(ps, nb) == \A c \in TableClasses : Len(ClassSeq(ps, c)) * nb <= HitsBudget
LostFromInputs(ps, e, nb) ==
  [c \in TableClasses |->
     IF SlotsOf(e.novf, c) = 0 THEN 0
     ELSE TrueLost(ps, e.r1, e.r2, c, nb * BS, e.bw, e.bcap, SlotsOf(e.novf, c))]

Init0 == [ps |-> <<>>, r1 |-> <<>>, r2 |-> <<>>, lost |-> Zero3, used |-> Zero3, check |-> "all", nb |-> 1]

\* prime indices (1-based) examined for each report: all of them, or for the largest bases all primes
\* of the bucket classes and one in eight of the others
\* ("top": bases above 2^16 primes - the primes whose index does not fit 16 bits, their aliases below, one in 16)
Examined(s) == IF s.check = "all" THEN 1..Len(s.ps)
               ELSE IF s.check = "top" THEN {j \in 1..Len(s.ps) : j > 65000 \/ j <= 6000 \/ j % 16 = 0}
               ELSE {j \in 1..Len(s.ps) : s.ps[j] >= 32768 \/ j % 8 = 0}

Hit(s, pos, j) == LET m == pos % s.ps[j] IN m = s.r1[j] \/ m = s.r2[j]

\* prime indices that divide the value at the reported position but are not listed
MissingOf(s, b, rep) ==
  LET pos == b * BS + rep[1]
      listed == {rep[2][k] + 1 : k \in 1..Len(rep[2])}
  IN {j \in Examined(s) : Hit(s, pos, j) /\ j \notin listed}

AllMissing(s, e) == UNION {MissingOf(s, e.b, e.reports[k]) : k \in 1..Len(e.reports)}
\* (position, prime) pairs missing in this block, per table class
MissCount(s, e, c) ==
  SumSeq([k \in 1..Len(e.reports) |->
            Cardinality({j \in MissingOf(s, e.b, e.reports[k]) : BitLenInt(s.ps[j]) = c})])

RootTablesOK(s, e) ==
  /\ Len(e.r1) = Len(s.ps) /\ Len(e.r2) = Len(s.ps)

Apply(s, e) ==
  CASE e.op = "fb" -> [Init0 EXCEPT !.ps = e.primes, !.check = e.check]
    [] e.op \in {"new", "rehash"} /\ ~Has(e, "outcome") ->
         LET nb == IF e.op = "new" THEN e.nblocks ELSE s.nb IN
         [s EXCEPT !.r1 = e.r1, !.r2 = e.r2, !.nb = nb, !.used = Zero3,
                   !.lost = IF Computable(s.ps, nb) THEN LostFromInputs(s.ps, e, nb) ELSE LostOf(e.novf)]
    [] e.op = "block" /\ ~Has(e, "outcome") ->
         [s EXCEPT !.used = [c \in TableClasses |-> s.used[c] + MissCount(s, e, c)]]
    [] OTHER -> s

\* StrictC13
ReportComplete(s, e) ==
  LET s2 == Apply(s, e)
  IN /\ e.b < 65536
     /\ \A j \in AllMissing(s, e) : BitLenInt(s.ps[j]) \in TableClasses
     /\ \A c \in TableClasses : s2.used[c] <= s.lost[c]

\* ModelC13 (drift only): the sieve's own overflow counters account for exactly the computed loss
CountersAgree(s, e) ==
  (e.op \in {"new", "rehash"} /\ ~Has(e, "outcome")) =>
     LET nb == IF e.op = "new" THEN e.nblocks ELSE s.nb
     IN Computable(s.ps, nb) => LostFromInputs(s.ps, e, nb) = LostOf(e.novf)

Ok(s, e) ==
  CASE e.op = "fb" -> Len(e.primes) > 0
    [] e.op \in {"new", "rehash"} -> RootTablesOK(s, e)
    [] e.op = "block" -> ReportComplete(s, e)
    [] OTHER -> FALSE

Accept(s, e) == IF Has(e, "outcome") THEN FALSE ELSE Ok(s, e)

Init == l = 1 /\ st = Init0
\* informational: how much of the counted-overflow tolerance was used
TolNote(i, s, e) ==
  IF e.op = "block" /\ ~Has(e, "outcome") /\ (\E c \in TableClasses : MissCount(s, e, c) > 0)
  THEN Note(i, "tolerated-overflow-loss", [c \in TableClasses |-> MissCount(s, e, c)]) ELSE TRUE

Next == /\ l <= NRec /\ l' = l + 1
        /\ Strict(l, Rec[l].op, Accept(st, Rec[l]))
        /\ Drift(l, "overflow-counters", CountersAgree(st, Rec[l]))
        /\ TolNote(l, st, Rec[l])
        /\ st' = Apply(st, Rec[l])
Spec == Init /\ [][Next]_<<l, st>>
=============================================================================
