SPECIFICATION Spec
CONSTANTS
  Scenario = "medium"
INVARIANTS CursorInv ReportComplete NoLossVeryLarge
CHECK_DEADLOCK FALSE
