------------------------------ MODULE SieveCursor ------------------------------
(***************************************************************************)
(* C13 (M) - the block sieve of sieve.rs, scaled down:                     *)
(*   block size BS = 16 (32768 in the code), NB blocks per interval,       *)
(*   small primes  p < BS/2 : two cursors per prime, NONE marker when the  *)
(*                 two roots coincide; the smallest ones (p <= PSkip) are  *)
(*                 not sieved, their cursors advance by the modular rule;  *)
(*                 the others advance by running the (unrolled) hit loop;  *)
(*   medium primes BS/2 <= p < BS : same cursors, recovered by             *)
(*                 i = off or i = off + p;                                 *)
(*   large primes  (bucket tables): buckets of width BW = 4 (256) with     *)
(*                 SLOTS = 2 entries (32) holding (offset in bucket, low   *)
(*                 bit of the prime index (low 8 bits)), KEPT = 1 recorded *)
(*                 overflows (32) and a counter of all overflows;          *)
(*   very large    buckets of width BS/2 with a bounded body and an        *)
(*                 unbounded overflow list.                                *)
(* Threshold 0: every position of every block is reported, so the model    *)
(* checks the factor recovery everywhere.  After the last block the state  *)
(* is recycled into a second sieve with other roots (stale table contents  *)
(* are kept, only the counters are reset, as in the code).                 *)
(*                                                                         *)
(* CursorInv      : before block b every live cursor equals                *)
(*                  (root - b * BS) mod p;                                 *)
(* ReportComplete : for every position i of the current block and every    *)
(*                  prime p with (b*BS + i) mod p in {r1, r2}, p is listed *)
(*                  - except that over a whole interval at most            *)
(*                  max(0, n_overflows - KEPT) (position, prime) pairs of  *)
(*                  the bucket table may be missing;                       *)
(* NoLossVeryLarge: the very large class never loses a pair.               *)
(***************************************************************************)
EXTENDS Naturals, Integers, Sequences, FiniteSets, TLC

CONSTANTS Scenario        \* "small", "medium", "large", "vlarge" : which prime class is populated
BS == 16
NB == 2
BW == 4
SLOTS == 2
KEPT == 1
PSkip == 3
LBW == 8                  \* width of a very-large bucket (half a block)
LSLOTS == 1               \* body of a very-large bucket
NONE == 99
IV == NB * BS             \* interval length

VARIABLES rt,             \* root table: prime -> <<r1, r2>>
          gen,            \* 0 = fresh sieve, 1 = sieve built on recycled state
          b, ph,          \* block number; "ready" (before sieve_block) or "sieved"
          lo, lop,        \* cursors after / before the current block: prime -> <<c1, c2>>
          ent, blen,      \* bucket table: bucket -> sequence of SLOTS entries <<off, low>>, and lengths
          ovf, novf,      \* recorded overflows (sequence of KEPT entries <<offset in block, low>>), counter
          lent, llen, lovf,\* very large buckets: bucket -> entries <<offset in block, prime>>, lengths, overflow list
          miss            \* (position, prime) pairs found missing so far in this interval (bucket table class)
vars == <<rt, gen, b, ph, lo, lop, ent, blen, ovf, novf, lent, llen, lovf, miss>>

Primes == CASE Scenario = "small"  -> {2, 3, 5, 7}
            [] Scenario = "medium" -> {11, 13}
            [] Scenario = "large"  -> {17, 19, 23}
            [] Scenario = "vlarge" -> {37, 41}
IsSmall(p) == p < BS
IsLarge(p) == p >= BS /\ p < 32
IsVLarge(p) == p >= 32
\* index of a prime inside the (sorted) factor base and its stored low bit
Idx(p) == Cardinality({q \in Primes : q < p})
Low(p) == Idx(p) % 2

\* root tables explored: every (r1, r2) for one prime of the class at a time (the others get a fixed
\* entry), two distinct roots for the bucket classes
Fixed(p) == <<3 % p, (3 * p + 7) % p>>
Tables ==
  LET Choices(p) == IF IsSmall(p) THEN (0..(p - 1)) \X (0..(p - 1))
                    ELSE {x \in (0..(p - 1)) \X (0..(p - 1)) : x[1] # x[2]}
  IN UNION {{[q \in Primes |-> IF q = p THEN x ELSE Fixed(q)] : x \in Choices(p)} : p \in Primes}
     \cup (IF Scenario = "large"
           THEN {[q \in Primes |-> IF q = 23 THEN <<3, 20>> ELSE IF q = 17 THEN x ELSE <<(x[1] + 2) % 19, (x[1] + 9) % 19>>] :
                   x \in {y \in (0..16) \X (0..16) : y[1] # y[2]}}
           ELSE {})

-----------------------------------------------------------------------------
(* Sieve::new : cursors and tables from a root table.  The tables are filled prime by prime, with  *)
(* the hit order of the code (unrolled pairs, then the tails of root 1 and of root 2).             *)
RECURSIVE Prog(_, _, _)
Prog(off, p, lim) == IF off >= lim THEN <<>> ELSE <<off>> \o Prog(off + p, p, lim)   \* off, off+p, ... < lim

HitsOf(p, t) ==
  LET o1 == t[p][1]
      o2 == t[p][2]
      rmax == IF o1 >= o2 THEN o1 ELSE o2
      m == IV - p - rmax
      RECURSIVE Unr(_)
      Unr(kp) == IF kp < m THEN <<kp + o1, kp + o2, kp + p + o1, kp + p + o2>> \o Unr(kp + 2 * p) ELSE <<>>
      RECURSIVE KpEnd(_)
      KpEnd(kp) == IF kp < m THEN KpEnd(kp + 2 * p) ELSE kp
  IN IF IsLarge(p) THEN Unr(0) \o Prog(o1 + KpEnd(0), p, IV) \o Prog(o2 + KpEnd(0), p, IV)
     ELSE Prog(o1, p, IV) \o Prog(o2, p, IV)

RECURSIVE Flat(_)
Flat(ss) == IF ss = <<>> THEN <<>> ELSE Head(ss) \o Flat(Tail(ss))
RECURSIVE SortedSeq(_)
SortedSeq(S) == IF S = {} THEN <<>> ELSE LET m == CHOOSE x \in S : \A y \in S : x <= y IN <<m>> \o SortedSeq(S \ {m})
\* all table insertions <<offset, prime>> in program order
Inserts(t, Cls(_)) == Flat([k \in 1..Cardinality({p \in Primes : Cls(p)}) |->
                              LET p == SortedSeq({q \in Primes : Cls(q)})[k]
                              IN [h \in 1..Len(HitsOf(p, t)) |-> <<HitsOf(p, t)[h], p>>]])

\* SieveTable::add applied to a sequence of insertions, starting from (possibly stale) contents
RECURSIVE AddAll(_, _, _, _, _)
AddAll(ins, e, bl, ov, nov) ==
  IF ins = <<>> THEN <<e, bl, ov, nov>>
  ELSE LET off == Head(ins)[1]
           p == Head(ins)[2]
           bk == off \div BW
       IN IF bl[bk] < SLOTS
          THEN AddAll(Tail(ins), [e EXCEPT ![bk][bl[bk] + 1] = <<off % BW, Low(p)>>], [bl EXCEPT ![bk] = @ + 1], ov, nov)
          ELSE AddAll(Tail(ins), e, bl,
                      IF nov < KEPT THEN [ov EXCEPT ![nov + 1] = <<off % BS, Low(p)>>] ELSE ov, nov + 1)

\* SieveTableLarge::add
RECURSIVE LAddAll(_, _, _, _)
LAddAll(ins, e, ln, ov) ==
  IF ins = <<>> THEN <<e, ln, ov>>
  ELSE LET off == Head(ins)[1]
           p == Head(ins)[2]
           bk == off \div LBW
           entry == <<off % BS, Low(p)>>
       IN IF ln[bk] < LSLOTS
          THEN LAddAll(Tail(ins), [e EXCEPT ![bk][ln[bk] + 1] = entry], [ln EXCEPT ![bk] = @ + 1], ov)
          ELSE LAddAll(Tail(ins), e, ln, Append(ov, entry))

Buckets == 0..(IV \div BW - 1)
LBuckets == 0..(IV \div LBW - 1)
Cursors0(t) == [p \in {q \in Primes : IsSmall(q)} |-> <<t[p][1], IF t[p][1] # t[p][2] THEN t[p][2] ELSE NONE>>]

\* fresh tables, or recycled ones: counters reset, contents stale
NewSieve(t, e0, ov0, le0) ==
  LET r  == AddAll(Inserts(t, IsLarge), e0, [k \in Buckets |-> 0], ov0, 0)
      lr == LAddAll(Inserts(t, IsVLarge), le0, [k \in LBuckets |-> 0], <<>>)
  IN /\ rt' = t /\ b' = 0 /\ ph' = "ready" /\ miss' = 0
     /\ lo' = Cursors0(t) /\ lop' = Cursors0(t)
     /\ ent' = r[1] /\ blen' = r[2] /\ ovf' = r[3] /\ novf' = r[4]
     /\ lent' = lr[1] /\ llen' = lr[2] /\ lovf' = lr[3]

EmptyEnt == [k \in Buckets |-> [s \in 1..SLOTS |-> <<0, 0>>]]
EmptyOvf == [s \in 1..KEPT |-> <<0, 0>>]
EmptyLEnt == [k \in LBuckets |-> [s \in 1..LSLOTS |-> <<0, 0>>]]

Init ==
  \E t \in Tables :
    LET r  == AddAll(Inserts(t, IsLarge), EmptyEnt, [k \in Buckets |-> 0], EmptyOvf, 0)
        lr == LAddAll(Inserts(t, IsVLarge), EmptyLEnt, [k \in LBuckets |-> 0], <<>>)
    IN /\ rt = t /\ gen = 0 /\ b = 0 /\ ph = "ready" /\ miss = 0
       /\ lo = Cursors0(t) /\ lop = Cursors0(t)
       /\ ent = r[1] /\ blen = r[2] /\ ovf = r[3] /\ novf = r[4]
       /\ lent = lr[1] /\ llen = lr[2] /\ lovf = lr[3]

-----------------------------------------------------------------------------
(* Sieve::sieve_block : cursor update *)
RECURSIVE Run(_, _)
Run(off, p) == IF off < BS THEN Run(off + p, p) ELSE off          \* while off < len { off += p }

Advance(p, c) ==
  IF p <= PSkip
  THEN \* skipped primes: off + p - (BS mod p), minus p when it reaches p  (applied to every cursor)
       [k \in 1..2 |-> LET off == c[k] + p - (BS % p) IN IF off >= p THEN off - p ELSE off]
  ELSE IF p < BS \div 2 /\ c[1] # NONE /\ c[2] # NONE
  THEN \* both roots: unrolled loop over pairs of hits, then the tails
       LET m == IF c[1] >= c[2] THEN c[1] ELSE c[2]
           ll == BS - p - m
           RECURSIVE KpEnd(_)
           KpEnd(kp) == IF kp < ll THEN KpEnd(kp + 2 * p) ELSE kp
       IN [k \in 1..2 |-> Run(c[k] + KpEnd(0), p) % BS]
  ELSE [k \in 1..2 |-> IF c[k] = NONE THEN NONE ELSE Run(c[k], p) % BS]

SieveBlock ==
  /\ ph = "ready"
  /\ lop' = lo
  /\ lo' = [p \in DOMAIN lo |-> Advance(p, lo[p])]
  /\ ph' = "sieved"
  /\ UNCHANGED <<rt, gen, b, ent, blen, ovf, novf, lent, llen, lovf, miss>>

-----------------------------------------------------------------------------
(* Sieve::smooths : primes listed for position i of the current block *)
IsFactor(i, p) == LET o == (b * BS + i) % p IN o = rt[p][1] \/ o = rt[p][2]

Listed(i) ==
  {p \in Primes :
     IF p < BS \div 2 THEN (i % p = lop[p][1] \/ i % p = lop[p][2])
     ELSE IF p < BS THEN \E k \in 1..2 : lop[p][k] # NONE /\ (i = lop[p][k] \/ i = lop[p][k] + p)
     ELSE IF IsLarge(p)
     THEN LET bk == (b * BS + i) \div BW
              boff == (b * BS + i) % BW
          IN /\ IsFactor(i, p)
             /\ \/ \E s \in 1..blen[bk] : ent[bk][s] = <<boff, Low(p)>>
                \/ \E s \in 1..(IF novf < KEPT THEN novf ELSE KEPT) : ovf[s] = <<i, Low(p)>>
     ELSE LET bk == (b * (BS \div LBW)) + (i \div LBW)
          IN /\ IsFactor(i, p)
             /\ \/ \E s \in 1..llen[bk] : lent[bk][s] = <<i, Low(p)>>
                \/ \E s \in 1..Len(lovf) : lovf[s] = <<i, Low(p)>>}

Divides(i, p) == (b * BS + i) % p \in {rt[p][1], rt[p][2]}
Missing == {<<i, p>> \in (0..(BS - 1)) \X Primes : Divides(i, p) /\ p \notin Listed(i)}

\* the reports of the block are examined; missing pairs are accumulated for the interval
Smooths ==
  /\ ph = "sieved"
  /\ ph' = "reported"
  /\ miss' = miss + Cardinality({x \in Missing : IsLarge(x[2])})
  /\ UNCHANGED <<rt, gen, b, lo, lop, ent, blen, ovf, novf, lent, llen, lovf>>

NextBlock ==
  /\ ph = "reported" /\ b + 1 < NB
  /\ b' = b + 1 /\ ph' = "ready"
  /\ UNCHANGED <<rt, gen, lo, lop, ent, blen, ovf, novf, lent, llen, lovf, miss>>

\* Sieve::recycle then Sieve::new(.., Some(recycled)) with another polynomial: roots rotated
Rot(t) == [p \in Primes |-> <<(t[p][1] + 5) % p, (t[p][2] + 2 * p - 3) % p>>]
RotOK(t) == \A p \in Primes : IsSmall(p) \/ Rot(t)[p][1] # Rot(t)[p][2]
Recycle ==
  /\ ph = "reported" /\ b + 1 = NB /\ gen = 0 /\ RotOK(rt)
  /\ gen' = 1
  /\ NewSieve(Rot(rt), ent, ovf, lent)

Next == SieveBlock \/ Smooths \/ NextBlock \/ Recycle
Spec == Init /\ [][Next]_vars

-----------------------------------------------------------------------------
CursorInv ==
  ph = "ready" =>
    \A p \in DOMAIN lo : \A k \in 1..2 :
      IF k = 2 /\ rt[p][1] = rt[p][2] THEN lo[p][2] >= p          \* NONE marker (or its image): never matches
      ELSE lo[p][k] = (rt[p][k] + p * BS - b * BS) % p /\ lo[p][k] < p

Lost == IF novf > KEPT THEN novf - KEPT ELSE 0

ReportComplete ==
  /\ ph = "sieved" => \A x \in Missing : IsLarge(x[2])
  /\ miss <= Lost

NoLossVeryLarge == ph = "sieved" => \A x \in Missing : ~IsVLarge(x[2])

\* reachability witnesses (expected to be violated in the "large" scenario): the tolerance is exercised
NeverOverflow == novf = 0
NeverLoses == miss = 0
=============================================================================
