SPECIFICATION Spec
CONSTANTS
  Scenario = "large"
INVARIANTS NeverLoses
CHECK_DEADLOCK FALSE
