SPECIFICATION Spec
CONSTANTS
  Scenario = "vlarge"
INVARIANTS CursorInv ReportComplete NoLossVeryLarge
CHECK_DEADLOCK FALSE
