SPECIFICATION Spec
CONSTANTS
  Scenario = "small"
INVARIANTS CursorInv ReportComplete NoLossVeryLarge
CHECK_DEADLOCK FALSE
