------------------------------ MODULE SqufofFn ------------------------------
(***************************************************************************)
(* Shanks's square forms factorisation exactly as src/squfof.rs runs it:   *)
(* multipliers k = 1..50, forward cycle until a square form at an odd      *)
(* index, inverse-square-root form, second cycle until P repeats, gcd.     *)
(* Exact for 50*n < 2^31 (every intermediate then fits TLC's integers).    *)
(* A result is <<f, n/f>>, <<>> (None), or <<0, code>> when the code would  *)
(* panic: code 1 = division by zero (k*n a perfect square), 2 = unsigned   *)
(* subtraction below zero.                                                 *)
(***************************************************************************)
EXTENDS Naturals, Sequences, TLC

RECURSIVE Gcd(_, _)
Gcd(a, b) == IF b = 0 THEN a ELSE Gcd(b, a % b)

\* floor square root by bisection (x < 2^31)
RECURSIVE Bis(_, _, _)
Bis(x, lo, hi) == IF lo = hi THEN lo
                  ELSE LET m == (lo + hi + 1) \div 2 IN IF m * m <= x THEN Bis(x, m, hi) ELSE Bis(x, lo, m - 1)
Isqrt(x) == Bis(x, 0, 46340)

MaybeSquare(x) == ((x % 8) \in {0, 1, 4}) /\ (((x + 1) % 5) <= 2)
\* n & 6 == 0  <=>  n mod 8 in {0, 1};  n & 7 == 4  <=>  n mod 8 = 4

None == <<>>
Div0 == <<0, 1>>
Underflow == <<0, 2>>
NextK == <<0, 0>>        \* internal: this multiplier failed

(* second cycle: returns <<f, n/f>>, NextK, or a panic code *)
RECURSIVE Phase2(_, _, _, _, _, _, _, _)
Phase2(n, nk, s, iters, i, pp, qp, q) ==
  IF i = iters THEN NextK
  ELSE IF q = 0 THEN Div0
  ELSE
    LET b == (s + pp) \div q
        p == (b * q) - pp
    IN IF (pp <= p) /\ (qp < b * (p - pp)) THEN Underflow
       ELSE LET qn == IF pp > p THEN qp + (b * (pp - p)) ELSE qp - (b * (p - pp)) IN
            IF p = pp
            THEN LET f == Gcd(n, pp) IN IF f > 1 THEN <<f, n \div f>> ELSE NextK
            ELSE Phase2(n, nk, s, iters, i + 1, p, q, qn)

(* first cycle *)
RECURSIVE Phase1(_, _, _, _, _, _, _, _)
Phase1(n, nk, s, iters, i, pp, qp, q) ==
  IF i = iters THEN NextK
  ELSE IF q = 0 THEN Div0
  ELSE
    LET b == (s + pp) \div q
        p == (b * q) - pp
    IN IF (pp <= p) /\ (qp < b * (p - pp)) THEN Underflow
       ELSE LET qn == IF pp > p THEN qp + (b * (pp - p)) ELSE qp - (b * (p - pp))
                r  == IF MaybeSquare(qn) THEN Isqrt(qn) ELSE 0
            IN IF MaybeSquare(qn) /\ qn = r * r /\ i % 2 = 1
               THEN \* square form found: start the second cycle from its square root
                    IF r = 0 THEN Div0
                    ELSE LET b2  == (s - p) \div r
                             pp2 == (b2 * r) + p
                         IN Phase2(n, nk, s, iters, 1, pp2, r, (nk - (pp2 * pp2)) \div r)
               ELSE Phase1(n, nk, s, iters, i + 1, p, q, qn)

TryK(n, k) ==
  LET nk == n * k
      s  == Isqrt(nk)
  IN IF s * s = n THEN <<s, s>>
     ELSE Phase1(n, nk, s, 3 * Isqrt(s), 1, s, 1, nk - (s * s))

RECURSIVE From(_, _)
From(n, k) == IF k > 50 THEN None
              ELSE LET r == TryK(n, k) IN IF r = NextK THEN From(n, k + 1) ELSE r

Squfof(n) == From(n, 1)

\* the domain on which factor_impl calls it: what is left after trial division has no prime factor <= 50
Coprime50(n) == \A d \in {2, 3, 5, 7, 11, 13, 17, 19, 23, 29, 31, 37, 41, 43, 47} : n % d # 0
=============================================================================
