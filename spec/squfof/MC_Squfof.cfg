SPECIFICATION Spec
CONSTANTS
  LO = 2501
  HI = 9000
  NS <- Dom
INVARIANTS FormInv NoDivZero PBound NoUnderflow ResultProper FnAgrees
CHECK_DEADLOCK FALSE
