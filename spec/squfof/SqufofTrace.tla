------------------------------ MODULE SqufofTrace ------------------------------
(***************************************************************************)
(* Real calls of squfof::squfof(n) for 50 n < 2^31, n without prime factor *)
(* below 53, in batches.  Strict: a returned pair is a genuine split (both  *)
(* parts > 1, product n) - what factor_impl relies on before it recurses.   *)
(* Drift: the result (including "None" and a panic, logged as [0,0]) is the *)
(* one the exact model SqufofFn computes.                                   *)
(***************************************************************************)
EXTENDS SqufofFn, TraceLib
VARIABLE l

Panicked(r) == r # None /\ r[1] = 0
SplitOK(m, r) == \/ r = None \/ Panicked(r)
                 \/ /\ Len(r) = 2 /\ r[1] > 1 /\ r[1] < m /\ m % r[1] = 0 /\ r[2] = m \div r[1]   \* by division: no overflow on a wrong pair

SameAsModel(m, r) == LET p == Squfof(m) IN IF Panicked(p) THEN Panicked(r) ELSE r = p

Init == l = 1
Next == /\ l <= NRec /\ l' = l + 1
        /\ LET e == Rec[l] IN
           IF Has(e, "outcome") \/ e.op # "squfof_batch" THEN Drift(l, e.op \o ".outcome", FALSE)
           ELSE /\ Strict(l, "squfof.split", {k \in 1..Len(e.ns) : ~SplitOK(e.ns[k], e.rs[k])} = {})
                /\ Drift(l, "squfof.model", {k \in 1..Len(e.ns) : ~SameAsModel(e.ns[k], e.rs[k])} = {})
Spec == Init /\ [][Next]_l
=============================================================================
