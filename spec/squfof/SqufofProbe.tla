------------------------------ MODULE SqufofProbe ------------------------------
(* Evaluates the exact function over a range and prints: inputs of the domain on which the code would panic, composite
   inputs of the domain on which it fails (None), improper splits, and splits of primes.  Printed, not asserted: the
   check compares the sets with what it expects and replays them against the real code. *)
EXTENDS SqufofFn, IOUtils, FiniteSets
VARIABLES lo, hi, x
IsComposite(m, sq) == \E d \in 51..sq : d * d <= m /\ m % d = 0
\* composites of the domain, plus the primes among every 16th integer (a prime costs all 50 multipliers)
Classify(l, h) ==
  LET sq  == Isqrt(h)
      dom == {m \in l..h : Coprime50(m) /\ m > 2500 /\ (IsComposite(m, sq) \/ m % 16 = 1)}
      res == {<<m, Squfof(m)>> : m \in dom}
  IN <<Cardinality(dom),
       {r[1] : r \in {t \in res : t[2] # None /\ t[2][1] = 0}},                                   \* would panic
       {r[1] : r \in {t \in res : t[2] # None /\ t[2][1] # 0 /\ ~(t[2][1] > 1 /\ t[2][2] > 1 /\ t[2][1] * t[2][2] = t[1])}},  \* improper split
       {r[1] : r \in {t \in res : t[2] = None /\ IsComposite(t[1], sq)}},                          \* fails on a composite
       {r[1] : r \in {t \in res : t[2] # None /\ ~IsComposite(t[1], sq)}}>>                        \* "splits" a prime
Init == lo = atoi(IOEnv.LO) /\ hi = atoi(IOEnv.HI) /\ x = 0
\* evaluated by a worker thread (deep recursion needs the -Xss stack)
Next == x = 0 /\ PrintT(<<"SQUFOF", lo, hi>> \o Classify(lo, hi)) /\ x' = 1 /\ UNCHANGED <<lo, hi>>
=============================================================================
