------------------------------ MODULE MC_Squfof ------------------------------
EXTENDS Squfof
CONSTANTS LO, HI
Dom == {m \in LO..HI : Coprime50(m) /\ m > 2500 /\ ((\E d \in 51..1000 : d * d <= m /\ m % d = 0) \/ m % 16 = 1)}
\* outside the domain factor_impl guarantees: multiples of small primes (k*n can be a perfect square: division by zero)
AnyN == LO..HI
=============================================================================
