------------------------------ MODULE Squfof ------------------------------
(***************************************************************************)
(* The loops of src/squfof.rs as a state machine (one action per loop      *)
(* iteration), over all inputs of a set.  Invariants: the form identity    *)
(* P^2 + Q*Qprev = k*n in both cycles, 0 < Q (no division by zero),        *)
(* P <= floor(sqrt(kn)), no unsigned subtraction below zero, whatever is   *)
(* returned is a genuine split, and agreement with the pure function       *)
(* SqufofFn!Squfof that the trace specification uses.                      *)
(***************************************************************************)
EXTENDS SqufofFn
CONSTANTS NS
VARIABLES n, k, ph, i, pp, qp, q, res
vars == <<n, k, ph, i, pp, qp, q, res>>

NK == n * k
S == Isqrt(NK)
Iters == 3 * Isqrt(S)

StartK(kk) ==
  LET nk == n * kk  s == Isqrt(nk) IN
  IF kk > 50 THEN ph' = "done" /\ res' = None /\ UNCHANGED <<k, i, pp, qp, q>>
  ELSE IF s * s = n THEN ph' = "done" /\ res' = <<s, s>> /\ k' = kk /\ UNCHANGED <<i, pp, qp, q>>
  ELSE ph' = "fwd" /\ k' = kk /\ i' = 1 /\ pp' = s /\ qp' = 1 /\ q' = nk - (s * s) /\ UNCHANGED res

Init == n \in NS /\ k = 0 /\ ph = "start" /\ i = 0 /\ pp = 0 /\ qp = 0 /\ q = 0 /\ res = None

Start == ph = "start" /\ StartK(1) /\ UNCHANGED n

Fwd == /\ ph = "fwd" /\ UNCHANGED n
       /\ IF i = Iters THEN StartK(k + 1)
          ELSE LET b == (S + pp) \div q
                   p == (b * q) - pp
                   qn == IF pp > p THEN qp + (b * (pp - p)) ELSE qp - (b * (p - pp))
                   r == Isqrt(qn)
               IN IF MaybeSquare(qn) /\ qn = r * r /\ i % 2 = 1
                  THEN LET b2 == (S - p) \div r  pp2 == (b2 * r) + p IN
                       ph' = "bwd" /\ i' = 1 /\ pp' = pp2 /\ qp' = r /\ q' = (NK - (pp2 * pp2)) \div r /\ UNCHANGED <<k, res>>
                  ELSE i' = i + 1 /\ pp' = p /\ qp' = q /\ q' = qn /\ UNCHANGED <<k, ph, res>>

Bwd == /\ ph = "bwd" /\ UNCHANGED n
       /\ IF i = Iters THEN StartK(k + 1)
          ELSE LET b == (S + pp) \div q
                   p == (b * q) - pp
                   qn == IF pp > p THEN qp + (b * (pp - p)) ELSE qp - (b * (p - pp))
               IN IF p = pp
                  THEN LET f == Gcd(n, pp) IN
                       IF f > 1 THEN ph' = "done" /\ res' = <<f, n \div f>> /\ UNCHANGED <<k, i, pp, qp, q>>
                       ELSE StartK(k + 1)
                  ELSE i' = i + 1 /\ pp' = p /\ qp' = q /\ q' = qn /\ UNCHANGED <<k, ph, res>>

Next == Start \/ Fwd \/ Bwd
Spec == Init /\ [][Next]_vars

InCycle == ph \in {"fwd", "bwd"}
FormInv == InCycle => (pp * pp) + (q * qp) = NK
NoDivZero == InCycle => q > 0 /\ qp > 0
PBound == InCycle => pp <= S /\ pp >= 0
\* the unsigned subtraction q_prev - b (p - p_prev) of the next step stays >= 0
NoUnderflow == (InCycle /\ i < Iters) =>
                 LET b == (S + pp) \div q  p == (b * q) - pp IN p >= 0 /\ (pp <= p => qp >= b * (p - pp))
ResultProper == ph = "done" => \/ res = None
                               \/ res[1] > 1 /\ res[2] > 1 /\ res[1] * res[2] = n
FnAgrees == ph = "done" => res = Squfof(n)
Terminates == <>(ph = "done")
=============================================================================
