SPECIFICATION Spec
CONSTANTS
  LO = 2
  HI = 200
  NS <- AnyN
INVARIANTS NoDivZero
CHECK_DEADLOCK FALSE
