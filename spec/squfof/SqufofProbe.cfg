INIT Init
NEXT Next
CHECK_DEADLOCK FALSE
