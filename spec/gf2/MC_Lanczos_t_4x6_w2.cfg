SPECIFICATION Spec
CONSTANTS NR = 4
          NC = 6
          W = 2
          NMat = 400
          NY = 300
          Variant = "code"
INVARIANTS TypeOK WOrthogonal VOrthogonal SelectionOK SkipSound ThreeTermWhenClassical YOrthogonal RankBound TerminationTest ResultOK
CHECK_DEADLOCK TRUE
