SPECIFICATION Spec
CONSTANTS NR = 2
          NC = 5
INVARIANTS Emit
CHECK_DEADLOCK TRUE
