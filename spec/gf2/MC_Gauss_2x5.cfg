SPECIFICATION Spec
CONSTANTS NR = 2
          NC = 5
INVARIANTS TypeOK CoefsInv ZerosInv PivotOrder CoefsBasis ResultOK TailBranchDead Part2Agrees
CHECK_DEADLOCK TRUE
