SPECIFICATION Spec
CONSTANTS NR = 3
          NC = 4
          W = 2
          NMat = 0
          NY = 64
          Variant = "code"
INVARIANTS TypeOK WOrthogonal VOrthogonal SelectionOK SkipSound ThreeTermWhenClassical YOrthogonal RankBound TerminationTest ResultOK
CHECK_DEADLOCK TRUE
