------------------------------ MODULE Gf2Trace ------------------------------
(***************************************************************************)
(* C14 (V): every recorded call of kernel_gauss / kernel_lanczos is judged *)
(* against the contract KernelOK of module Gf2, in the formulations of its *)
(* Part 2 that TLC can evaluate on matrices with thousands of columns      *)
(* (module Gf2Kernel model-checks that they agree with the definitions).   *)
(*                                                                         *)
(* Event fields (all indices 0-based, plain integers):                     *)
(*   op     "kernel_gauss" | "kernel_lanczos"                              *)
(*   nrows, ncols, m : the input, m[j+1] = row indices of column j         *)
(*   k      the returned vectors, k[i+1] = column indices of vector i      *)
(*   outcome  present iff the call panicked / did not come back            *)
(*  Gauss only, certificates produced by the harness (never trusted):      *)
(*   priv   priv[i+1] = a coordinate of vector i that no other vector has  *)
(*   dep    a non-empty set of vectors of k whose sum is zero              *)
(*   tri    [combo, piv] per vector: sums of members of k in triangular    *)
(*          position (general independence certificate)                    *)
(*   wit, wpriv  a family of kernel vectors with private coordinates that  *)
(*          is LARGER than k (counter-witness to |k| = ncols - rank)       *)
(*   expect the family that the model Gf2Kernel returns on this matrix     *)
(*          (only on matrices replayed from the model; judged as drift)    *)
(*                                                                         *)
(* Strict = the statement of C14.  Witness = a certificate of the harness  *)
(* is malformed (tool error).  Nothing else is judged (which basis Gauss   *)
(* returns, how many vectors Lanczos finds, ... are free).                 *)
(***************************************************************************)
EXTENDS TraceLib, Gf2
CONSTANT RankMax      \* the rank is computed here for matrices with at most RankMax columns
VARIABLE l

\* the harness's part of the deal: a well-formed matrix
InputOK(e) ==
  /\ e.nrows >= 0 /\ e.ncols >= 1 /\ Len(e.m) = e.ncols
  /\ \A j \in 1..e.ncols : InRange(e.m[j], e.nrows) /\ NoDup(e.m[j])

\* A returned vector v (sequence of column indices) is judged row by row: with R[r + 1] = the set of
\* columns that have row r (the transposed input), m annihilates v iff every row meets v evenly.
VecShapeOK(e, v) == InRange(v, e.ncols)
VecOK(R, v) == v # <<>> /\ \A V \in {SeqToSet(v)} : SumIsZero(R, V)   \* (singleton quantifier: evaluate once)
AllVecOK(R, K) == \A i \in 1..Len(K) : VecOK(R, K[i])

\* private coordinates: vector i has P[i], no other vector of K has it  => K is independent
PrivOK(K, P) ==
  \A Ks \in {Sets(K)} :
     /\ Len(P) = Len(K)
     /\ \A i \in 1..Len(K) : \A j \in 1..Len(K) : (P[i] \in Ks[j]) <=> (i = j)

\* an explicit vanishing combination  => K is dependent
DepOK(e) ==
  /\ e.dep # <<>> /\ InRange(e.dep, Len(e.k)) /\ NoDup(e.dep)
  /\ \A C \in {Coords(e.k, e.ncols)} : \A S \in {SeqToSet(e.dep)} : SumIsZero(C, S)

\* x[t] = sum of the members combo[t] of K; x[t] has coordinate piv[t], no later x[s] has it
\* => the x[t] are independent, they lie in the span of K and are as many as K  => K is independent
TriOK(e) ==
  /\ Len(e.tri) = Len(e.k)
  /\ \A t \in 1..Len(e.tri) : InRange(e.tri[t].combo, Len(e.k)) /\ e.tri[t].piv \in 0..(e.ncols - 1)
  /\ \A C \in {Coords(e.k, e.ncols)} : \A S \in {Sets([t \in 1..Len(e.tri) |-> e.tri[t].combo])} :
       \A t \in 1..Len(e.tri) :
          /\ OddAt(C, e.tri[t].piv, S[t])
          /\ \A s \in (t + 1)..Len(e.tri) : ~OddAt(C, e.tri[t].piv, S[s])

Rank(e) == RankSet({SeqToSet(e.m[j]) : j \in 1..e.ncols})

JudgeGauss(i, e, R) ==
  \* independence
  /\ IF Has(e, "priv") THEN Witness(i, "priv-certificate", PrivOK(e.k, e.priv))
     ELSE IF Has(e, "dep") THEN
       LET d == DepOK(e)
       IN Witness(i, "dep-certificate", d) /\ Strict(i, "gauss:independent", ~d)
     ELSE IF Has(e, "tri") THEN Witness(i, "tri-certificate", TriOK(e))
     ELSE Witness(i, "no-independence-certificate", FALSE)
  \* size of the family = ncols - rank
  /\ Strict(i, "gauss:count-bounds", Len(e.k) <= e.ncols /\ Len(e.k) + e.nrows >= e.ncols)
  /\ (e.ncols <= RankMax) => Strict(i, "gauss:count", Len(e.k) = e.ncols - Rank(e))
  \* conformance with the detailed model (which basis, in which order): informational
  /\ Has(e, "expect") => Drift(i, "gauss:model-result", Sets(e.k) = Sets(e.expect))
  /\ Has(e, "wit") =>
       LET WOk == /\ Len(e.wit) > Len(e.k)
                  /\ \A t \in 1..Len(e.wit) : VecShapeOK(e, e.wit[t])
                  /\ AllVecOK(R, e.wit) /\ PrivOK(e.wit, e.wpriv)
       IN /\ Witness(i, "wit-certificate", WOk)
          \* Len(wit) independent kernel vectors: rank <= ncols - Len(wit) < ncols - Len(k)
          /\ Strict(i, "gauss:count-witness", ~WOk)

JudgeCall(i, e) ==
  IF ~(e.op \in {"kernel_gauss", "kernel_lanczos"}) THEN Witness(i, "unknown-op", FALSE)
  ELSE IF ~InputOK(e) THEN Witness(i, "input", FALSE)
  ELSE IF Has(e, "outcome") THEN
       \* a call that does not come back is not judged by a clock; a panic on a valid input is rejected
       IF e.outcome = "timeout" THEN Drift(i, e.op \o ":timeout", FALSE)
       ELSE Strict(i, e.op \o ":" \o e.outcome, FALSE)
  ELSE IF ~(\A t \in 1..Len(e.k) : VecShapeOK(e, e.k[t])) THEN Strict(i, e.op \o ":index-range", FALSE)
  ELSE IF ~(\A t \in 1..Len(e.k) : NoDup(e.k[t])) THEN Witness(i, "repeated-index", FALSE)
  ELSE \A R \in {Coords(e.m, e.nrows)} :                 \* (singleton quantifier: evaluate once)
          /\ Strict(i, e.op \o ":nonzero-in-kernel", AllVecOK(R, e.k))
          /\ (e.op = "kernel_gauss") => JudgeGauss(i, e, R)

Init == l = 1
Next == l <= NRec /\ l' = l + 1 /\ JudgeCall(l, Rec[l])
Spec == Init /\ [][Next]_l
=============================================================================
