----------------------------- MODULE Gf2Kernel -----------------------------
(***************************************************************************)
(* C14 (M): kernel_gauss of src/matrix/gf2.rs as a state machine, started  *)
(* on EVERY matrix with NR rows and NC columns over GF(2).                 *)
(*                                                                         *)
(* The code keeps, next to the columns `cols`, an auxiliary matrix `coefs` *)
(* (initially the identity) that undergoes the same column operations, and *)
(* `zeros[j]` = BitVec::leading_zeros(cols[j]) = number of zero bits above *)
(* the highest set bit (= NR for the zero column).  One outer iteration:   *)
(* take the first column among done.. with the fewest leading zeros; if it *)
(* is the zero column return coefs[done..]; otherwise swap it to position  *)
(* `done` (zeros, coefs, cols all swapped) and add it (and its coefs) to   *)
(* every later column with the same number of leading zeros.  Sequence     *)
(* positions are 1-based here: Rust index j is position j+1, and `done`    *)
(* counts finished columns in both.                                        *)
(***************************************************************************)
EXTENDS Naturals, Sequences, FiniteSets, TLC, Json, Gf2
CONSTANTS NR, NC
ASSUME NR \in Nat /\ NC \in Nat \ {0}      \* at least one column (documented precondition)

VARIABLES M,        \* the input matrix (never changes): sequence of NC subsets of 0..NR-1
          cols, coefs, zeros, done,
          pc,       \* "loop" | "done"
          result    \* the returned sequence of coefficient vectors (subsets of 1..NC)
vars == <<M, cols, coefs, zeros, done, pc, result>>

Rows == 0..(NR - 1)
Top(c) == CHOOSE x \in c : \A y \in c : y <= x
LZ(c) == IF c = {} THEN NR ELSE NR - 1 - Top(c)

Init ==
  /\ M \in [1..NC -> SUBSET Rows]
  /\ cols = M
  /\ coefs = [j \in 1..NC |-> {j}]
  /\ zeros = [j \in 1..NC |-> LZ(M[j])]
  /\ done = 0 /\ pc = "loop" /\ result = <<>>

\* (done..ncols).min_by_key(|j| zeros[j]): the FIRST position with the minimal key
MinIdx ==
  CHOOSE i \in (done + 1)..NC :
    /\ \A j \in (done + 1)..NC : zeros[i] <= zeros[j]
    /\ \A j \in (done + 1)..(i - 1) : zeros[j] > zeros[i]

Swap(f, a, b) == [f EXCEPT ![a] = f[b], ![b] = f[a]]

\* `if zeros[i] == size { return coefs[done..] }`
Return ==
  /\ pc = "loop" /\ done < NC /\ zeros[MinIdx] = NR
  /\ result' = SubSeq(coefs, done + 1, NC)
  /\ pc' = "done"
  /\ UNCHANGED <<M, cols, coefs, zeros, done>>

\* swap + elimination loop (its iterations are independent of each other: each reads only the
\* pivot column and its own column)
Step ==
  /\ pc = "loop" /\ done < NC /\ zeros[MinIdx] # NR
  /\ LET i  == MinIdx
         d  == done + 1
         z1 == Swap(zeros, i, d)
         c1 == Swap(cols, i, d)
         k1 == Swap(coefs, i, d)
         Hit(j) == j > d /\ z1[j] = z1[d]
         c2 == [j \in 1..NC |-> IF Hit(j) THEN Xor2(c1[j], c1[d]) ELSE c1[j]]
         k2 == [j \in 1..NC |-> IF Hit(j) THEN Xor2(k1[j], k1[d]) ELSE k1[j]]
         z2 == [j \in 1..NC |-> IF Hit(j) THEN LZ(c2[j]) ELSE z1[j]]
     IN cols' = c2 /\ coefs' = k2 /\ zeros' = z2 /\ done' = d
  /\ UNCHANGED <<M, pc, result>>

\* code after the while loop
Exit ==
  /\ pc = "loop" /\ done = NC
  /\ result' = IF NC > 0 /\ zeros[NC] = NR THEN <<coefs[NC]>> ELSE <<>>
  /\ pc' = "done"
  /\ UNCHANGED <<M, cols, coefs, zeros, done>>

Finished == pc = "done" /\ UNCHANGED vars

Next == Return \/ Step \/ Exit \/ Finished
Spec == Init /\ [][Next]_vars

-----------------------------------------------------------------------------
TypeOK ==
  /\ done \in 0..NC /\ pc \in {"loop", "done"}
  /\ \A j \in 1..NC : cols[j] \subseteq Rows /\ coefs[j] \subseteq 1..NC /\ zeros[j] \in 0..NR

\* the auxiliary matrix records how each current column was obtained from the input
CoefsInv == \A j \in 1..NC : cols[j] = XorSel(M, coefs[j])

ZerosInv == \A j \in 1..NC : zeros[j] = LZ(cols[j])

\* the debug_assert at the loop head, and the triangular shape it is there for
PivotOrder ==
  /\ \A a \in 1..done : \A b \in (done + 1)..NC : zeros[a] <= zeros[b]
  /\ \A a \in 1..done : \A b \in (a + 1)..done : zeros[a] < zeros[b]
  /\ \A a \in 1..done : zeros[a] < NR

\* the column operations are invertible: coefs stays a basis of GF(2)^NC
CoefsBasis == Independent(coefs)

\* THE PROPERTY (Gauss clause of C14) on every terminal state
ResultOK == pc = "done" => KernelOK(M, result, TRUE)

\* the `if` after the loop can never be taken (informational: dead code)
TailBranchDead == (pc = "loop" /\ done = NC) => zeros[NC] # NR

\* the large-input formulations of Gf2 (Part 2), which the trace specification uses, agree with
\* the definitions on every matrix and every returned vector enumerated here
AsSeq(s) == SetToSeq(s)
Part2Agrees ==
  /\ (done = 0 /\ pc = "loop") =>
       /\ RankElim(M) = RankSpan(M)
       /\ LET F == [j \in 1..NC |-> AsSeq(M[j])]                   \* 0-based rows, as in JSON
              C == Coords(F, NR)
          IN /\ C = CoordsDef(F, NR)
             /\ \A V \in SUBSET (0..(NC - 1)) :
                  LET x == XorSel(M, {j + 1 : j \in V})
                  IN /\ SumIsZero(C, V) <=> (x = {})
                     /\ \A r \in Rows : OddAt(C, r, V) <=> (r \in x)

\* (G) every terminal behaviour as JSON (0-based indices): the matrix and the family the model returns.
\* The harness replays the matrix into the real kernel_gauss; the trace specification compares the
\* real result with `expect` as model drift (which basis is returned is not part of the property).
Emit ==
  pc = "done" =>
    PrintT(<<"REPLAY", ToJson([nrows |-> NR, ncols |-> NC,
                               cols |-> [j \in 1..NC |-> SetToSeq(M[j])],
                               expect |-> [i \in 1..Len(result) |-> SetToSeq({c - 1 : c \in result[i]})]])>>)
=============================================================================
