------------------------------- MODULE Gf2Gen -------------------------------
(***************************************************************************)
(* C14 (G): explicit small GF(2) matrices (at most 64 columns) whose       *)
(* corank is known from the construction, printed as JSON for the harness, *)
(* which feeds each one to kernel_gauss.  (The trace specification does    *)
(* not rely on the announced corank: it recomputes the rank.)              *)
(*                                                                         *)
(* A matrix is a sequence of columns, a column the set of its rows.        *)
(*   zero      R x C zero matrix                          corank C         *)
(*   identity  n x n                                      corank 0         *)
(*   full      R x C all ones                             corank C - 1     *)
(*   stair     n x n, column j = rows 0..j                corank 0         *)
(*   stair2    the same with every column twice           corank n         *)
(*   edge      rows {0}, {R-1}, {0,R-1}, {}: the highest and the lowest    *)
(*             bit of the bit vectors, R around word sizes corank 2        *)
(*   sylv      2n shifted copies of two coprime polynomials of degree n-1  *)
(*             (the family the repository's own test uses)  corank 1       *)
(*   combo     r independent columns (unit vectors or a staircase) and     *)
(*             C - r pseudo-random combinations of them, interleaved       *)
(*                                                          corank C - r   *)
(***************************************************************************)
EXTENDS Naturals, Sequences, FiniteSets, TLC, Json, SequencesExt
VARIABLE s

Lcg(x) == (x * 25173 + 13849) % 65536
Hash(a, b, c) == Lcg((Lcg((Lcg(a % 65536) + b) % 65536) + c) % 65536)
Bit(a, b, c) == (Hash(a, b, c) \div 256) % 2 = 1

P(kind, a, b, c) == [kind |-> kind, a |-> a, b |-> b, c |-> c]

Params ==
       {P("zero", r, c, 0) : r \in {1, 3}, c \in {1, 4}}
  \cup {P("identity", n, 0, 0) : n \in {1, 2, 5, 33, 64}}
  \cup {P("full", r, c, 0) : r \in {1, 2, 7}, c \in {1, 2, 9}}
  \cup {P("stair", n, 0, 0) : n \in {1, 2, 6, 40}}
  \cup {P("stair2", n, 0, 0) : n \in {1, 3, 32}}
  \cup {P("edge", r, 0, 0) : r \in {1, 2, 63, 64, 65, 127, 128, 129, 255, 256, 257, 511, 512, 513, 1025}}
  \cup {P("sylv", n, v, 0) : n \in {2, 3, 5, 8, 16, 32}, v \in 1..2}
  \cup {P("combo", rc[1], rc[2], v) :
           rc \in {<<1, 1>>, <<1, 2>>, <<1, 7>>, <<2, 3>>, <<2, 5>>, <<3, 3>>, <<5, 8>>, <<8, 20>>, <<13, 14>>,
                   <<20, 30>>, <<30, 64>>, <<63, 64>>, <<64, 64>>, <<7, 64>>},
           v \in 1..4}

\* pseudo-random polynomial of degree exactly n-1 with constant term 1 (set of exponents)
Poly(n, v) == {i \in 0..(n - 1) : i = 0 \/ i = n - 1 \/ Bit(v, 17, i)}
Flip(S, x) == IF x \in S THEN S \ {x} ELSE S \cup {x}
Shift(S, k) == {x + k : x \in S}
Xor(F, S) == {x \in UNION {F[i] : i \in S} : Cardinality({i \in S : x \in F[i]}) % 2 = 1}

Mat(p) ==
  CASE p.kind = "zero" -> [nrows |-> p.a, corank |-> p.b, cols |-> [j \in 1..p.b |-> {}]]
    [] p.kind = "identity" -> [nrows |-> p.a, corank |-> 0, cols |-> [j \in 1..p.a |-> {j - 1}]]
    [] p.kind = "full" -> [nrows |-> p.a, corank |-> p.b - 1, cols |-> [j \in 1..p.b |-> 0..(p.a - 1)]]
    [] p.kind = "stair" -> [nrows |-> p.a, corank |-> 0, cols |-> [j \in 1..p.a |-> 0..(j - 1)]]
    [] p.kind = "stair2" -> [nrows |-> p.a, corank |-> p.a, cols |-> [j \in 1..(2 * p.a) |-> 0..((j - 1) \div 2)]]
    [] p.kind = "edge" -> [nrows |-> p.a, corank |-> IF p.a = 1 THEN 3 ELSE 2,
                           cols |-> <<{0}, {p.a - 1}, {0, p.a - 1}, {}>>]
    [] p.kind = "sylv" ->
         LET n == p.a
             pp == Poly(n, p.b)
             qq == Flip(pp, n \div 2)          \* differs from pp in one coefficient, not the constant one if n > 1
         IN [nrows |-> 2 * n - 1, corank |-> 1,
             cols |-> [j \in 1..(2 * n) |-> IF j <= n THEN Shift(pp, j - 1) ELSE Shift(qq, j - n - 1)]]
    [] p.kind = "combo" ->
         LET r == p.a
             c == p.b
             v == p.c
             \* v odd: unit vectors, v even: staircase; two extra zero rows for v > 2
             basis == [i \in 1..r |-> IF v % 2 = 1 THEN {i - 1} ELSE 0..(i - 1)]
             raw == [j \in 1..c |-> IF j <= r THEN basis[j]
                                    ELSE Xor(basis, {i \in 1..r : Bit(v, j, i)})]
             \* interleave: position j holds raw[perm(j)], perm a bijection of 1..c
             step == CHOOSE a \in 1..c : /\ IF c <= 2 THEN a = 1 ELSE a > 1 /\ a > c \div 3
                                        /\ \A d \in 2..c : ~(a % d = 0 /\ c % d = 0)
         IN [nrows |-> r + (IF v > 2 THEN 2 ELSE 0), corank |-> c - r,
             cols |-> [j \in 1..c |-> raw[((j * step) % c) + 1]]]

Name(p) == p.kind \o "-" \o ToString(p.a) \o "-" \o ToString(p.b) \o "-" \o ToString(p.c)

Shape(p) ==
  LET m == Mat(p)
  IN [name |-> Name(p), nrows |-> m.nrows, ncols |-> Len(m.cols), corank |-> m.corank,
      cols |-> [j \in 1..Len(m.cols) |-> SetToSeq(m.cols[j])]]

Init == s \in Params
Next == UNCHANGED s
Emit == PrintT(<<"SHAPE", ToJson(Shape(s))>>)
=============================================================================
