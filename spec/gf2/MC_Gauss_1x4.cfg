SPECIFICATION Spec
CONSTANTS NR = 1
          NC = 4
INVARIANTS TypeOK CoefsInv ZerosInv PivotOrder CoefsBasis ResultOK TailBranchDead Part2Agrees
CHECK_DEADLOCK TRUE
