---------------------------- MODULE LanczosTrace ----------------------------
(***************************************************************************)
(* C14 (V), step level: runs of kernel_lanczos recorded by the hooks of    *)
(* src/matrix/gf2.rs (one event per block, one at exit) validated against  *)
(* what the model spec/gf2/Lanczos.tla says about a run.  Stateful: a run  *)
(* starts with lz_init; the state keeps the selections S_0, S_1, ... of    *)
(* the blocks so far, the set of freed blocks and the sum of the ranks.    *)
(*                                                                         *)
(* EVERYTHING here is implementation-shaped, hence Drift: the property     *)
(* (returned vectors non-zero and in the kernel) is judged on the result   *)
(* event of the same call by Gf2Trace.tla.                                 *)
(*                                                                         *)
(* Events (bit masks and matrix rows are lists of bit positions 0..63):    *)
(*  lz_init  nx ny lsize gram gginv nz                                     *)
(*  lz_iter  idx rev rk mask term nz proj freed yorth heavy [gram ginvg]   *)
(*  lz_exit  blocks dimker kept bynz returned                              *)
(*  lz_abort outcome                                                       *)
(***************************************************************************)
EXTENDS Naturals, Sequences, FiniteSets, Gf2, TraceLib
CONSTANTS LSize,        \* 64
          PerBlock,     \* iteration bound: blocks <= min(nx, ny) \div PerBlock + Margin
          Margin
VARIABLES l, st

Bits == 0..(LSize - 1)
Min2(a, b) == IF a <= b THEN a ELSE b

Idle == [active |-> FALSE, term |-> FALSE, nx |-> 0, ny |-> 0, sels |-> <<>>, freed |-> {}, sumrk |-> 0, nextidx |-> 0]

\* rows of a 64 x 64 matrix as a sequence of sets
RowsOf(m) == Sets(m)
IsIdentityOn(rows, S) == \A i \in Bits : rows[i + 1] = (IF i \in S THEN {i} ELSE {})
SymmetricRows(rows) == \A i \in Bits : \A j \in rows[i + 1] : i \in rows[j + 1]
RowRank(rows) == RankSet({rows[i + 1] : i \in Bits})
MinorRank(rows, S) == RankSet({rows[i + 1] \cap S : i \in S})

\* the rule of the code (model: CarryMask / ProjSet / SkipSet of Lanczos.tla): block j is still needed
\* for block m iff some column was selected in none of the blocks j+1 .. m-2
Unsel(s, k) == Bits \ s.sels[k + 1]
Carry(s, j, m) == {c \in Bits : \A k \in (j + 1)..(m - 2) : c \in Unsel(s, k)}
Live(s, m) == (0..(m - 1)) \ s.freed
ExpectProj(s, m) == {j \in Live(s, m) : Carry(s, j, m) # {}}
ExpectSkip(s, m) == Live(s, m) \ ExpectProj(s, m)

InitOk(i, e, s) ==
  /\ Drift(i, "init:previous-run-not-closed", ~s.active)
  /\ Drift(i, "init:lsize", e.lsize = LSize)
  /\ Drift(i, "init:dims", e.nx = e.nrows /\ e.ny = e.ncols)
  /\ Drift(i, "init:shape", Len(e.gram) = LSize /\ Len(e.gginv) = LSize)
  /\ (Len(e.gram) = LSize /\ Len(e.gginv) = LSize) =>
       /\ Drift(i, "init:gram-symmetric", SymmetricRows(RowsOf(e.gram)))
       \* Gram * inverse = identity (the product is computed by the hook from the matrices the code
       \* uses; the identity is recognised here) and, independently, the rank computed here
       /\ Drift(i, "init:gram-inverse", IsIdentityOn(RowsOf(e.gginv), Bits))
       /\ Drift(i, "init:gram-invertible", RowRank(RowsOf(e.gram)) = LSize)
  /\ Drift(i, "init:nonzero-columns", SeqToSet(e.nz) = Bits)

IterOk(i, e, s) ==
  LET S    == SeqToSet(e.mask)
      m    == e.idx
      inseq == s.active /\ ~s.term /\ m = s.nextidx
  IN /\ Drift(i, "iter:sequence", inseq)
     /\ Drift(i, "iter:direction", e.rev = (m % 2 = 1))
     /\ Drift(i, "iter:rank-mask", Cardinality(S) = e.rk /\ Len(e.mask) = e.rk /\ S \subseteq Bits)
     /\ Drift(i, "iter:termination-test", e.term = (e.rk = 0))
     /\ Drift(i, "iter:selected-nonzero", S \subseteq SeqToSet(e.nz))
     /\ Drift(i, "iter:y-orthogonal", e.yorth)
     /\ inseq =>
          /\ Drift(i, "iter:projections", SeqToSet(e.proj) = ExpectProj(s, m) /\ NoDup(e.proj))
          /\ Drift(i, "iter:freed", {e.freed[k][1] : k \in 1..Len(e.freed)} = ExpectSkip(s, m))
          /\ Drift(i, "iter:skip-sound", \A k \in 1..Len(e.freed) : e.freed[k][2])
          /\ Drift(i, "iter:rank-sum", s.sumrk + e.rk <= Min2(s.nx, s.ny))
          \* the classical condition (unselected columns were selected in the previous block) is not
          \* promised by the code, see Lanczos.tla: reported as a note, counted by the runner
          /\ (~e.term /\ ~((Bits \ S) \subseteq s.sels[m])) => Note(i, "classical-inclusion-fails", m)
     /\ e.heavy =>
          /\ Drift(i, "iter:shape", Len(e.gram) = LSize)
          /\ Len(e.gram) = LSize =>
               LET rows == RowsOf(e.gram)
               IN /\ Drift(i, "iter:gram-symmetric", SymmetricRows(rows))
                  /\ Drift(i, "iter:selection-maximal", RowRank(rows) = e.rk)
                  /\ Drift(i, "iter:selection-invertible", MinorRank(rows, S) = Cardinality(S))
          /\ ~e.term => Drift(i, "iter:pseudoinverse", Len(e.ginvg) = LSize /\ IsIdentityOn(RowsOf(e.ginvg), S))

ExitOk(i, e, s) ==
  /\ Drift(i, "exit:sequence", s.active /\ s.term /\ e.blocks = s.nextidx - 1)
  /\ (s.active /\ s.term) =>
       Drift(i, "exit:iteration-bound", e.blocks <= (Min2(s.nx, s.ny) \div PerBlock) + Margin)
  /\ Drift(i, "exit:candidates", e.kept <= e.dimker /\ e.dimker <= LSize /\ e.dimker >= LSize - Len(e.bynz))
  /\ Drift(i, "exit:returned", e.returned = e.kept)

Apply(e, s) ==
  CASE e.op = "lz_init" ->
         [active |-> TRUE, term |-> FALSE, nx |-> e.nx, ny |-> e.ny, sels |-> <<Bits>>, freed |-> {},
          sumrk |-> LSize, nextidx |-> 1]
    [] e.op = "lz_iter" ->
         IF ~(s.active /\ ~s.term /\ e.idx = s.nextidx) THEN Idle       \* lost the thread: later events say so
         ELSE [s EXCEPT !.term = e.term,
                        !.sels = IF e.term THEN @ ELSE Append(@, SeqToSet(e.mask)),
                        !.freed = @ \cup ExpectSkip(s, e.idx),
                        !.sumrk = @ + e.rk,
                        !.nextidx = @ + 1]
    [] e.op = "lz_exit" -> Idle
    [] OTHER -> Idle

Ok(i, e, s) ==
  CASE e.op = "lz_init" -> InitOk(i, e, s)
    [] e.op = "lz_iter" -> IterOk(i, e, s)
    [] e.op = "lz_exit" -> ExitOk(i, e, s)
    [] e.op = "lz_abort" -> Drift(i, "run-aborted:" \o e.outcome, FALSE)
    [] OTHER -> Witness(i, "unknown-op", FALSE)

Init == l = 1 /\ st = Idle
Next ==
  /\ l <= NRec
  /\ l' = l + 1
  /\ Ok(l, Rec[l], st)
  /\ st' = Apply(Rec[l], st)
Spec == Init /\ [][Next]_<<l, st>>
=============================================================================
