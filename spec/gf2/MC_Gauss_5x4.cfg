SPECIFICATION Spec
CONSTANTS NR = 5
          NC = 4
INVARIANTS TypeOK CoefsInv ZerosInv PivotOrder ResultOK TailBranchDead
CHECK_DEADLOCK TRUE
