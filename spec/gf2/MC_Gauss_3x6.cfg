SPECIFICATION Spec
CONSTANTS NR = 3
          NC = 6
INVARIANTS TypeOK CoefsInv ZerosInv PivotOrder ResultOK TailBranchDead
CHECK_DEADLOCK TRUE
