SPECIFICATION Spec
CONSTANTS NR = 5
          NC = 2
INVARIANTS TypeOK CoefsInv ZerosInv PivotOrder CoefsBasis ResultOK TailBranchDead Part2Agrees
CHECK_DEADLOCK TRUE
