SPECIFICATION Spec
CONSTANTS NR = 6
          NC = 7
          W = 2
          NMat = 200
          NY = 150
          Variant = "code"
INVARIANTS TypeOK WOrthogonal VOrthogonal SelectionOK SkipSound ThreeTermWhenClassical YOrthogonal RankBound TerminationTest ResultOK
CHECK_DEADLOCK TRUE
