SPECIFICATION Spec
CONSTANTS NR = 6
          NC = 7
          W = 2
          NMat = 30
          NY = 40
          Variant = "noalternate"
INVARIANTS ClassicalInclusion
CHECK_DEADLOCK TRUE
