SPECIFICATION Spec
CONSTANTS LSize = 64
          PerBlock = 56
          Margin = 4
POSTCONDITION TraceComplete
CHECK_DEADLOCK FALSE
