SPECIFICATION Spec
CONSTANT RankMax = 100000
POSTCONDITION TraceComplete
CHECK_DEADLOCK FALSE
