SPECIFICATION Spec
CONSTANTS NR = 4
          NC = 5
INVARIANTS TypeOK CoefsInv ZerosInv PivotOrder ResultOK TailBranchDead
CHECK_DEADLOCK TRUE
