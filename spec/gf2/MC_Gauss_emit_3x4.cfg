SPECIFICATION Spec
CONSTANTS NR = 3
          NC = 4
INVARIANTS Emit
CHECK_DEADLOCK TRUE
