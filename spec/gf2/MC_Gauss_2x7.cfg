SPECIFICATION Spec
CONSTANTS NR = 2
          NC = 7
INVARIANTS TypeOK CoefsInv ZerosInv PivotOrder ResultOK TailBranchDead
CHECK_DEADLOCK TRUE
