SPECIFICATION Spec
CONSTANTS NR = 5
          NC = 6
          W = 2
          NMat = 12
          NY = 25
          Variant = "nofilter"
INVARIANTS ResultOK
CHECK_DEADLOCK TRUE
