------------------------------ MODULE Gf2Shapes ------------------------------
(***************************************************************************)
(* C14 (I): the abstract input space of the matrices that the harness      *)
(* builds with seeded randomness.  A shape is                              *)
(*   [alg, nrows, ncols, corank, profile, nzero, ndup]                     *)
(* and stands for: ncols - corank - nzero - ndup random columns with the   *)
(* density profile, `corank` columns that are sums of random subsets of    *)
(* those, nzero zero columns, ndup copies of other columns, shuffled.      *)
(*   profile "sieve"   heavy low rows, sparse tail (row i present with     *)
(*                     probability min(1/2, 6/(i+1))), as in sieve matrices*)
(*           "uniform" 1..24 entries per column, all rows equally likely   *)
(*           "dense"   every entry with probability 1/2                    *)
(* Families:                                                               *)
(*   small  (Gauss)  every combination of tiny dimensions                  *)
(*   edge   (Gauss)  dimensions around the word (64) and SIMD block (256)  *)
(*                   sizes of the bit vectors, both orientations           *)
(*   large  (Gauss)  1000 .. Big columns, coranks 0 .. 100                 *)
(*   lanczos         128 .. Big rows inside the documented domain of       *)
(*                   block Lanczos (rank comfortably above the block size  *)
(*                   64: at least 110 random columns)                      *)
(***************************************************************************)
EXTENDS Naturals, Sequences, TLC, Json
CONSTANT Tier      \* "quick" | "thorough"
VARIABLE s

Q == Tier = "quick"
\* edge sizes
Edges == IF Q THEN <<63, 64, 65, 255, 256, 257, 513>>
         ELSE <<63, 64, 65, 127, 128, 129, 191, 192, 193, 255, 256, 257, 511, 512, 513>>
\* columns of the large Gauss matrices
Sizes == IF Q THEN <<1000, 2000, 3000>> ELSE <<1000, 2000, 3000, 4500, 6000>>
\* rows of the Lanczos matrices (the library itself switches to Lanczos above 5000 rows)
LSizes == IF Q THEN <<128, 200, 520, 1000, 2000, 3000>> ELSE <<128, 200, 520, 1000, 2000, 3000, 5200, 6000>>
\* shapes per size in the large families
T == IF Q THEN 6 ELSE 8
LT == IF Q THEN 3 ELSE 6

Sh(alg, r, c, k, prof, z, d) ==
  [alg |-> alg, nrows |-> r, ncols |-> c, corank |-> k, profile |-> prof, nzero |-> z, ndup |-> d]

Extras == <<<<0, 0>>, <<1, 0>>, <<0, 1>>, <<2, 2>>>>

Small ==
  {Sh("gauss", r, c, k, prof, Extras[x][1], Extras[x][2]) :
      r \in {1, 2, 3, 5, 8, 13}, c \in {1, 2, 3, 5, 8, 13, 21}, k \in {0, 1, 3},
      prof \in {"dense", "uniform"}, x \in 1..4}

Edge ==
  {Sh("gauss", IF tall THEN Edges[i] + 3 ELSE Edges[i], IF tall THEN Edges[i] ELSE Edges[i] + 3, k, prof, 0, 0) :
      i \in 1..Len(Edges), tall \in BOOLEAN, k \in {0, 2}, prof \in {"sieve", "dense"}}

Coranks == <<0, 3, 30, 100>>
Profiles == <<"sieve", "uniform">>
BigExtras == <<<<0, 0>>, <<2, 2>>>>

\* The large families are a design rather than a product: for the i-th size, T shapes t = 1..T; the
\* planted corank cycles through its values, the other coordinates are picked by a fixed hash.
Lcg(x) == (x * 25173 + 13849) % 65536
Hash(a, b, c) == Lcg((Lcg((Lcg(a % 65536) + b) % 65536) + c) % 65536) \div 256
\* wide: ten more columns than rows (as in the sieve: a few more relations than primes);
\* tall: 10% more rows than columns (the kernel is what was planted)
LargeShape(i, t) ==
  LET n == Sizes[i]
      wide == Hash(i, t, 1) % 3 # 0
      x == (Hash(i, t, 3) % 2) + 1
  IN Sh("gauss", IF wide THEN n - 10 ELSE n + n \div 10, n, Coranks[((i + t) % 4) + 1],
        Profiles[(Hash(i, t, 2) % 2) + 1], BigExtras[x][1], BigExtras[x][2])
Large == {LargeShape(i, t) : i \in 1..Len(Sizes), t \in 1..T}

LCoranks == <<0, 10, 70, 100>>
LProfiles == <<"sieve", "uniform", "dense">>
\* columns for n rows: a few more (sieve-like) / a hundred more (large kernel) / fewer (tall)
\* (odd and even column counts: the blocked products of Lanczos run over 64-bit words of column blocks)
LCols(n, a) == CASE a = 1 -> n + 11 [] a = 2 -> n + 100 [] a = 3 -> n - 7
LanczosShape(i, t) ==
  LET n == LSizes[i]
      p == ((i + t) % 3) + 1
      x == (Hash(i, t, 6) % 2) + 1
  IN Sh("lanczos", n, LCols(n, ((i + 2 * t) % 3) + 1), LCoranks[((i + t + 2) % 4) + 1],
        LProfiles[IF p = 3 /\ n > 520 THEN 1 ELSE p],      \* dense only where the trace stays small
        BigExtras[x][1], BigExtras[x][2])
Lanczos == {LanczosShape(i, t) : i \in 1..Len(LSizes), t \in 1..LT}

\* every shape must leave at least one random column; Lanczos needs rank well above 64
Fits(sh) ==
  LET free == sh.ncols - sh.corank - sh.nzero - sh.ndup
  IN /\ sh.corank + sh.nzero + sh.ndup <= sh.ncols
     /\ (sh.alg = "lanczos") => (sh.nrows >= 128 /\ free >= 110)

\* short and wide (Gauss): far more columns than rows, so the kernel has 65 .. 300 dimensions (the coranks 0..100 of the
\* property and beyond) whatever the planted corank is: more kernel vectors than a 64-bit word of coefficients holds
WideDims == <<<<1, 70>>, <<5, 80>>, <<20, 100>>, <<30, 130>>, <<64, 130>>, <<10, 200>>, <<100, 170>>, <<3, 300>>>>
Wide == {Sh("gauss", WideDims[i][1], WideDims[i][2], k, prof, z, z) :
            i \in 1..Len(WideDims), k \in {0, 3}, prof \in {"dense", "uniform"}, z \in {0, 1}}

Init == s \in Small \cup Edge \cup Large \cup Lanczos \cup Wide
Next == UNCHANGED s
Emit == Fits(s) => PrintT(<<"SHAPE", ToJson(s)>>)
=============================================================================
