SPECIFICATION Spec
CONSTANTS NR = 4
          NC = 3
INVARIANTS Emit
CHECK_DEADLOCK TRUE
