SPECIFICATION Spec
CONSTANTS NR = 0
          NC = 3
INVARIANTS TypeOK CoefsInv ZerosInv PivotOrder CoefsBasis ResultOK TailBranchDead Part2Agrees
CHECK_DEADLOCK TRUE
