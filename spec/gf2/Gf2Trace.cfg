SPECIFICATION Spec
CONSTANT RankMax = 64
POSTCONDITION TraceComplete
CHECK_DEADLOCK FALSE
