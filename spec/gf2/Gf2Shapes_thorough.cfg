INIT Init
NEXT Next
CONSTANT Tier = "thorough"
INVARIANT Emit
CHECK_DEADLOCK FALSE
