INIT Init
NEXT Next
CONSTANT Tier = "quick"
INVARIANT Emit
CHECK_DEADLOCK FALSE
