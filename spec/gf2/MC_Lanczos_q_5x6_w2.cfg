SPECIFICATION Spec
CONSTANTS NR = 5
          NC = 6
          W = 2
          NMat = 40
          NY = 60
          Variant = "code"
INVARIANTS TypeOK WOrthogonal VOrthogonal SelectionOK SkipSound ThreeTermWhenClassical YOrthogonal RankBound TerminationTest ResultOK
CHECK_DEADLOCK TRUE
