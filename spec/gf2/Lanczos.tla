------------------------------ MODULE Lanczos ------------------------------
(***************************************************************************)
(* C14 (M): kernel_lanczos of src/matrix/gf2.rs as a state machine, with   *)
(* the block width W a constant (the code: LSIZE = 64).                    *)
(*                                                                         *)
(* Mx is the input matrix (NR rows, NC columns, a column = the set of its  *)
(* rows, as in Gf2Kernel), Q = Mx^T Mx the symmetric NC x NC form the code *)
(* calls A.  A *block* (code: Block, one W-bit lane per coordinate) is kept*)
(* by columns: a function Bits -> SUBSET Cols, column c = a vector of      *)
(* GF(2)^NC as the set of its non-zero coordinates.  A *small matrix*      *)
(* (code: SmallMat) is kept by rows as the code does: Bits -> SUBSET Bits, *)
(* row i = the set of the bit positions set in lane i.                     *)
(*                                                                         *)
(* The code, block m = vs.len():                                           *)
(*   next = Q*ws[m-1] + vs[m-1];  av = Q*next                              *)
(*   for j < m, not freed:  mask = AND_{k=j+1..m-2} unselected(k)          *)
(*        mask = 0  -> free block j for ever (debug_assert ws[j]^T av = 0) *)
(*        otherwise -> next += ws[j] * (invgs[j] * (ws[j]^T av))           *)
(*   gram = next^T Q next; (rk, S) = gram.rank() / rank_reverse() (m odd)  *)
(*   rk = 0 -> leave the loop; else vs += next, ws += next masked by S,    *)
(*   invgs += pseudoinverse(gram masked by S), Y += w * (ginv * (w^T ay))  *)
(* and after the loop: K = a basis of ker(Mx*Y) (kernel_gauss), return the *)
(* non-zero ones among the Y*k.                                            *)
(*                                                                         *)
(* Variant = "code" is the transcription; the other values are the broken  *)
(* variants of the non-vacuity configurations: "nofilter" keeps the null   *)
(* candidates, "finalq" takes the kernel of Q*Y instead of Mx*Y,           *)
(* "badselect" selects the first rk rows, "threeterm" orthogonalises only  *)
(* against the last three blocks whatever was selected; "noalternate"      *)
(* (always the forward rank routine) is used for a reachability question.  *)
(***************************************************************************)
EXTENDS Naturals, Sequences, FiniteSets, TLC, Randomization, Gf2
CONSTANTS NR, NC, W,
          NMat,       \* 0: every NR x NC matrix; n > 0: a random sample of n of them
          NY,         \* 0: every initial block Y; n > 0: a random sample of n of them per check
          Variant     \* "code" | "nofilter" | "finalq" | "badselect" | "threeterm" | "noalternate"
ASSUME NR \in Nat /\ NC \in Nat \ {0} /\ W \in Nat \ {0} /\ NMat \in Nat /\ NY \in Nat

Rows == 0..(NR - 1)
Cols == 1..NC
Bits == 0..(W - 1)
Block == [Bits -> SUBSET Cols]
Small == [Bits -> SUBSET Bits]
ZeroS == [i \in Bits |-> {}]
IdS   == [i \in Bits |-> {i}]

Parity(S) == Cardinality(S) % 2 = 1

\* (TLCEval below only forces TLC to evaluate a function constructor once, when it is built, instead
\* of at every application - a factor of several hundred on this model; it is the identity.)

\* Q = Mx^T Mx by rows (= by columns: symmetric)
QOf(Mx) == TLCEval([i \in Cols |-> {j \in Cols : Parity(Mx[i] \cap Mx[j])}])
\* Q * V                                                    (code: mul_aab_opt)
MulQ(q, V) == TLCEval([c \in Bits |-> XorSel(q, V[c])])
\* Mx * V, a block of NR-vectors                            (code: &SparseMatOpt * &Block)
MulM(Mx, V) == TLCEval([c \in Bits |-> XorSel(Mx, V[c])])
\* U^T V                                                    (code: &Block * &Block)
Dot(U, V) == TLCEval([i \in Bits |-> {j \in Bits : Parity(U[i] \cap V[j])}])
\* V * C                                                    (code: muladd(out, V, C))
MulBS(V, C) == TLCEval([i \in Bits |-> XorSel(V, {j \in Bits : i \in C[j]})])
\* P * R                                                    (code: &SmallMat * &SmallMat)
MulSS(P, R) == TLCEval([i \in Bits |-> XorSel(R, P[i])])
AddB(U, V) == TLCEval([c \in Bits |-> Xor2(U[c], V[c])])
MaskB(V, S) == TLCEval([c \in Bits |-> IF c \in S THEN V[c] ELSE {}])
\* SmallMat::mask
MaskS(G, S) == TLCEval([i \in Bits |-> IF i \in S THEN G[i] \cap S ELSE {}])
Symmetric(G) == \A i, j \in Bits : (j \in G[i]) <=> (i \in G[j])

-----------------------------------------------------------------------------
(* SmallMat::rank, SmallMat::rank_reverse, SmallMat::pseudoinverse *)

MinOf(S) == CHOOSE x \in S : \A y \in S : x <= y
\* fn lz = trailing_zeros: position of the lowest set bit, W for the zero lane
LZ(s) == IF s = {} THEN W ELSE MinOf(s)
Swap(f, a, b) == [f EXCEPT ![a] = f[b], ![b] = f[a]]

\* the loop `for i in 0..LSIZE` of SmallMat::rank on (m, orig_idx, rank, mask)
RECURSIVE RankLoop(_, _, _, _, _)
RankLoop(i, m, orig, rank, mask) ==
  IF i = W THEN <<rank, mask>>
  ELSE LET P == {j \in Bits : LZ(m[j]) = i}
       IN IF P = {} THEN RankLoop(i + 1, m, orig, rank, mask)
          ELSE LET j  == MinOf(P)                       \* iter().position(..): the first one
                   m1 == Swap(m, rank, j)
                   o1 == Swap(orig, rank, j)
                   m2 == TLCEval([k \in Bits |-> IF k > rank /\ LZ(m1[k]) = i THEN Xor2(m1[k], m1[rank]) ELSE m1[k]])
               IN RankLoop(i + 1, m2, o1, rank + 1, mask \cup {orig[j]})
RankFwd(G) == RankLoop(0, G, [i \in Bits |-> i], 0, {})
Rev(s) == {W - 1 - b : b \in s}
RankRev(G) ==
  LET r == RankFwd(TLCEval([i \in Bits |-> Rev(G[W - 1 - i])]))
  IN <<r[1], Rev(r[2])>>

\* the definition the selection has to meet: S is a set of rows of G that is independent and
\* spans the row space (|S| = rank G); for a symmetric G the minor G[S, S] is then invertible.
RowRank(G) == RankSet({G[i] : i \in Bits})
MinorInvertible(G, S) == RankSet({G[i] \cap S : i \in S}) = Cardinality(S)
GoodSelection(G, S) == Cardinality(S) = RowRank(G) /\ MinorInvertible(G, S)

\* pseudoinverse of a matrix supported on S x S with an invertible minor: the inverse of the minor,
\* zero elsewhere.  It is unique, so it is written as its definition (row i of N is the combination
\* of rows of G that gives the unit vector e_i), not as the elimination the code runs.
PInv(G, S) ==
  TLCEval([i \in Bits |-> IF i \in S /\ \E T \in SUBSET S : XorSel(G, T) = {i}
                          THEN CHOOSE T \in SUBSET S : XorSel(G, T) = {i}
                          ELSE {}])


-----------------------------------------------------------------------------
VARIABLES Mx, q,        \* input matrix and Q (never change)
          y0, ay,       \* the random block Y drawn by genblock, and Q*Y
          y,            \* the accumulated block (code: y)
          vs, ws, invgs,\* sequences (1-based: block number m is position m + 1)
          sel,          \* sel[m+1] = S_m, the selected columns of block m (code: masks[m] = complement, m >= 1)
          freed,        \* block numbers whose vs / ws have been freed
          pc,           \* "loop" | "final" | "done"
          result,       \* set of returned vectors (subsets of Cols)
          hist          \* facts about the last step, for the invariants
vars == <<Mx, q, y0, ay, y, vs, ws, invgs, sel, freed, pc, result, hist>>

AllMats == [Cols -> SUBSET Rows]
Mats == IF NMat = 0 THEN AllMats ELSE RandomSubset(NMat, AllMats)
Ys   == IF NY = 0 THEN Block ELSE RandomSubset(NY, Block)

NoHist == [has |-> FALSE, next0 |-> ZeroS, skipped |-> {}, proj |-> {}, gram |-> ZeroS]

\* genblock: a block Y with Gram(Mx Q Y) of full rank; then the first block of the function body
Init ==
  /\ Mx \in Mats
  /\ q = QOf(Mx)
  /\ y0 \in Ys
  /\ ay = MulQ(q, y0)
  /\ LET g == Dot(ay, MulQ(q, ay))
     IN /\ RankFwd(g)[1] = W
        /\ LET ginv == PInv(g, Bits)
               coef == MulSS(ginv, Dot(ay, ay))
           IN /\ y = AddB(y0, MulBS(ay, coef))
              /\ invgs = <<ginv>>
  /\ vs = <<ay>> /\ ws = <<ay>>
  /\ sel = <<Bits>>
  /\ freed = {}
  /\ pc = "loop" /\ result = {} /\ hist = NoHist

\* number of blocks so far (code: vs.len())
NB == Len(vs)
Unsel(k) == Bits \ sel[k + 1]
\* the mask computed for block j while block m is being built
CarryMask(j, m) == {c \in Bits : \A k \in (j + 1)..(m - 2) : c \in Unsel(k)}

\* which earlier blocks the new block is orthogonalised against
ProjSet(m) ==
  IF Variant = "threeterm"
  THEN {j \in 0..(m - 1) : j >= m - 3}                   \* the classical recurrence, whatever the selections were
  ELSE {j \in (0..(m - 1)) \ freed : CarryMask(j, m) # {}}
SkipSet(m) == ((0..(m - 1)) \ freed) \ ProjSet(m)

\* the sub-block selection
Select(gram, m) ==
  CASE Variant = "badselect"   -> LET r == RankFwd(gram) IN <<r[1], 0..(r[1] - 1)>>   \* right rank, first rows
    [] Variant = "noalternate" -> RankFwd(gram)
    [] OTHER -> IF m % 2 = 1 THEN RankRev(gram) ELSE RankFwd(gram)

Step ==
  /\ pc = "loop"
  /\ LET m     == NB
         next0 == AddB(MulQ(q, ws[m]), vs[m])
         av    == MulQ(q, next0)
         P     == ProjSet(m)
         \* the corrections are all computed from av: the order of the loop does not matter
         Corr(j) == MulBS(ws[j + 1], MulSS(invgs[j + 1], Dot(ws[j + 1], av)))
         RECURSIVE Apply(_, _)
         Apply(v, J) == IF J = {} THEN v
                        ELSE LET j == MinOf(J) IN Apply(AddB(v, Corr(j)), J \ {j})
         next  == Apply(next0, P)
         gram  == Dot(next, MulQ(q, next))
         r     == Select(gram, m)
         rk    == r[1]
         S     == r[2]
     IN /\ hist' = [has |-> TRUE, next0 |-> next0, skipped |-> SkipSet(m), proj |-> P, gram |-> gram]
        /\ freed' = IF Variant = "threeterm" THEN freed ELSE freed \cup SkipSet(m)
        /\ IF rk = 0
           THEN /\ pc' = "final"
                /\ UNCHANGED <<vs, ws, invgs, sel, y>>
           ELSE LET w    == MaskB(next, S)
                    ginv == PInv(MaskS(gram, S), S)
                    coef == MulSS(ginv, Dot(w, ay))
                IN /\ vs' = Append(vs, next)
                   /\ ws' = Append(ws, w)
                   /\ invgs' = Append(invgs, ginv)
                   /\ sel' = Append(sel, S)
                   /\ y' = AddB(y, MulBS(w, coef))
                   /\ pc' = "loop"
  /\ UNCHANGED <<Mx, q, y0, ay, result>>

\* after the loop: K = kernel of Mx*Y (W columns of NR bits), candidates Y*k, null vectors removed.
\* kernel_gauss returns SOME basis of that kernel; the model returns Y*k for every non-zero k of
\* the kernel, which contains whatever basis is used.
KerSmall(F) == {k \in (SUBSET Bits) \ {{}} : XorSel(F, k) = {}}
Final ==
  /\ pc = "final"
  /\ LET by   == IF Variant = "finalq" THEN MulQ(q, y) ELSE MulM(Mx, y)
         cand == {XorSel(y, k) : k \in KerSmall(by)}
     IN result' = IF Variant = "nofilter" THEN cand ELSE cand \ {{}}
  /\ pc' = "done"
  /\ UNCHANGED <<Mx, q, y0, ay, y, vs, ws, invgs, sel, freed, hist>>

Finished == pc = "done" /\ UNCHANGED vars
Next == Step \/ Final \/ Finished
Spec == Init /\ [][Next]_vars

-----------------------------------------------------------------------------
(* Invariants.  Design facts first, the property last. *)

TypeOK ==
  /\ pc \in {"loop", "final", "done"}
  /\ Len(ws) = NB /\ Len(invgs) = NB /\ Len(sel) = NB
  /\ \A c \in Bits : y[c] \subseteq Cols
  /\ freed \subseteq 0..(NB - 1)

Blocks == 0..(NB - 1)
QDot(U, V) == Dot(U, MulQ(q, V))

\* the W_i generated so far are pairwise Q-orthogonal
WOrthogonal == \A i, j \in Blocks : i < j => QDot(ws[i + 1], ws[j + 1]) = ZeroS

\* V_i is Q-orthogonal to every earlier W_j (the fact the skipped projections rely on)
VOrthogonal == \A i, j \in Blocks : j < i => QDot(ws[j + 1], vs[i + 1]) = ZeroS

\* V_i^T Q V_i restricted to S_i is invertible, S_i is a maximal such selection, invgs[i] is its inverse
SelectionOK ==
  \A i \in Blocks :
    LET g == QDot(vs[i + 1], vs[i + 1])
    IN /\ Symmetric(g)
       /\ GoodSelection(g, sel[i + 1])
       /\ sel[i + 1] # {}
       /\ MulSS(invgs[i + 1], MaskS(g, sel[i + 1])) = [b \in Bits |-> IF b \in sel[i + 1] THEN {b} ELSE {}]
       /\ ws[i + 1] = MaskB(vs[i + 1], sel[i + 1])

\* the condition of the classical three-term algorithm: a column of V_i that is not selected was
\* selected in V_{i-1}.  The code only ENCOURAGES it (alternating direction of the rank routine) and
\* copes with its failure through CarryMask; whether it always holds is a question put to TLC.
ClassicalInclusion == \A i \in Blocks : i >= 1 => Unsel(i) \subseteq sel[i]

\* the debug_assert of the `mask == 0` branch: a block that is skipped (and freed) is already
\* orthogonal to Q * next
SkipSound ==
  hist.has => \A j \in hist.skipped : Dot(ws[j + 1], MulQ(q, hist.next0)) = ZeroS

\* with the classical condition the recurrence has three terms
ThreeTermWhenClassical ==
  (hist.has /\ ClassicalInclusion) =>
     \A j \in hist.proj : j >= (IF pc = "loop" THEN NB - 1 ELSE NB) - 3

\* Y stays Q-orthogonal to every W_i (debug_assert after the update of y, and after the loop)
YOrthogonal == \A i \in Blocks : QDot(ws[i + 1], y) = ZeroS

\* termination: the ranks of the selected sub-blocks add up to at most the rank of Mx, so the loop
\* body runs at most rank - W + 1 times after the first block
SumRanks == FoldLeft(LAMBDA a, S : a + Cardinality(S), 0, sel)
RankBound ==
  /\ SumRanks <= RankElim(Mx)
  /\ NB <= RankElim(Mx) - W + 1
\* the loop is left exactly when the Gram matrix of the new block vanishes
TerminationTest == pc \in {"final", "done"} => hist.gram = ZeroS

\* THE PROPERTY (Lanczos clause of C14) on every terminal state
ResultOK == pc = "done" => \A v \in result : v # {} /\ InKernel(Mx, v)

\* reachability questions (expected to be violated: TLC exhibits a run)
NeverFourBlocks == NB < 4
NeverSkips == hist.skipped = {}
NeverFindsKernel == pc = "done" => result = {}
NeverDeficient == \A i \in Blocks : sel[i + 1] = Bits
=============================================================================
