SPECIFICATION Spec
CONSTANTS NR = 4
          NC = 3
          W = 2
          NMat = 0
          NY = 0
          Variant = "code"
INVARIANTS TypeOK WOrthogonal VOrthogonal SelectionOK SkipSound ThreeTermWhenClassical YOrthogonal RankBound TerminationTest ResultOK
CHECK_DEADLOCK TRUE
