-------------------------------- MODULE Gf2 --------------------------------
(***************************************************************************)
(* Linear algebra over GF(2) for C14.                                      *)
(*                                                                         *)
(* A vector is the SET of its non-zero coordinates; a matrix / a family of *)
(* vectors is a function (usually a sequence) from indices to vectors; the *)
(* sum of vectors is the symmetric difference.  A "selection" v of a       *)
(* matrix M is a set of column indices; M applied to the 0/1 vector with   *)
(* support v is XorSel(M, v).                                              *)
(*                                                                         *)
(* Part 1 is the declarative contract (used by the model Gf2Kernel, where  *)
(* everything is tiny).  Part 2 are equivalent formulations that TLC can   *)
(* evaluate on matrices with thousands of columns (used by the trace       *)
(* specification Gf2Trace); the model checks on every matrix it enumerates *)
(* that both parts agree.                                                  *)
(***************************************************************************)
EXTENDS Naturals, Sequences, FiniteSets, SequencesExt

-----------------------------------------------------------------------------
(* Part 1: definitions *)

Xor2(a, b) == (a \ b) \cup (b \ a)

\* sum of the vectors F[i], i \in S: coordinates that occur an odd number of times
XorSel(F, S) ==
  LET U == UNION {F[i] : i \in S}
  IN {x \in U : Cardinality({i \in S : x \in F[i]}) % 2 = 1}

\* v is a selection of columns of M that M annihilates
InKernel(M, v) == v \subseteq DOMAIN M /\ XorSel(M, v) = {}

\* no non-trivial combination of the family K vanishes
Independent(K) == \A S \in (SUBSET (DOMAIN K)) \ {{}} : XorSel(K, S) # {}

Span(M) == {XorSel(M, S) : S \in SUBSET (DOMAIN M)}

\* the rank is the dimension of the column span: |span| = 2^rank
RankSpan(M) ==
  LET n == Cardinality(Span(M))
  IN CHOOSE r \in 0..Cardinality(DOMAIN M) : n = 2^r

\* The contract of a kernel routine: M the input matrix (columns), K the returned sequence of
\* selections.  exact = FALSE: what block Lanczos promises; exact = TRUE: what Gauss promises.
KernelOK(M, K, exact) ==
  /\ \A i \in DOMAIN K : K[i] # {} /\ InKernel(M, K[i])
  /\ exact => /\ Independent(K)
              /\ Len(K) = Cardinality(DOMAIN M) - RankSpan(M)

-----------------------------------------------------------------------------
(* Part 2: the same notions, computable on large inputs *)

\* rank of a finite set of vectors by elimination: pick a non-zero vector c and one of its
\* coordinates p, clear p in all the others; the rest has rank one less.
RECURSIVE RankSet(_)
RankSet(S) ==
  LET T == S \ {{}}
  IN IF T = {} THEN 0
     ELSE LET c == CHOOSE c \in T : TRUE
              p == CHOOSE p \in c : TRUE
          IN 1 + RankSet({IF p \in d THEN Xor2(d, c) ELSE d : d \in T \ {c}})

RankElim(M) == RankSet({M[j] : j \in DOMAIN M})

\* Families as they come out of JSON: F is a sequence of sequences of 0-based coordinates < n
\* (duplicate-free); member number j (0-based) is F[j + 1].
\* (the CHOOSE over a singleton only makes TLC sort the set once, when it is built: Cardinality
\* normalises the value in place, and membership in a sorted set is a binary search)
SeqToSet(s) == CHOOSE S \in {{s[i] : i \in 1..Len(s)}} : Cardinality(S) >= 0
InRange(s, n) == \A i \in 1..Len(s) : s[i] \in 0..(n - 1)
NoDup(s) == Cardinality(SeqToSet(s)) = Len(s)
\* the members of F as sets (built as an explicit sequence: a function constructor [i \in .. |-> ..]
\* would be re-evaluated by TLC at every application)
Sets(F) == FoldLeft(LAMBDA acc, s : Append(acc, SeqToSet(s)), <<>>, F)

\* Transposition: Coords(F, n)[x + 1] = the set of (0-based) members of F that contain coordinate x
\* (for a matrix given by columns: the rows, as sets of column indices)
CoordsDef(F, n) == [x \in 1..n |-> {j \in 0..(Len(F) - 1) : \E i \in 1..Len(F[j + 1]) : F[j + 1][i] = x - 1}]
\* the same, in one pass over the entries
Coords(F, n) ==
  LET lists == FoldLeft(LAMBDA acc, j :
                          FoldLeft(LAMBDA a, x : [a EXCEPT ![x + 1] = Append(@, j - 1)], acc, F[j]),
                        [x \in 1..n |-> <<>>], [j \in 1..Len(F) |-> j])
  IN Sets(lists)

\* C = Coords(F, n), V a set of members of F: the sum of the members V has coordinate x iff an odd
\* number of them contain x
OddAt(C, x, V) == Cardinality(C[x + 1] \cap V) % 2 = 1
SumIsZero(C, V) == \A x \in 1..Len(C) : Cardinality(C[x] \cap V) % 2 = 0
=============================================================================
