SPECIFICATION Spec
CONSTANTS
  W = 12
  Variant = "halves"
INVARIANTS LenBoundClaimed
CHECK_DEADLOCK FALSE
