------------------------------ MODULE AddChain ------------------------------
(***************************************************************************)
(* C15 (M) - ecm::Curve::make_addition_chain as a width-aware state        *)
(* machine: the scalar lives in a machine word of W bits (the code: 64),   *)
(* one action per loop iteration.  Opcodes are emitted least significant   *)
(* first:  even 2t : P -> 2^t P ;  odd x, |x| <= 7 : P -> 2P + xG ;  the   *)
(* last opcode (1, 3, 5 or 7) is the starting multiple.                    *)
(*                                                                         *)
(* Variant = "halves" is the current code  kk = kk/2 + rop/2 + 1           *)
(* Variant = "sum"    is the code before the fix  kk = (kk + rop) / 2,     *)
(*            whose sum leaves the word for odd k >= 2^W - 7 (wraps in     *)
(*            release builds, panics with overflow checks).                *)
(* Invariants: the part of the chain built so far, applied to the pending  *)
(* value kk, gives back k (Value); no intermediate leaves the word         *)
(* (NoOverflow); length and opcode ranges (LenBound, OpRange).             *)
(***************************************************************************)
EXTENDS Naturals, Integers, Sequences, TLC

CONSTANTS W, Variant

RECURSIVE Pow2I(_)
Pow2I(k) == IF k = 0 THEN 1 ELSE 2 * Pow2I(k - 1)
M == Pow2I(W)                       \* word modulus

RECURSIVE Tz(_)
Tz(x) == IF x % 2 = 1 THEN 0 ELSE 1 + Tz(x \div 2)

VARIABLES k, kk, chain, done, ovf
vars == <<k, kk, chain, done, ovf>>

Init == /\ k \in 1..(M - 1)
        /\ kk = k /\ chain = <<>> /\ done = FALSE /\ ovf = FALSE

EvenRun == /\ ~done /\ kk > 0 /\ kk % 2 = 0
           /\ chain' = Append(chain, 2 * Tz(kk))
           /\ kk' = kk \div Pow2I(Tz(kk))
           /\ UNCHANGED <<k, done, ovf>>

Small == /\ ~done /\ kk % 2 = 1 /\ kk <= 7
         /\ chain' = Append(chain, kk)
         /\ done' = TRUE
         /\ UNCHANGED <<k, kk, ovf>>

OddLow == /\ ~done /\ kk % 2 = 1 /\ kk > 7 /\ kk % 16 < 8
          /\ chain' = Append(chain, kk % 16)
          /\ kk' = (kk - (kk % 16)) \div 2
          /\ UNCHANGED <<k, done, ovf>>

OddHigh == /\ ~done /\ kk % 2 = 1 /\ kk > 7 /\ kk % 16 >= 8
           /\ LET rop == 16 - (kk % 16) IN
              /\ chain' = Append(chain, -rop)
              /\ IF Variant = "halves"
                 THEN /\ kk' = (kk \div 2) + (rop \div 2) + 1
                      /\ ovf' = (ovf \/ kk' >= M)
                 ELSE /\ kk' = ((kk + rop) % M) \div 2          \* wrapping sum, as a release build computes it
                      /\ ovf' = (ovf \/ kk + rop >= M)
           /\ UNCHANGED <<k, done>>

Next == EvenRun \/ Small \/ OddLow \/ OddHigh \/ (done /\ UNCHANGED vars)
Spec == Init /\ [][Next]_vars

\* value obtained by applying opcodes c[i], i = Len(c) .. 1, to the pending value v
RECURSIVE Apply(_, _, _)
Apply(c, i, v) == IF i = 0 THEN v
                  ELSE Apply(c, i - 1, IF c[i] % 2 = 0 THEN v * Pow2I(c[i] \div 2) ELSE 2 * v + c[i])

\* final decoding exactly as scalar64_chainmul consumes the chain
Decode(c) == Apply(c, Len(c) - 1, c[Len(c)])

Value      == IF done THEN Decode(chain) = k ELSE Apply(chain, Len(chain), kk) = k
NoOverflow == ~ovf
LenBound   == Len(chain) <= (W \div 2) + 1          \* the code: [i8; 33] for W = 64
\* the bound the code's comment states ("never more than 32"): NOT an invariant - scalars whose top
\* nibble is 9, B, D or F above nibbles that all cost two opcodes need W/2 + 1 (found by TLC; the
\* buffer was 32 long until the fix)
LenBoundClaimed == Len(chain) <= W \div 2
\* (G) the scalars with the longest chains are printed and replayed, scaled to 64 bits, into the real code
PrintLongest == (done /\ Len(chain) = (W \div 2) + 1) => PrintT(<<"LONG", k>>)
OpRange    == \A i \in 1..Len(chain) :
                 IF chain[i] % 2 = 0 THEN chain[i] >= 2 /\ chain[i] <= 2 * (W - 1)
                 ELSE chain[i] >= -7 /\ chain[i] <= 7
StartOp    == done => chain[Len(chain)] \in {1, 3, 5, 7}
\* an i8 holds the largest opcode of the 64-bit code: 2 * 63
ASSUME OpFitsI8 == 2 * (64 - 1) <= 127
=============================================================================
