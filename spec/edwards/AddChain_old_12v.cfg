SPECIFICATION Spec
CONSTANTS
  W = 12
  Variant = "sum"
INVARIANTS Value
CHECK_DEADLOCK FALSE
