----------------------------- MODULE C15Shapes -----------------------------
(***************************************************************************)
(* C15 (I) - the input space the driver must cover: every operation of     *)
(* both implementations x modulus size class x curve family.  The runner   *)
(* checks that each shape printed here occurs in the recorded trace.       *)
(***************************************************************************)
EXTENDS Naturals, TLC, Json
Ops512 == {"curve", "add", "sub", "double", "to_ext", "dblext", "addext", "addextproj", "subextproj", "is_valid"}
Ops128 == {"c128_add", "c128_dbladd", "c128_double", "c128_dblext", "c128_ext", "c128_is_valid", "mul128"}
OpsScalar == {"chainmul64", "dbladd64"}
Words == {1, 2, 4, 8}
VARIABLE s
Shapes == [op : Ops512, words : Words, tw : BOOLEAN]
          \cup [op : Ops128, words : {1, 2}, tw : {TRUE}]
          \cup [op : OpsScalar, words : {1, 2}, tw : BOOLEAN]
          \cup [op : {"chainmul1024"}, words : {1}, tw : BOOLEAN]
Init == s \in Shapes
Next == UNCHANGED s
Spec == Init /\ [][Next]_s
Emit == PrintT(<<"SHAPE", ToJson(s)>>)
=============================================================================
