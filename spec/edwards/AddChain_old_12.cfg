SPECIFICATION Spec
CONSTANTS
  W = 12
  Variant = "sum"
INVARIANTS NoOverflow
CHECK_DEADLOCK FALSE
