---------------------------- MODULE MC_AddChainInd ----------------------------
(***************************************************************************)
(* TLC link between AddChain.tla (the model C15 checks, Variant "halves")  *)
(* and its restatement AddChainInd.tla:                                    *)
(*  GhostOK     the ghosts of AddChainInd mean what they say on the chain  *)
(*              of the original: applying the opcodes emitted so far to    *)
(*              any pending value v gives MulOf * v + AddOf;               *)
(*  IndOnOrig   AddChainInd's invariants hold in every state TLC reaches   *)
(*              in the original (ghost b: some b in 0..W; need = 3 right   *)
(*              after an odd opcode);                                      *)
(*  StepsMatch  Small / OddLow / OddHigh of the original are the actions   *)
(*              of the same name of AddChainInd, and EvenRun is            *)
(*              ShiftBegin ; Shift1^t ; ShiftEnd (t >= 1, kk = kk' 2^t,    *)
(*              kk' odd, opcode 2 t, ghosts mul 2^t).                      *)
(***************************************************************************)
EXTENDS AddChain

PT == [i \in 1..(W + 1) |-> Pow2I(i - 1)]
n == Len(chain) - (IF done THEN 1 ELSE 0)          \* opcodes that act on the pending value
MulOf == Apply(chain, n, 1) - Apply(chain, n, 0)
AddOf == Apply(chain, n, 0)
NeedOf == IF ~done /\ Len(chain) > 0 /\ chain[Len(chain)] % 2 # 0 THEN 3 ELSE 0

I(bb) == INSTANCE AddChainInd WITH P2T <- PT, len <- Len(chain), pc <- "top", t <- 0, mul <- MulOf, add <- AddOf,
                                   b <- bb, need <- NeedOf

GhostOK == \A vv \in {0, 1, 2, 5, kk, kk + 3} : Apply(chain, n, vv) = MulOf * vv + AddOf
IndOnOrig == /\ I(0)!TypeOK /\ I(0)!ValueInv /\ I(0)!FitInv
             /\ \E bb \in 0..W : I(bb)!LenInv /\ I(bb)!LenBound

StepsMatch ==
  [][ /\ Small => I(0)!Small
      /\ OddLow => (kk' = (kk - (kk % 16)) \div 2 /\ MulOf' = 2 * MulOf /\ AddOf' = AddOf + MulOf * (kk % 16)
                    /\ Len(chain') = Len(chain) + 1 /\ NeedOf' = 3 /\ UNCHANGED <<k, done, ovf>>)
      /\ OddHigh => (LET rop == 16 - (kk % 16) IN
                     kk' = (kk \div 2) + (rop \div 2) + 1 /\ MulOf' = 2 * MulOf /\ AddOf' = AddOf - MulOf * rop
                     /\ ovf' = (ovf \/ kk' >= M) /\ Len(chain') = Len(chain) + 1 /\ NeedOf' = 3 /\ UNCHANGED <<k, done>>)
      /\ EvenRun => (LET tt == Tz(kk) IN
                     tt >= 1 /\ kk = kk' * Pow2I(tt) /\ kk' % 2 = 1 /\ MulOf' = MulOf * Pow2I(tt) /\ AddOf' = AddOf
                     /\ Len(chain') = Len(chain) + 1 /\ chain'[Len(chain')] = 2 * tt /\ NeedOf' = 0
                     /\ UNCHANGED <<k, done, ovf>>)
    ]_vars
=============================================================================
