SPECIFICATION Spec
CONSTANTS
  W = 9
  Variant = "halves"
INVARIANTS GhostOK IndOnOrig
PROPERTY StepsMatch
CHECK_DEADLOCK FALSE
