SPECIFICATION Spec
CONSTANTS
  N = 35
  Ds = {2, 3, 17}
  Scales = {1, 2}
INVARIANTS
  DefinitionClosed DefinitionIdentity DefinitionInverse DefinitionCommutes
  AddOK DoubleOK ToExtOK DblExtOK AddExtOK AddExtProjOK SubExtProjOK AddExtDegenerateAtPEqQ
  C128AddOK C128DoubleOK C128DblExtOK C128DblAddOK
CHECK_DEADLOCK FALSE
