SPECIFICATION Spec
CONSTANTS
  W = 8
  Variant = "halves"
INVARIANTS Value NoOverflow LenBound OpRange StartOp OpFitsI8
CHECK_DEADLOCK FALSE
