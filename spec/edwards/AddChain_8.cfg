SPECIFICATION Spec
CONSTANTS
  W = 8
  Variant = "halves"
INVARIANTS Value NoOverflow LenBound OpRange StartOp PrintLongest
CHECK_DEADLOCK FALSE
