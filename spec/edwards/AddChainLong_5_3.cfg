SPECIFICATION Spec
CONSTANTS
  WB = 5
  NW = 3
  TH = 2
  LB = 3
  TZCAP = 4
INVARIANTS Value NoHazard WindowFits OpRange StartOp LenBound Terminates
CHECK_DEADLOCK FALSE
