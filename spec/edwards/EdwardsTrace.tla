---------------------------- MODULE EdwardsTrace ----------------------------
(***************************************************************************)
(* C15 (V) - every recorded call of the curve arithmetic of ecm.rs and     *)
(* ecm128.rs is judged against the DEFINITION of the twisted Edwards group *)
(* law (EdwardsLaw, Part 1) evaluated here on plain residues with BigNat.  *)
(*                                                                         *)
(* StrictC15:  inputs on the curve  =>  output on the curve and            *)
(* projectively equal to the definition's value; the value of a chain is   *)
(* its scalar; a chain multiplication equals ScalarMul (plain              *)
(* double-and-add with the definition, computed here); the 128-bit         *)
(* implementation agrees with the 512-bit one; a panic is not an action.   *)
(* The law is a partial function over a composite modulus: where the       *)
(* definition's own denominator is not a unit (its Z shares a factor with  *)
(* n) nothing is required beyond staying on the curve.  The extended       *)
(* additions are documented as non-unified; they are judged wherever their *)
(* own affine denominators (DedicatedDen) are units.                       *)
(***************************************************************************)
EXTENDS BigNat, TraceLib
VARIABLE l

L(n) == INSTANCE EdwardsLaw WITH MulM <- LAMBDA x, y : MulMod(x, y, n),
                                  AddM <- LAMBDA x, y : AddMod(x, y, n),
                                  SubM <- LAMBDA x, y : SubMod(x, y, n),
                                  ZeroM <- Zero, OneM <- One

Cv(e) == [a |-> e.a, d |-> e.d]
UnitB(x, n) == Gcd(n, x) = One
Residues(P, n) == \A i \in 1..Len(P) : IsNat(P[i]) /\ Lt(P[i], n)

\* R (the code's answer) against E (the definition's value)
Agrees(e, R, E) ==
  /\ Residues(R, e.n)
  /\ L(e.n)!OnCurve(Cv(e), R)
  /\ IF UnitB(MulMod(R[3], E[3], e.n), e.n) THEN L(e.n)!ProjEq(R, E) ELSE ~UnitB(E[3], e.n)

BitsMSB(k) == LET b == BitLen(k) IN [i \in 1..b |-> Bit(k, b - i)]
SMul(e, k, P) == L(e.n)!ScalarMul(Cv(e), BitsMSB(k), P)

\* value of an opcode list as scalar64_chainmul / scalar1024_chainmul consume it: <<well-formed, value>>
Decode(c) ==
  LET n == Len(c) IN
  IF n = 0 \/ c[n] < 0 THEN <<FALSE, Zero>>
  ELSE FoldLeft(LAMBDA acc, i :
                  LET op == c[n - i]
                      v  == acc[2]
                  IN IF ~acc[1] THEN acc
                     ELSE IF op % 2 = 0 THEN (IF op < 0 THEN <<FALSE, v>> ELSE <<TRUE, Shl(v, op \div 2)>>)
                     ELSE IF op > 0 THEN <<TRUE, Add(Shl(v, 1), FromInt(op))>>
                     ELSE IF Lt(Shl(v, 1), FromInt(-op)) THEN <<FALSE, v>>
                     ELSE <<TRUE, Sub(Shl(v, 1), FromInt(-op))>>,
                <<TRUE, FromInt(c[n])>>, Idx(n - 1))

ChainOK(e) == LET dv == Decode(e.chain) IN dv[1] /\ dv[2] = e.k

\* detailed shape of the chains (not promised by the property: drift only)
ChainShape(e, maxodd, maxlen) ==
  /\ Len(e.chain) <= maxlen
  /\ \A i \in 1..Len(e.chain) :
        LET op == e.chain[i] IN IF op % 2 = 0 THEN op >= 0 /\ op <= 126 ELSE op >= -maxodd /\ op <= maxodd

HasP(e) == Has(e, "p")
HasQ(e) == Has(e, "q") /\ e.op \in {"add", "sub", "addext", "addextproj", "subextproj", "c128_add", "c128_dbladd"}

\* what the harness supplies: a curve and points on it (its own arithmetic); a failure is a tool error
InputsOK(e) ==
  /\ IsOdd(e.n)
  /\ (e.a = One \/ e.a = Sub(e.n, One)) /\ Lt(e.d, e.n)
  /\ (HasP(e) => (Residues(e.p, e.n) /\ L(e.n)!OnCurve(Cv(e), e.p)))
  /\ (HasQ(e) => (Residues(e.q, e.n) /\ L(e.n)!OnCurve(Cv(e), e.q)))

Ded(e, P, Q) == UnitB(L(e.n)!DedicatedDen(Cv(e), P, Q), e.n)

Ok(e) ==
  LET n == e.n
      c == Cv(e)
  IN
  CASE e.op = "curve" -> Residues(e.g, n) /\ L(n)!OnCurve(c, e.g) /\ (e.tw <=> e.a # One)
    [] e.op = "add"    -> Agrees(e, e.r, L(n)!DefAdd(c, e.p, e.q))
    [] e.op = "sub"    -> Agrees(e, e.r, L(n)!DefAdd(c, e.p, L(n)!NegP(e.q)))
    [] e.op \in {"double", "c128_double"} -> Agrees(e, e.r, L(n)!DefDbl(c, e.p))
    [] e.op \in {"to_ext", "c128_ext"} ->
         Residues(e.r, n) /\ L(n)!ExtValid(e.r) /\ L(n)!ProjEq(L(n)!Proj(e.r), e.p)
         /\ (UnitB(e.p[3], n) => UnitB(e.r[3], n))
    [] e.op \in {"dblext", "c128_dblext"} ->
         Agrees(e, L(n)!Proj(e.r), L(n)!DefDbl(c, e.p)) /\ L(n)!ExtValid(e.r) /\ Lt(e.r[4], n)
    [] e.op \in {"addext", "c128_add"} ->
         Ded(e, e.p, e.q) => (Agrees(e, L(n)!Proj(e.r), L(n)!DefAdd(c, e.p, e.q)) /\ L(n)!ExtValid(e.r) /\ Lt(e.r[4], n))
    [] e.op = "addextproj" -> Ded(e, e.p, e.q) => Agrees(e, e.r, L(n)!DefAdd(c, e.p, e.q))
    [] e.op = "subextproj" ->
         Ded(e, e.p, L(n)!NegP(e.q)) => Agrees(e, e.r, L(n)!DefAdd(c, e.p, L(n)!NegP(e.q)))
    [] e.op = "c128_dbladd" ->          \* 2P + Q
         LET d2 == L(n)!DefDbl(c, e.p) IN
         (UnitB(d2[3], n) /\ Ded(e, d2, e.q)) => Agrees(e, e.r, L(n)!DefAdd(c, d2, e.q))
    [] e.op \in {"is_valid", "c128_is_valid"} -> e.ok = TRUE      \* a curve point is accepted
    [] e.op \in {"chain64", "chain1024"} -> ChainOK(e)
    [] e.op \in {"chainmul64", "dbladd64", "chainmul1024"} -> Agrees(e, e.r, SMul(e, e.k, e.p))
    [] e.op = "mul128" ->
         /\ Agrees(e, e.r, SMul(e, e.k, e.p))
         /\ (Has(e, "r512") => (Residues(e.r512, n) /\ L(n)!ProjEq(e.r, e.r512)))   \* the two implementations agree
    \* the public conversion to the 128-bit implementation: a twisted two-word curve is always accepted, any
    \* other curve may be refused (asserted precondition) - but whatever is accepted computes [k]P
    [] e.op = "conv128" ->
         /\ ((e.tw /\ e.words = 2) => e.accepted)
         /\ (e.accepted => Agrees(e, e.r, SMul(e, e.k, e.p)))
    [] OTHER -> FALSE

ModelOk(e) ==
  CASE e.op = "chain64"   -> ChainShape(e, 7, 33)
    [] e.op = "chain1024" -> ChainShape(e, 63, 384)
    [] e.op = "is_valid"  -> e.okbad = L(e.n)!OnCurve(Cv(e), e.bad)
    [] e.op = "c128_is_valid" -> e.okbad = FALSE
    [] OTHER -> TRUE

IsChain(e) == e.op \in {"chain64", "chain1024"}
\* a call that panicked or did not return is not an action of the specification
Accept(e) == IF Has(e, "outcome") THEN FALSE ELSE Ok(e)

Init == l = 1
Next == /\ l <= NRec /\ l' = l + 1
        /\ LET e == Rec[l]
               inp == IsChain(e) \/ InputsOK(e) IN
           /\ Witness(l, "inputs", inp)
           /\ Strict(l, e.op, inp => Accept(e))
           /\ Drift(l, e.op, (inp /\ ~Has(e, "outcome")) => ModelOk(e))
Spec == Init /\ [][Next]_l
=============================================================================
