SPECIFICATION Spec
CONSTANTS
  N = 77
  Ds = {2, 5, 31}
  Scales = {1, 3}
INVARIANTS
  DefinitionClosed DefinitionIdentity DefinitionInverse DefinitionCommutes
  AddOK DoubleOK ToExtOK DblExtOK AddExtOK AddExtProjOK SubExtProjOK AddExtDegenerateAtPEqQ
  C128AddOK C128DoubleOK C128DblExtOK C128DblAddOK
CHECK_DEADLOCK FALSE
