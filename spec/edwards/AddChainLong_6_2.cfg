SPECIFICATION Spec
CONSTANTS
  WB = 6
  NW = 2
  TH = 3
  LB = 3
  TZCAP = 5
INVARIANTS Value NoHazard WindowFits OpRange StartOp LenBound Terminates
CHECK_DEADLOCK FALSE
