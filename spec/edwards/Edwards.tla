------------------------------- MODULE Edwards -------------------------------
(***************************************************************************)
(* C15 (M) - toy-ring model of the curve arithmetic.                       *)
(*                                                                         *)
(* Over Z/N (N a small odd composite, e.g. 7*11 or 13*17) every state is a *)
(* choice of a curve (a = 1 or -1, d), two curve points P, Q and a         *)
(* projective rescaling of each.  The invariants say that each formula set *)
(* transcribed from the code (EdwardsLaw, Part 2) yields the point the     *)
(* DEFINITION (Part 1) yields, wherever the definition is defined modulo   *)
(* every prime factor of N (its Z is a unit), that results are again curve *)
(* points, and that extended results lie on the quadric XY = ZT.           *)
(* The extended-coordinate additions are "dedicated" formulas: the code    *)
(* documents that they are not valid for P = Q; the exact exceptional set  *)
(* is where their own affine denominators vanish (DedicatedDen a non-unit),*)
(* and the invariant is stated outside that set.                           *)
(***************************************************************************)
EXTENDS Naturals, Sequences, TLC

CONSTANTS N,        \* toy modulus (odd, composite allowed)
          Ds,       \* set of curve coefficients d tried
          Scales    \* set of units used to rescale projective representatives

MulN(x, y) == (x * y) % N
AddN(x, y) == (x + y) % N
SubN(x, y) == (x + N - y) % N

L == INSTANCE EdwardsLaw WITH MulM <- MulN, AddM <- AddN, SubM <- SubN, ZeroM <- 0, OneM <- 1

RECURSIVE GcdI(_, _)
GcdI(x, y) == IF y = 0 THEN x ELSE GcdI(y, x % y)
Unit(x) == GcdI(N, x) = 1

Curves == {c \in [a : {1, N - 1}, d : Ds] : c.d # c.a /\ c.d # 0}
Affine(c) == {P \in {<<x, y, 1>> : x \in 0..(N-1), y \in 0..(N-1)} : L!OnCurve(c, P)}
Scale(P, s) == <<MulN(P[1], s), MulN(P[2], s), MulN(P[3], s)>>

VARIABLES cv, p, q
vars == <<cv, p, q>>

Init == /\ cv \in Curves
        /\ \E P \in Affine(cv), Q \in Affine(cv), s \in Scales, t \in Scales :
              p = Scale(P, s) /\ q = Scale(Q, t)
Next == UNCHANGED vars
Spec == Init /\ [][Next]_vars

tw == cv.a = N - 1
D  == L!DefAdd(cv, p, q)
D2 == L!DefDbl(cv, p)
Dm == L!DefAdd(cv, p, L!NegP(q))
pe == L!CodeToExt(p)
qe == L!CodeToExt(q)

\* R is the code's answer, E the definition's: equal points, proper, on the curve
Agrees(R, E) == Unit(E[3]) => (Unit(R[3]) /\ L!ProjEq(R, E) /\ L!OnCurve(cv, R))

DefinitionClosed == (Unit(D[3]) => L!OnCurve(cv, D)) /\ (Unit(D2[3]) => L!OnCurve(cv, D2))
DefinitionIdentity == L!ProjEq(L!DefAdd(cv, p, L!Identity), p)
DefinitionInverse == Unit(L!DefAdd(cv, p, L!NegP(p))[3]) => L!ProjEq(L!DefAdd(cv, p, L!NegP(p)), L!Identity)
DefinitionCommutes == L!ProjEq(D, L!DefAdd(cv, q, p))

AddOK      == Agrees(L!CodeAdd(tw, cv.d, p, q), D)
DoubleOK   == Agrees(L!CodeDouble(tw, p), D2)
ToExtOK    == L!ExtValid(pe) /\ L!ProjEq(L!Proj(pe), p)
DblExtOK   == LET r == L!CodeDblExt(tw, p) IN Agrees(L!Proj(r), D2) /\ L!ExtValid(r)
AddExtOK   == Unit(L!DedicatedDen(cv, p, q)) =>
                LET r == L!CodeAddExt(tw, pe, qe, FALSE) IN Agrees(L!Proj(r), D) /\ L!ExtValid(r)
AddExtProjOK == Unit(L!DedicatedDen(cv, p, q)) => Agrees(L!CodeAddExtProj(tw, pe, qe), D)
SubExtProjOK == Unit(L!DedicatedDen(cv, p, L!NegP(q))) => Agrees(L!CodeSubExtProj(tw, pe, qe), Dm)
\* the documented non-unified case really is one: P = Q gives the zero vector
AddExtDegenerateAtPEqQ == L!CodeAddExt(tw, pe, pe, FALSE) = <<0, 0, 0, 0>>

\* 128-bit implementation (a = -1 only)
C128AddOK    == (tw /\ Unit(L!DedicatedDen(cv, p, q))) =>
                  LET r == L!Code128Add(pe, qe) IN Agrees(L!Proj(r), D) /\ L!ExtValid(r)
C128DoubleOK == tw => Agrees(L!Code128Double(p), D2)
C128DblExtOK == tw => LET r == L!Code128DblExt(p) IN Agrees(L!Proj(r), D2) /\ L!ExtValid(r)
\* dbladd(p, q) = 2p + q
C128DblAddOK == (tw /\ Unit(D2[3]) /\ Unit(L!DedicatedDen(cv, D2, q))) =>
                  Agrees(L!Code128DblAdd(p, qe), L!DefAdd(cv, D2, q))
=============================================================================
