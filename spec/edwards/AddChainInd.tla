---------------------------- MODULE AddChainInd ----------------------------
(***************************************************************************)
(* C15 - ecm::Curve::make_addition_chain, UNBOUNDED / 64-bit word.         *)
(*                                                                         *)
(* AddChain.tla is checked by TLC for words of 8, 12 and 16 bits.  This    *)
(* module RESTATES its actions (current code, Variant = "halves") with     *)
(*  - the chain replaced by its length len and by the affine map it        *)
(*    denotes: applying the opcodes emitted so far to a pending value v    *)
(*    gives mul * v + add (AddChain!Apply(chain, Len(chain), v); linked by *)
(*    TLC in MC_AddChainInd.tla);                                          *)
(*  - EvenRun (opcode 2t, kk >> t with t = trailing zeros) cut into        *)
(*    ShiftBegin, t times Shift1, ShiftEnd;                                *)
(*  - ghost b: kk <= 2^b, and ghost need: number of further shifts that    *)
(*    are certain (3 after an odd opcode: the new kk is a multiple of 8).  *)
(* Shown inductive:                                                        *)
(*   ValueInv  mul * kk + add = k     (TLAPS, any word modulus M >= 1)     *)
(*   FitInv    1 <= kk < M, no overflow flag (TLAPS, any M; Apalache)      *)
(*   LenInv    => chain length <= W/2 + 1 for even W (2 len <= W + 3),     *)
(*             Apalache for every W in 4..64 through the table P2T         *)
(* The word modulus is M = P2T[W + 1] = 2^W.                               *)
(***************************************************************************)
EXTENDS Integers, Sequences

CONSTANTS
  \* @type: Int;
  W,
  \* @type: Seq(Int);
  P2T                                  \* P2T[i + 1] = 2^i, i = 0..W (Apalache: literal table up to 2^64)

VARIABLES
  \* @type: Int;
  k,
  \* @type: Int;
  kk,
  \* @type: Int;
  len,
  \* @type: Bool;
  done,
  \* @type: Bool;
  ovf,
  \* @type: Str;
  pc,
  \* @type: Int;
  t,
  \* @type: Int;
  mul,
  \* @type: Int;
  add,
  \* @type: Int;
  b,
  \* @type: Int;
  need

vars == <<k, kk, len, done, ovf, pc, t, mul, add, b, need>>

\* @type: Int => Int;
P2(i) == P2T[i + 1]
M == P2(W)

Init == /\ k \in Int /\ 1 <= k /\ k < M
        /\ kk = k /\ len = 0 /\ done = FALSE /\ ovf = FALSE
        /\ pc = "top" /\ t = 0 /\ mul = 1 /\ add = 0 /\ b = W /\ need = 0

\* EvenRun of AddChain = ShiftBegin ; Shift1 (t times) ; ShiftEnd, opcode 2 t
ShiftBegin == /\ ~done /\ pc = "top" /\ kk > 0 /\ kk % 2 = 0
              /\ pc' = "shift" /\ t' = 0
              /\ UNCHANGED <<k, kk, len, done, ovf, mul, add, b, need>>
Shift1 == /\ pc = "shift" /\ kk % 2 = 0
          /\ kk' = kk \div 2 /\ t' = t + 1
          /\ mul' = 2 * mul /\ b' = b - 1 /\ need' = IF need > 0 THEN need - 1 ELSE 0
          /\ UNCHANGED <<k, len, done, ovf, pc, add>>
ShiftEnd == /\ pc = "shift" /\ kk % 2 = 1
            /\ len' = len + 1 /\ pc' = "top"
            /\ UNCHANGED <<k, kk, done, ovf, t, mul, add, b, need>>

Small == /\ ~done /\ pc = "top" /\ kk % 2 = 1 /\ kk <= 7
         /\ len' = len + 1 /\ done' = TRUE
         /\ UNCHANGED <<k, kk, ovf, pc, t, mul, add, b, need>>

OddLow == /\ ~done /\ pc = "top" /\ kk % 2 = 1 /\ kk > 7 /\ (kk % 16) < 8
          /\ len' = len + 1
          /\ kk' = (kk - (kk % 16)) \div 2
          /\ mul' = 2 * mul /\ add' = add + mul * (kk % 16)            \* opcode x = kk mod 16:  v -> 2 v + x
          /\ b' = b - 1 /\ need' = 3
          /\ UNCHANGED <<k, done, ovf, pc, t>>

OddHigh == /\ ~done /\ pc = "top" /\ kk % 2 = 1 /\ kk > 7 /\ (kk % 16) >= 8
           /\ LET rop == 16 - (kk % 16) IN
              /\ len' = len + 1
              /\ kk' = (kk \div 2) + (rop \div 2) + 1
              /\ ovf' = (ovf \/ kk' >= M)
              /\ mul' = 2 * mul /\ add' = add - mul * rop                \* opcode -rop:  v -> 2 v - rop
           /\ b' = b - 1 /\ need' = 3
           /\ UNCHANGED <<k, done, pc, t>>

Stutter == done /\ UNCHANGED vars
Next == ShiftBegin \/ Shift1 \/ ShiftEnd \/ Small \/ OddLow \/ OddHigh \/ Stutter
Spec == Init /\ [][Next]_vars

-----------------------------------------------------------------------------
TypeOK == /\ k \in Int /\ kk \in Int /\ len \in Int /\ done \in BOOLEAN /\ ovf \in BOOLEAN
          /\ pc \in {"top", "shift"} /\ t \in Int /\ mul \in Int /\ add \in Int /\ b \in Int /\ need \in Int
ValueInv == mul * kk + add = k
FitInv == 1 <= kk /\ kk < M /\ ~ovf /\ (done => pc = "top")
IndInvValue == TypeOK /\ ValueInv /\ FitInv          \* needs nothing about M but M >= 1: TLAPS, AddChainProofs.tla

L == 2 * len + b
LenInv ==
  /\ len >= 0 /\ b >= 0 /\ b <= W /\ kk <= P2(b) /\ need >= 0 /\ need <= 3 /\ t >= 0
  /\ need = 3 => kk % 8 = 0
  /\ need = 2 => kk % 4 = 0
  /\ need = 1 => kk % 2 = 0
  /\ (pc = "top" /\ ~done /\ kk % 2 = 1) => need = 0 /\ L <= W + 1
  /\ (pc = "top" /\ ~done /\ kk % 2 = 0) => (need = 3 /\ L <= W + 2) \/ (need = 0 /\ len = 0 /\ L <= W)
  /\ (pc = "shift" /\ need > 0) => L <= W + need - 1
  /\ (pc = "shift" /\ need = 0) => L <= W - (IF kk % 2 = 1 THEN 1 ELSE 0)
  /\ pc = "shift" => ~done
  /\ done => 2 * len <= W + 3
LenBound == 2 * len <= W + 3                  \* for even W:  len <= W/2 + 1  (the code: [i8; 33])
IndInv == TypeOK /\ FitInv /\ LenInv /\ LenBound

IndInit ==
  /\ k \in Int /\ kk \in Int /\ len \in Int /\ done \in BOOLEAN /\ ovf \in BOOLEAN
  /\ pc \in {"top", "shift"} /\ t \in Int /\ mul \in Int /\ add \in Int /\ b \in 0..64 /\ need \in 0..3
  /\ IndInv

-----------------------------------------------------------------------------
\* Deliberately broken variants
\* the code before the fix: kk = (kk + rop) / 2 computed in the word (AddChain Variant = "sum")
OddHighSum == /\ ~done /\ pc = "top" /\ kk % 2 = 1 /\ kk > 7 /\ (kk % 16) >= 8
              /\ LET rop == 16 - (kk % 16) IN
                 /\ len' = len + 1
                 /\ kk' = ((kk + rop) % M) \div 2
                 /\ ovf' = (ovf \/ kk + rop >= M)
                 /\ mul' = 2 * mul /\ add' = add - mul * rop
              /\ b' = b - 1 /\ need' = 3
              /\ UNCHANGED <<k, done, pc, t>>
NextSum == ShiftBegin \/ Shift1 \/ ShiftEnd \/ Small \/ OddLow \/ OddHighSum \/ Stutter
\* the length the code's comment claimed ("never more than 32"): 2 len <= W + 1 is NOT inductive / not an invariant
LenBoundClaimed == 2 * len <= W + 1
=============================================================================
