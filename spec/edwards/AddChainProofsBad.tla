--------------------------- MODULE AddChainProofsBad ---------------------------
(***************************************************************************)
(* Non-vacuity of AddChainProofs: the proof script of OddHigh applied to   *)
(* the code before the fix, kk = (kk + rop) / 2 computed in the word       *)
(* (AddChainInd!OddHighSum).  The claim is FALSE (kk + rop reaches M for   *)
(* odd kk >= M - 7): tlapm must report failed obligations.                 *)
(***************************************************************************)
EXTENDS AddChainProofs

THEOREM OddHighSumOK == IndInvValue /\ OddHighSum => FitInv' /\ ValueInv'
<1> SUFFICES ASSUME IndInvValue, OddHighSum PROVE FitInv' /\ ValueInv'  OBVIOUS
<1> USE MAssump
<1>0. /\ k \in Int /\ kk \in Int /\ mul \in Int /\ add \in Int /\ mul * kk \in Int
      /\ mul * kk + add = k /\ 1 <= kk /\ kk < M /\ ~ovf
      BY Z3 DEF IndInvValue, TypeOK, ValueInv, FitInv
<1> DEFINE rop == 16 - (kk % 16)
<1> DEFINE h == ((kk + rop) % M) \div 2
<1>1. rop \in Int /\ 1 <= rop /\ rop <= 8 /\ h \in Int /\ kk + rop = 2 * h /\ 1 <= h /\ h < M /\ kk + rop < M
      BY <1>0, Z3 DEF OddHighSum
<1>2. kk' = h /\ mul' = 2 * mul /\ add' = add - mul * rop /\ k' = k /\ ovf' = (ovf \/ kk + rop >= M)
      /\ done' = done /\ pc' = pc
      BY DEF OddHighSum
<1> HIDE DEF rop, h
<1>3. (2 * mul) * h + (add - mul * rop) = mul * (2 * h - rop) + add /\ mul * rop \in Int  BY <1>1, <1>0, Z3
<1> QED BY <1>1, <1>2, <1>3, <1>0, Z3 DEF IndInvValue, FitInv, ValueInv
=============================================================================
