SPECIFICATION Spec
CONSTANTS
  WB = 8
  NW = 2
  TH = 4
  LB = 4
  TZCAP = 6
INVARIANTS Value NoHazard WindowFits OpRange StartOp LenBound Terminates
CHECK_DEADLOCK FALSE
