---------------------------- MODULE AddChainProofs ----------------------------
(***************************************************************************)
(* C15 - TLAPS proof that AddChainInd!IndInvValue is inductive for EVERY   *)
(* word modulus M >= 1 (nothing else is used about W or the table P2T):    *)
(*   ValueInv  the opcodes emitted so far, applied to the pending kk, give *)
(*             back the scalar:  mul * kk + add = k                        *)
(*   FitInv    1 <= kk < M at every step and the overflow flag of          *)
(*             kk/2 + rop/2 + 1 is never raised                            *)
(*      tlapm --threads 4 AddChainProofs.tla                               *)
(***************************************************************************)
EXTENDS AddChainInd, TLAPS

ASSUME MAssump == M \in Int /\ M >= 1 /\ W \in Int

LEMMA DivMod == ASSUME NEW x \in Int, NEW p \in Int, p >= 1
                PROVE  x = (x \div p) * p + (x % p) /\ (x \div p) \in Int /\ (x % p) \in 0..(p - 1)
  BY Z3

THEOREM InitOK == Init => IndInvValue
<1> SUFFICES ASSUME Init PROVE IndInvValue  OBVIOUS
<1>1. TypeOK  BY MAssump, Z3 DEF Init, TypeOK
<1>2. mul * kk + add = k  BY Z3 DEF Init
<1>3. FitInv  BY MAssump, Z3 DEF Init, FitInv
<1> QED BY <1>1, <1>2, <1>3 DEF IndInvValue, ValueInv

\* kk = 2 (kk div 2) + kk mod 2 and kk = 16 (kk div 16) + kk mod 16 (constant divisors: linear arithmetic)
THEOREM StepOK == IndInvValue /\ [Next]_vars => IndInvValue'
<1> SUFFICES ASSUME IndInvValue, [Next]_vars PROVE IndInvValue'  OBVIOUS
<1> USE MAssump
<1>0. /\ k \in Int /\ kk \in Int /\ mul \in Int /\ add \in Int /\ mul * kk \in Int
      /\ mul * kk + add = k /\ 1 <= kk /\ kk < M /\ ~ovf
      BY Z3 DEF IndInvValue, TypeOK, ValueInv, FitInv
<1>a. CASE ShiftBegin
  BY <1>a, Z3 DEF ShiftBegin, IndInvValue, TypeOK, ValueInv, FitInv
<1>b. CASE Shift1
  <2> DEFINE h == kk \div 2
  <2>1. h \in Int /\ kk = 2 * h /\ 1 <= h /\ h < M  BY <1>b, <1>0, Z3 DEF Shift1
  <2>2. kk' = h /\ mul' = 2 * mul /\ add' = add /\ k' = k /\ ovf' = ovf /\ done' = done /\ pc' = pc
        BY <1>b DEF Shift1
  <2> HIDE DEF h
  <2>3. (2 * mul) * h = mul * (2 * h)  BY <2>1, <1>0, Z3
  <2>4. ValueInv'  BY <2>1, <2>2, <2>3, <1>0 DEF ValueInv
  <2>5. TypeOK'  BY <1>b, <2>1, <2>2, <1>0, Z3 DEF Shift1, IndInvValue, TypeOK
  <2>6. FitInv'  BY <2>1, <2>2, <1>0 DEF IndInvValue, FitInv
  <2> QED BY <2>4, <2>5, <2>6 DEF IndInvValue
<1>c. CASE ShiftEnd
  BY <1>c, Z3 DEF ShiftEnd, IndInvValue, TypeOK, ValueInv, FitInv
<1>d. CASE Small
  BY <1>d, Z3 DEF Small, IndInvValue, TypeOK, ValueInv, FitInv
<1>e. CASE OddLow
  <2> DEFINE xo == kk % 16
  <2> DEFINE h == (kk - xo) \div 2
  <2> DEFINE d == kk \div 16
  <2>000. 16 \in Int /\ 16 >= 1  OBVIOUS
  <2>00. kk = d * 16 + xo /\ d \in Int /\ xo \in 0..(16 - 1)  BY <1>0, <2>000, DivMod
  <2>0. d \in Int /\ xo \in Int /\ kk = 16 * d + xo /\ 0 <= xo /\ xo < 8 /\ kk > 7
        BY <1>e, <1>0, <2>00, Z3 DEF OddLow
  <2>0x. kk' = h /\ mul' = 2 * mul /\ add' = add + mul * xo /\ k' = k /\ ovf' = ovf /\ done' = done /\ pc' = pc
        BY <1>e DEF OddLow
  <2> HIDE DEF xo, h, d
  <2>0y. kk - xo = 2 * (8 * d) /\ (8 * d) \in Int  BY <2>0, <1>0, Z3
  <2>0z. \A j \in Int : (2 * j) \div 2 = j  BY Z3
  <2>0a. h = 8 * d  BY <2>0y, <2>0z DEF h
  <2>0b. d >= 1  BY <2>0, Z3
  <2>0c. h \in Int /\ kk = 2 * h + xo /\ 1 <= h /\ h < kk  BY <2>0, <2>0a, <2>0b, Z3
  <2>1. xo \in Int /\ 0 <= xo /\ xo < 8 /\ h \in Int /\ kk = 2 * h + xo /\ 1 <= h /\ h < M
        BY <2>0, <2>0c, <1>0, Z3
  <2>2. kk' = h /\ mul' = 2 * mul /\ add' = add + mul * xo /\ k' = k /\ ovf' = ovf /\ done' = done /\ pc' = pc
        BY <2>0x
  <2>3. (2 * mul) * h + (add + mul * xo) = mul * (2 * h + xo) + add /\ mul * xo \in Int  BY <2>1, <1>0, Z3
  <2>4. ValueInv'  BY <2>1, <2>2, <2>3, <1>0 DEF ValueInv
  <2>5. TypeOK'  BY <1>e, <2>1, <2>2, <2>3, <1>0, Z3 DEF OddLow, IndInvValue, TypeOK
  <2>6. FitInv'  BY <2>1, <2>2, <1>0 DEF IndInvValue, FitInv
  <2> QED BY <2>4, <2>5, <2>6 DEF IndInvValue
<1>f. CASE OddHigh
  <2> DEFINE rop == 16 - (kk % 16)
  <2> DEFINE h == (kk \div 2) + (rop \div 2) + 1
  <2>1. rop \in Int /\ 1 <= rop /\ rop <= 8 /\ h \in Int /\ kk + rop = 2 * h /\ 1 <= h /\ h < M
        BY <1>f, <1>0, Z3 DEF OddHigh
  <2>2. kk' = h /\ mul' = 2 * mul /\ add' = add - mul * rop /\ k' = k /\ ovf' = (ovf \/ h >= M)
        /\ done' = done /\ pc' = pc
        BY <1>f DEF OddHigh
  <2> HIDE DEF rop, h
  <2>3. (2 * mul) * h + (add - mul * rop) = mul * (2 * h - rop) + add /\ mul * rop \in Int  BY <2>1, <1>0, Z3
  <2>3a. 2 * h - rop = kk  BY <2>1, <1>0, Z3
  <2>4. ValueInv'  BY <2>1, <2>2, <2>3, <2>3a, <1>0 DEF ValueInv
  <2>5. TypeOK'  BY <1>f, <2>1, <2>2, <2>3, <1>0, Z3 DEF OddHigh, IndInvValue, TypeOK
  <2>6. FitInv'  BY <2>1, <2>2, <1>0, Z3 DEF IndInvValue, FitInv
  <2> QED BY <2>4, <2>5, <2>6 DEF IndInvValue
<1>g. CASE Stutter
  BY <1>g DEF Stutter, vars, IndInvValue, TypeOK, ValueInv, FitInv
<1>h. CASE UNCHANGED vars
  BY <1>h DEF vars, IndInvValue, TypeOK, ValueInv, FitInv
<1> QED BY <1>a, <1>b, <1>c, <1>d, <1>e, <1>f, <1>g, <1>h DEF Next

THEOREM Inductive == Spec => []IndInvValue
  BY InitOK, StepOK, PTL DEF Spec
=============================================================================
