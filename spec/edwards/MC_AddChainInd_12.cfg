SPECIFICATION Spec
CONSTANTS
  W = 12
  Variant = "halves"
INVARIANTS GhostOK IndOnOrig
PROPERTY StepsMatch
CHECK_DEADLOCK FALSE
