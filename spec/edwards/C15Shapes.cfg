SPECIFICATION Spec
INVARIANT Emit
CHECK_DEADLOCK FALSE
