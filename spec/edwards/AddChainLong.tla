---------------------------- MODULE AddChainLong ----------------------------
(***************************************************************************)
(* C15 (M) - ecm::Curve::make_addition_chain_long as a state machine, one  *)
(* action per loop iteration, scaled down: the scalar has NW words of WB   *)
(* bits (code: 16 x 64), the window `exp` holds two words (code: u128), it *)
(* is refilled when at most TH bits are left (code: 32), odd digits have   *)
(* LB - 1 bits (code: LB = 7, digits 1..63), an even run removes at most   *)
(* TZCAP bits (code: 60).                                                  *)
(* Invariants: chain built so far applied to everything still pending      *)
(* gives the scalar (Value); the window never overflows; the unsigned      *)
(* counters never underflow; opcode ranges; length bound.                  *)
(***************************************************************************)
EXTENDS Naturals, Integers, Sequences, TLC

CONSTANTS WB, NW, TH, LB, TZCAP

RECURSIVE Pow2I(_)
Pow2I(k) == IF k = 0 THEN 1 ELSE 2 * Pow2I(k - 1)
RECURSIVE Tz(_)
Tz(x) == IF x % 2 = 1 THEN 0 ELSE 1 + Tz(x \div 2)
RECURSIVE BitLenI(_)
BitLenI(x) == IF x = 0 THEN 0 ELSE 1 + BitLenI(x \div 2)
Min2(a, b) == IF a <= b THEN a ELSE b

Word(n, i) == (n \div Pow2I(WB * i)) % Pow2I(WB)           \* nd[i]
BLK  == Pow2I(LB)
HALF == Pow2I(LB - 1)

VARIABLES n, exp, nextword, chain, bits, curbits, done, bad
vars == <<n, exp, nextword, chain, bits, curbits, done, bad>>

nbits == BitLenI(n)
lastword == (nbits - 1) \div WB

Init == /\ n \in 1..(Pow2I(WB * NW) - 1)
        /\ exp = Word(n, 0) /\ nextword = 1 /\ chain = <<>> /\ bits = 0
        /\ curbits = IF BitLenI(n) >= WB THEN WB ELSE BitLenI(Word(n, 0))
        /\ done = FALSE /\ bad = FALSE

\* the refill at the top of the loop body
Refill == curbits <= TH /\ nextword <= lastword
exp1 == IF Refill THEN exp + Word(n, nextword) * Pow2I(curbits) ELSE exp
cur1 == IF Refill THEN curbits + WB ELSE curbits
nw1  == IF Refill THEN nextword + 1 ELSE nextword

Step ==
  /\ ~done
  /\ IF ~(bits < nbits \/ exp > 0) THEN done' = TRUE /\ UNCHANGED <<n, exp, nextword, chain, bits, curbits, bad>>
     ELSE
     /\ nextword' = nw1 /\ n' = n
     /\ IF exp1 % 2 = 0
        THEN LET tz == Min2(TZCAP, Min2(IF exp1 = 0 THEN 2 * WB ELSE Tz(exp1), cur1)) IN
             /\ exp' = exp1 \div Pow2I(tz)
             /\ bits' = bits + tz /\ curbits' = cur1 - tz
             /\ chain' = Append(chain, 2 * tz)
             /\ done' = FALSE
             /\ bad' = (bad \/ tz = 0)                              \* no progress: would loop forever
        ELSE LET low == exp1 % BLK IN
             IF low < HALF
             THEN /\ chain' = Append(chain, low)
                  /\ IF exp1 - low = 0 /\ bits <= nbits /\ nbits - bits <= LB - 1
                     THEN /\ done' = TRUE /\ exp' = 0 /\ bits' = bits /\ curbits' = cur1 /\ bad' = bad
                     ELSE /\ done' = FALSE
                          /\ exp' = (exp1 - low) \div 2
                          /\ bits' = bits + 1 /\ curbits' = cur1 - 1
                          /\ bad' = (bad \/ cur1 = 0 \/ bits > nbits)   \* u32 underflow of curbits / nbits - bits
             ELSE /\ chain' = Append(chain, -(BLK - low))
                  /\ done' = FALSE
                  /\ exp' = (exp1 + BLK - low) \div 2
                  /\ bits' = bits + 1 /\ curbits' = cur1 - 1
                  /\ bad' = (bad \/ cur1 = 0)

Next == Step \/ (done /\ UNCHANGED vars)
Spec == Init /\ [][Next]_vars

RECURSIVE Apply(_, _, _)
Apply(c, i, v) == IF i = 0 THEN v
                  ELSE Apply(c, i - 1, IF c[i] % 2 = 0 THEN v * Pow2I(c[i] \div 2) ELSE 2 * v + c[i])
Decode(c) == Apply(c, Len(c) - 1, c[Len(c)])

\* words not yet loaded into the window
RECURSIVE Unloaded(_, _)
Unloaded(w, sh) == IF w > lastword THEN 0 ELSE Word(n, w) * Pow2I(sh) + Unloaded(w + 1, sh + WB)
Pending == exp + Unloaded(nextword, IF curbits >= 0 THEN curbits ELSE 0)

Value == IF bad THEN TRUE
         ELSE IF done THEN Decode(chain) = n
         ELSE Apply(chain, Len(chain), Pending) = n
NoHazard == ~bad
WindowFits == exp < Pow2I(2 * WB)
OpRange == \A i \in 1..Len(chain) :
              IF chain[i] % 2 = 0 THEN chain[i] >= 0 /\ chain[i] <= 2 * TZCAP
              ELSE chain[i] > -HALF /\ chain[i] < HALF
StartOp == (done /\ ~bad) => (chain[Len(chain)] % 2 = 1 /\ chain[Len(chain)] > 0)
LenBound == Len(chain) <= 2 * ((WB * NW) \div (LB - 1) + 1) + NW + 2
Terminates == bits <= nbits + 2 * WB
=============================================================================
