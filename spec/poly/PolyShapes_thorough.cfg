INIT Init
NEXT Next
CONSTANTS ThinF = 2
          ThinSS = 5
          ThinNTT = 53
          ThinPoly = 47
          SizeCap = 2
INVARIANT Emit
CHECK_DEADLOCK FALSE
