INIT Init
NEXT Next
INVARIANT PackingOK
CHECK_DEADLOCK FALSE
