INIT Init
NEXT Next
CONSTANTS ThinF = 7
          ThinSS = 19
          ThinNTT = 211
          ThinPoly = 199
          SizeCap = 1
INVARIANT Emit
CHECK_DEADLOCK FALSE
