----------------------------- MODULE PolyShapes -----------------------------
(***************************************************************************)
(* Input space of the C10 driver.  A shape fixes the operation, the size   *)
(* class of the modulus, the operand lengths, the coefficient pattern and  *)
(* (for convolutions) the output offset and packing class; the harness     *)
(* only concretises it with seeded random filling.  The full product is    *)
(* thinned by a fixed arithmetic filter (every value of every dimension    *)
(* still occurs with every value of at least two other dimensions) and by  *)
(* the cost bound Cap: what TLC can recompute by the schoolbook definition.*)
(***************************************************************************)
EXTENDS Naturals, Sequences, TLC, Json
CONSTANTS ThinF, ThinSS, ThinNTT, ThinPoly,  \* keep one shape in Thin* of each thinned family
          SizeCap    \* multiplier of the cost caps (1 quick, 2 thorough)
VARIABLE s

\* rows of the dispatch table of convolve_modn: FFT element words N, log2 of the packing A, stride, largest
\* modulus bit length of the row (the code's table: src/arith_fft.rs, convolve_modn)
ConvClasses == <<[N |-> 16,  logpack |-> 1, stride |-> 5,  bits |-> 150],
                 [N |-> 16,  logpack |-> 0, stride |-> 0,  bits |-> 500],
                 [N |-> 32,  logpack |-> 1, stride |-> 10, bits |-> 310],
                 [N |-> 64,  logpack |-> 2, stride |-> 9,  bits |-> 280],
                 [N |-> 64,  logpack |-> 1, stride |-> 17, bits |-> 500],
                 [N |-> 128, logpack |-> 3, stride |-> 8,  bits |-> 245],
                 [N |-> 128, logpack |-> 2, stride |-> 17, bits |-> 500],
                 [N |-> 256, logpack |-> 3, stride |-> 17, bits |-> 500]>>

\* "mont1": the residue 1/R whose internal (Montgomery) representative is 1, so that the integers handed to the
\* CRT reconstruction are tiny (lower boundary of its quotient estimate); "nm1"/"rand" are the large ones
Coefs   == <<"zero", "one", "nm1", "rand", "mixed", "mont1">>
Offsets == <<"0", "1", "half", "last">>
\* operand lengths relative to the transform size
LenPats == <<"full", "one", "two", "halfm", "halfp", "fullm1", "nowrap">>
\* modulus sizes in bits (2..500): word boundaries, tiny, the documented maximum
BitsSet == <<2, 7, 31, 63, 64, 65, 127, 128, 129, 200, 256, 257, 320, 384, 449, 500>>
\* operand lengths of the polynomial routines: 1.., around the Karatsuba base case (20), around
\* FFT_THRESHOLD (28), powers of two and 2^k + 1, non powers of two
PolyLens == <<1, 2, 3, 4, 5, 8, 9, 16, 17, 20, 21, 27, 28, 29, 32, 33, 45, 56, 64, 65, 100, 128>>
PolyOps == <<"mul_karatsuba", "mul_fft", "mul_basic", "middle", "inv", "quot", "from_roots", "roots_eval", "multi_eval">>

\* largest operand length TLC recomputes for a modulus size (cost ~ len^2 * limbs^2)
Cap(bits) == SizeCap * (IF bits <= 64 THEN 128 ELSE IF bits <= 129 THEN 64 ELSE IF bits <= 257 THEN 48 ELSE 32)

Keep(h, t) == h % t = 0

FIntOps == <<"add", "sub", "mul", "butterfly", "shl", "shr", "twiddle", "reduce">>
FPats == <<"zero", "one", "top", "max", "rand", "half", "lowones", "runs", "pow2diff">>
FInt == {x \in [op : {"fint"}, N : {16, 32, 64, 128, 256}, fop : 1..8, pa : 1..9, pb : {1, 2, 3, 4, 5, 8, 9}] :
           /\ (x.fop >= 5 => x.pb = 1)                              \* unary operations
           /\ (x.N >= 64 => Keep(x.fop + x.pa + 2 * x.pb + x.N \div 64, ThinF))}

ConvSS == {x \in [op : {"conv_ss"}, cls : 1..8, sz : 1..3, off : 1..4, lens : 1..7, coef : 1..6, small : BOOLEAN] :
             /\ Keep(31 * x.cls + 37 * x.sz + 41 * x.off + 43 * x.lens + 47 * x.coef + (IF x.small THEN 53 ELSE 0), ThinSS)
             /\ x.sz <= 1 + SizeCap}

\* w = number of NTT primes (CRT width): every value reachable with moduli of 2..500 bits
ConvNTT == {x \in [op : {"conv_ntt"}, w : 1..18, logsize : 1..6, kextra : {0, 3, 10}, off : 1..4, lens : 1..7, coef : 1..6] :
              /\ Keep(31 * x.w + 37 * x.logsize + 41 * x.off + 43 * x.lens + 47 * x.coef + 53 * x.kextra, ThinNTT)
              /\ (x.w > 9 => x.logsize <= 4 + SizeCap)}

Poly == {x \in [op : {"poly"}, pop : 1..9, bits : 1..16, len : 1..22, lenpat : {"eq", "m1", "big"}, coef : 1..6, ntt : BOOLEAN] :
           /\ PolyLens[x.len] <= Cap(BitsSet[x.bits])
           /\ (PolyOps[x.pop] = "mul_fft" => x.ntt)
           /\ (PolyOps[x.pop] = "mul_basic" => ~x.ntt /\ x.lenpat = "eq" /\ PolyLens[x.len] <= 33)
           /\ (PolyOps[x.pop] \in {"middle", "inv", "from_roots"} => x.lenpat = "eq")
           /\ (PolyOps[x.pop] \in {"mul_karatsuba", "quot"} => x.lenpat # "big")
           /\ Keep(31 * x.pop + 37 * x.bits + 41 * x.len + 47 * x.coef + (IF x.ntt THEN 53 ELSE 0) + (IF x.lenpat = "eq" THEN 0 ELSE 59), ThinPoly)}

\* every operation on the tiniest lengths (recursion base cases and their scratch-space bounds), not thinned
PolyTiny == {x \in [op : {"poly"}, pop : 1..9, bits : {8}, len : 1..5, lenpat : {"eq", "m1"}, coef : {2, 4}, ntt : {FALSE}] :
               /\ PolyOps[x.pop] # "mul_fft"
               /\ (PolyOps[x.pop] = "mul_basic" => x.lenpat = "eq")
               /\ (PolyOps[x.pop] \in {"middle", "inv", "from_roots"} => x.lenpat = "eq")}

\* the quotient's (1+alpha)(1+beta) shortcut (taken when ceil(len/2) - 1 is a power of two) is guarded by the
\* leading coefficients of BOTH series: every combination of leading coefficients (1 or a random unit) on the
\* lengths 2^k + 1, 2^k + 2 and their neighbours, not thinned.  lead: "11", "1u", "u1", "uu" (p[0], q[0])
QuotLens == <<2, 3, 4, 5, 6, 7, 9, 10, 11, 17, 18, 19, 33, 34, 35, 65, 66>>
QuotLead == {x \in [op : {"polyq"}, bits : {2, 7, 12}, len : 1..17, lead : {"11", "1u", "u1", "uu"}, coef : {4, 5}, ntt : BOOLEAN] :
               QuotLens[x.len] <= Cap(BitsSet[x.bits])}

\* Large transforms (2^10 .. 2^14 in quick, .. 2^16 in thorough) at the modulus sizes where the packing classes of
\* convolve_modn change (150, 245, 280, 310, 500 and one above each), for both convolution back ends.  Operands
\* are period-2 sequences of full-size residues (every slot of the packed product is as large as it can get) or
\* sparse (a few terms: any misplaced coefficient shows); TLC checks sampled output coefficients by closed forms
\* proved equal to the definition in PolyBigMC.tla.  Not thinned.
BigBits == {64, 150, 151, 245, 246, 280, 281, 310, 311, 320, 400, 500}
BigLg == {10, 12, 13, 14} \cup (IF SizeCap > 1 THEN {15, 16} ELSE {})
ConvBig == [op : {"conv_big"}, alg : {"ss_public", "ntt"}, bits : BigBits, lg : BigLg, pat : {"ptop", "prand", "sparse"}]
           \cup [op : {"conv_big"}, alg : {"ss_public"}, bits : BigBits, lg : {10, 13}, pat : {"mtop"}]
\* full-size period-2 operands through the public dispatcher at every second modulus size in the ten bits above
\* each packing-class limit (a limit moved by a few bits overflows a slot only once 2 bits + log2 size exceeds it)
EdgeBits == {152, 154, 156, 158, 160, 247, 249, 251, 253, 255, 282, 284, 286, 288, 290, 312, 314, 316, 318}
\* the multi-prime back end at the modulus sizes just below each step of its CRT width (2 bits = 58 j - 2: the
\* transform size is what pushes the required number of primes to j + 1)
NttEdgeBits == {29 * j - 1 : j \in 3..17}
ConvBigNtt == [op : {"conv_big"}, alg : {"ntt"}, bits : NttEdgeBits, lg : {10, 13}, pat : {"ptop"}]
\* "mtop": modulus 2^bits - small, operands whose Montgomery representatives are n-1, n-2, n-3 (the packed transform
\* multiplies representatives, so only these fill a slot to its true maximum 2 bits + log2 size)
ConvBigEdge == [op : {"conv_big"}, alg : {"ss_public"}, bits : EdgeBits, lg : {10, 13} \cup (IF SizeCap > 1 THEN {15} ELSE {}), pat : {"ptop", "mtop"}]

Name(x) ==
  CASE x.op = "fint" -> [op |-> "fint", N |-> x.N, fop |-> FIntOps[x.fop], pa |-> FPats[x.pa], pb |-> FPats[x.pb]]
    [] x.op = "conv_ss" -> [op |-> "conv_ss", N |-> ConvClasses[x.cls].N, logpack |-> ConvClasses[x.cls].logpack,
                            stride |-> ConvClasses[x.cls].stride, maxbits |-> ConvClasses[x.cls].bits, sz |-> x.sz,
                            off |-> Offsets[x.off], lens |-> LenPats[x.lens], coef |-> Coefs[x.coef], small |-> x.small]
    [] x.op = "conv_ntt" -> [op |-> "conv_ntt", w |-> x.w, logsize |-> x.logsize, kextra |-> x.kextra,
                             off |-> Offsets[x.off], lens |-> LenPats[x.lens], coef |-> Coefs[x.coef]]
    [] x.op = "poly" -> [op |-> "poly", pop |-> PolyOps[x.pop], bits |-> BitsSet[x.bits], len |-> PolyLens[x.len],
                         lenpat |-> x.lenpat, coef |-> Coefs[x.coef], ntt |-> x.ntt]
    [] x.op = "conv_big" -> x
    [] x.op = "polyq" -> [op |-> "poly", pop |-> "quot", bits |-> BitsSet[x.bits], len |-> QuotLens[x.len],
                          lenpat |-> x.lead, coef |-> Coefs[x.coef], ntt |-> x.ntt]

Init == s \in FInt \cup ConvSS \cup ConvNTT \cup Poly \cup PolyTiny \cup QuotLead \cup ConvBig \cup ConvBigEdge \cup ConvBigNtt
Next == UNCHANGED s
Emit == PrintT(<<"SHAPE", ToJson(Name(s))>>)
=============================================================================
