---------------------------- MODULE ConvDispatch ----------------------------
(***************************************************************************)
(* The dispatch table of arith_fft::convolve_modn (transcribed from the    *)
(* code): for moduli up to `bits` bits and transform sizes up to `size`,   *)
(* A = 2^logpack coefficients are packed `stride` words apart into one     *)
(* integer modulo 2^(64 N) + 1.  The state space is (row, bits, log2 size) *)
(* and the invariant states what the packing needs to be exact:            *)
(*  - the 2A-1 slots of a product fit in N words (no reduction mod F),     *)
(*  - a slot holds a sum of up to `size` products of residues,             *)
(*  - the Fermat ring has a root of unity of order size/A (<= 256 N),      *)
(*  - the 8-word copy of the last packed coefficient stays inside N words. *)
(***************************************************************************)
EXTENDS Naturals, Sequences
VARIABLES row, bits, lg

Rows == <<[N |-> 16,  logpack |-> 1, stride |-> 5,  bits |-> 150, lgsize |-> 13],
          [N |-> 16,  logpack |-> 0, stride |-> 0,  bits |-> 500, lgsize |-> 12],
          [N |-> 32,  logpack |-> 1, stride |-> 10, bits |-> 310, lgsize |-> 14],
          [N |-> 64,  logpack |-> 2, stride |-> 9,  bits |-> 280, lgsize |-> 16],
          [N |-> 64,  logpack |-> 1, stride |-> 17, bits |-> 500, lgsize |-> 15],
          [N |-> 128, logpack |-> 3, stride |-> 8,  bits |-> 245, lgsize |-> 18],
          [N |-> 128, logpack |-> 2, stride |-> 17, bits |-> 500, lgsize |-> 17],
          [N |-> 256, logpack |-> 3, stride |-> 17, bits |-> 500, lgsize |-> 19]>>

RECURSIVE P2(_)
P2(k) == IF k = 0 THEN 1 ELSE 2 * P2(k - 1)

Init == row \in 1..Len(Rows) /\ bits \in 2..Rows[row].bits /\ lg \in 1..Rows[row].lgsize
Next == UNCHANGED <<row, bits, lg>>

PackingOK ==
  LET r == Rows[row]
      A == P2(r.logpack)
  IN IF r.stride = 0
     THEN /\ 2 * bits + lg <= 64 * r.N                    \* one coefficient per element
          /\ P2(lg) <= 256 * r.N
     ELSE /\ (2 * A - 1) * r.stride <= r.N
          /\ 2 * bits + lg <= 64 * r.stride
          /\ (lg >= r.logpack => P2(lg - r.logpack) <= 256 * r.N)
          /\ r.stride * (A - 1) + 8 <= r.N
=============================================================================
