------------------------------ MODULE PolyTrace ------------------------------
(***************************************************************************)
(* C10 - polynomial products, convolutions and multipoint evaluation match *)
(* their definitions.  Every event is one call of arith_poly / arith_fft   *)
(* with all operands and results as plain residues; the specification      *)
(* recomputes the schoolbook definition (PolyConv.tla) and compares.       *)
(***************************************************************************)
EXTENDS PolyConv, TraceLib
VARIABLE l

Residues(p, n) == \A i \in 1..Len(p) : Lt(p[i], n)

\* res[idx] is coefficient offset+idx of the cyclic product, for offset+idx < size; 0 beyond
ConvOK(e) ==
  /\ Residues(e.res, e.n)
  /\ \A idx \in 0..(Len(e.res) - 1) :
       e.res[idx + 1] = (IF e.offset + idx < e.size
                         THEN CyclicCoef(e.a, e.b, e.size, e.offset + idx, e.n) ELSE Zero)

\* large transforms: sampled coefficients ks / cs of the full cyclic product (offset 0) of operands given by a
\* description: period-2 values (pv, qv) or sparse (position, value) pairs (ap, bp)
ConvBigOK(e) ==
  /\ Len(e.cs) = Len(e.ks) /\ Residues(e.cs, e.n)
  /\ \A t \in 1..Len(e.ks) :
       e.cs[t] = (IF e.pat = "sparse" THEN SparseCyclicCoef(e.ap, e.bp, e.size, e.ks[t], e.n)
                  ELSE Periodic2Coef(e.pv, e.qv, e.size, e.ks[t], e.n))
ConvBigInputs(e) ==
  /\ e.size % 2 = 0 /\ \A t \in 1..Len(e.ks) : e.ks[t] \in 0..(e.size - 1)
  /\ IF e.pat = "sparse"
     THEN /\ \A i \in 1..Len(e.ap) : e.ap[i][1] \in 0..(e.size - 1) /\ Lt(e.ap[i][2], e.n)
          /\ \A i \in 1..Len(e.bp) : e.bp[i][1] \in 0..(e.size - 1) /\ Lt(e.bp[i][2], e.n)
          /\ \A i, j \in 1..Len(e.ap) : i # j => e.ap[i][1] # e.ap[j][1]
          /\ \A i, j \in 1..Len(e.bp) : i # j => e.bp[i][1] # e.bp[j][1]
     ELSE Len(e.pv) = 2 /\ Len(e.qv) = 2 /\ Residues(e.pv, e.n) /\ Residues(e.qv, e.n)

\* full product; the routines may return a longer array whose tail is zero
MulOK(e) ==
  /\ Len(e.res) >= Len(e.a) + Len(e.b) - 1
  /\ e.res = Prod2(e.a, e.b, Len(e.res), e.n)

MiddleOK(e) == e.res = Middle(e.a, e.b, e.n)
InvOK(e) == Residues(e.res, e.n) /\ IsInvSeries(e.a, e.res, e.n)
QuotOK(e) == Residues(e.res, e.n) /\ IsQuotSeries(e.a, e.b, e.res, e.n)
FromRootsOK(e) == e.res = FromRoots(e.a, e.n)
RootsEvalOK(e) == /\ Len(e.res) = Len(e.b)
                  /\ \A j \in 1..Len(e.b) : e.res[j] = RootsEvalAt(e.a, e.b[j], e.n)
MultiEvalOK(e) == /\ Len(e.res) = Len(e.b)
                  /\ \A j \in 1..Len(e.b) : e.res[j] = Horner(e.a, e.b[j], e.n)

\* integers modulo F = 2^(64 N) + 1; results must be normalised (<= 2^(64N), i.e. < F)
FIntOK(e) ==
  LET m == 64 * e.N
      F == Fermat(m)
      norm(x) == Lt(x, F)
  IN CASE e.fop = "add" -> norm(e.r1) /\ e.r1 = ModF(Add(e.a, e.b), m)
       [] e.fop = "sub" -> norm(e.r1) /\ e.r1 = ModF(Add(e.a, Sub(F, e.b)), m)
       [] e.fop = "mul" -> norm(e.r1) /\ e.r1 = ModF(Mul(e.a, e.b), m)
       [] e.fop = "shl" -> norm(e.r1) /\ e.r1 = ModF(Shl(e.a, e.s % (2 * m)), m)
       \* division by 2^s = multiplication by 2^(2m - s)   (2^(2m) == 1)
       [] e.fop = "shr" -> norm(e.r1) /\ e.r1 = ModF(Shl(e.a, (2 * m - (e.s % (2 * m))) % (2 * m)), m)
       \* omega = sqrt(2)^(4m / 2^k) is a primitive 2^k-th root of unity; omega^i = sqrt(2)^h with
       \* h = i * 4m / 2^k (k <= log2(4m))
       [] e.fop = "twiddle" ->
            LET h  == (e.s * ((4 * m) \div Pow2Int(e.k))) % (4 * m)
                x1 == IF h % 2 = 1 THEN ModF(Mul(e.a, Sqrt2(m)), m) ELSE e.a
            IN norm(e.r1) /\ e.r1 = ModF(Shl(x1, h \div 2), m)
       [] e.fop = "butterfly" -> /\ norm(e.r1) /\ e.r1 = ModF(Add(e.a, e.b), m)
                                 /\ norm(e.r2) /\ e.r2 = ModF(Add(e.a, Sub(F, e.b)), m)
       \* value = low + 2^m * top
       [] e.fop = "reduce" -> norm(e.r1) /\ e.r1 = ModF(e.a, m)
       [] OTHER -> FALSE

\* sqrt(2)^2 == 2: the root of unity used by the definition above
RootOK(e) == LET m == 64 * e.N IN ModF(Sqr(Sqrt2(m)), m) = FromInt(2)

Ok(e) ==
  CASE e.op = "conv"        -> ConvOK(e)
    [] e.op = "conv_big"    -> ConvBigOK(e)
    [] e.op = "mul"         -> MulOK(e)
    [] e.op = "middle"      -> MiddleOK(e)
    [] e.op = "inv"         -> InvOK(e)
    [] e.op = "quot"        -> QuotOK(e)
    [] e.op = "from_roots"  -> FromRootsOK(e)
    [] e.op = "roots_eval"  -> RootsEvalOK(e)
    [] e.op = "multi_eval"  -> MultiEvalOK(e)
    [] e.op = "fint"        -> FIntOK(e)
    [] e.op = "selftest"    -> e.x = Add(Pow2(200), FromInt(e.c))
    [] OTHER -> FALSE

\* operands handed to the code are residues (harness obligation)
WitnessOK(e) ==
  CASE e.op \in {"conv", "mul", "middle", "quot", "roots_eval", "multi_eval"} -> Residues(e.a, e.n) /\ Residues(e.b, e.n)
    [] e.op \in {"inv", "from_roots"} -> Residues(e.a, e.n)
    [] e.op = "conv_big" -> ConvBigInputs(e)
    [] e.op = "fint" -> RootOK(e) /\ (e.fop = "reduce" \/ (Lt(e.a, Fermat(64 * e.N)) /\ Lt(e.b, Fermat(64 * e.N))))
    [] OTHER -> TRUE

Accept(e) == IF Has(e, "outcome") THEN FALSE ELSE Ok(e)

Init == l = 1
Next == /\ l <= NRec
        /\ l' = l + 1
        /\ LET w == WitnessOK(Rec[l])
           IN /\ Witness(l, Rec[l].op, w)
              /\ Strict(l, Rec[l].op, ~w \/ Accept(Rec[l]))
Spec == Init /\ [][Next]_l
=============================================================================
