------------------------------ MODULE PolyBigMC ------------------------------
(***************************************************************************)
(* The closed forms used for large transforms (PolyConv!Periodic2Coef,     *)
(* PolyConv!SparseCyclicCoef) equal the schoolbook cyclic product of the   *)
(* dense operands they stand for: checked for every operand over a small   *)
(* modulus, sizes 2, 4, 8 and every coefficient index.                     *)
(***************************************************************************)
EXTENDS PolyConv, TLC
CONSTANTS M, Sizes
VARIABLES kind, size, k, a, b

Res == 0..(M - 1)
N == FromInt(M)
Init == \/ /\ kind = "periodic" /\ size \in Sizes /\ k \in 0..7
           /\ a \in [1..2 -> Res] /\ b \in [1..2 -> Res]
        \/ /\ kind = "sparse" /\ size \in Sizes /\ k \in 0..7
           \* two terms each: positions and values
           /\ a \in [1..2 -> (0..7) \X (1..(M - 1))]
           /\ \E p1, p2 \in 0..7 : b = <<<<p1, 1>>, <<p2, M - 1>>>>
Next == UNCHANGED <<kind, size, k, a, b>>

Big(v) == [i \in 1..Len(v) |-> FromInt(v[i])]
Pairs(v) == [i \in 1..Len(v) |-> <<v[i][1], FromInt(v[i][2])>>]
Valid == k < size /\ (kind = "sparse" => (\A i \in 1..2 : a[i][1] < size /\ b[i][1] < size) /\ a[1][1] # a[2][1] /\ b[1][1] # b[2][1])

ClosedFormsAgree ==
  Valid =>
    IF kind = "periodic"
    THEN Periodic2Coef(Big(a), Big(b), size, k, N)
         = CyclicCoef(ExpandPeriodic2(Big(a), size), ExpandPeriodic2(Big(b), size), size, k, N)
    ELSE SparseCyclicCoef(Pairs(a), Pairs(b), size, k, N)
         = CyclicCoef(ExpandSparse(Pairs(a), size), ExpandSparse(Pairs(b), size), size, k, N)
=============================================================================
