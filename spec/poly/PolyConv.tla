------------------------------ MODULE PolyConv ------------------------------
(***************************************************************************)
(* C10 - schoolbook definitions of polynomial arithmetic over Z/nZ.        *)
(*                                                                         *)
(* A polynomial is a sequence of residues (BigNat, each < n), constant     *)
(* coefficient first: the coefficient of X^i is p[i+1].  Everything is the *)
(* textbook definition, written for evaluation by TLC.                     *)
(***************************************************************************)
EXTENDS BigNat

Ix(len) == [i \in 1..len |-> i - 1]                 \* 0 .. len-1 as a sequence
Co(p, i) == IF i >= 0 /\ i < Len(p) THEN p[i + 1] ELSE Zero

\* sum of p_i * q_(f(i)) over i, reduced once
SumMod(p, q, J(_), n) ==
  Mod(FoldLeft(LAMBDA s, i : LET j == J(i) IN
                              IF j >= 0 /\ j < Len(q) /\ p[i + 1] # Zero /\ q[j + 1] # Zero
                              THEN Add(s, Mul(p[i + 1], q[j + 1])) ELSE s,
               Zero, Ix(Len(p))), n)

\* coefficient k of p*q
ProdCoef(p, q, k, n) == SumMod(p, q, LAMBDA i : k - i, n)
\* the product, as a polynomial of `len` coefficients
Prod2(p, q, len, n) == [k \in 1..len |-> ProdCoef(p, q, k - 1, n)]

\* coefficient k of p*q modulo X^size - 1 (Len(p), Len(q) <= size): sum over i + j == k (mod size)
CyclicCoef(p, q, size, k, n) == SumMod(p, q, LAMBDA i : (k - i + size) % size, n)

\* Large transforms (beyond what the sums above can be recomputed for): two operand families whose cyclic
\* product has a closed form with a handful of terms.
\* (1) operands of period 2 over the whole transform: p_i = pv[(i % 2) + 1], q_j = qv[(j % 2) + 1], size even.
\*     In c_k = sum_i p_i q_(k-i) the index k - i has the parity of k for even i and the other one for odd i.
Periodic2Coef(pv, qv, size, k, n) ==
  Mod(Mul(FromInt(size \div 2), Add(Mul(pv[1], qv[(k % 2) + 1]), Mul(pv[2], qv[((k + 1) % 2) + 1]))), n)
\* (2) sparse operands given as (position, value) pairs (positions distinct, < size): only the pairs with
\*     pos + pos' == k (mod size) contribute
SparseCyclicCoef(ap, bp, size, k, n) ==
  Mod(FoldLeft(LAMBDA s, x : FoldLeft(LAMBDA s2, y : IF (x[1] + y[1]) % size = k THEN Add(s2, Mul(x[2], y[2])) ELSE s2, s, bp),
               Zero, ap), n)
\* the dense operands those descriptions stand for (used by the equivalence model PolyBigMC.tla)
ExpandPeriodic2(pv, size) == [i \in 1..size |-> pv[((i - 1) % 2) + 1]]
ExpandSparse(ap, size) == [i \in 1..size |-> LET m == SelectSeq(ap, LAMBDA x : x[1] = i - 1) IN IF m = <<>> THEN Zero ELSE m[1][2]]

\* middle product of p (2m-1 coefficients) by q (m coefficients): coefficients m-1 .. 2m-2 of p*q
Middle(p, q, n) == LET m == Len(q) IN [t \in 1..m |-> ProdCoef(p, q, m - 1 + t - 1, n)]

\* g is the inverse of f modulo X^m, m = Len(f) = Len(g)
IsInvSeries(f, g, n) ==
  /\ Len(g) = Len(f)
  /\ \A k \in 0..(Len(f) - 1) : ProdCoef(f, g, k, n) = (IF k = 0 THEN Mod(One, n) ELSE Zero)

\* z = p / q modulo X^m:  z * q == p
IsQuotSeries(p, q, z, n) ==
  /\ Len(z) = Len(p)
  /\ \A k \in 0..(Len(p) - 1) : ProdCoef(z, q, k, n) = p[k + 1]

\* multiply a polynomial by (X - r)
MulLinear(p, r, n) ==
  [k \in 1..(Len(p) + 1) |-> SubMod(Co(p, k - 2), MulMod(r, Co(p, k - 1), n), n)]
\* product of (X - r_i)
FromRoots(rs, n) == FoldLeft(LAMBDA p, r : MulLinear(p, r, n), <<Mod(One, n)>>, rs)

\* product over i of (b - a_i)
RootsEvalAt(as, b, n) == FoldLeft(LAMBDA v, a : MulMod(v, SubMod(b, a, n), n), Mod(One, n), as)

\* Horner evaluation of p at x
Horner(p, x, n) == FoldLeft(LAMBDA v, i : AddMod(MulMod(v, x, n), p[Len(p) - i], n), Zero, Ix(Len(p)))

-----------------------------------------------------------------------------
(* arithmetic modulo the Fermat number F = 2^m + 1, without division *)
Fermat(m) == Add(Pow2(m), One)
RECURSIVE ModF(_, _)
ModF(x, m) ==
  IF BitLen(x) <= m THEN x
  ELSE LET lo == LowBits(x, m)
           hi == ModF(Shr(x, m), m)               \* x = lo + 2^m hi == lo - hi
       IN IF Ge(lo, hi) THEN Sub(lo, hi) ELSE Sub(Add(lo, Fermat(m)), hi)
\* sqrt(2) = 2^(3m/4) - 2^(m/4) modulo 2^m + 1 (m divisible by 4)
Sqrt2(m) == Sub(Pow2((3 * m) \div 4), Pow2(m \div 4))
=============================================================================
