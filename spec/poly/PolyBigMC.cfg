INIT Init
NEXT Next
CONSTANTS M = 3
          Sizes = {2, 4, 8}
INVARIANT ClosedFormsAgree
CHECK_DEADLOCK FALSE
