INIT Init
NEXT Next
CONSTANTS
  MaxF = 2
  LargeP = 1073741789
INVARIANT RoundTrip
INVARIANT Framing
CHECK_DEADLOCK FALSE
