SPECIFICATION Spec
CONSTANTS
  NLP = 6
  MaxLen = 16
  NPar = 2
  DoublePars = {{}, {1}}
  CompletePars = {{2}}
  EmitLen = 16
  RandomOps = TRUE
  EmitRare = {}
INVARIANT InvCyclesComplete
INVARIANT InvExponentBalance
INVARIANT InvPartialKeyed
INVARIANT InvDoublesKeyed
INVARIANT InvNoDanglingDouble
INVARIANT InvRevMirrors
INVARIANT InvLenIsRaws
INVARIANT InvNoAssertFails
INVARIANT Emit
CHECK_DEADLOCK FALSE
