SPECIFICATION Spec
CONSTANTS
  NLP = 8
  MaxLen = 30
  NPar = 2
  DoublePars = {{}, {1}}
  CompletePars = {{2}}
  EmitLen = 30
  RandomOps = TRUE
  EmitRare = {}
INVARIANT InvCyclesComplete
INVARIANT InvExponentBalance
INVARIANT InvPartialKeyed
INVARIANT InvDoublesKeyed
INVARIANT InvNoDanglingDouble
INVARIANT InvRevMirrors
INVARIANT InvLenIsRaws
INVARIANT InvNoAssertFails
INVARIANT Emit
CHECK_DEADLOCK FALSE
