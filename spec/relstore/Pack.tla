--------------------------------- MODULE Pack ---------------------------------
(***************************************************************************)
(* C11 (M) - the compact storage form of a relation (PackedRelation).      *)
(*                                                                         *)
(* pack: the integers  x[0..7], cofactor, cyclelen, then per factor (p,k): *)
(*   (-1, even) nothing;  (-1, odd) 0;  p := 1 if p = 2;                   *)
(*   k = 1: p;  k > 1: 2p, k                                               *)
(* are written most significant 7-bit group first; the first byte of an    *)
(* integer has bit 7 clear, the following ones have it set.                *)
(* unpack: a byte < 0x80 starts a new integer; 0 -> (-1,1); odd n -> (n,1) *)
(* with 1 -> 2; even n -> (n/2, next integer) with 2 -> 2.                 *)
(* Checked for every relation over the values below (numbers < 2^31 only:  *)
(* the 64-bit boundary is covered on real values by the trace check).      *)
(*   Unpack(Pack(r)) = Canon(r)  where Canon drops (-1, even) and turns    *)
(*   (-1, odd) into (-1, 1): the same congruence.                          *)
(***************************************************************************)
EXTENDS Integers, Sequences, SequencesExt, TLC
CONSTANTS MaxF, LargeP
VARIABLE r

BitLenI(n) == LET RECURSIVE F(_) F(m) == IF m = 0 THEN 0 ELSE 1 + F(m \div 2) IN F(n)
P128(k) == LET RECURSIVE F(_) F(j) == IF j = 0 THEN 1 ELSE 128 * F(j - 1) IN F(k)
Max2i(a, b) == IF a >= b THEN a ELSE b

Leb(n) == LET len == Max2i(1, (BitLenI(n) + 6) \div 7) IN
          [j \in 1..len |-> ((n \div P128(len - j)) % 128) + (IF j > 1 THEN 128 ELSE 0)]

\* integers of one factor; <<-9>> where the code asserts (-8: index out of bounds, -7: corrupted data in unpack)
FacInts(f) ==
  LET p == f[1]
      k == f[2]
  IN IF p = -1 THEN (IF k % 2 = 0 THEN <<>> ELSE <<0>>)
     ELSE IF ~(p > 0 /\ k > 0) THEN <<-9>>
     ELSE LET pp == IF p = 2 THEN 1 ELSE p IN
          IF pp % 2 # 1 THEN <<-9>>
          ELSE IF k > 1 THEN <<2 * pp, k>> ELSE <<pp>>

PackInts(rel) == rel.hdr \o FlattenSeq([i \in 1..Len(rel.fs) |-> FacInts(rel.fs[i])])
PackDefined(rel) == \A i \in 1..Len(rel.fs) : FacInts(rel.fs[i]) # <<-9>>
Pack(rel) == FlattenSeq([i \in 1..Len(PackInts(rel)) |-> Leb(PackInts(rel)[i])])

\* decode bytes into integers
UnLeb(bytes) ==
  LET st == FoldLeft(LAMBDA acc, i :
                       LET b == bytes[i] IN
                       IF b < 128 THEN [ints |-> IF i > 1 THEN Append(acc.ints, acc.n) ELSE acc.ints, n |-> b]
                       ELSE [acc EXCEPT !.n = acc.n * 128 + (b % 128)],
                     [ints |-> <<>>, n |-> 0], [i \in 1..Len(bytes) |-> i])
  IN Append(st.ints, st.n)

RECURSIVE Facs(_, _)
Facs(ints, idx) ==
  IF idx > Len(ints) THEN <<>>
  ELSE LET n == ints[idx] IN
       IF n = 0 THEN <<<<-1, 1>>>> \o Facs(ints, idx + 1)
       ELSE IF n % 2 = 1 THEN <<<<IF n = 1 THEN 2 ELSE n, 1>>>> \o Facs(ints, idx + 1)
       ELSE IF idx + 1 > Len(ints) THEN <<<<-8, 0>>>>
       ELSE <<<<IF n = 2 THEN 2 ELSE n \div 2, ints[idx + 1]>>>> \o Facs(ints, idx + 2)

Unpack(bytes) == LET ints == UnLeb(bytes) IN
                 IF Len(ints) < 10 THEN [hdr |-> <<-7>>, fs |-> <<>>]
                 ELSE [hdr |-> SubSeq(ints, 1, 10), fs |-> Facs(ints, 11)]

Canon(rel) == [hdr |-> rel.hdr,
               fs  |-> LET kept == SelectSeq(rel.fs, LAMBDA f : ~(f[1] = -1 /\ f[2] % 2 = 0))
                       IN [i \in 1..Len(kept) |-> IF kept[i][1] = -1 THEN <<-1, 1>> ELSE kept[i]]]

Exps == {1, 2, 3, 127, 128, 129}
FacSet == {<<-1, k>> : k \in {0, 1, 2, 3, 128, 129}} \cup {<<p, k>> : p \in {2, 3, 5, LargeP}, k \in Exps}
HdrVals == {0, 1, 127, 128, 16383, 16384, 2097151, 2097152, 2147483647}
Hdrs == {[i \in 1..10 |-> v] : v \in HdrVals} \cup {<<0, 127, 128, 129, 16383, 16384, 1, 0, LargeP, 3>>}  \* = MixedHdr

\* the header and the factors are encoded independently (concatenation): every header with every factor list
\* of length <= 1, and every factor list of length <= MaxF with the mixed header
MixedHdr == <<0, 127, 128, 129, 16383, 16384, 1, 0, LargeP, 3>>
Init == \/ r \in [hdr : Hdrs, fs : UNION {[1..n -> FacSet] : n \in 0..1}]
        \/ r \in [hdr : {MixedHdr}, fs : UNION {[1..n -> FacSet] : n \in 2..MaxF}]
Next == FALSE /\ UNCHANGED r

RoundTrip == PackDefined(r) /\ Unpack(Pack(r)) = Canon(r)
\* one byte per integer below 128, first byte of every integer is the only one below 0x80
Framing == LET b == Pack(r) IN
           /\ \A i \in 1..Len(b) : b[i] \in 0..255
           /\ Len(SelectSeq(b, LAMBDA x : x < 128)) = Len(PackInts(r))
=============================================================================
