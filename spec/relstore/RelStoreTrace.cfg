SPECIFICATION Spec
CONSTANTS
  NLP = 8
  MaxLen = 48
POSTCONDITION TraceComplete
CHECK_DEADLOCK FALSE
