SPECIFICATION Spec
CONSTANTS
  NLP = 3
  MaxLen = 5
  NPar = 1
  DoublePars = {{}}
  CompletePars = {{}}
  EmitLen = 0
  RandomOps = FALSE
  EmitRare = {}
INVARIANT InvCyclesComplete
INVARIANT InvExponentBalance
INVARIANT InvPartialKeyed
INVARIANT InvDoublesKeyed
INVARIANT InvNoDanglingDouble
INVARIANT InvRevMirrors
INVARIANT InvLenIsRaws
INVARIANT InvNoAssertFails
CHECK_DEADLOCK FALSE
