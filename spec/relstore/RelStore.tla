------------------------------- MODULE RelStore -------------------------------
(***************************************************************************)
(* C11 (M)+(G) - all histories of insertions into the relation store.      *)
(*                                                                         *)
(* One step = one call of RelationSet::add with any of the possible        *)
(* abstract relations: complete, single large prime p, double large prime  *)
(* (p, q) in either order including p = q, each with any parity vector of  *)
(* its small part (equal vectors make the "trivial relation" branch of     *)
(* combine_single reachable; repeating an operation is a duplicate).       *)
(* The history is part of the state, so TLC visits every history of length *)
(* <= MaxLen and checks the store invariants after each insertion.         *)
(* With EmitLen > 0 every history of exactly that length is printed as     *)
(* JSON for replay into the real RelationSet (G).                          *)
(***************************************************************************)
EXTENDS RelStoreOps, TLC, Json
CONSTANTS NPar,          \* parity vectors are the subsets of 1..NPar
          DoublePars,    \* parity vectors tried for double relations
          CompletePars,  \* ... for complete relations
          EmitLen,       \* 0 = do not print histories
          RandomOps,     \* TRUE: one random operation per step (generation of long histories with -simulate)
          EmitRare       \* histories of length EmitLen + 1 are printed too if their last insertion takes one of these branches
VARIABLES hist, st, allbr

Pars == SUBSET (1..NPar)
Ops == [k : {"c"}, p : {0}, q : {0}, par : CompletePars]
       \cup [k : {"s"}, p : LP, q : {0}, par : Pars]
       \cup [k : {"d"}, p : LP, q : LP, par : DoublePars]

Init == hist = <<>> /\ st = EmptyStore /\ allbr = {}
Next == /\ Len(hist) < MaxLen
        /\ \E op \in (IF RandomOps THEN {RandomElement(Ops)} ELSE Ops) :
                           /\ hist' = Append(hist, op)
                           /\ st' = StoreAdd(st, op, Len(hist) + 1)
                           /\ allbr' = allbr \cup st'.br
Spec == Init /\ [][Next]_<<hist, st, allbr>>

InvCyclesComplete   == CyclesComplete(st)
InvExponentBalance  == ExponentBalance(st, hist)
InvPartialKeyed     == PartialKeyed(st)
InvDoublesKeyed     == DoublesKeyed(st)
InvNoDanglingDouble == NoDanglingDouble(st)
InvRevMirrors       == RevMirrors(st)
InvLenIsRaws        == LenIsRaws(st)
InvNoAssertFails    == NoAssertFails(st)

\* (G) one line per history of length EmitLen, with what the model predicts after the last insertion
Emit == (EmitLen > 0 /\ (Len(hist) = EmitLen \/ (Len(hist) = EmitLen + 1 /\ st.br \cap EmitRare # {}))) =>
          PrintT(<<"HIST", ToJson([h |-> hist, nlp |-> NLP, br |-> allbr,
                                   cycles |-> Len(st.cycles), partial |-> Cardinality(DOMAIN st.partial),
                                   doubles |-> Cardinality(DOMAIN st.doubles)])>>)
=============================================================================
