SPECIFICATION Spec
CONSTANTS
  NLP = 3
  MaxLen = 4
  NPar = 1
  DoublePars = {{}}
  CompletePars = {{}}
  EmitLen = 4
  RandomOps = FALSE
  EmitRare = {}
INVARIANT InvCyclesComplete
INVARIANT InvExponentBalance
INVARIANT InvPartialKeyed
INVARIANT InvDoublesKeyed
INVARIANT InvNoDanglingDouble
INVARIANT InvRevMirrors
INVARIANT InvLenIsRaws
INVARIANT InvNoAssertFails
INVARIANT Emit
CHECK_DEADLOCK FALSE
