------------------------------ MODULE TryFactor ------------------------------
(***************************************************************************)
(* C11 (M) - the last link of final_step: try_factor(n, a, b) given        *)
(* a^2 == b^2 (mod n), a, b < n (they come out of ZmodN::to_int), not both *)
(* zero.  Transcription of the two gcd attempts with their assertions.     *)
(* Checked for every odd n in 3..MaxN (primes, prime powers, products of   *)
(* several primes) and every such pair: the result is None or a pair       *)
(* (p, q) with p*q = n, 1 < p < n, 1 < q < n, and no assertion fails.      *)
(* With a = b = 0 the first attempt computes gcd(n, 0) = n and the         *)
(* assertion p.bits() > 1 && q.bits() > 1 fails: reported by ZeroZero      *)
(* (reachable only if n divides the product of the x of the relations).    *)
(***************************************************************************)
EXTENDS Naturals, TLC
CONSTANTS MaxN
VARIABLE s

RECURSIVE GcdN(_, _)
GcdN(x, y) == IF y = 0 THEN x ELSE GcdN(y, x % y)

None == [some |-> FALSE, p |-> 0, q |-> 0, assert |-> FALSE]
Split(n, g) == [some |-> TRUE, p |-> g, q |-> n \div g,
                assert |-> ~(g * (n \div g) = n /\ g >= 2 /\ (n \div g) >= 2)]

TryFactorOp(n, a, b) ==
  LET g1 == GcdN(n, a + b)
      g2 == GcdN(n, n + a - b)
  IN IF a + b # n /\ g1 > 1 THEN Split(n, g1)
     ELSE IF a # b /\ g2 > 1 THEN Split(n, g2)
     ELSE None

Init == s \in {t \in [n : {m \in 3..MaxN : m % 2 = 1}, a : 0..(MaxN - 1), b : 0..(MaxN - 1)] :
                 t.a < t.n /\ t.b < t.n /\ (t.a * t.a) % t.n = (t.b * t.b) % t.n}
Next == FALSE /\ UNCHANGED s

ProperOnly == (s.a # 0 \/ s.b # 0) =>
                LET r == TryFactorOp(s.n, s.a, s.b) IN
                /\ ~r.assert
                /\ r.some => (r.p * r.q = s.n /\ r.p > 1 /\ r.p < s.n /\ r.q > 1 /\ r.q < s.n)
\* documents the excluded corner (expected to be violated)
ZeroZero == (s.a = 0 /\ s.b = 0) => ~TryFactorOp(s.n, s.a, s.b).assert
\* a non-trivial pair always splits n (why the final step works at all)
NonTrivialSplits == ((s.a # s.b /\ s.a + s.b # s.n) /\ (s.a # 0 \/ s.b # 0)) => TryFactorOp(s.n, s.a, s.b).some
=============================================================================
