----------------------------- MODULE PackShapes -----------------------------
(***************************************************************************)
(* C11 (I) - shapes of the relations pushed through pack / unpack by the   *)
(* driver (mode pack).  Two families: every header shape (x words,         *)
(* cofactor, cycle length) with one fixed factor, and every factor list of *)
(* length <= MaxF over the prime and exponent shapes with a mixed header.  *)
(* The harness turns a shape into numbers (seeded).                        *)
(***************************************************************************)
EXTENDS Naturals, Sequences, TLC, Json
CONSTANTS MaxF
VARIABLE s

XShapes == {"zero", "one", "max", "random", "mixed", "b7", "b14", "b63", "pow7", "pow7m1"}
CShapes == {"one", "b7", "b14", "b63", "max", "random", "pow7", "pow7m1"}
LShapes == {"one", "b7", "few"}
PShapes == {"neg", "two", "three", "small", "p16", "p24", "p31", "p32"}
KShapes == {"zero", "one", "two", "three", "b7lo", "b7", "b7hi", "b14", "big"}
\* an exponent 0 is only legal for the sign (pack asserts k > 0 for primes)
Factors == {f \in [p : PShapes, k : KShapes] : f.k = "zero" => f.p = "neg"}

Init == \/ s \in [x : XShapes, cof : CShapes, len : LShapes, fs : {<<[p |-> "three", k |-> "two"]>>}]
        \/ s \in [x : {"mixed"}, cof : {"random"}, len : {"few"}, fs : UNION {[1..n -> Factors] : n \in 0..MaxF}]
Next == UNCHANGED s
Emit == PrintT(<<"SHAPE", ToJson(s)>>)
=============================================================================
