INIT Init
NEXT Next
CONSTANT MaxN = 105
INVARIANT ProperOnly
INVARIANT NonTrivialSplits
CHECK_DEADLOCK FALSE
