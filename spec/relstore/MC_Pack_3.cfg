INIT Init
NEXT Next
CONSTANTS
  MaxF = 3
  LargeP = 1073741789
INVARIANT RoundTrip
INVARIANT Framing
CHECK_DEADLOCK FALSE
