---------------------------- MODULE RelStoreTrace ----------------------------
(***************************************************************************)
(* C11 (V) - what the real relation store, the packed encoding and the     *)
(* final step did, judged event by event.                                  *)
(*                                                                         *)
(* A relation is [x, cof, len, f] with f a sequence of [m, p, k]: m = TRUE *)
(* for the sign -1, p a BigNat, k the exponent (TLC integer).              *)
(*                                                                         *)
(* StrictC11 (= the property):                                             *)
(*   add       every relation published by this call of RelationSet::add   *)
(*             has cofactor 1 and x^2 == prod p^k (mod n); no panic        *)
(*   rel       the same for a relation published during a real sieve run   *)
(*   pack      unpack(pack(r)) has the same x, the same cofactor and the   *)
(*             same formal product (exponent of every prime, parity of the *)
(*             sign): it is the same congruence; no panic                  *)
(*   final_step  every returned d satisfies 1 < d < n and d | n; no panic  *)
(* Witness (inputs built by the harness, or read from the sieve, must be   *)
(* valid relations, otherwise nothing is known about the store):           *)
(*   add.raw, raw   x^2 == prod p^k * cofactor (mod n), cofactor as the    *)
(*             abstract operation says                                     *)
(* ModelC11 (drift only): sizes of cycles / partial / doubles after each   *)
(* insertion as RelStoreOps predicts, the model invariants on the abstract *)
(* state, cyclelen and exact factor list through pack/unpack.              *)
(***************************************************************************)
EXTENDS RelStoreOps, BigNat, TraceLib
VARIABLES l, st, hist

PowK(p, k, n) == IF k = 1 THEN Mod(p, n)
                 ELSE IF k = 2 THEN Mod(Mul(p, p), n)
                 ELSE PowMod(p, FromInt(k), n)

\* prod of p^k over the positive entries, modulo n
ProdMod(f, n) == FoldLeft(LAMBDA acc, t : IF t.m THEN acc ELSE Mod(Mul(acc, PowK(t.p, t.k, n)), n), Mod(One, n), f)
\* parity of the exponent of -1
NegOdd(f) == FoldLeft(LAMBDA acc, t : IF t.m /\ t.k % 2 = 1 THEN ~acc ELSE acc, FALSE, f)

\* x^2 == (-1)^s * prod p^k * cofactor (mod n)      -- Relation::verify as mathematics
Congruent(r, n) ==
  LET rhs == Mod(Mul(ProdMod(r.f, n), Mod(r.cof, n)), n)
      lhs == Mod(Mul(r.x, r.x), n)
  IN lhs = (IF NegOdd(r.f) /\ rhs # <<>> THEN Sub(n, rhs) ELSE rhs)

Published(r, n) == r.cof = One /\ Congruent(r, n)

\* formal product: exponent of prime p in the list / same multiset of prime powers
ExpOf(f, p) == FoldLeft(LAMBDA acc, t : IF ~t.m /\ t.p = p THEN acc + t.k ELSE acc, 0, f)
PrimesOf(f) == {f[i].p : i \in {j \in 1..Len(f) : ~f[j].m}}
SameCongruence(r, u) ==
  /\ u.x = r.x /\ u.cof = r.cof
  /\ NegOdd(u.f) = NegOdd(r.f)
  /\ \A p \in PrimesOf(r.f) \cup PrimesOf(u.f) : ExpOf(u.f, p) = ExpOf(r.f, p)

\* Canon of Pack.tla on real relations
CanonF(f) == LET kept == SelectSeq(f, LAMBDA t : ~(t.m /\ t.k % 2 = 0))
             IN [i \in 1..Len(kept) |-> IF kept[i].m THEN [kept[i] EXCEPT !.k = 1] ELSE kept[i]]

\* the byte string of Pack.tla on real numbers (drift only: binds the encoding model to the code)
LebBN(n) == LET RECURSIVE G(_)
                G(m) == IF m = <<>> THEN <<>> ELSE LET dm == DivModSmall(m, 128) IN Append(G(dm[1]), dm[2])
                g == IF n = <<>> THEN <<0>> ELSE G(n)
            IN [i \in 1..Len(g) |-> g[i] + (IF i > 1 THEN 128 ELSE 0)]
FacIntsBN(t) == IF t.m THEN (IF t.k % 2 = 0 THEN <<>> ELSE <<Zero>>)
                ELSE LET pp == IF t.p = <<2>> THEN One ELSE t.p IN
                     IF t.k > 1 THEN <<MulSmall(pp, 2), FromInt(t.k)>> ELSE <<pp>>
PackInts(r) == [i \in 1..8 |-> LowBits(Shr(r.x, 64 * (i - 1)), 64)] \o <<r.cof, FromInt(r.len)>>
               \o FlattenSeq([i \in 1..Len(r.f) |-> FacIntsBN(r.f[i])])
PackBytes(r) == LET ints == PackInts(r) IN FlattenSeq([i \in 1..Len(ints) |-> LebBN(ints[i])])

AOp(e) == [k |-> e.aop.k, p |-> e.aop.p, q |-> e.aop.q, par |-> ToSet(e.aop.par)]

\* the inserted relation is what the abstract operation says and is a valid relation
RawOK(e) ==
  LET a == e.aop
      c == e.raw.cof
  IN /\ Congruent(e.raw, e.n)
     /\ e.raw.len = 1
     /\ CASE a.k = "c" -> c = One
          [] a.k = "s" -> c = e.lps[a.p] /\ Lt(c, e.maxlarge)
          [] a.k = "d" -> c = Mul(e.lps[a.p], e.lps[a.q]) /\ Ge(c, e.maxlarge)
     /\ \A i \in 1..(Len(e.lps) - 1) : Lt(e.lps[i], e.lps[i + 1])    \* same order as the model's 1..NLP

Panicked(e) == Has(e, "outcome")

StrictOK(e) ==
  IF Panicked(e) THEN FALSE
  ELSE CASE e.op = "add" -> \A i \in 1..Len(e.pub) : Published(e.pub[i], e.n)
         [] e.op = "rel" -> Published(e.r, e.n)
         [] e.op = "pack" -> SameCongruence(e.r, e.u)
         [] e.op = "final_step" ->
              \A i \in 1..Len(e.divs) : Gt(e.divs[i], One) /\ Lt(e.divs[i], e.n) /\ Divides(e.divs[i], e.n)
         [] OTHER -> TRUE

WitnessOK(e) ==
  CASE e.op = "add" -> RawOK(e)
    [] e.op = "raw" -> Congruent(e.r, e.n)
    [] e.op \in {"reset", "skip", "rel", "pack", "final_step"} -> TRUE
    [] OTHER -> FALSE

ModelOK(e, s2, h2) ==
  IF Panicked(e) THEN TRUE
  ELSE CASE e.op = "add" ->
              /\ e.cycles = Len(s2.cycles) /\ Len(e.pub) = Len(s2.cycles) - Len(st.cycles)
              /\ e.partial = Cardinality(DOMAIN s2.partial)
              /\ e.doubles = Cardinality(DOMAIN s2.doubles) /\ e.rev = Cardinality(s2.rev)
              /\ \A i \in 1..Len(e.pub) : Len(s2.cycles) - Len(e.pub) + i >= 1 =>
                     e.pub[i].len = s2.cycles[Len(s2.cycles) - Len(e.pub) + i].len
              /\ CyclesComplete(s2) /\ ExponentBalance(s2, h2) /\ PartialKeyed(s2) /\ DoublesKeyed(s2)
              /\ NoDanglingDouble(s2) /\ RevMirrors(s2) /\ LenIsRaws(s2) /\ NoAssertFails(s2)
         [] e.op = "pack" -> e.u.len = e.r.len /\ e.u.f = CanonF(e.r.f) /\ e.blob = PackBytes(e.r)
         [] OTHER -> TRUE

Init == l = 1 /\ st = EmptyStore /\ hist = <<>>
Next ==
  /\ l <= NRec
  /\ l' = l + 1
  /\ LET e  == Rec[l]
         h2 == IF e.op = "reset" THEN <<>> ELSE IF e.op = "add" THEN Append(hist, AOp(e)) ELSE hist
         s2 == IF e.op = "reset" THEN EmptyStore
               ELSE IF e.op = "add" THEN StoreAdd(st, AOp(e), Len(hist) + 1) ELSE st
     IN /\ st' = s2 /\ hist' = h2
        /\ LET w == WitnessOK(e) IN
           /\ Witness(l, e.op, w)
           /\ Strict(l, e.op, w => StrictOK(e))      \* an invalid input says nothing about the store
        /\ Drift(l, e.op, ModelOK(e, s2, h2))
Spec == Init /\ [][Next]_<<l, st, hist>>
=============================================================================
