INIT Init
NEXT Next
CONSTANT MaxF = 2
INVARIANT Emit
CHECK_DEADLOCK FALSE
