INIT Init
NEXT Next
CONSTANT MaxN = 15
INVARIANT ZeroZero
CHECK_DEADLOCK FALSE
