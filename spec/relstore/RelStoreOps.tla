----------------------------- MODULE RelStoreOps -----------------------------
(***************************************************************************)
(* C11 - the relation store of src/relations.rs as pure operators.         *)
(*                                                                         *)
(* Large primes are 1..NLP (their numeric order is the BTreeMap order of   *)
(* the code).  An abstract relation forgets x and the small primes except  *)
(* for their parity vector:                                                *)
(*   cof  : LP -> Nat   exponent of each large prime in `cofactor`         *)
(*   lpe  : LP -> Nat   exponent of each large prime in the factor list    *)
(*                      (entries (cofactor, 2) pushed by `combine`)        *)
(*   raws : 1..MaxLen -> Nat  how many times inserted relation i is used   *)
(*   par  : parity vector of the small part (subset of 1..NPar, XOR)       *)
(*   len  : cyclelen                                                       *)
(*   bad  : an assertion of the code failed while building it              *)
(* The store is [cycles, partial, doubles, rev, err, npart, ndbl, nc12].   *)
(* Every operator is a transcription of the function of the same name.     *)
(***************************************************************************)
EXTENDS Naturals, Sequences, FiniteSets, SequencesExt
CONSTANTS NLP, MaxLen

LP == 1..NLP
Ids == 1..MaxLen
ZV == [x \in LP |-> 0]
UnitV(p) == [x \in LP |-> IF x = p THEN 1 ELSE 0]
VPlus(a, b) == [x \in LP |-> a[x] + b[x]]
VLeq(a, b) == \A x \in LP : a[x] <= b[x]
VSum(a) == LET RECURSIVE S(_) S(k) == IF k = 0 THEN 0 ELSE a[k] + S(k - 1) IN S(NLP)

\* cofactor exponent vector of an inserted (raw) relation
RawCof(op) == CASE op.k = "c" -> ZV
                [] op.k = "s" -> UnitV(op.p)
                [] op.k = "d" -> VPlus(UnitV(op.p), UnitV(op.q))

RawRel(op, id) == [cof |-> RawCof(op), lpe |-> ZV, raws |-> [i \in Ids |-> IF i = id THEN 1 ELSE 0],
                   par |-> op.par, len |-> 1, bad |-> FALSE]

(***************************************************************************)
(* combine(r1, r2): factor lists merged, the smaller cofactor c pushed as  *)
(* (c, 2), cofactor = quotient; asserts that one cofactor divides the      *)
(* other.  (c, 2) is later packed as one prime < 2^32: c must be a single  *)
(* large prime, otherwise `pack` asserts.                                  *)
(***************************************************************************)
Combine(r1, r2) ==
  LET div   == VLeq(r2.cof, r1.cof)              \* r1.cofactor % r2.cofactor == 0
      ok    == div \/ VLeq(r1.cof, r2.cof)
      small == IF div THEN r2.cof ELSE r1.cof
      big   == IF div THEN r1.cof ELSE r2.cof
  IN [cof  |-> [x \in LP |-> IF big[x] >= small[x] THEN big[x] - small[x] ELSE 0],
      lpe  |-> [x \in LP |-> r1.lpe[x] + r2.lpe[x] + 2 * small[x]],
      raws |-> [i \in Ids |-> r1.raws[i] + r2.raws[i]],
      par  |-> SymDiff(r1.par, r2.par),
      len  |-> r1.len + r2.len,
      bad  |-> r1.bad \/ r2.bad \/ ~ok \/ VSum(small) # 1]

\* br: names of the branches of the code taken by the last insertion (bookkeeping for coverage reports only)
EmptyStore == [cycles |-> <<>>, partial |-> <<>>, doubles |-> <<>>, rev |-> {}, err |-> {},
               npart |-> 0, ndbl |-> 0, nc12 |-> 0, br |-> {}]
Br(s, name) == [s EXCEPT !.br = @ \cup {name}]

Known(s, p) == p \in DOMAIN s.partial
SetPartial(s, p, r) == [s EXCEPT !.partial = [x \in (DOMAIN s.partial) \cup {p} |-> IF x = p THEN r ELSE s.partial[x]]]
SetDouble(s, key, r) ==
  [s EXCEPT !.doubles = [x \in (DOMAIN s.doubles) \cup {key} |-> IF x = key THEN r ELSE s.doubles[x]],
            !.rev = @ \cup {<<key[2], key[1]>>}]
DelDouble(s, key) ==
  [s EXCEPT !.doubles = [x \in (DOMAIN s.doubles) \ {key} |-> s.doubles[x]],
            !.rev = @ \ {<<key[2], key[1]>>}]
Fail(s, what) == [s EXCEPT !.err = @ \cup {what}]

\* add_cycle: assert_eq!(r.cofactor, 1); cycles.push(r)
AddCycle(s, r) == LET s1 == IF r.cof = ZV THEN s ELSE Fail(s, "add_cycle: cofactor") IN
                  [s1 EXCEPT !.cycles = Append(@, r)]

\* combine_single(r): r.cofactor = p
CombineSingle(s, r, p) ==
  IF Known(s, p) THEN
    LET r0 == s.partial[p]
        rr == Combine(r, r0)
    IN IF rr.par = {} THEN <<Br(s, "single_trivial"), FALSE>>   \* "ignoring trivial relation"
       ELSE LET s1 == AddCycle(Br(s, "single_cycle"), rr) IN
            <<IF r.len < r0.len THEN SetPartial(Br(s1, "single_replace"), p, r) ELSE s1, TRUE>>
  ELSE <<s, FALSE>>

RECURSIVE Walk(_, _), CombineDouble(_, _, _, _), WalkEach(_, _), TakePQ(_, _, _), TakeQP(_, _, _)

\* combine_double(r, p, q) -> <<store, combined?>>
CombineDouble(s, r, p, q) ==
  IF p = q THEN
    \* "a perfect square": cofactor := 1, (p, 2) pushed
    <<AddCycle(Br(s, "square"), [r EXCEPT !.cof = ZV, !.lpe = VPlus(@, [x \in LP |-> IF x = p THEN 2 ELSE 0])]), TRUE>>
  ELSE IF Known(s, p) /\ Known(s, q) THEN
    LET rp  == s.partial[p]
        rq  == s.partial[q]
        s1  == AddCycle(Br(s, "both_known"), Combine(Combine(r, rp), rq))
    IN IF rp.len + r.len < rq.len THEN
         LET rpq == Combine(r, rp) IN
         <<SetPartial(Br(IF rpq.cof = UnitV(q) THEN s1 ELSE Fail(s1, "replace q: cofactor"), "replace_q"), q, rpq), TRUE>>
       ELSE IF rq.len + r.len < rp.len THEN
         LET rqp == Combine(r, rq) IN
         <<SetPartial(Br(IF rqp.cof = UnitV(p) THEN s1 ELSE Fail(s1, "replace p: cofactor"), "replace_p"), p, rqp), TRUE>>
       ELSE <<s1, TRUE>>
  ELSE IF Known(s, p) THEN
    LET rq == Combine(r, s.partial[p])
        s1 == IF rq.cof = UnitV(q) THEN s ELSE Fail(s, "combine12 q: cofactor")
    IN <<Walk(SetPartial(Br([s1 EXCEPT !.nc12 = @ + 1], "p_known"), q, rq), q), TRUE>>
  ELSE IF Known(s, q) THEN
    LET rp == Combine(r, s.partial[q])
        s1 == IF rp.cof = UnitV(p) THEN s ELSE Fail(s, "combine12 p: cofactor")
    IN <<Walk(SetPartial(Br([s1 EXCEPT !.nc12 = @ + 1], "q_known"), p, rp), p), TRUE>>
  ELSE <<s, FALSE>>

\* first loop of walk_doubles: keys (root, q), ascending q
TakePQ(s, root, qs) ==
  IF qs = <<>> THEN s
  ELSE LET key == <<root, Head(qs)>> IN
       IF key \notin DOMAIN s.doubles THEN TakePQ(Br(s, "walk_gone"), root, Tail(qs))
       ELSE LET c == CombineDouble(Br(DelDouble(s, key), "walk_pq"), s.doubles[key], root, Head(qs)) IN
            TakePQ(IF c[2] THEN c[1] ELSE Fail(c[1], "walk: assert ok"), root, Tail(qs))

\* second loop: reverse keys (root, p) i.e. stored keys (p, root), ascending p
TakeQP(s, root, ps) ==
  IF ps = <<>> THEN s
  ELSE LET key == <<Head(ps), root>> IN
       IF key \notin DOMAIN s.doubles THEN TakeQP(Br(s, "walk_gone"), root, Tail(ps))
       ELSE LET c == CombineDouble(Br(DelDouble(s, key), "walk_qp"), s.doubles[key], Head(ps), root) IN
            TakeQP(IF c[2] THEN c[1] ELSE Fail(c[1], "walk: assert ok"), root, Tail(ps))

WalkEach(s, xs) == IF xs = <<>> THEN s ELSE WalkEach(Walk(s, Head(xs)), Tail(xs))

Walk(s, root) ==
  LET qs == SetToSortSeq({k[2] : k \in {kk \in DOMAIN s.doubles : kk[1] = root}}, LAMBDA a, b : a < b)
      ps == SetToSortSeq({k[2] : k \in {kk \in s.rev : kk[1] = root}}, LAMBDA a, b : a < b)
  IN IF qs = <<>> /\ ps = <<>> THEN s
     ELSE WalkEach(WalkEach(TakeQP(TakePQ(s, root, qs), root, ps), qs), ps)

\* RelationSet::add for the id-th inserted relation
StoreAdd(sp, op, id) ==
  LET r == RawRel(op, id)
      s == [sp EXCEPT !.br = {}]          \* br = branches taken by this call
  IN
  CASE op.k = "c" -> AddCycle(Br(s, "complete"), r)
    [] op.k = "s" ->
         LET s0 == [s EXCEPT !.npart = @ + 1]
             c  == CombineSingle(s0, r, op.p)
         IN IF c[2] THEN c[1] ELSE Walk(SetPartial(Br(c[1], "single_store"), op.p, r), op.p)
    [] op.k = "d" ->
         LET s0 == [s EXCEPT !.ndbl = @ + 1]
             c  == CombineDouble(s0, r, op.p, op.q)
         IN IF c[2] THEN c[1]
            ELSE LET key == IF op.p < op.q THEN <<op.p, op.q>> ELSE <<op.q, op.p>> IN
                 SetDouble(Br(s0, IF key \in DOMAIN s0.doubles THEN "double_overwrite" ELSE "double_store"), key, r)

(***************************************************************************)
(* Invariants (h = the history of inserted operations).                    *)
(***************************************************************************)
AllRels(s) == {s.cycles[i] : i \in DOMAIN s.cycles} \cup {s.partial[p] : p \in DOMAIN s.partial}
              \cup {s.doubles[k] : k \in DOMAIN s.doubles}

\* abstract form of Relation::verify: summed over the inserted relations it is made of, the exponent of
\* every large prime equals what the relation lists (even, as squares) plus what is left in the cofactor
Balanced(r, h) ==
  /\ \A i \in Ids : r.raws[i] > 0 => i <= Len(h)
  /\ \A x \in LP :
       LET RECURSIVE S(_)
           S(i) == IF i = 0 THEN 0 ELSE r.raws[i] * RawCof(h[i])[x] + S(i - 1)
       IN S(Len(h)) = r.lpe[x] + r.cof[x] /\ r.lpe[x] % 2 = 0
  /\ LET RECURSIVE P(_)
         P(i) == IF i = 0 THEN {} ELSE SymDiff(IF r.raws[i] % 2 = 1 THEN h[i].par ELSE {}, P(i - 1))
     IN P(Len(h)) = r.par

CyclesComplete(s)   == \A i \in DOMAIN s.cycles : s.cycles[i].cof = ZV
ExponentBalance(s, h) == \A r \in AllRels(s) : Balanced(r, h)
PartialKeyed(s)     == \A p \in DOMAIN s.partial : s.partial[p].cof = UnitV(p)
DoublesKeyed(s)     == \A k \in DOMAIN s.doubles : k[1] < k[2] /\ s.doubles[k].cof = VPlus(UnitV(k[1]), UnitV(k[2]))
NoDanglingDouble(s) == \A k \in DOMAIN s.doubles : ~Known(s, k[1]) /\ ~Known(s, k[2])
RevMirrors(s)       == s.rev = {<<k[2], k[1]>> : k \in DOMAIN s.doubles}
LenIsRaws(s)        == \A r \in AllRels(s) :
                         LET RECURSIVE S(_) S(i) == IF i = 0 THEN 0 ELSE r.raws[i] + S(i - 1) IN r.len = S(MaxLen)
NoAssertFails(s)    == s.err = {} /\ \A r \in AllRels(s) : ~r.bad
=============================================================================
