SPECIFICATION Spec
CONSTANTS
  NLP = 3
  MaxLen = 4
  NPar = 1
  DoublePars = {{}}
  CompletePars = {{}}
  EmitLen = 3
  RandomOps = FALSE
  EmitRare = {"replace_q", "replace_p", "walk_gone"}
INVARIANT InvCyclesComplete
INVARIANT InvExponentBalance
INVARIANT InvPartialKeyed
INVARIANT InvDoublesKeyed
INVARIANT InvNoDanglingDouble
INVARIANT InvRevMirrors
INVARIANT InvLenIsRaws
INVARIANT InvNoAssertFails
INVARIANT Emit
CHECK_DEADLOCK FALSE
