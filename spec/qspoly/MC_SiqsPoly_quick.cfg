SPECIFICATION Spec
CONSTANTS
  NSet = {10001, 12049, 10003, 10005, 10007, 10006}
  NegSet = {10007}
  PMax = 60
  M = 64
INVARIANTS TypeOK RootsExact Identity GrayBook TopBitConstant
CHECK_DEADLOCK FALSE
