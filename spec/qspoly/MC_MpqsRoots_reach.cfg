SPECIFICATION Spec
CONSTANTS
  NSet = {52024, 52009, 52081, 52066, 52051, 52099}
  PMax = 60
  DMax = 15
  M = 64
INVARIANTS SomeCompositeD
CHECK_DEADLOCK FALSE
