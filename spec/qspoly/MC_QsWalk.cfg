SPECIFICATION Spec
CONSTANTS
  NSet = {10001, 10009, 10003, 10011, 10005, 10013, 10007, 10015, 8633, 4087, 10006, 10012, 10004, 10008, 161, 1457}
  PMax = 60
  L = 40
  KMax = 17
INVARIANTS RootsExact CandidateIdentity
CHECK_DEADLOCK FALSE
