------------------------------- MODULE QsArith -------------------------------
(***************************************************************************)
(* Small modular arithmetic for factor-base primes (p < 2^24) that stays   *)
(* inside TLC's 31-bit integers, and reduction of BigNat / BigInt values   *)
(* modulo such primes.                                                     *)
(***************************************************************************)
EXTENDS BigInt

\* a * b mod p for 0 <= a, b < p < 2^24.  Below 2^15 the product fits; above, b is consumed in four
\* 6-bit pieces: every intermediate is < (2^24 - 1) * 127 < 2^31.
MulModP(a, b, p) ==
  IF p < 32768 THEN (a * b) % p
  ELSE LET b3 == b \div 262144
           b2 == (b \div 4096) % 64
           b1 == (b \div 64) % 64
           b0 == b % 64
           s3 == (a * b3) % p
           s2 == (s3 * 64 + a * b2) % p
           s1 == (s2 * 64 + a * b1) % p
       IN (s1 * 64 + a * b0) % p

\* BigNat mod p, p < 2^24 (digits are base 4096; above 2^18 each digit is pushed in two 6-bit halves)
Push6(acc, d, p) == (((acc * 64 + (d \div 64)) % p) * 64 + (d % 64)) % p
ModP(a, p) ==
  IF a = <<>> THEN 0
  ELSE IF p < 262144
  THEN FoldLeft(LAMBDA acc, i : (acc * 4096 + a[Len(a) + 1 - i]) % p, 0, Idx(Len(a)))
  ELSE FoldLeft(LAMBDA acc, i : Push6(acc, a[Len(a) + 1 - i], p), 0, Idx(Len(a)))

\* BigInt mod p in [0, p)
IModP(x, p) == LET m == ModP(x.mag, p) IN IF x.neg /\ m # 0 THEN p - m ELSE m

\* b^e mod p, e a TLC integer >= 0
RECURSIVE PowModP(_, _, _)
PowModP(b, e, p) ==
  IF e = 0 THEN 1 % p
  ELSE LET h == PowModP(b, e \div 2, p)
           s == MulModP(h, h, p)
       IN IF e % 2 = 1 THEN MulModP(s, b % p, p) ELSE s

\* trial division by odd numbers up to the square root; n < 2^31
RECURSIVE NoOddDivisorFrom(_, _)
NoOddDivisorFrom(n, d) == d > n \div d \/ (n % d # 0 /\ NoOddDivisorFrom(n, d + 2))
IsPrimeInt(n) == n >= 2 /\ (n < 4 \/ (n % 2 # 0 /\ NoOddDivisorFrom(n, 3)))

\* Euler's criterion: for an odd prime q and 0 < a < q, a is a square modulo q iff a^((q-1)/2) = 1.
IsResidue(a, q) == q = 2 \/ a = 0 \/ PowModP(a, (q - 1) \div 2, q) = 1

\* (A x + B) x + C mod p with reduced coefficients
EvalQ(am, bm, cm, x, p) == (MulModP((MulModP(am, x, p) + bm) % p, x, p) + cm) % p
=============================================================================
