----------------------------- MODULE QsPolyTrace -----------------------------
(***************************************************************************)
(* C12 - trace specification.  Each line was recorded from the real code:  *)
(* a factor base, a SIQS / class group polynomial of a Gray code family    *)
(* with its root tables, an MPQS polynomial, or the classical QS root      *)
(* tables.  StrictC12 = the definitions of module QsRoots hold.  A call    *)
(* that panicked is not an action of the specification.                    *)
(***************************************************************************)
EXTENDS QsRoots, TraceLib
VARIABLE l

Ok(e) ==
  CASE e.op = "fbase"     -> FBaseOK12(e)
    [] e.op = "siqs_poly" -> SiqsPolyOK(e)
    [] e.op = "mpqs_poly" -> MpqsPolyOK(e)
    [] e.op = "qs_roots"  -> QsRootsOK(e)
    [] e.op = "note"      -> TRUE
    [] OTHER -> FALSE

Accept(e) == IF Has(e, "outcome") THEN FALSE ELSE Ok(e)

Init == l = 1
Next == l <= NRec /\ l' = l + 1 /\ Strict(l, Rec[l].op, Accept(Rec[l]))
Spec == Init /\ [][Next]_l
=============================================================================
