-------------------------------- MODULE QsWalk --------------------------------
(***************************************************************************)
(* C12 (M) - root tables of the classical quadratic sieve (qsieve.rs):     *)
(* prepare_prime_fwd / prepare_prime_bck for the polynomials               *)
(*    forward   P_k(x) = (R + m (k L + x))^2 - N                           *)
(*    backward  Q_k(x) = (R - m (k L + x + 1))^2 - N                       *)
(* (m = 2, R odd when N = 1 mod 8: only odd numbers are sieved; else m = 1,*)
(* R = isqrt(N)), and the shift applied to all roots when the sieve moves  *)
(* to the next large block of L positions (next_lgblock, wrapping u32      *)
(* arithmetic).  One behaviour = one N walked over KMax large blocks.      *)
(* Invariant at every large block: for every odd factor-base prime the     *)
(* entry is exactly the root set (brute force), for p = 2 it contains it.  *)
(***************************************************************************)
EXTENDS Naturals, Integers, TLC

CONSTANTS NSet, PMax, L, KMax
VARIABLES n, k, f1, f2, b1, b2
vars == <<n, k, f1, f2, b1, b2>>

W == 1048576                                   \* scaled machine word (u32 in the code)
Mod(x, p) == ((x % p) + p) % p
IsPrime(p) == p >= 2 /\ \A d \in 2..(p - 1) : d * d > p \/ p % d # 0
Isqrt(x) == CHOOSE r \in 0..x : r * r <= x /\ (r + 1) * (r + 1) > x
HasRoot(nn, p) == \E r \in 0..(p - 1) : (r * r) % p = nn % p
FB(nn) == {p \in 2..(PMax - 1) : IsPrime(p) /\ HasRoot(nn, p)}
SqrtOf(nn, p) == CHOOSE r \in 0..(p - 1) : (r * r) % p = nn % p

OnlyOdds(nn) == nn % 8 = 1
R(nn) == LET s == Isqrt(nn) IN IF OnlyOdds(nn) THEN s + (1 - (s % 2)) ELSE s
Mult(nn) == IF OnlyOdds(nn) THEN 2 ELSE 1

RECURSIVE Reduce(_, _)
Reduce(s, p) == IF s >= p THEN Reduce(s - p, p) ELSE s      \* while s >= p { s -= p }

Halve(nn, s, p) == IF ~OnlyOdds(nn) THEN s ELSE IF s % 2 = 0 THEN s \div 2 ELSE (s + p) \div 2

Fwd(nn, p) ==
  LET r == SqrtOf(nn, p)
      base == R(nn) % p
      s1 == 2 * p + r - base
      s2 == 2 * p - r - base
  IN IF OnlyOdds(nn) /\ p = 2 THEN <<0, 1>>
     ELSE IF OnlyOdds(nn) /\ s1 % 2 # 0
          THEN <<Reduce((s1 + p) \div 2, p), Reduce((s2 + p) \div 2, p)>>     \* same parity test for both
          ELSE IF OnlyOdds(nn) THEN <<Reduce(s1 \div 2, p), Reduce(s2 \div 2, p)>>
          ELSE <<Reduce(s1, p), Reduce(s2, p)>>

Bck(nn, p) ==
  LET r == SqrtOf(nn, p)
      base == R(nn) % p
      s1 == 2 * p + base - r
      s2 == 2 * p + base + r
      h1 == IF ~OnlyOdds(nn) THEN s1 ELSE IF s1 % 2 = 0 THEN s1 \div 2 ELSE (s1 + p) \div 2
      h2 == IF ~OnlyOdds(nn) THEN s2 ELSE IF s1 % 2 = 0 THEN s2 \div 2 ELSE (s2 + p) \div 2
  IN IF OnlyOdds(nn) /\ p = 2 THEN <<0, 1>>
     ELSE <<Reduce(h1 + p - 1, p), Reduce(h2 + p - 1, p)>>

Init ==
  /\ n \in NSet
  /\ k = 0
  /\ f1 = [p \in FB(n) |-> Fwd(n, p)[1]] /\ f2 = [p \in FB(n) |-> Fwd(n, p)[2]]
  /\ b1 = [p \in FB(n) |-> Bck(n, p)[1]] /\ b2 = [p \in FB(n) |-> Bck(n, p)[2]]

Min2(x, y) == IF x <= y THEN x ELSE y
WSub(x, y) == (x - y + W) % W
WAdd(x, y) == (x + y) % W
Shift(r, p) == LET o == L % p IN Min2(WSub(r, o), WAdd(WSub(r, o), p))

Next ==
  /\ k < KMax
  /\ k' = k + 1
  /\ f1' = [p \in FB(n) |-> Shift(f1[p], p)] /\ f2' = [p \in FB(n) |-> Shift(f2[p], p)]
  /\ b1' = [p \in FB(n) |-> Shift(b1[p], p)] /\ b2' = [p \in FB(n) |-> Shift(b2[p], p)]
  /\ UNCHANGED n

Spec == Init /\ [][Next]_vars

FwdVal(x) == LET t == R(n) + Mult(n) * (k * L + x) IN t * t - n
BckVal(x) == LET t == R(n) - Mult(n) * (k * L + x + 1) IN t * t - n
FwdSet(p) == {r \in 0..(p - 1) : Mod(FwdVal(r), p) = 0}
BckSet(p) == {r \in 0..(p - 1) : Mod(BckVal(r), p) = 0}

RootsExact ==
  \A p \in FB(n) :
    IF p = 2 THEN FwdSet(2) \subseteq {f1[2], f2[2]} /\ BckSet(2) \subseteq {b1[2], b2[2]}
    ELSE {f1[p], f2[p]} = FwdSet(p) /\ {b1[p], b2[p]} = BckSet(p)

\* the candidate is evaluated as x^2 + 2 x R + (R^2 - N) with x = m * position (forward) or
\* -(m * (position + 1)) (backward): the same value as the polynomials above
CandidateIdentity ==
  \A i \in 0..3 :
    LET xf == Mult(n) * (k * L + i)
        xb == 0 - Mult(n) * (k * L + i + 1)
        c0 == R(n) * R(n) - n
    IN xf * xf + 2 * xf * R(n) + c0 = FwdVal(i) /\ xb * xb + 2 * xb * R(n) + c0 = BckVal(i)
=============================================================================
