SPECIFICATION Spec
CONSTANTS
  NSet = {52024, 52009, 52081, 52066, 52051, 52099, 52036, 52021, 52069, 52006, 52039, 52111, 60013, 70001, 80021, 65539}
  PMax = 60
  DMax = 15
  M = 64
INVARIANTS Identity RootsExact
CHECK_DEADLOCK FALSE
