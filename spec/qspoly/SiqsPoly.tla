------------------------------- MODULE SiqsPoly -------------------------------
(***************************************************************************)
(* C12 (M) - the self-initialising polynomial walk of siqs.rs, scaled to   *)
(* small numbers: prepare_a (CRT square roots of N modulo A, parity rule,  *)
(* per-prime deltas and initial root), Poly::first, Poly::next (Gray code  *)
(* flip with the incremental, wrapping root update) and _finish_polynomial *)
(* (C from B, single root for divisors of A, repair of p = 2).             *)
(*                                                                         *)
(* One behaviour = one family: N, the factors of A and the choice of       *)
(* square roots are picked in the initial state, then the walk visits      *)
(* every index 0 .. 2^(k-1) - 1.  The root tables are updated              *)
(* incrementally, exactly as the code does, so an error made at one index  *)
(* is carried to all later ones.  Invariants at EVERY index:               *)
(*   RootsExact : for every odd factor-base prime {r1[p], r2[p]} is the    *)
(*                set of residues r with P(off + r) = 0 mod p (computed by *)
(*                brute force), for p = 2 it contains that set;            *)
(*   Identity   : B > 0, B^2 - A C = N (type 1) resp. B odd and            *)
(*                B^2 - 4 A C = N (type 2, N = 1 mod 4);                   *)
(*   GrayBook   : B is the sum of the CRT roots selected by the Gray code  *)
(*                of the index.                                            *)
(* Everything is a TLC integer: A is bounded so that B^2 < 2^31.           *)
(***************************************************************************)
EXTENDS Naturals, Integers, Sequences, FiniteSets, TLC

CONSTANTS NSet,      \* positive values of N (not squares)
          NegSet,    \* |N| for negative N (class group discriminants)
          PMax,      \* factor base = admissible primes below PMax
          M          \* interval size (even); positions 0..M-1 stand for x = -M/2 + position

VARIABLES n, sg, fac, idx, b, r1, r2

vars == <<n, sg, fac, idx, b, r1, r2>>

W == 1048576       \* scaled machine word for the wrapping arithmetic of Poly::next (u32 in the code)

Mod(x, p) == ((x % p) + p) % p
IsPrime(p) == p >= 2 /\ \A d \in 2..(p - 1) : d * d > p \/ p % d # 0
Abs(x) == IF x < 0 THEN 0 - x ELSE x

RECURSIVE SeqSum(_), SeqProd(_)
SeqSum(s) == IF s = <<>> THEN 0 ELSE Head(s) + SeqSum(Tail(s))
SeqProd(s) == IF s = <<>> THEN 1 ELSE Head(s) * SeqProd(Tail(s))

\* sorted sequence of a finite set of integers
RECURSIVE SortedSeq(_)
SortedSeq(S) == IF S = {} THEN <<>>
                ELSE LET m == CHOOSE x \in S : \A y \in S : x <= y IN <<m>> \o SortedSeq(S \ {m})

\* bit operations on small naturals
RECURSIVE Xor(_, _)
Xor(x, y) == IF x = 0 /\ y = 0 THEN 0 ELSE ((x + y) % 2) + 2 * Xor(x \div 2, y \div 2)
RECURSIVE Tz(_)
Tz(x) == IF x % 2 = 1 THEN 0 ELSE 1 + Tz(x \div 2)
RECURSIVE Pow2(_)
Pow2(k) == IF k = 0 THEN 1 ELSE 2 * Pow2(k - 1)
BitOf(x, k) == (x \div Pow2(k)) % 2
Gray(i) == Xor(i, i \div 2)

InvMod(x, p) == CHOOSE y \in 0..(p - 1) : (Mod(x, p) * y) % p = 1 % p

-----------------------------------------------------------------------------
(* factor base (fbase.rs): primes modulo which N is a square or zero, with one square root *)
HasRoot(nn, p) == \E r \in 0..(p - 1) : (r * r) % p = Mod(nn, p)
FB(nn) == {p \in 2..(PMax - 1) : IsPrime(p) /\ HasRoot(nn, p)}
\* which of the two roots sqrt_mod returns is not specified: sg = 0 takes the smaller, sg = 1 the larger
SqrtOf(nn, p, s) == LET lo == CHOOSE r \in 0..(p - 1) : (r * r) % p = Mod(nn, p) /\ \A t \in 0..(r - 1) : (t * t) % p # Mod(nn, p)
                    IN IF s = 0 THEN lo ELSE Mod(0 - lo, p)

Type2(nn) == Mod(nn, 4) = 1
StartOffset == 0 - (M \div 2)

-----------------------------------------------------------------------------
(* prepare_a, for the family (nn, s, f) where f = increasing sequence of the prime factors of A *)
AVal(f) == SeqProd(f)
K(f) == Len(f)
POverPi(f, i) == AVal(f) \div f[i]
PInv(f, i) == InvMod(POverPi(f, i), f[i])
A2A(nn, f) == IF Type2(nn) THEN 2 * AVal(f) ELSE AVal(f)
\* inverse of A (type 1) or 2A (type 2) modulo p, 1 when it does not exist
AInv(nn, f, p) == IF A2A(nn, f) % p = 0 THEN 1 ELSE InvMod(A2A(nn, f), p)
FactorsIdx(nn, f) == {p \in FB(nn) : p # 2 /\ A2A(nn, f) % p = 0}
Rp(nn, s, f, p) == (AInv(nn, f, p) * SqrtOf(nn, p, s)) % p
\* the two CRT lifts of +-sqrt(N) mod f[i], ordered and with the parity rule (odd for i = 1, even after)
RootPair(nn, s, f, i) ==
  LET k  == (SqrtOf(nn, f[i], s) * PInv(f, i)) % f[i]
      rr == k * POverPi(f, i)
      parity == (rr % 2 = 1) # (i = 1)
  IN IF parity THEN <<AVal(f) - rr, AVal(f) + rr>> ELSE <<rr, 2 * AVal(f) - rr>>
Root0(nn, s, f) == SeqSum([i \in 1..K(f) |-> RootPair(nn, s, f, i)[1]])
\* -(r1 - r0)/A mod p
Delta(nn, s, f, i, p) ==
  LET d == RootPair(nn, s, f, i)[2] - RootPair(nn, s, f, i)[1]
      doa == ((d % p) * AInv(nn, f, p)) % p
  IN IF doa = 0 THEN 0 ELSE p - doa
Root0ModP(nn, s, f, p) ==
  LET r0oa == ((Root0(nn, s, f) % p) * AInv(nn, f, p)) % p
  IN Mod(0 - r0oa - Rp(nn, s, f, p) - StartOffset, p)

-----------------------------------------------------------------------------
(* _finish_polynomial *)
CVal(nn, f, bb) == IF Type2(nn) THEN (bb * bb - nn) \div (4 * AVal(f)) ELSE (bb * bb - nn) \div AVal(f)

Finish(nn, f, bb, t1, t2) ==
  LET c == CVal(nn, f, bb)
      \* A and B are odd for type 2: if C is even both residues are roots modulo 2
      fix2 == Type2(nn) /\ 2 \in FB(nn) /\ c % 2 = 0
      SingleRoot(p) ==
        LET bp == bb % p
            cp0 == Abs(c) % p
            cp == IF c >= 0 THEN p - cp0 ELSE cp0
            mult == IF Type2(nn) THEN 1 ELSE 2
            binv == InvMod(mult * bp, p)
            r == (cp * binv) % p
            off == Mod(StartOffset, p)
        IN IF r >= off THEN r - off ELSE r + p - off
      u1 == [p \in FB(nn) |-> IF p = 2 /\ fix2 THEN 0
                              ELSE IF p \in FactorsIdx(nn, f) THEN SingleRoot(p) ELSE t1[p]]
      u2 == [p \in FB(nn) |-> IF p = 2 /\ fix2 THEN 1
                              ELSE IF p \in FactorsIdx(nn, f) THEN SingleRoot(p) ELSE t2[p]]
  IN <<u1, u2>>

-----------------------------------------------------------------------------
(* families explored *)
Families(nn) ==
  LET cand == {p \in FB(nn) : p # 2 /\ nn % p # 0}          \* never the first prime, never a divisor of N
  IN {S \in SUBSET cand : Cardinality(S) \in 2..4
                          /\ 2 * Cardinality(S) * SeqProd(SortedSeq(S)) <= 46340}

Init ==
  /\ n \in NSet \cup {0 - x : x \in NegSet}
  /\ sg \in {0, 1}
  /\ \E S \in Families(n) : fac = SortedSeq(S)
  /\ idx = 0
  /\ b = Root0(n, sg, fac)
  /\ LET t1 == [p \in FB(n) |-> Root0ModP(n, sg, fac, p)]
         \* second root: add 2 sqrt(N)/A, reduced by repeated subtraction
         t2 == [p \in FB(n) |-> (t1[p] + 2 * Rp(n, sg, fac, p)) % p]
         fin == Finish(n, fac, Root0(n, sg, fac), t1, t2)
     IN r1 = fin[1] /\ r2 = fin[2]

\* wrapping helpers: min(x, x -w p) after an addition, min(x, x +w p) after a subtraction
Min2(x, y) == IF x <= y THEN x ELSE y
WSub(x, y) == (x - y + W) % W
WAdd(x, y) == (x + y) % W

Next ==
  /\ idx + 1 < Pow2(K(fac) - 1)
  /\ LET g0  == Gray(idx)
         g1  == Gray(idx + 1)
         bit == Tz(Xor(g0, g1))                 \* 0-based index of the factor whose root is flipped
         up  == BitOf(g0, bit) = 0
         pr  == RootPair(n, sg, fac, bit + 1)
         nb  == IF up THEN b + pr[2] - pr[1] ELSE b + pr[1] - pr[2]
         Upd(r, p) == LET d == Delta(n, sg, fac, bit + 1, p)
                      IN IF up THEN Min2(r + d, WSub(r + d, p))
                         ELSE Min2(WSub(r, d), WAdd(WSub(r, d), p))
         t1 == [p \in FB(n) |-> Upd(r1[p], p)]
         t2 == [p \in FB(n) |-> Upd(r2[p], p)]
         fin == Finish(n, fac, nb, t1, t2)
     IN /\ idx' = idx + 1
        /\ b' = nb
        /\ r1' = fin[1] /\ r2' = fin[2]
  /\ UNCHANGED <<n, sg, fac>>

Spec == Init /\ [][Next]_vars

-----------------------------------------------------------------------------
(* invariants *)
AA == AVal(fac)
CC == CVal(n, fac, b)
PolyAt(x) == IF Type2(n) THEN AA * x * x + b * x + CC ELSE AA * x * x + 2 * b * x + CC
RootSet(p) == {r \in 0..(p - 1) : Mod(PolyAt(StartOffset + r), p) = 0}

RootsExact ==
  \A p \in FB(n) :
    IF p = 2 THEN RootSet(2) \subseteq {r1[2], r2[2]}
    ELSE {r1[p], r2[p]} = RootSet(p)

Identity ==
  /\ b > 0
  /\ IF Type2(n) THEN b % 2 = 1 /\ (b * b - n) % (4 * AA) = 0 /\ b * b - 4 * AA * CC = n
     ELSE (b * b - n) % AA = 0 /\ b * b - AA * CC = n

GrayBook ==
  b = SeqSum([i \in 1..K(fac) |-> RootPair(n, sg, fac, i)[1 + BitOf(Gray(idx), i - 1)]])

\* the highest factor is never flipped: only half of the 2^k sign choices are visited (B and -B give
\* the same polynomial up to x -> -x)
TopBitConstant == BitOf(Gray(idx), K(fac) - 1) = 0

TypeOK == idx \in 0..(Pow2(K(fac) - 1) - 1)
=============================================================================
