------------------------------- MODULE MpqsRoots -------------------------------
(***************************************************************************)
(* C12 (M) - MPQS polynomials (mpqs.rs): make_poly (Hensel lift of a       *)
(* square root of N modulo D to D^2, parity adjustment, C) and             *)
(* Poly::prepare_prime (roots from 1/D mod p, the p | D branch), scaled to *)
(* small numbers.  Every (N, D) with D = 3 mod 4, N a square modulo D and  *)
(* D^4 < N is an initial state; the invariants are the defining identity   *)
(* and, for every factor-base prime, that the computed entry is exactly    *)
(* the root set of A x^2 + B x + C at the start offset (brute force).      *)
(* D ranges over primes AND composite numbers passing the same test.       *)
(***************************************************************************)
EXTENDS Naturals, Integers, TLC

CONSTANTS NSet, PMax, DMax, M
VARIABLES n, d
vars == <<n, d>>

Mod(x, p) == ((x % p) + p) % p
IsPrime(p) == p >= 2 /\ \A q \in 2..(p - 1) : q * q > p \/ p % q # 0
HasRoot(nn, p) == \E r \in 0..(p - 1) : (r * r) % p = nn % p
FB(nn) == {p \in 2..(PMax - 1) : IsPrime(p) /\ HasRoot(nn, p)}
SqrtOf(nn, p) == CHOOSE r \in 0..(p - 1) : (r * r) % p = nn % p
InvMod(x, p) == CHOOSE y \in 0..(p - 1) : (Mod(x, p) * y) % p = 1 % p
Abs(x) == IF x < 0 THEN 0 - x ELSE x
Gcd1(x, y) == \A g \in 2..x : x % g # 0 \/ y % g # 0

\* sieve_for_polys keeps D = 3 mod 4, coprime to N, with a square root r of N modulo D (r = N^((D+1)/4)
\* when D is prime; a composite D is kept when that power happens to be a square root)
DOk(nn, dd) == dd % 4 = 3 /\ Gcd1(dd, nn) /\ (\E r \in 0..(dd - 1) : (r * r) % dd = nn % dd /\ Gcd1(dd, 2 * r))
               /\ dd * dd * dd * dd < nn

\* make_poly: returns <<A, B (coefficient of x), C, BB>>
MakePoly(nn, dd) ==
  LET h1 == CHOOSE r \in 0..(dd - 1) : (r * r) % dd = nn % dd /\ Gcd1(dd, 2 * r)
      c  == ((nn - h1 * h1) \div dd) % dd
      h2 == (c * InvMod(2 * h1, dd)) % dd
      b0 == h1 + h2 * dd
  IN IF nn % 4 = 1
     THEN LET bq == IF b0 % 2 = 0 THEN dd * dd - b0 ELSE b0
          IN <<dd * dd, bq, (bq * bq - nn) \div (4 * dd * dd), (nn + bq) \div 2>>
     ELSE LET bq == IF b0 % 2 = 1 THEN dd * dd - b0 ELSE b0
          IN <<dd * dd, 2 * bq, (bq * bq - nn) \div (dd * dd), bq>>

Off(p) == Mod(0 - (M \div 2), p)
ShiftR(r, p) == IF r < Off(p) THEN r + p - Off(p) ELSE r - Off(p)

PreparePrime(nn, dd, p) ==
  LET pol == MakePoly(nn, dd)
      r == SqrtOf(nn, p)
      dinv == IF dd % p = 0 THEN 0 ELSE InvMod(dd, p)
  IN IF p = 2 THEN <<0, 1>>
     ELSE IF dinv = 0
     THEN LET bm == pol[2] % p
              cm == Abs(pol[3]) % p
              x == ShiftR((cm * InvMod(bm, p)) % p, p)
          IN <<x, x>>
     ELSE LET d2inv == (dinv * dinv) % p
              odd == pol[2] % 2 = 1
              ainv == IF odd THEN (IF d2inv % 2 = 0 THEN d2inv \div 2 ELSE (d2inv + p) \div 2) ELSE d2inv
              bm == IF odd THEN pol[2] % p ELSE pol[4] % p
          IN <<ShiftR(((p + r - bm) * ainv) % p, p), ShiftR(((2 * p - r - bm) * ainv) % p, p)>>

Init == n \in NSet /\ d \in {x \in 3..DMax : DOk(n, x)}
Next == FALSE /\ UNCHANGED vars
Spec == Init /\ [][Next]_vars

PolyAt(x) == LET pol == MakePoly(n, d) IN pol[1] * x * x + pol[2] * x + pol[3]
RootSet(p) == {r \in 0..(p - 1) : Mod(PolyAt(r - (M \div 2)), p) = 0}

Identity ==
  LET pol == MakePoly(n, d)
      disc == pol[2] * pol[2] - 4 * pol[1] * pol[3]
  IN /\ pol[1] = d * d
     /\ IF pol[2] % 2 = 1 THEN disc = n /\ 2 * pol[4] = n + pol[2] ELSE disc = 4 * n /\ 2 * pol[4] = pol[2]
     /\ pol[3] < 0
     \* (A x + BB)^2 == D^2 P(x) (mod N): the relation the sieve records
     /\ \A x \in {0 - 3, 0, 1, 5} : Mod((pol[1] * x + pol[4]) * (pol[1] * x + pol[4]) - d * d * PolyAt(x), n) = 0

RootsExact ==
  \A p \in FB(n) :
    LET e == PreparePrime(n, d, p)
    IN IF p = 2 THEN RootSet(2) \subseteq {e[1], e[2]} ELSE {e[1], e[2]} = RootSet(p)

SomeCompositeD == ~(\E q \in 2..(d - 1) : d % q = 0)      \* reachability: violated iff a composite D is explored
=============================================================================
