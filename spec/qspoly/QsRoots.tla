------------------------------- MODULE QsRoots -------------------------------
(***************************************************************************)
(* C12 - what a sieving polynomial and its root tables are, for the three  *)
(* quadratic sieves of yamaquasi (and the class group sieve, which reuses  *)
(* the SIQS polynomials with a negative N).                                *)
(*                                                                         *)
(* SIQS type 1:  P(x) = A x^2 + 2 B x + C,  B^2 - A C = N,                 *)
(*               y = 2 A x + 2 B,  y^2 = 4 A P(x) + 4 N                    *)
(* SIQS type 2:  P(x) = A x^2 + B x + C,    B^2 - 4 A C = N  (N = 1 mod 4),*)
(*               y = 2 A x + B,    y^2 = 4 A P(x) + N                      *)
(*   in both cases y^2 == 4 A P(x) (mod N): the sieve halves y modulo N    *)
(*   and obtains (y/2)^2 == A P(x).                                        *)
(* MPQS:         P(x) = A x^2 + B x + C,  A = D^2,  B^2 - 4 A C = N (B odd)*)
(*               or 4 N (B even),  y = |A x + BB| / D mod N with           *)
(*               BB = (N + B)/2 resp. B/2:  y^2 == P(x) (mod N).           *)
(* classical QS: forward  P(x) = (R + m x)^2 - N,                          *)
(*               backward P(x) = (R - m (x + 1))^2 - N,                    *)
(*               m = 2 in the only-odd-numbers variant (R odd), else 1.    *)
(*                                                                         *)
(* Root tables.  The sieve looks at positions i >= 0 standing for          *)
(* x = off + i.  RootSet(P, p, off) = { r in 0..p-1 : P(off + r) == 0      *)
(* (mod p) }.  For an odd prime p the table entry (r1, r2) must satisfy    *)
(* {r1, r2} = RootSet.  This is decided WITHOUT enumerating residues:      *)
(* P mod p is a polynomial of degree <= 2 over the field Z/p, not          *)
(* identically zero for the polynomials above, so it has at most 2 roots;  *)
(* it has exactly one root when its degree drops to 1 (p | A) or when its  *)
(* discriminant (N or 4 N) vanishes modulo p (p | N).  Hence               *)
(*    r1, r2 < p,  P(off + r1) == P(off + r2) == 0,  and                   *)
(*    r1 = r2  =>  p | A  or  p | N                                        *)
(* imply {r1, r2} = RootSet: if r1 # r2 both roots are listed and there is *)
(* no third one; if r1 = r2 the polynomial has a single root.  (When       *)
(* p | A and p | N the entry may list the single root of the linear form   *)
(* twice; then r1 = r2 is forced.)  The factor base only holds primes      *)
(* modulo which N is a square or zero, so the root set is never empty.     *)
(* For p = 2 only inclusion is required: every r in {0, 1} with            *)
(* P(off + r) even is listed.                                              *)
(***************************************************************************)
EXTENDS QsArith

SeqAll(n, P(_)) == \A i \in 1..n : P(i)

\* position -> x modulo p, for the start offset off = -moff (moff >= 0)
XOf(r, moff, p) == ((r % p) + p - (moff % p)) % p

\* root table entry of a polynomial with reduced coefficients (am x + bm) x + cm, nm = N mod p
EntryOK(p, r1, r2, am, bm, cm, nm, moff) ==
  LET Root(r) == EvalQ(am, bm, cm, XOf(r, moff, p), p) = 0
  IN IF p = 2
     THEN \A r \in {0, 1} : Root(r) => (r = r1 \/ r = r2)
     ELSE /\ r1 < p /\ r2 < p
          /\ Root(r1) /\ Root(r2)
          /\ (r1 = r2 => (am = 0 \/ nm = 0))

-----------------------------------------------------------------------------
(* SIQS / class group polynomials.  e: n a b c (BigInt), kind, moff, ps r1 r2, xn xa ev *)
Lin(e) == IF e.kind = 1 THEN IMul(IFromInt(2), e.b) ELSE e.b         \* coefficient of x

SiqsIdentity(e) ==
  /\ e.kind \in {1, 2}
  /\ ~e.a.neg /\ e.a.mag # <<>>
  /\ IF e.kind = 1 THEN ISub(ISqr(e.b), IMul(e.a, e.c)) = e.n
     ELSE /\ ISub(ISqr(e.b), IMul(IFromInt(4), IMul(e.a, e.c))) = e.n
          /\ IsOdd(e.b.mag)

\* Poly::eval(x) = (v, y):  v = P(x) and y^2 == 4 A v (mod N)
SiqsEvalOK(e) ==
  SeqAll(Len(e.ev), LAMBDA j :
    LET x == IMk(e.xn[j], e.xa[j])
        v == IAdd(IMul(IAdd(IMul(e.a, x), Lin(e)), x), e.c)
    IN /\ e.ev[j].v = v
       /\ ICong(ISqr(e.ev[j].y), IMul(IFromInt(4), IMul(e.a, v)), e.n.mag))

SiqsRootsOK(e) ==
  LET lin == Lin(e)
  IN SeqAll(Len(e.ps), LAMBDA i :
       LET p == e.ps[i]
       IN EntryOK(p, e.r1[i], e.r2[i], IModP(e.a, p), IModP(lin, p), IModP(e.c, p), IModP(e.n, p), e.moff))

\* A is the product of the listed distinct factor-base primes
SiqsAOK(e) == e.a.mag = Prod([i \in 1..Len(e.afac) |-> FromInt(e.afac[i])])

SiqsPolyOK(e) == SiqsIdentity(e) /\ SiqsAOK(e) /\ SiqsEvalOK(e) /\ SiqsRootsOK(e)

-----------------------------------------------------------------------------
(* MPQS.  e: n a b bb d dinv (BigNat), c (BigInt), moff, ps r1 r2 dp, xn xa ev *)
MpqsIdentity(e) ==
  LET ia == IFromNat(e.a)
      ib == IFromNat(e.b)
      disc == ISub(ISqr(ib), IMul(IFromInt(4), IMul(ia, e.c)))
  IN /\ e.a = Sqr(e.d)
     /\ IF IsOdd(e.b) THEN disc = IFromNat(e.n) /\ MulSmall(e.bb, 2) = Add(e.n, e.b)
        ELSE disc = IFromNat(MulSmall(e.n, 4)) /\ MulSmall(e.bb, 2) = e.b
     /\ Mod(Mul(e.dinv, e.d), e.n) = One

\* Poly::eval(x) = (v, y):  v = P(x) and y^2 == v (mod N)   (y = |A x + BB| / D)
MpqsEvalOK(e) ==
  SeqAll(Len(e.ev), LAMBDA j :
    LET x == IMk(e.xn[j], e.xa[j])
        v == IAdd(IMul(IAdd(IMul(IFromNat(e.a), x), IFromNat(e.b)), x), e.c)
    IN /\ e.ev[j].v = v
       /\ ICong(IFromNat(Sqr(e.ev[j].y)), v, e.n))

MpqsRootsOK(e) ==
  SeqAll(Len(e.ps), LAMBDA i :
    LET p == e.ps[i]
        dm == ModP(e.d, p)
    IN /\ EntryOK(p, e.r1[i], e.r2[i], ModP(e.a, p), ModP(e.b, p), IModP(e.c, p), ModP(e.n, p), e.moff)
       \* batch inversion: 1/D mod p, or 0 when p divides D
       /\ IF e.dp[i] = 0 THEN dm = 0 ELSE p = 2 \/ (e.dp[i] < p /\ MulModP(e.dp[i], dm, p) = 1))

MpqsPolyOK(e) == MpqsIdentity(e) /\ MpqsEvalOK(e) /\ MpqsRootsOK(e)

-----------------------------------------------------------------------------
(* classical QS.  e: n (BigNat), nsqrt c0 (BigInt), odds, ps f1 f2 b1 b2 *)
QsEntryOK(p, r1, r2, rm, nm, m, back) ==
  LET T(r) == IF back THEN (rm + m * (p - ((r + 1) % p))) % p ELSE (rm + m * (r % p)) % p
      Root(r) == (MulModP(T(r), T(r), p) + p - nm) % p = 0
  IN IF p = 2
     THEN \A r \in {0, 1} : Root(r) => (r = r1 \/ r = r2)
     ELSE /\ r1 < p /\ r2 < p /\ Root(r1) /\ Root(r2)
          /\ (r1 = r2 => nm = 0)

QsRootsOK(e) ==
  LET m == IF e.odds THEN 2 ELSE 1
  IN /\ ~e.nsqrt.neg
     /\ e.c0 = ISub(ISqr(e.nsqrt), IFromNat(e.n))             \* (R + x)^2 - N = x^2 + 2 R x + c0
     /\ (e.odds => IsOdd(e.nsqrt.mag))                        \* R + 2x runs over odd numbers only
     /\ SeqAll(Len(e.ps), LAMBDA i :
          LET p == e.ps[i]
              rm == ModP(e.nsqrt.mag, p)
              nm == ModP(e.n, p)
          IN /\ QsEntryOK(p, e.f1[i], e.f2[i], rm, nm, m, FALSE)
             /\ QsEntryOK(p, e.b1[i], e.b2[i], rm, nm, m, TRUE))

-----------------------------------------------------------------------------
(* factor base.  e: n (BigInt), ps rs, complete *)
FBaseRootsOK(e) ==
  /\ Len(e.ps) = Len(e.rs) /\ Len(e.ps) > 0
  /\ SeqAll(Len(e.ps), LAMBDA i :
       LET p == e.ps[i]
           r == e.rs[i]
       IN /\ p >= 2 /\ p < 16777216 /\ r < p
          /\ (i > 1 => e.ps[i - 1] < p)
          /\ MulModP(r, r, p) = IModP(e.n, p))                \* r^2 == N (mod p)

\* every stored number is prime, and no prime below the bound modulo which N is a square (or zero)
\* is missing (Euler's criterion)
FBaseCompleteOK(e) ==
  LET bound == e.ps[Len(e.ps)]
      S == {e.ps[i] : i \in 1..Len(e.ps)}
  IN /\ \A p \in S : IsPrimeInt(p)
     /\ \A q \in 2..bound : (IsPrimeInt(q) /\ IsResidue(IModP(e.n, q), q)) => q \in S

FBaseOK12(e) == FBaseRootsOK(e) /\ (e.complete => FBaseCompleteOK(e))
=============================================================================
