SPECIFICATION Spec
CONSTANTS
  NSet = {10001, 10009, 12049, 10003, 10011, 12035, 10005, 10013, 12053, 10007, 10015, 12007, 16379, 15017, 4999, 2021, 10006, 10012}
  NegSet = {10007, 10011, 12052}
  PMax = 60
  M = 64
INVARIANTS TypeOK RootsExact Identity GrayBook TopBitConstant
CHECK_DEADLOCK FALSE
