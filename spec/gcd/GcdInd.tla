-------------------------------- MODULE GcdInd --------------------------------
(***************************************************************************)
(* C09 - the algebra of the gcd_internal loop over UNBOUNDED integers.     *)
(*                                                                         *)
(* Gcd.tla is model-checked by TLC for scaled word sizes and all operand   *)
(* pairs below 2^MAXB.  This module RESTATES its actions with every number *)
(* a symbolic integer and with every size-dependent guard removed (bit     *)
(* lengths, Small, Slow, the thresholds of reduce64, the choice of the     *)
(* quotient): any step may be taken at any time with ANY quotient q, so    *)
(* the behaviours of Gcd.tla are a subset of the behaviours here (checked  *)
(* by TLC on the scaled model: MC_GcdInd.tla, property StepsMatch).        *)
(* The recursion of reduce64 (Red in Gcd.tla) is cut into its iterations   *)
(* (RedBegin, RedSwap, RedSub, RedSubPlus) on the matrix ra rb / rc rd.    *)
(*                                                                         *)
(* Shown inductive (Apalache, integers unbounded):                         *)
(*    Lattice      x = A n0 + B p0  /\  y = C n0 + D p0                    *)
(*    Unimodular   |A D - B C| = 1                                         *)
(*    RedUnimod    |ra rd - rb rc| = 1 inside reduce64                     *)
(*    BezoutOK     at the end  u n0 + v p0 = g                             *)
(* including the sign bookkeeping of dot_product (|a x + b y| and the      *)
(* "sign inverted" flag) and the swap at the head of the loop.             *)
(* Not covered here: gcd(x, y) = gcd(n0, p0) (a consequence of Lattice and *)
(* Unimodular), overflow and termination (size-dependent: TLC, Gcd.tla).   *)
(***************************************************************************)
EXTENDS Integers

VARIABLES
  \* @type: Int;
  n0,
  \* @type: Int;
  p0,
  \* @type: Int;
  x,
  \* @type: Int;
  y,
  \* @type: Int;
  A,
  \* @type: Int;
  B,
  \* @type: Int;
  C,
  \* @type: Int;
  D,
  \* @type: Str;
  pc,
  \* @type: Int;
  g,
  \* @type: Int;
  u,
  \* @type: Int;
  v,
  \* @type: Int;
  ra,
  \* @type: Int;
  rb,
  \* @type: Int;
  rc,
  \* @type: Int;
  rd

vars == <<n0, p0, x, y, A, B, C, D, pc, g, u, v, ra, rb, rc, rd>>
\* @type: <<Int, Int, Int, Int>>;
red == <<ra, rb, rc, rd>>

\* @type: Int => Int;
Abs(a) == IF a < 0 THEN 0 - a ELSE a

\* state after the swap at the head of the loop (Gcd!S)
Sx == IF y >= x THEN y ELSE x
Sy == IF y >= x THEN x ELSE y
SA == IF y >= x THEN C ELSE A
SB == IF y >= x THEN D ELSE B
SC == IF y >= x THEN A ELSE C
SD == IF y >= x THEN B ELSE D

\* dot_product (Gcd!Dot without the overflow flag): |a xx + b yy| and "sign inverted"
\* @type: (Int, Int, Int, Int) => Int;
DotVal(a, xx, b, yy) ==
  LET ax == Abs(a) * xx
      by == Abs(b) * yy
  IN IF a * b < 0 THEN Abs(ax - by) ELSE ax + by
\* @type: (Int, Int, Int, Int) => Bool;
DotNeg(a, xx, b, yy) ==
  LET ax == Abs(a) * xx
      by == Abs(b) * yy
  IN IF a * b < 0 THEN (ax > by /\ a < 0) \/ (ax < by /\ b < 0) ELSE a < 0 \/ b < 0

Init ==
  /\ n0 \in Int /\ p0 \in Int
  /\ x = n0 /\ y = p0 /\ A = 1 /\ B = 0 /\ C = 0 /\ D = 1
  /\ pc = "loop" /\ g = 0 /\ u = 0 /\ v = 0
  /\ ra = 1 /\ rb = 0 /\ rc = 0 /\ rd = 1

\* @type: (Int, Int, Int) => Bool;
Fin(gg, uu, vv) ==
  /\ pc' = "done" /\ g' = gg /\ u' = uu /\ v' = vv
  /\ UNCHANGED <<n0, p0, x, y, A, B, C, D, ra, rb, rc, rd>>

\* one operand is zero (Gcd!Return; there "LX = 0" is Sx = 0)
Return ==
  /\ pc = "loop" /\ (Sx = 0 \/ Sy = 0)
  /\ IF Sx = 0 THEN Fin(Sy, SC, SD) ELSE Fin(Sx, SA, SB)

\* native extended gcd of the two words: ANY pair e2, e3 (Gcd!XG returns one with e1 = e2 Sx + e3 Sy)
\* @type: (Int, Int) => Bool;
Finish64With(e2, e3) ==
  /\ pc = "loop"
  /\ Fin(e2 * Sx + e3 * Sy, e2 * SA + e3 * SC, e2 * SB + e3 * SD)
Finish64 == \E e2, e3 \in Int : Finish64With(e2, e3)

\* @type: (Int, Int, Int, Int, Int, Int) => Bool;
Step(xx, yy, a, b, c, d) ==
  /\ x' = xx /\ y' = yy /\ A' = a /\ B' = b /\ C' = c /\ D' = d
  /\ UNCHANGED <<n0, p0, pc, g, u, v, ra, rb, rc, rd>>

\* multiprecision quotient, remainder r = Sx - q Sy  (Gcd!SlowStep "slow": q = Sx \div Sy)
\* @type: Int => Bool;
SlowWith(q) ==
  /\ pc = "loop"
  /\ Step(Sy, Sx - q * Sy, SC, SD, SA - q * SC, SB - q * SD)
\* rounded to nearest: y - r = (q + 1) Sy - Sx  (Gcd!SlowStep "slow+")
\* @type: Int => Bool;
SlowPlusWith(q) ==
  /\ pc = "loop"
  /\ Step(Sy, (q + 1) * Sy - Sx, SC, SD, (q + 1) * SC - SA, (q + 1) * SD - SB)
SlowStep == \E q \in Int : SlowWith(q) \/ SlowPlusWith(q)

\* reduce64, one iteration per action; the operands (top words) only drive the guards, which are dropped
RedBegin ==
  /\ pc = "loop" /\ pc' = "red"
  /\ ra' = 1 /\ rb' = 0 /\ rc' = 0 /\ rd' = 1
  /\ UNCHANGED <<n0, p0, x, y, A, B, C, D, g, u, v>>
\* @type: (Int, Int, Int, Int) => Bool;
RedTo(a, b, c, d) ==
  /\ pc = "red"
  /\ ra' = a /\ rb' = b /\ rc' = c /\ rd' = d
  /\ UNCHANGED <<n0, p0, x, y, A, B, C, D, pc, g, u, v>>
RedSwap == RedTo(rc, rd, ra, rb)                                          \* uu < vv
\* @type: Int => Bool;
RedSubWith(q) == RedTo(rc, rd, ra - q * rc, rb - q * rd)                  \* Red(c, d, a - q c, b - q d, ..)
\* @type: Int => Bool;
RedSubPlusWith(q) == RedTo(rc, rd, (q + 1) * rc - ra, (q + 1) * rd - rb)  \* Red(c, d, (q+1) c - a, (q+1) d - b, ..)
RedStep == RedSwap \/ \E q \in Int : RedSubWith(q) \/ RedSubPlusWith(q)

\* the matrix applied to the full numbers by dot_product, with its sign bookkeeping (Gcd!FastStep)
\* @type: (Int, Int, Int, Int) => Bool;
ApplyFast(a, b, c, d) ==
  LET s1 == IF DotNeg(a, Sx, b, Sy) THEN -1 ELSE 1
      s2 == IF DotNeg(c, Sx, d, Sy) THEN -1 ELSE 1
  IN /\ x' = DotVal(a, Sx, b, Sy) /\ y' = DotVal(c, Sx, d, Sy)
     /\ A' = s1 * (a * SA + b * SC) /\ B' = s1 * (a * SB + b * SD)
     /\ C' = s2 * (c * SA + d * SC) /\ D' = s2 * (c * SB + d * SD)
     /\ UNCHANGED <<n0, p0, g, u, v>>
FastApply ==
  /\ pc = "red" /\ pc' = "loop"
  /\ ApplyFast(ra, rb, rc, rd)
  /\ UNCHANGED red

Done == pc = "done" /\ UNCHANGED vars

Next == Return \/ Finish64 \/ SlowStep \/ RedBegin \/ RedStep \/ FastApply \/ Done
Spec == Init /\ [][Next]_vars

-----------------------------------------------------------------------------
Lattice == x = A * n0 + B * p0 /\ y = C * n0 + D * p0
Unimodular == Abs(A * D - B * C) = 1
RedUnimod == Abs(ra * rd - rb * rc) = 1
BezoutOK == pc = "done" => u * n0 + v * p0 = g
TypeOK == /\ pc \in {"loop", "red", "done"}
          /\ n0 \in Int /\ p0 \in Int /\ x \in Int /\ y \in Int /\ A \in Int /\ B \in Int /\ C \in Int /\ D \in Int
          /\ g \in Int /\ u \in Int /\ v \in Int /\ ra \in Int /\ rb \in Int /\ rc \in Int /\ rd \in Int

IndInv == TypeOK /\ Lattice /\ Unimodular /\ RedUnimod /\ BezoutOK

IndInit ==
  /\ n0 \in Int /\ p0 \in Int /\ x \in Int /\ y \in Int /\ A \in Int /\ B \in Int /\ C \in Int /\ D \in Int
  /\ g \in Int /\ u \in Int /\ v \in Int /\ ra \in Int /\ rb \in Int /\ rc \in Int /\ rd \in Int
  /\ pc \in {"loop", "red", "done"}
  /\ IndInv

-----------------------------------------------------------------------------
\* Deliberately broken variants (Apalache must give a counterexample)
\* cofactor update of the rounded step with the sign of the plain step
SlowPlusBad(q) == /\ pc = "loop"
                  /\ Step(Sy, (q + 1) * Sy - Sx, SC, SD, SA - (q + 1) * SC, SB - (q + 1) * SD)
\* dot_product sign flag without the b < 0 case
DotNegBad(a, xx, b, yy) ==
  LET ax == Abs(a) * xx
      by == Abs(b) * yy
  IN IF a * b < 0 THEN (ax > by /\ a < 0) ELSE a < 0 \/ b < 0
ApplyFastBad(a, b, c, d) ==
  LET s1 == IF DotNegBad(a, Sx, b, Sy) THEN -1 ELSE 1
      s2 == IF DotNegBad(c, Sx, d, Sy) THEN -1 ELSE 1
  IN /\ x' = DotVal(a, Sx, b, Sy) /\ y' = DotVal(c, Sx, d, Sy)
     /\ A' = s1 * (a * SA + b * SC) /\ B' = s1 * (a * SB + b * SD)
     /\ C' = s2 * (c * SA + d * SC) /\ D' = s2 * (c * SB + d * SD)
     /\ UNCHANGED <<n0, p0, g, u, v>>
NextBadSlow == \E q \in Int : SlowPlusBad(q)
NextBadDot == pc = "red" /\ pc' = "loop" /\ ApplyFastBad(ra, rb, rc, rd) /\ UNCHANGED red
=============================================================================
