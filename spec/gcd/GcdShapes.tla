------------------------------ MODULE GcdShapes ------------------------------
(***************************************************************************)
(* Input space of the C09 driver: instantiation (8 words = 512 bits, used  *)
(* by the modular ring with operands up to 500 bits; 16 words = 1024 bits  *)
(* with operands up to 1012 bits) x bit widths of the two operands x       *)
(* relation between them.  The harness concretises a shape with seeded     *)
(* random filling and calls gcd_internal (extended), big_gcd and inv_mod   *)
(* (both argument orders where the modulus is non-zero) on the pair.       *)
(* Width thresholds of the code: 64 (native finish), 64 k (word count),    *)
(* type width - 36 = 476 / 988 (fallback to multiprecision quotients),     *)
(* differences >= 32 bits (top word of y below 2^32: second fallback).     *)
(***************************************************************************)
EXTENDS Naturals, TLC, Json
CONSTANTS W8, W16       \* sets of operand widths for the two instantiations
VARIABLE s

Rels == {"random",       \* independent random operands
         "equal",        \* a = b
         "azero", "bzero", "bothzero",
         "multiple",     \* a = k b
         "adjacent",     \* b = a - 1 (quotient 1, then a huge one)
         "fib",          \* continued fraction with every quotient 1 (longest run of the loop)
         "cf_small",     \* quotients 1..3 (the "(q+1) y - x" alternative at every step)
         "cf32",         \* quotients around 2^32 (size limit of the top-word reduction)
         "cf36",         \* quotients around 2^36 (bound on the reduction matrix)
         "cf_mixed",     \* quotients of mixed sizes 1 .. 2^70
         "common",       \* g a', g b' with a large common factor g
         "commonsmall",  \* small common factor
         "ones",         \* 2^wa - 1, 2^wb - 1 (all-ones words)
         "lowzero"}      \* operands with zero low words (a' 2^k, b')

Widths(n) == IF n = 8 THEN W8 ELSE W16
\* relations that ignore one or both widths are enumerated once
Relevant(t) ==
  CASE t.rel \in {"equal", "bothzero"} -> t.wa = t.wb
    [] t.rel = "azero" -> t.wa = 1
    [] t.rel = "bzero" -> t.wb = 1
    [] t.rel = "adjacent" -> t.wa = t.wb
    [] t.rel \in {"multiple", "fib", "cf_small", "cf32", "cf36", "cf_mixed"} -> t.wa >= t.wb
    [] OTHER -> TRUE

Init == \E n \in {8, 16} : s \in [n : {n}, wa : Widths(n), wb : Widths(n), rel : Rels]
Next == UNCHANGED s
Emit == Relevant(s) => PrintT(<<"SHAPE", ToJson(s)>>)
=============================================================================
