------------------------------- MODULE GcdProofs -------------------------------
(***************************************************************************)
(* C09 - TLAPS proof that GcdInd!IndInv (cofactor invariant x = A n0 + B p0*)
(* and y = C n0 + D p0, unimodularity |AD - BC| = 1, unimodularity of the  *)
(* reduce64 matrix, Bezout identity of the result) is an inductive         *)
(* invariant of GcdInd!Spec over the unbounded integers.                   *)
(*      tlapm --threads 4 GcdProofs.tla                                    *)
(***************************************************************************)
EXTENDS GcdInd, TLAPS

LEMMA MulPosPos == ASSUME NEW a \in Int, NEW b \in Int, a > 0, b > 0 PROVE a * b > 0
  BY Z3

LEMMA MulSign == ASSUME NEW a \in Int, NEW b \in Int
                 PROVE  (a * b < 0) <=> ((a < 0 /\ b > 0) \/ (a > 0 /\ b < 0))
<1>0. a * b \in Int  BY Z3
<1>1. CASE a > 0 /\ b > 0
  <2>1. a * b > 0  BY <1>1, MulPosPos
  <2> QED BY <1>0, <1>1, <2>1, Z3
<1>2. CASE a < 0 /\ b < 0
  <2>0. (0 - a) \in Int /\ (0 - b) \in Int /\ (0 - a) > 0 /\ (0 - b) > 0  BY <1>2, Z3
  <2>1. (0 - a) * (0 - b) > 0  BY <2>0, MulPosPos
  <2>2. (0 - a) * (0 - b) = a * b  BY Z3
  <2> QED BY <1>0, <1>2, <2>1, <2>2, Z3
<1>3. CASE a < 0 /\ b > 0
  <2>0. (0 - a) \in Int /\ (0 - a) > 0  BY <1>3, Z3
  <2>1. (0 - a) * b > 0  BY <2>0, <1>3, MulPosPos
  <2>2. (0 - a) * b = 0 - a * b  BY Z3
  <2>3. a * b \in Int BY Z3
  <2> QED BY <1>3, <2>1, <2>2, <2>3, Z3
<1>4. CASE a > 0 /\ b < 0
  <2>0. (0 - b) \in Int /\ (0 - b) > 0  BY <1>4, Z3
  <2>1. a * (0 - b) > 0  BY <2>0, <1>4, MulPosPos
  <2>2. a * (0 - b) = 0 - a * b  BY Z3
  <2>3. a * b \in Int BY Z3
  <2> QED BY <1>4, <2>1, <2>2, <2>3, Z3
<1>5. CASE a = 0 \/ b = 0  BY <1>5, Z3
<1> QED BY <1>1, <1>2, <1>3, <1>4, <1>5, Z3

\* dot_product: the magnitude and the "sign inverted" flag together are the signed value a xx + b yy
LEMMA DotSigned == ASSUME NEW a \in Int, NEW xx \in Int, NEW b \in Int, NEW yy \in Int
                   PROVE  /\ DotVal(a, xx, b, yy) \in Int
                          /\ DotVal(a, xx, b, yy) = (IF DotNeg(a, xx, b, yy) THEN -1 ELSE 1) * (a * xx + b * yy)
<1> DEFINE ax == Abs(a) * xx
<1> DEFINE by == Abs(b) * yy
<1> DEFINE mx == a * xx
<1> DEFINE my == b * yy
<1>1. mx \in Int /\ my \in Int  BY Z3
<1>2. ax = (IF a < 0 THEN 0 - mx ELSE mx)  BY Z3 DEF Abs
<1>3. by = (IF b < 0 THEN 0 - my ELSE my)  BY Z3 DEF Abs
<1>4. (a * b < 0) <=> ((a < 0 /\ b > 0) \/ (a > 0 /\ b < 0))  BY MulSign
<1>5. DotVal(a, xx, b, yy) = (IF a * b < 0 THEN Abs(ax - by) ELSE ax + by)  BY DEF DotVal
<1>6. DotNeg(a, xx, b, yy) = (IF a * b < 0 THEN (ax > by /\ a < 0) \/ (ax < by /\ b < 0) ELSE a < 0 \/ b < 0)
      BY DEF DotNeg
<1> HIDE DEF ax, by, mx, my
<1>7. a * xx + b * yy = mx + my  BY DEF mx, my
<1>8. ax \in Int /\ by \in Int  BY <1>1, <1>2, <1>3, Z3
<1>9. CASE a * b < 0
  <2>1. CASE a < 0 /\ b > 0
    <3>1. ax = 0 - mx /\ by = my  BY <1>2, <1>3, <2>1, Z3
    <3>2. DotVal(a, xx, b, yy) = Abs(ax - by) /\ (DotNeg(a, xx, b, yy) <=> ax > by)
          BY <1>5, <1>6, <1>8, <1>9, <2>1, Z3
    <3>3. CASE ax > by   BY <1>1, <1>7, <1>8, <3>1, <3>2, <3>3, Z3 DEF Abs
    <3>4. CASE ~(ax > by)  BY <1>1, <1>7, <1>8, <3>1, <3>2, <3>4, Z3 DEF Abs
    <3> QED BY <3>3, <3>4
  <2>2. CASE a > 0 /\ b < 0  BY <1>1, <1>2, <1>3, <1>5, <1>6, <1>7, <1>8, <1>9, <2>2, Z3 DEF Abs
  <2> QED BY <1>4, <1>9, <2>1, <2>2
<1>10. CASE ~(a * b < 0)
  <2>1. CASE a < 0 /\ b <= 0
    <3>1. by = 0 - my
      <4>1. CASE b < 0  BY <1>3, <4>1, Z3
      <4>2. CASE b = 0  BY <1>3, <4>2, Z3 DEF my
      <4> QED BY <2>1, <4>1, <4>2, Z3
    <3>2. ax = 0 - mx  BY <1>2, <2>1, Z3
    <3>3. DotVal(a, xx, b, yy) = ax + by /\ DotNeg(a, xx, b, yy)  BY <1>5, <1>6, <1>10, <2>1, Z3
    <3> QED BY <1>1, <1>7, <3>1, <3>2, <3>3, Z3
  <2>2. CASE a >= 0 /\ b < 0
    <3>1. a = 0  BY <1>4, <1>10, <2>2, Z3
    <3>2. mx = 0 /\ ax = 0  BY <3>1, <1>2, Z3 DEF mx
    <3>3. by = 0 - my  BY <1>3, <2>2, Z3
    <3>4. DotVal(a, xx, b, yy) = ax + by /\ DotNeg(a, xx, b, yy)  BY <1>5, <1>6, <1>10, <2>2, Z3
    <3> QED BY <1>1, <1>7, <3>2, <3>3, <3>4, Z3
  <2>3. CASE a >= 0 /\ b >= 0  BY <1>1, <1>2, <1>3, <1>5, <1>6, <1>7, <1>8, <1>10, <2>3, Z3
  <2>4. CASE a < 0 /\ b > 0  BY <1>4, <1>10, <2>4
  <2> QED BY <2>1, <2>2, <2>3, <2>4, Z3
<1> QED BY <1>9, <1>10

\* |m| = 1 means m is 1 or -1
LEMMA AbsOne == ASSUME NEW m \in Int PROVE (Abs(m) = 1) <=> (m = 1 \/ m = -1)
  BY Z3 DEF Abs

\* after the swap at the head of the loop
LEMMA SwapOK == ASSUME TypeOK, Lattice, Unimodular
                PROVE  /\ Sx \in Int /\ Sy \in Int /\ SA \in Int /\ SB \in Int /\ SC \in Int /\ SD \in Int
                       /\ Sx = SA * n0 + SB * p0 /\ Sy = SC * n0 + SD * p0
                       /\ Abs(SA * SD - SB * SC) = 1
<1>1. CASE y >= x
  <2>1. C * B - D * A = 0 - (A * D - B * C) /\ (A * D - B * C) \in Int  BY Z3 DEF TypeOK
  <2> QED BY <1>1, <2>1, Z3 DEF TypeOK, Lattice, Unimodular, Sx, Sy, SA, SB, SC, SD, Abs
<1>2. CASE ~(y >= x)
  BY <1>2, Z3 DEF TypeOK, Lattice, Unimodular, Sx, Sy, SA, SB, SC, SD, Abs
<1> QED BY <1>1, <1>2

THEOREM InitOK == Init => IndInv
  BY Z3 DEF Init, IndInv, TypeOK, Lattice, Unimodular, RedUnimod, BezoutOK, Abs

THEOREM StepOK == IndInv /\ [Next]_vars => IndInv'
<1> SUFFICES ASSUME IndInv, [Next]_vars PROVE IndInv'  OBVIOUS
<1>0. /\ Sx \in Int /\ Sy \in Int /\ SA \in Int /\ SB \in Int /\ SC \in Int /\ SD \in Int
      /\ Sx = SA * n0 + SB * p0 /\ Sy = SC * n0 + SD * p0
      /\ Abs(SA * SD - SB * SC) = 1
      BY SwapOK DEF IndInv
<1> DEFINE sx == Sx
<1> DEFINE sy == Sy
<1> DEFINE sa == SA
<1> DEFINE sb == SB
<1> DEFINE sc == SC
<1> DEFINE sd == SD
<1>1. /\ sx \in Int /\ sy \in Int /\ sa \in Int /\ sb \in Int /\ sc \in Int /\ sd \in Int
      /\ sx = sa * n0 + sb * p0 /\ sy = sc * n0 + sd * p0
      /\ (sa * sd - sb * sc = 1 \/ sa * sd - sb * sc = -1)
  <2>1. (sa * sd - sb * sc) \in Int  BY <1>0, Z3
  <2> QED BY <1>0, <2>1, AbsOne
<1>2. /\ n0 \in Int /\ p0 \in Int /\ ra \in Int /\ rb \in Int /\ rc \in Int /\ rd \in Int
      /\ pc \in {"loop", "red", "done"}
      /\ (ra * rd - rb * rc = 1 \/ ra * rd - rb * rc = -1)
  <2>1. (ra * rd - rb * rc) \in Int  BY Z3 DEF IndInv, TypeOK
  <2> QED BY <2>1, AbsOne DEF IndInv, TypeOK, RedUnimod
<1> HIDE DEF sx, sy, sa, sb, sc, sd
<1>a. CASE Return
  <2>1. pc' = "done" /\ UNCHANGED <<n0, p0, x, y, A, B, C, D, ra, rb, rc, rd>>
        /\ ((g' = sy /\ u' = sc /\ v' = sd) \/ (g' = sx /\ u' = sa /\ v' = sb))
        BY <1>a DEF Return, Fin, sx, sy, sa, sb, sc, sd
  <2> QED BY <2>1, <1>1, <1>2, Z3 DEF IndInv, TypeOK, Lattice, Unimodular, RedUnimod, BezoutOK
<1>b. CASE Finish64
  <2>1. PICK e2 \in Int, e3 \in Int : Finish64With(e2, e3)  BY <1>b DEF Finish64
  <2>2. pc' = "done" /\ UNCHANGED <<n0, p0, x, y, A, B, C, D, ra, rb, rc, rd>>
        /\ g' = e2 * sx + e3 * sy /\ u' = e2 * sa + e3 * sc /\ v' = e2 * sb + e3 * sd
        BY <2>1 DEF Finish64With, Fin, sx, sy, sa, sb, sc, sd
  <2>3. (e2 * sa + e3 * sc) * n0 + (e2 * sb + e3 * sd) * p0 = e2 * (sa * n0 + sb * p0) + e3 * (sc * n0 + sd * p0)
        BY <1>1, <1>2, Z3
  <2>4. u' * n0 + v' * p0 = g'  BY <2>2, <2>3, <1>1
  <2>5. g' \in Int /\ u' \in Int /\ v' \in Int  BY <2>2, <1>1, Z3
  <2> QED BY <2>2, <2>4, <2>5, Z3 DEF IndInv, TypeOK, Lattice, Unimodular, RedUnimod, BezoutOK
<1>c. CASE SlowStep
  <2>1. PICK q \in Int : SlowWith(q) \/ SlowPlusWith(q)  BY <1>c DEF SlowStep
  <2>2. CASE SlowWith(q)
    <3>1. /\ x' = sy /\ y' = sx - q * sy /\ A' = sc /\ B' = sd /\ C' = sa - q * sc /\ D' = sb - q * sd
          /\ pc = "loop" /\ UNCHANGED <<n0, p0, pc, g, u, v, ra, rb, rc, rd>>
          BY <2>2 DEF SlowWith, Step, sx, sy, sa, sb, sc, sd
    <3>2. (sa - q * sc) * n0 + (sb - q * sd) * p0 = (sa * n0 + sb * p0) - q * (sc * n0 + sd * p0)
          BY <1>1, <1>2, Z3
    <3>3. sc * (sb - q * sd) - sd * (sa - q * sc) = 0 - (sa * sd - sb * sc)
          BY <1>1, Z3
    <3>4. Lattice'  BY <3>1, <3>2, <1>1 DEF Lattice
    <3>5. Unimodular'
      <4>1. (A * D - B * C)' = 0 - (sa * sd - sb * sc)  BY <3>1, <3>3
      <4> QED BY <4>1, <1>1, Z3 DEF Unimodular, Abs
    <3>6. TypeOK'  BY <3>1, <1>1, <1>2, Z3 DEF IndInv, TypeOK
    <3> QED BY <3>1, <3>4, <3>5, <3>6 DEF IndInv, RedUnimod, BezoutOK
  <2>3. CASE SlowPlusWith(q)
    <3>1. /\ x' = sy /\ y' = (q + 1) * sy - sx /\ A' = sc /\ B' = sd
          /\ C' = (q + 1) * sc - sa /\ D' = (q + 1) * sd - sb
          /\ pc = "loop" /\ UNCHANGED <<n0, p0, pc, g, u, v, ra, rb, rc, rd>>
          BY <2>3 DEF SlowPlusWith, Step, sx, sy, sa, sb, sc, sd
    <3>2. ((q + 1) * sc - sa) * n0 + ((q + 1) * sd - sb) * p0 = (q + 1) * (sc * n0 + sd * p0) - (sa * n0 + sb * p0)
          BY <1>1, <1>2, Z3
    <3>3. sc * ((q + 1) * sd - sb) - sd * ((q + 1) * sc - sa) = sa * sd - sb * sc
          BY <1>1, Z3
    <3>4. Lattice'  BY <3>1, <3>2, <1>1 DEF Lattice
    <3>5. Unimodular'
      <4>1. (A * D - B * C)' = sa * sd - sb * sc  BY <3>1, <3>3
      <4> QED BY <4>1, <1>1, Z3 DEF Unimodular, Abs
    <3>6. TypeOK'  BY <3>1, <1>1, <1>2, Z3 DEF IndInv, TypeOK
    <3> QED BY <3>1, <3>4, <3>5, <3>6 DEF IndInv, RedUnimod, BezoutOK
  <2> QED BY <2>1, <2>2, <2>3
<1>d. CASE RedBegin
  BY <1>d, Z3 DEF RedBegin, IndInv, TypeOK, Lattice, Unimodular, RedUnimod, BezoutOK, Abs
<1>e. CASE RedStep
  <2> USE DEF RedTo
  <2>1. CASE RedSwap
    <3>1. (ra * rd - rb * rc)' = 0 - (ra * rd - rb * rc)  BY <2>1, <1>2, Z3 DEF RedSwap
    <3>2. RedUnimod'  BY <3>1, <1>2, Z3 DEF RedUnimod, Abs
    <3> QED BY <2>1, <3>2, <1>2, Z3 DEF RedSwap, IndInv, TypeOK, Lattice, Unimodular, BezoutOK
  <2>2. ASSUME NEW q \in Int, RedSubWith(q) PROVE IndInv'
    <3>0. ra' = rc /\ rb' = rd /\ rc' = ra - q * rc /\ rd' = rb - q * rd  BY <2>2 DEF RedSubWith
    <3>1. rc * (rb - q * rd) - rd * (ra - q * rc) = 0 - (ra * rd - rb * rc)  BY <1>2, Z3
    <3>2. (ra * rd - rb * rc)' = 0 - (ra * rd - rb * rc)  BY <3>0, <3>1
    <3>3. RedUnimod'  BY <3>2, <1>2, Z3 DEF RedUnimod, Abs
    <3>4. TypeOK'  BY <2>2, <3>0, <1>2, Z3 DEF RedSubWith, IndInv, TypeOK
    <3> QED BY <2>2, <3>3, <3>4 DEF RedSubWith, IndInv, Lattice, Unimodular, BezoutOK
  <2>3. ASSUME NEW q \in Int, RedSubPlusWith(q) PROVE IndInv'
    <3>0. ra' = rc /\ rb' = rd /\ rc' = (q + 1) * rc - ra /\ rd' = (q + 1) * rd - rb  BY <2>3 DEF RedSubPlusWith
    <3>1. rc * ((q + 1) * rd - rb) - rd * ((q + 1) * rc - ra) = ra * rd - rb * rc  BY <1>2, Z3
    <3>2. (ra * rd - rb * rc)' = ra * rd - rb * rc  BY <3>0, <3>1
    <3>3. RedUnimod'  BY <3>2, <1>2, Z3 DEF RedUnimod, Abs
    <3>4. TypeOK'  BY <2>3, <3>0, <1>2, Z3 DEF RedSubPlusWith, IndInv, TypeOK
    <3> QED BY <2>3, <3>3, <3>4 DEF RedSubPlusWith, IndInv, Lattice, Unimodular, BezoutOK
  <2> QED BY <1>e, <2>1, <2>2, <2>3 DEF RedStep
<1>f. CASE FastApply
  <2> DEFINE s1 == IF DotNeg(ra, Sx, rb, Sy) THEN -1 ELSE 1
  <2> DEFINE s2 == IF DotNeg(rc, Sx, rd, Sy) THEN -1 ELSE 1
  <2>1. /\ pc = "red" /\ pc' = "loop" /\ UNCHANGED <<n0, p0, g, u, v, ra, rb, rc, rd>>
        /\ x' = DotVal(ra, Sx, rb, Sy) /\ y' = DotVal(rc, Sx, rd, Sy)
        /\ A' = s1 * (ra * sa + rb * sc) /\ B' = s1 * (ra * sb + rb * sd)
        /\ C' = s2 * (rc * sa + rd * sc) /\ D' = s2 * (rc * sb + rd * sd)
        BY <1>f DEF FastApply, ApplyFast, red, sa, sb, sc, sd
  <2>2. x' = s1 * (ra * sx + rb * sy) /\ y' = s2 * (rc * sx + rd * sy)
        BY <2>1, <1>0, <1>2, DotSigned DEF sx, sy
  <2>3. (s1 = 1 \/ s1 = -1) /\ (s2 = 1 \/ s2 = -1)  OBVIOUS
  <2> HIDE DEF s1, s2
  <2> DEFINE ma == ra * sa + rb * sc
  <2> DEFINE mb == ra * sb + rb * sd
  <2> DEFINE mc == rc * sa + rd * sc
  <2> DEFINE md == rc * sb + rd * sd
  <2>4. ma \in Int /\ mb \in Int /\ mc \in Int /\ md \in Int  BY <1>1, <1>2, Z3
  <2>5. ra * sx + rb * sy = ma * n0 + mb * p0  BY <1>1, <1>2, Z3
  <2>6. rc * sx + rd * sy = mc * n0 + md * p0  BY <1>1, <1>2, Z3
  <2>7. ma * md - mb * mc = (ra * rd - rb * rc) * (sa * sd - sb * sc)  BY <1>1, <1>2, Z3
  <2>8. ma * md - mb * mc = 1 \/ ma * md - mb * mc = -1
    <3>1. (ra * rd - rb * rc) \in Int /\ (sa * sd - sb * sc) \in Int  BY <1>1, <1>2, Z3
    <3> QED BY <2>7, <3>1, <1>1, <1>2, Z3
  <2>9. (ra * sx + rb * sy) \in Int /\ (rc * sx + rd * sy) \in Int  BY <1>1, <1>2, Z3
  <2> HIDE DEF ma, mb, mc, md
  <2>10. Lattice'
    <3>1. x' = (s1 * ma) * n0 + (s1 * mb) * p0  BY <2>2, <2>3, <2>4, <2>5, <2>9, <1>2, Z3
    <3>2. y' = (s2 * mc) * n0 + (s2 * md) * p0  BY <2>2, <2>3, <2>4, <2>6, <2>9, <1>2, Z3
    <3> QED BY <3>1, <3>2, <2>1 DEF Lattice, ma, mb, mc, md
  <2>11. Unimodular'
    <3>1. (s1 * ma) * (s2 * md) - (s1 * mb) * (s2 * mc) = 1 \/ (s1 * ma) * (s2 * md) - (s1 * mb) * (s2 * mc) = -1
      <4> DEFINE dd == ma * md - mb * mc
      <4>0. dd = 1 \/ dd = -1  BY <2>8
      <4>1. CASE s1 = 1 /\ s2 = 1
        <5>1. (s1 * ma) * (s2 * md) - (s1 * mb) * (s2 * mc) = dd  BY <4>1, <2>4, Z3
        <5> QED BY <5>1, <4>0
      <4>2. CASE s1 = 1 /\ s2 = -1
        <5>1. (s1 * ma) * (s2 * md) - (s1 * mb) * (s2 * mc) = 0 - dd  BY <4>2, <2>4, Z3
        <5> QED BY <5>1, <4>0, <2>4, Z3
      <4>3. CASE s1 = -1 /\ s2 = 1
        <5>1. (s1 * ma) * (s2 * md) - (s1 * mb) * (s2 * mc) = 0 - dd  BY <4>3, <2>4, Z3
        <5> QED BY <5>1, <4>0, <2>4, Z3
      <4>4. CASE s1 = -1 /\ s2 = -1
        <5>1. (s1 * ma) * (s2 * md) - (s1 * mb) * (s2 * mc) = dd  BY <4>4, <2>4, Z3
        <5> QED BY <5>1, <4>0
      <4> QED BY <2>3, <4>1, <4>2, <4>3, <4>4
    <3>2. (A * D - B * C)' = (s1 * ma) * (s2 * md) - (s1 * mb) * (s2 * mc)  BY <2>1 DEF ma, mb, mc, md
    <3> QED BY <3>1, <3>2, Z3 DEF Unimodular, Abs
  <2>12. TypeOK'
    <3>1. A' \in Int /\ B' \in Int /\ C' \in Int /\ D' \in Int  BY <2>1, <2>3, <2>4, Z3 DEF ma, mb, mc, md
    <3>2. x' \in Int /\ y' \in Int  BY <2>2, <2>3, <2>9, Z3
    <3> QED BY <2>1, <3>1, <3>2 DEF IndInv, TypeOK
  <2>13. RedUnimod' /\ BezoutOK'  BY <2>1, Z3 DEF IndInv, RedUnimod, BezoutOK
  <2> QED BY <2>10, <2>11, <2>12, <2>13 DEF IndInv
<1>g. CASE Done
  BY <1>g DEF Done, vars, IndInv, TypeOK, Lattice, Unimodular, RedUnimod, BezoutOK
<1>h. CASE UNCHANGED vars
  BY <1>h DEF vars, IndInv, TypeOK, Lattice, Unimodular, RedUnimod, BezoutOK
<1> QED BY <1>a, <1>b, <1>c, <1>d, <1>e, <1>f, <1>g, <1>h DEF Next

THEOREM Inductive == Spec => []IndInv
  BY InitOK, StepOK, PTL DEF Spec
=============================================================================
