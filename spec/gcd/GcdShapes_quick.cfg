INIT Init
NEXT Next
CONSTANTS W8 = {1, 33, 63, 64, 65, 128, 129, 256, 400, 438, 475, 476, 500}
          W16 = {1, 33, 63, 64, 65, 128, 129, 512, 700, 950, 987, 988, 1012}
INVARIANT Emit
CHECK_DEADLOCK FALSE
