---------------------------- MODULE GcdStepTrace ----------------------------
(***************************************************************************)
(* C09, binding of the loop model (Gcd.tla) to the real loop of            *)
(* arith_gcd.rs gcd_internal<N, EXT>, iteration by iteration.              *)
(*                                                                         *)
(* The hooks of arith_gcd.rs log one event when the function is entered    *)
(* (n, p, N, EXT), one per loop iteration when the state update of the     *)
(* iteration is complete                                                   *)
(*    swap   the exchange at the head of the loop (only when it happens)   *)
(*    slow   multiprecision quotient: which of the three conditions sent   *)
(*           the iteration there (why), the quotient (EXT), whether the    *)
(*           "(q+1) y - x" alternative was taken (plus)                    *)
(*    fast   the matrix (a, b, c, d) returned by reduce64 on the top       *)
(*           words, the top words, the sign flags of dot_product           *)
(* each with the state after the step (x, y, and A, B, C, D when EXT), and *)
(* one at each return (exit: how, returned value).  The harness appends    *)
(* what the call returned (result).                                        *)
(*                                                                         *)
(* This specification carries (x, y, A, B, C, D) as its own state and      *)
(* accepts an event iff it is the action that Gcd.tla takes from that      *)
(* state, instantiated at the real constants (WB = 64, NW = N, G = 36,     *)
(* T = 24, top word of y at least 2^32): guards of the action, reduce64    *)
(* recomputed on 64-bit words (Red), the matrix / quotient applied to the  *)
(* state, and the invariants of the model after the step (Lattice,         *)
(* unimodular step, MatrixBound, NoOverflow, Progress).                    *)
(*                                                                         *)
(* All of this is shaped like the implementation: every judgement here is  *)
(* Drift (MODEL-DRIFT note).  What the property promises about the         *)
(* returned values stays in GcdTrace.tla (Strict).                         *)
(***************************************************************************)
EXTENDS BigInt, TraceLib
VARIABLES l, st

WB == 64          \* machine word
GB == 36          \* guard bits: fast path only if bits + GB < type width; matrix entries at most 2^GB
TB == 24          \* reduce64 runs while both words are >= 2^TB
P32 == Pow2(32)
P36 == Pow2(GB)

Idle == [ph |-> "idle", case |-> "", N |-> 0, ext |-> FALSE, lat |-> FALSE, n |-> Zero, p |-> Zero,
         x |-> Zero, y |-> Zero, A |-> IOne, B |-> IZero, C |-> IZero, D |-> IOne,
         g |-> Zero, u |-> IZero, v |-> IZero]

MaxN(a, b) == IF Ge(a, b) THEN a ELSE b
IAbsLe(x, m) == Le(x.mag, m)

-----------------------------------------------------------------------------
\* reduce64 (arith_gcd.rs) on 64-bit words: a, b, c, d BigInt, uu, vv BigNat
RECURSIVE Red(_, _, _, _, _, _)
Red(a, b, c, d, uu, vv) ==
  IF ~(BitLen(uu) > TB /\ BitLen(vv) > TB) THEN <<a, b, c, d>>
  ELSE IF Lt(uu, vv) THEN Red(c, d, a, b, vv, uu)
  ELSE LET qr == DivMod(uu, vv)
           q  == qr[1]
           r  == qr[2]
           q1 == Add(q, One)
       IN IF BitLen(q1) + BitLen(MaxN(c.mag, d.mag)) > GB THEN <<a, b, c, d>>
          ELSE IF Gt(r, Shr(vv, 1))
               THEN Red(c, d, ISub(IMulNat(c, q1), a), ISub(IMulNat(d, q1), b), vv, Sub(vv, r))
               ELSE Red(c, d, ISub(a, IMulNat(c, q)), ISub(b, IMulNat(d, q)), vv, r)

\* top64: bits [bits - 64, bits) of a (bits >= 64)
Top(a, bits) == LowBits(Shr(a, bits - WB), WB)

-----------------------------------------------------------------------------
\* quantities of the loop head computed from the state s (after the swap)
LX(s) == BitLen(s.x)
LY(s) == BitLen(s.y)
Bits(s) == Max2(LX(s), LY(s))
AnyZero(s) == s.x = Zero \/ s.y = Zero
Small(s) == LX(s) < WB /\ LY(s) < WB
Why(s) == (IF LX(s) + GB >= s.N * WB THEN 1 ELSE 0)
          + (IF LY(s) + GB >= s.N * WB THEN 2 ELSE 0)
          + (IF Lt(Top(s.y, Bits(s)), P32) THEN 4 ELSE 0)
\* the swap is due (and has not been logged)
SwapDue(s) == s.ph = "head" /\ Ge(s.y, s.x)
Live(s, e) == s.ph \in {"head", "body"} /\ e.case = s.case

Lattice(s, xx, yy, a, b, c, d) ==
  /\ IAdd(IMulNat(a, s.n), IMulNat(b, s.p)) = IFromNat(xx)
  /\ IAdd(IMulNat(c, s.n), IMulNat(d, s.p)) = IFromNat(yy)
Det1(a, b, c, d) == ISub(IMul(a, d), IMul(b, c)).mag = One
FitsType(s, a) == BitLen(a) <= s.N * WB
FitsSigned(s, a) == BitLen(a.mag) < s.N * WB

WellFormedState(s, e) ==
  /\ IsNat(e.x) /\ IsNat(e.y)
  /\ (s.ext <=> Has(e, "A"))
  /\ Has(e, "A") => (IIsInt(e.A) /\ IIsInt(e.B) /\ IIsInt(e.C) /\ IIsInt(e.D))

\* Progress of the model (x + y strictly decreases) and the stronger statement on max(x, y)
ProgressOK(s, e) ==
  /\ Lt(Add(e.x, e.y), Add(s.x, s.y))
  /\ Le(MaxN(e.x, e.y), MaxN(s.x, s.y))
  /\ (s.x # s.y => Lt(MaxN(e.x, e.y), MaxN(s.x, s.y)))

-----------------------------------------------------------------------------
\* judgements: every conjunct is evaluated (Drift is always TRUE); every failed one is reported as Drift
JEnter(i, s, e) ==
  /\ Drift(i, "enter:previous-run-complete", s.ph \in {"idle", "closed"})
  /\ Drift(i, "enter:wellformed", e.N \in {8, 16} /\ IsNat(e.n) /\ IsNat(e.p)
                            /\ BitLen(e.n) <= e.N * WB /\ BitLen(e.p) <= e.N * WB)

JSwap(i, s, e) ==
  /\ Drift(i, "swap:wellformed", WellFormedState(s, e))
  /\ Drift(i, "swap:guard", s.ph = "head" /\ Ge(s.y, s.x))
  /\ Drift(i, "swap:state", e.x = s.y /\ e.y = s.x)
  /\ Drift(i, "swap:cofactors", (s.ext /\ Has(e, "A")) => (e.A = s.C /\ e.B = s.D /\ e.C = s.A /\ e.D = s.B))

JSlow(i, s, e) ==
  LET qr    == DivMod(s.x, s.y)
      q     == qr[1]
      r     == qr[2]
      plusM == s.ext /\ Gt(Shl(r, 1), s.y)
      q1    == Add(q, One)
  IN
  IF AnyZero(s) THEN Drift(i, "slow:guard", FALSE)
  ELSE
  /\ Drift(i, "slow:wellformed", WellFormedState(s, e) /\ (s.ext <=> Has(e, "q")))
  /\ Drift(i, "slow:swap-first", ~SwapDue(s))
  /\ Drift(i, "slow:guard", ~Small(s) /\ Why(s) # 0)
  /\ Drift(i, "slow:why", Small(s) \/ e.why = Why(s))
  /\ Drift(i, "slow:plus", e.plus = plusM)
  /\ Drift(i, "slow:quotient", Has(e, "q") => e.q = q)
  /\ Drift(i, "slow:state", e.x = s.y /\ e.y = (IF plusM THEN Sub(s.y, r) ELSE r))
  /\ Drift(i, "slow:cofactors",
        (s.ext /\ Has(e, "A")) => /\ e.A = s.C /\ e.B = s.D
                 /\ IF plusM THEN /\ e.C = ISub(IMulNat(s.C, q1), s.A)
                                  /\ e.D = ISub(IMulNat(s.D, q1), s.B)
                    ELSE /\ e.C = ISub(s.A, IMulNat(s.C, q))
                         /\ e.D = ISub(s.B, IMulNat(s.D, q)))
      \* r << 1 must not leave the type (NoOverflow of the model)
  /\ Drift(i, "slow:nooverflow", s.ext => FitsType(s, Shl(r, 1)))
  /\ Drift(i, "slow:cofactor-fits", (s.ext /\ Has(e, "A")) => (FitsSigned(s, e.A) /\ FitsSigned(s, e.B) /\ FitsSigned(s, e.C) /\ FitsSigned(s, e.D)))
  /\ Drift(i, "slow:lattice", (s.ext /\ s.lat /\ Has(e, "A")) => Lattice(s, e.x, e.y, e.A, e.B, e.C, e.D))
  /\ Drift(i, "slow:progress", ProgressOK(s, e))

JFast(i, s, e) ==
  IF AnyZero(s) \/ Small(s) THEN Drift(i, "fast:guard", FALSE)
  ELSE
  LET bits == Bits(s)
      xt == Top(s.x, bits)
      yt == Top(s.y, bits)
      m  == Red(IOne, IZero, IZero, IOne, xt, yt)
      ax == IMulNat(e.a, s.x)
      by == IMulNat(e.b, s.y)
      cx == IMulNat(e.c, s.x)
      dy == IMulNat(e.d, s.y)
      s1 == IAdd(ax, by)
      s2 == IAdd(cx, dy)
      sg1(z) == IF e.negx THEN INeg(z) ELSE z
      sg2(z) == IF e.negy THEN INeg(z) ELSE z
  IN
  /\ Drift(i, "fast:wellformed", WellFormedState(s, e) /\ IIsInt(e.a) /\ IIsInt(e.b) /\ IIsInt(e.c) /\ IIsInt(e.d))
  /\ Drift(i, "fast:swap-first", ~SwapDue(s))
  /\ Drift(i, "fast:guard", Why(s) = 0)
  /\ Drift(i, "fast:topwords", e.xtop = xt /\ e.ytop = yt /\ e.bits = bits /\ e.size = (bits + 63) \div 64)
  /\ Drift(i, "fast:matrix-is-reduce64", <<e.a, e.b, e.c, e.d>> = m)
  /\ Drift(i, "fast:unimodular", Det1(e.a, e.b, e.c, e.d))
  /\ Drift(i, "fast:matrix-bound", IAbsLe(e.a, P36) /\ IAbsLe(e.b, P36) /\ IAbsLe(e.c, P36) /\ IAbsLe(e.d, P36))
      \* dot_product / mulword stay inside the type (NoOverflow of the model)
  /\ Drift(i, "fast:nooverflow", /\ FitsType(s, ax.mag) /\ FitsType(s, by.mag) /\ FitsType(s, cx.mag) /\ FitsType(s, dy.mag)
                           /\ FitsType(s, s1.mag) /\ FitsType(s, s2.mag)
                           /\ (e.a.neg = e.b.neg => FitsType(s, Add(ax.mag, by.mag)))
                           /\ (e.c.neg = e.d.neg => FitsType(s, Add(cx.mag, dy.mag))))
  /\ Drift(i, "fast:state", e.x = s1.mag /\ e.y = s2.mag)
  /\ Drift(i, "fast:signs", e.negx = s1.neg /\ e.negy = s2.neg)
  /\ Drift(i, "fast:cofactors",
        (s.ext /\ Has(e, "A")) => /\ e.A = sg1(IAdd(IMul(e.a, s.A), IMul(e.b, s.C)))
                 /\ e.B = sg1(IAdd(IMul(e.a, s.B), IMul(e.b, s.D)))
                 /\ e.C = sg2(IAdd(IMul(e.c, s.A), IMul(e.d, s.C)))
                 /\ e.D = sg2(IAdd(IMul(e.c, s.B), IMul(e.d, s.D))))
  /\ Drift(i, "fast:cofactor-fits", (s.ext /\ Has(e, "A")) => (FitsSigned(s, e.A) /\ FitsSigned(s, e.B) /\ FitsSigned(s, e.C) /\ FitsSigned(s, e.D)))
  /\ Drift(i, "fast:lattice", (s.ext /\ s.lat /\ Has(e, "A")) => Lattice(s, e.x, e.y, e.A, e.B, e.C, e.D))
  /\ Drift(i, "fast:progress", ProgressOK(s, e))

JExit(i, s, e) ==
  LET gs == Gcd(s.x, s.y)
  IN
  /\ Drift(i, "exit:wellformed", IsNat(e.g) /\ (s.ext <=> Has(e, "u")) /\ (Has(e, "u") => (IIsInt(e.u) /\ IIsInt(e.v))))
  /\ Drift(i, "exit:swap-first", ~SwapDue(s))
  /\ Drift(i, "exit:guard",
        CASE e.how = "ret_y" -> s.x = Zero
          [] e.how = "ret_x" -> s.x # Zero /\ s.y = Zero
          [] e.how = "fin64" -> ~AnyZero(s) /\ Small(s)
          [] OTHER -> FALSE)
      \* the exit value is the gcd of the state
  /\ Drift(i, "exit:gcd-of-state", e.g = gs)
  /\ Drift(i, "exit:cofactors",
        (s.ext /\ Has(e, "u")) =>
        CASE e.how = "ret_y" -> e.u = s.C /\ e.v = s.D
          [] e.how = "ret_x" -> e.u = s.A /\ e.v = s.B
          [] e.how = "fin64" ->
               /\ Has(e, "ex") /\ IIsInt(e.ex) /\ IIsInt(e.ey)
               /\ IAdd(IMulNat(e.ex, s.x), IMulNat(e.ey, s.y)) = IFromNat(e.g)
               /\ e.u = IAdd(IMul(e.ex, s.A), IMul(e.ey, s.C))
               /\ e.v = IAdd(IMul(e.ex, s.B), IMul(e.ey, s.D))
          [] OTHER -> FALSE)
  /\ Drift(i, "exit:cofactor-fits", (s.ext /\ Has(e, "u")) => (FitsSigned(s, e.u) /\ FitsSigned(s, e.v)))
      \* invariants of the model on the last state of the loop, and the Bezout identity of the result
  /\ Drift(i, "exit:lattice", s.ext => Lattice(s, s.x, s.y, s.A, s.B, s.C, s.D))
  /\ Drift(i, "exit:unimodular", s.ext => Det1(s.A, s.B, s.C, s.D))
  /\ Drift(i, "exit:bezout", (s.ext /\ Has(e, "u")) => IAdd(IMulNat(e.u, s.n), IMulNat(e.v, s.p)) = IFromNat(e.g))

JResult(i, s, e) ==
  IF Has(e, "outcome") THEN Drift(i, "result:outcome", FALSE)
  ELSE
  /\ Drift(i, "result:after-exit", s.ph = "done" /\ e.case = s.case)
  /\ Drift(i, "result:inputs", e.a = s.n /\ e.b = s.p /\ e.N = s.N /\ e.ext = s.ext)
  /\ Drift(i, "result:value", e.g = s.g /\ (s.ext => (Has(e, "u") /\ e.u = s.u /\ e.v = s.v)))

Judgements(i, s, e) ==
  CASE e.op = "enter" -> JEnter(i, s, e)
    [] e.op = "result" -> JResult(i, s, e)
    [] ~Live(s, e) -> Drift(i, "no-run-in-progress", FALSE)
    [] e.op = "swap" -> JSwap(i, s, e)
    [] e.op = "slow" -> JSlow(i, s, e)
    [] e.op = "fast" -> JFast(i, s, e)
    [] e.op = "exit" -> JExit(i, s, e)
    [] OTHER -> Drift(i, "unknown-op", FALSE)

JudgeAll(i, s, e) == Judgements(i, s, e)

\* the state follows the log (so that one discrepancy is reported once)
Adopt(s, e, ph) ==
  IF s.ext /\ Has(e, "A") THEN [s EXCEPT !.ph = ph, !.x = e.x, !.y = e.y, !.A = e.A, !.B = e.B, !.C = e.C, !.D = e.D]
  ELSE [s EXCEPT !.ph = ph, !.x = e.x, !.y = e.y]

NextSt(s, e) ==
  CASE e.op = "enter" ->
         [Idle EXCEPT !.ph = "head", !.case = e.case, !.N = e.N, !.ext = e.ext, !.lat = e.lat,
                      !.n = e.n, !.p = e.p, !.x = e.n, !.y = e.p]
    [] e.op = "result" -> [s EXCEPT !.ph = "closed"]
    [] ~Live(s, e) -> s
    [] e.op = "swap" -> Adopt(s, e, "body")
    [] e.op \in {"slow", "fast"} -> Adopt(s, e, "head")
    [] e.op = "exit" -> [s EXCEPT !.ph = "done", !.g = e.g,
                                  !.u = IF Has(e, "u") THEN e.u ELSE IZero,
                                  !.v = IF Has(e, "v") THEN e.v ELSE IZero]
    [] OTHER -> s

Init == l = 1 /\ st = Idle
Next ==
  /\ l <= NRec
  /\ l' = l + 1
  /\ JudgeAll(l, st, Rec[l])
  /\ st' = NextSt(st, Rec[l])
  \* a trace that stops in the middle of a run (missing exit / result) is reported at its last event
  /\ (l = NRec => Drift(l, "end:run-complete", NextSt(st, Rec[l]).ph = "closed"))
Spec == Init /\ [][Next]_<<l, st>>
=============================================================================
