SPECIFICATION Spec
CONSTANTS WB = 4
          NW = 3
          G = 4
          T = 2
          MAXB = 7
INVARIANT Lattice
INVARIANT Unimodular
INVARIANT GcdPreserved
INVARIANT NoOverflow
INVARIANT MatrixBound
INVARIANT CofactorFits
INVARIANT ResultOK
PROPERTY Progress
CHECK_DEADLOCK TRUE
