------------------------------- MODULE GcdTrace -------------------------------
(***************************************************************************)
(* C09 - multiprecision gcd, extended gcd and modular inverse are exact.   *)
(*                                                                         *)
(* Every event carries an independent Bezout witness (wg, wu, wv) computed *)
(* by the harness with plain Euclid on a wider type; it is verified here:  *)
(* wg | a, wg | b and wu a + wv b = wg make wg the gcd of (a, b) whatever  *)
(* produced it (a bad witness is a tool error, not a violation).  The      *)
(* values returned by the code are then judged against it:                 *)
(*   gcd      gcd_internal<N,true>(a, b) = (g, u, v): g = gcd and          *)
(*            u a + v b = g over the integers; big_gcd(a, b) = gcd         *)
(*   inv_mod  Ok(x): gcd = 1, 0 <= x < p, n x == 1 (mod p);                *)
(*            Err(d): d = gcd > 1                                          *)
(*   zn_inv / zn_gcd  the wrappers of the modular ring (Montgomery form:   *)
(*            inv(a) a == R^2 (mod n) with R = 2^(64 words(n)))            *)
(***************************************************************************)
EXTENDS BigInt, TraceLib
VARIABLE l

\* (wg, wu, wv) proves wg = gcd(a, b)
WitnessOK(e, a, b) ==
  /\ IsNat(e.wg) /\ IIsInt(e.wu) /\ IIsInt(e.wv)
  /\ IAdd(IMulNat(e.wu, a), IMulNat(e.wv, b)) = IFromNat(e.wg)
  /\ IF e.wg = <<>> THEN a = <<>> /\ b = <<>>
     ELSE Mod(a, e.wg) = <<>> /\ Mod(b, e.wg) = <<>>

Words(n) == (BitLen(n) + 63) \div 64

PreOK(e) ==
  CASE e.op = "gcd" -> WitnessOK(e, e.a, e.b)
    [] e.op = "inv_mod" -> WitnessOK(e, e.n, e.p) /\ Gt(e.p, One)
    [] e.op \in {"zn_inv", "zn_gcd"} -> WitnessOK(e, e.n, e.a) /\ Lt(e.a, e.n) /\ IsOdd(e.n)
    [] OTHER -> TRUE

Ok(e) ==
  CASE e.op = "gcd" ->
         /\ IsNat(e.g) /\ IIsInt(e.u) /\ IIsInt(e.v)
         /\ e.g = e.wg                                                   \* the greatest common divisor
         /\ IAdd(IMulNat(e.u, e.a), IMulNat(e.v, e.b)) = IFromNat(e.g)   \* u a + v b = g
         /\ e.g2 = e.wg                                                  \* big_gcd
    [] e.op = "inv_mod" ->
         IF e.ok THEN /\ e.wg = One
                      /\ IsNat(e.r) /\ Lt(e.r, e.p)
                      /\ Mod(Mul(e.n, e.r), e.p) = One
         ELSE e.r = e.wg /\ e.wg # One
    [] e.op = "zn_inv" ->
         IF e.some THEN /\ e.wg = One
                        /\ IsNat(e.r) /\ Lt(e.r, e.n)
                        /\ Mod(Mul(e.r, e.a), e.n) = Mod(Pow2(128 * Words(e.n)), e.n)
         ELSE e.wg # One
    [] e.op = "zn_gcd" -> e.g = e.wg
    [] OTHER -> FALSE

Judge1(i, e) ==
  IF Has(e, "outcome") THEN Strict(i, e.op, FALSE)      \* a panic is not a value
  ELSE /\ Witness(i, e.op, PreOK(e))
       /\ Strict(i, e.op, Ok(e))

Init == l = 1
Next == l <= NRec /\ l' = l + 1 /\ Judge1(l, Rec[l])
Spec == Init /\ [][Next]_l
=============================================================================
