------------------------------ MODULE GcdProofsBad ------------------------------
(***************************************************************************)
(* Non-vacuity of GcdProofs: the proof script of the rounded slow step     *)
(* applied to GcdInd!SlowPlusBad (cofactors updated as A - (q+1) C, the    *)
(* sign of the plain step) and the dot_product lemma for GcdInd!DotNegBad  *)
(* (flag without the b < 0 case).  Both claims are FALSE: tlapm must       *)
(* report failed obligations for this module.                              *)
(***************************************************************************)
EXTENDS GcdProofs

THEOREM SlowPlusBadOK ==
  ASSUME IndInv, NEW q \in Int, SlowPlusBad(q),
         NEW sx \in Int, NEW sy \in Int, NEW sa \in Int, NEW sb \in Int, NEW sc \in Int, NEW sd \in Int,
         sx = Sx, sy = Sy, sa = SA, sb = SB, sc = SC, sd = SD,
         sx = sa * n0 + sb * p0, sy = sc * n0 + sd * p0, n0 \in Int, p0 \in Int
  PROVE  Lattice'
<1>1. /\ x' = sy /\ y' = (q + 1) * sy - sx /\ A' = sc /\ B' = sd
      /\ C' = sa - (q + 1) * sc /\ D' = sb - (q + 1) * sd /\ UNCHANGED <<n0, p0>>
      BY DEF SlowPlusBad, Step
<1>2. (sa - (q + 1) * sc) * n0 + (sb - (q + 1) * sd) * p0 = (q + 1) * (sc * n0 + sd * p0) - (sa * n0 + sb * p0)
      BY Z3
<1> QED BY <1>1, <1>2 DEF Lattice

LEMMA DotSignedBad == ASSUME NEW a \in Int, NEW xx \in Int, NEW b \in Int, NEW yy \in Int
                      PROVE  DotVal(a, xx, b, yy) = (IF DotNegBad(a, xx, b, yy) THEN -1 ELSE 1) * (a * xx + b * yy)
  BY MulSign, Z3 DEF DotVal, DotNegBad, Abs
=============================================================================
