INIT Init
NEXT Next
CONSTANTS W8 = {1, 2, 31, 32, 33, 63, 64, 65, 96, 127, 128, 129, 191, 192, 193, 255, 256, 257, 320, 400, 438, 448, 464, 475, 476, 477, 490, 499, 500}
          W16 = {1, 2, 31, 32, 33, 63, 64, 65, 127, 128, 129, 255, 256, 257, 511, 512, 513, 700, 895, 896, 897, 950, 960, 976, 987, 988, 989, 1000, 1011, 1012}
INVARIANT Emit
CHECK_DEADLOCK FALSE
