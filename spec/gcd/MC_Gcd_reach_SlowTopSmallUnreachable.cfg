SPECIFICATION Spec
CONSTANTS WB = 4
          NW = 3
          G = 4
          T = 2
          MAXB = 6
INVARIANT SlowTopSmallUnreachable
CHECK_DEADLOCK FALSE
