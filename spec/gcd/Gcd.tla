--------------------------------- MODULE Gcd ---------------------------------
(***************************************************************************)
(* Scaled model of arith_gcd.rs gcd_internal<N, EXT>: the loop over        *)
(* (x, y, A, B, C, D) with its four continuations                          *)
(*   Return    one operand is zero                                         *)
(*   Finish64  both operands fit a machine word: native (extended) gcd     *)
(*   SlowStep  multiprecision quotient (operand near the type width, or    *)
(*             top word of y too small); the extended variant rounds the   *)
(*             quotient to the nearest ("(q+1) y - x")                     *)
(*   FastStep  Gauss reduction on the top words (reduce64, transcribed     *)
(*             with both stop conditions), applied to the full numbers by  *)
(*             dot_product with its sign bookkeeping.                      *)
(* The swap at the head of the loop is part of every step.                 *)
(*                                                                         *)
(* Scaling: machine word WB bits (64 in the code), type NW words, guard    *)
(* G bits (36 in the code: fast path only if bits + G < type width, and    *)
(* matrix entries at most 2^G), inner loop runs while both top words are   *)
(* >= 2^T (24), top word of y at least 2^(WB/2) (32).  Exhaustive over all *)
(* pairs below 2^MAXB and both variants.                                   *)
(*                                                                         *)
(* Invariants: x = A n + B p and y = C n + D p; |AD - BC| = 1; gcd(x, y) = *)
(* gcd(n, p); nothing leaves the type (products of dot_product, the word   *)
(* index of mulword, the shift r << 1, signed cofactors); matrix entries   *)
(* are at most 2^G; the result is the gcd with valid Bezout cofactors.     *)
(* Progress: x + y strictly decreases at every step (termination).         *)
(***************************************************************************)
EXTENDS Integers, TLC
CONSTANTS WB, NW, G, T, MAXB
VARIABLES n0, p0, ext, x, y, A, B, C, D, pc, g, u, v, ovf, mb, last

vars == <<n0, p0, ext, x, y, A, B, C, D, pc, g, u, v, ovf, mb, last>>

RECURSIVE P2r(_)
P2r(k) == IF k = 0 THEN 1 ELSE 2 * P2r(k - 1)
P2T == [k \in 0..(WB * NW + 2) |-> P2r(k)]
P2(k) == P2T[k]
RECURSIVE Bitsr(_)
Bitsr(a) == IF a = 0 THEN 0 ELSE 1 + Bitsr(a \div 2)
BitsT == [a \in 0..P2r(WB * NW) |-> Bitsr(a)]
Bits(a) == BitsT[a]
Abs(a) == IF a < 0 THEN 0 - a ELSE a
Max2(a, b) == IF a >= b THEN a ELSE b
RECURSIVE GcdN(_, _)
GcdN(a, b) == IF b = 0 THEN a ELSE GcdN(b, a % b)
TW == P2(WB * NW)                    \* 2^(type width)

\* some Bezout pair for a >= b >= 0 (the code uses num_integer's; any valid pair satisfies the invariants)
RECURSIVE XG(_, _)
XG(a, b) == IF b = 0 THEN <<a, 1, 0>>
            ELSE LET e == XG(b, a % b) IN <<e[1], e[3], e[2] - (a \div b) * e[3]>>

\* top64: bits [bits - WB, bits) of a
Top(a, bits) == (a \div P2(bits - WB)) % P2(WB)

\* reduce64: returns <<a, b, c, d, largest entry seen>>
RECURSIVE Red(_, _, _, _, _, _)
Red(a, b, c, d, uu, vv) ==
  IF ~(uu \div P2(T) > 0 /\ vv \div P2(T) > 0) THEN <<a, b, c, d>>
  ELSE IF uu < vv THEN Red(c, d, a, b, vv, uu)
  ELSE LET q == uu \div vv
           r == uu % vv
       IN IF Bits(q + 1) + Bits(Max2(Abs(c), Abs(d))) > G THEN <<a, b, c, d>>
          ELSE IF r > vv \div 2 THEN Red(c, d, (q + 1) * c - a, (q + 1) * d - b, vv, vv - r)
          ELSE Red(c, d, a - q * c, b - q * d, vv, r)

\* dot_product: <<|a x + b y|, sign inverted?, overflow?>>
Dot(a, xx, b, yy, sz) ==
  LET ax == Abs(a) * xx
      by == Abs(b) * yy
      \* mulword writes the carry into word sz: needs sz < NW, or no carry out of word NW - 1
      mo == ax >= TW \/ by >= TW \/ (sz >= NW /\ (ax >= P2(WB * sz) \/ by >= P2(WB * sz)))
  IN IF a * b < 0
     THEN <<Abs(ax - by), (ax > by /\ a < 0) \/ (ax < by /\ b < 0), mo>>
     ELSE <<ax + by, a < 0 \/ b < 0, mo \/ ax + by >= TW>>

\* state after the swap at the head of the loop
S == IF y >= x THEN [x |-> y, y |-> x, A |-> C, B |-> D, C |-> A, D |-> B]
     ELSE [x |-> x, y |-> y, A |-> A, B |-> B, C |-> C, D |-> D]
LX == Bits(S.x)
LY == Bits(S.y)
Small == LX < WB /\ LY < WB
Slow == LX + G >= NW * WB \/ LY + G >= NW * WB \/ Top(S.y, LX) < P2(WB \div 2)

Init ==
  /\ n0 \in 0..(P2(MAXB) - 1) /\ p0 \in 0..(P2(MAXB) - 1) /\ ext \in BOOLEAN
  /\ x = n0 /\ y = p0 /\ A = 1 /\ B = 0 /\ C = 0 /\ D = 1
  /\ pc = "loop" /\ g = 0 /\ u = 0 /\ v = 0 /\ ovf = FALSE /\ mb = 1 /\ last = "init"

Fin(gg, uu, vv, how) ==
  /\ pc' = "done" /\ g' = gg /\ u' = uu /\ v' = vv /\ last' = how
  /\ UNCHANGED <<n0, p0, ext, x, y, A, B, C, D, ovf, mb>>

Return ==
  /\ pc = "loop" /\ (LX = 0 \/ LY = 0)
  /\ IF LX = 0 THEN Fin(S.y, S.C, S.D, "ret") ELSE Fin(S.x, S.A, S.B, "ret")

Finish64 ==
  /\ pc = "loop" /\ LX # 0 /\ LY # 0 /\ Small
  /\ LET e == XG(S.x, S.y) IN
     IF ext THEN Fin(e[1], e[2] * S.A + e[3] * S.C, e[2] * S.B + e[3] * S.D, "fin64")
     ELSE Fin(e[1], 0, 0, "fin64")

Step(xx, yy, a, b, c, d, o, m, how) ==
  /\ x' = xx /\ y' = yy /\ A' = a /\ B' = b /\ C' = c /\ D' = d
  /\ ovf' = (ovf \/ o) /\ mb' = Max2(mb, m) /\ last' = how
  /\ UNCHANGED <<n0, p0, ext, pc, g, u, v>>

SlowStep ==
  /\ pc = "loop" /\ LX # 0 /\ LY # 0 /\ ~Small /\ Slow
  /\ LET q == S.x \div S.y
         r == S.x % S.y
     IN IF ext /\ 2 * r > S.y
        THEN Step(S.y, S.y - r, S.C, S.D, (q + 1) * S.C - S.A, (q + 1) * S.D - S.B, 2 * r >= TW, 0, "slow+")
        ELSE Step(S.y, r, S.C, S.D, S.A - q * S.C, S.B - q * S.D, ext /\ 2 * r >= TW, 0, "slow")

FastStep ==
  /\ pc = "loop" /\ LX # 0 /\ LY # 0 /\ ~Small /\ ~Slow
  /\ LET m  == Red(1, 0, 0, 1, Top(S.x, LX), Top(S.y, LX))
         sz == (LX + WB - 1) \div WB
         d1 == Dot(m[1], S.x, m[2], S.y, sz)
         d2 == Dot(m[3], S.x, m[4], S.y, sz)
         s1 == IF d1[2] THEN -1 ELSE 1
         s2 == IF d2[2] THEN -1 ELSE 1
     IN Step(d1[1], d2[1],
             s1 * (m[1] * S.A + m[2] * S.C), s1 * (m[1] * S.B + m[2] * S.D),
             s2 * (m[3] * S.A + m[4] * S.C), s2 * (m[3] * S.B + m[4] * S.D),
             d1[3] \/ d2[3],
             Max2(Max2(Abs(m[1]), Abs(m[2])), Max2(Abs(m[3]), Abs(m[4]))), "fast")

Next == Return \/ Finish64 \/ SlowStep \/ FastStep \/ (pc = "done" /\ UNCHANGED vars)
Spec == Init /\ [][Next]_vars

-----------------------------------------------------------------------------
Lattice == x = A * n0 + B * p0 /\ y = C * n0 + D * p0
Unimodular == Abs(A * D - B * C) = 1
GcdPreserved == GcdN(x, y) = GcdN(n0, p0)
NoOverflow == ~ovf
MatrixBound == mb <= P2(G)
CofactorFits == \A m \in {A, B, C, D, u, v} : Abs(m) < TW \div 2
ResultOK == pc = "done" => (g = GcdN(n0, p0) /\ (ext => u * n0 + v * p0 = g))
\* termination: every step of the loop strictly decreases x + y
Progress == [][pc' = "loop" => x' + y' < x + y]_vars
\* reachability questions (each expected to be violated: the branch is taken)
FastUnreachable == last # "fast"
SlowPlusUnreachable == last # "slow+"
NegSignUnreachable == ~(last = "fast" /\ (A < 0 \/ B < 0) /\ (C < 0 \/ D < 0))
\* which condition sends an iteration to the multiprecision quotient (compared with the real loop by
\* GcdStepTrace: field "why" of the slow events), and the return with both operands zero
InLoop == pc = "loop" /\ LX # 0 /\ LY # 0 /\ ~Small
SlowWideUnreachable == ~(InLoop /\ LX + G >= NW * WB)
SlowTopSmallUnreachable == ~(InLoop /\ LX + G < NW * WB /\ LY + G < NW * WB /\ Top(S.y, LX) < P2(WB \div 2))
BothZeroUnreachable == ~(pc = "loop" /\ LX = 0)
=============================================================================
