------------------------------- MODULE MC_GcdInd -------------------------------
(***************************************************************************)
(* TLC link between Gcd.tla (the scaled model C09 checks) and its          *)
(* unbounded restatement GcdInd.tla:                                       *)
(*  IndOnOrig   GcdInd!IndInv holds in every state TLC reaches in Gcd.tla  *)
(*              (extended variant; the reduce64 matrix is not a variable   *)
(*              there: identity);                                          *)
(*  StepsMatch  every step of Gcd.tla is a step of GcdInd: Return,         *)
(*              Finish64 (with the cofactors XG returns), SlowStep with    *)
(*              q = x div y (plain or rounded), FastStep = ApplyFast of    *)
(*              the matrix Red returns;                                    *)
(*  RedMatch    the matrix Red returns is reached from the identity by     *)
(*              GcdInd's RedSwap / RedSub / RedSubPlus steps (the          *)
(*              recursion of Red restated as a path search bounded by the  *)
(*              same guards).                                              *)
(***************************************************************************)
EXTENDS Gcd

I == INSTANCE GcdInd WITH ra <- 1, rb <- 0, rc <- 0, rd <- 1

IndOnOrig == I!TypeOK /\ I!Lattice /\ I!Unimodular /\ I!RedUnimod /\ (ext => I!BezoutOK)

\* Red with the matrix path: TRUE iff every recursive call of Gcd!Red is one of GcdInd's reduce64 steps
RECURSIVE RedPath(_, _, _, _, _, _)
RedPath(a, b, c, d, uu, vv) ==
  IF ~(uu \div P2(T) > 0 /\ vv \div P2(T) > 0) THEN TRUE
  ELSE IF uu < vv THEN RedPath(c, d, a, b, vv, uu)                                      \* I!RedSwap
  ELSE LET q == uu \div vv
           r == uu % vv
       IN IF Bits(q + 1) + Bits(Max2(Abs(c), Abs(d))) > G THEN TRUE
          ELSE IF r > vv \div 2
               THEN /\ Red(a, b, c, d, uu, vv) = Red(c, d, (q + 1) * c - a, (q + 1) * d - b, vv, vv - r)   \* I!RedSubPlusWith(q)
                    /\ RedPath(c, d, (q + 1) * c - a, (q + 1) * d - b, vv, vv - r)
               ELSE /\ Red(a, b, c, d, uu, vv) = Red(c, d, a - q * c, b - q * d, vv, r)                     \* I!RedSubWith(q)
                    /\ RedPath(c, d, a - q * c, b - q * d, vv, r)

FinAs(gg, uu, vv) == pc' = "done" /\ g' = gg /\ (ext => u' = uu /\ v' = vv)
                     /\ UNCHANGED <<n0, p0, x, y, A, B, C, D>>
StepsMatch ==
  [][ /\ (pc = "loop" /\ (LX = 0 \/ LY = 0)) => (ext => I!Return) /\ (I!Sx = S.x /\ I!Sy = S.y /\ I!SA = S.A /\ I!SD = S.D)
      /\ (pc = "loop" /\ LX # 0 /\ LY # 0 /\ Small) =>
           LET e == XG(S.x, S.y) IN e[1] = e[2] * S.x + e[3] * S.y /\ (ext => I!Finish64With(e[2], e[3]))
      /\ (pc = "loop" /\ LX # 0 /\ LY # 0 /\ ~Small /\ Slow) =>
           LET q == S.x \div S.y IN I!SlowWith(q) \/ I!SlowPlusWith(q)
      /\ (pc = "loop" /\ LX # 0 /\ LY # 0 /\ ~Small /\ ~Slow) =>
           LET m == Red(1, 0, 0, 1, Top(S.x, LX), Top(S.y, LX)) IN
             /\ I!ApplyFast(m[1], m[2], m[3], m[4])
             /\ Abs(m[1] * m[4] - m[2] * m[3]) = 1
             /\ RedPath(1, 0, 0, 1, Top(S.x, LX), Top(S.y, LX))
    ]_<<x, y, A, B, C, D, pc, g, u, v>>
=============================================================================
