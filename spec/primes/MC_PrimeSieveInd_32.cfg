SPECIFICATION Spec
CONSTANT Widths = {32}
CONSTANT Wd = 32
INVARIANT IndOnOrig
PROPERTY StepsMatch
CHECK_DEADLOCK FALSE
