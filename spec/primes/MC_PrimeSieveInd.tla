-------------------------- MODULE MC_PrimeSieveInd --------------------------
(***************************************************************************)
(* TLC link between PrimeSieveModel (the model C17 checks) and its         *)
(* unbounded restatement PrimeSieveInd:                                    *)
(*  (1) IndOnOrig: on every state TLC reaches in the ORIGINAL model, the    *)
(*      inductive invariant of PrimeSieveInd holds (constants NP, K, P :=  *)
(*      the primes below w; the cursor o is not a variable of the original *)
(*      model and the original is never inside a marking loop);            *)
(*  (2) StepsMatch: every step of the ORIGINAL model is a step of          *)
(*      PrimeSieveInd, a Mark step being the composition MarkBegin ;       *)
(*      Loop3Step* ; Loop3Exit ; TailStep* ; TailExit computed by running  *)
(*      the restated loop actions (RunLoop3 / RunTail below are the        *)
(*      transitive closures of exactly those guards and updates).          *)
(***************************************************************************)
EXTENDS PrimeSieveModel
CONSTANT Wd                     \* one width per TLC run (constants of an INSTANCE must be constant-level)
ASSUME Widths = {Wd}

NPo == Len(Smalls(Wd))
Ko == 1..NPo
Po == [k \in Ko |-> Smalls(Wd)[k]]
I == INSTANCE PrimeSieveInd WITH NP <- NPo, K <- Ko, P <- Po, o <- 0

IndOnOrig == /\ NPo \in Nat /\ Po \in [Ko -> Int] /\ \A k \in Ko : Po[k] >= 1
             /\ I!TypeOK /\ I!PhaseInv /\ I!LoopInv /\ I!OffsetInv /\ I!InBounds

\* closures of I!Loop3Step / I!Loop3Exit and I!TailStep / I!TailExit on (cursor, marks)
RECURSIVE RunLoop3(_, _, _)
RunLoop3(c, p, m) == IF c + 3 * p < w THEN RunLoop3(c + 3 * p, p, m \union {c, c + p, c + 2 * p}) ELSE <<c, m>>
RECURSIVE RunTail(_, _, _)
RunTail(c, p, m) == IF c < w THEN RunTail(c + p, p, m \union {c}) ELSE <<c, m>>

StepsMatch ==
  [][ /\ CallEnd => I!CallEnd
      /\ CallFirst => I!CallFirst
      /\ CallSieve => I!CallSieve
      /\ Collect => I!Collect
      /\ Mark => LET a == RunLoop3(offs[pi], Po[pi], marks)
                     b == RunTail(a[1], Po[pi], a[2])
                 IN /\ pi <= NPo /\ phase = "mark"                       \* guard of MarkBegin
                    /\ offs' = [offs EXCEPT ![pi] = b[1] - w]           \* TailExit
                    /\ pi' = pi + 1 /\ phase' = "mark" /\ marks' = b[2]
    ]_vars
=============================================================================
