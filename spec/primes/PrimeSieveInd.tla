---------------------------- MODULE PrimeSieveInd ----------------------------
(***************************************************************************)
(* C17 - the rolling offsets of fbase::PrimeSieve, UNBOUNDED.               *)
(*                                                                         *)
(* PrimeSieveModel.tla is checked by TLC for a finite set of block widths. *)
(* This module RESTATES its offset machinery (same variables w, bc, offs,  *)
(* pi, marks, phase and the same action names) with every quantity a       *)
(* symbolic integer, so that the offsets invariant can be shown INDUCTIVE  *)
(* for every block width w >= 1, every block count bc and every list of    *)
(* moduli P[1..NP] (P[k] >= 1: primality and P[k] < w are not needed):     *)
(*    Apalache:  IndInit => IndInv,  IndInv /\ Next => IndInv'  (Ind*.cfg) *)
(*    TLAPS:     PrimeSieveProofs.tla (same statements, no bound on NP).   *)
(*                                                                         *)
(* Differences with PrimeSieveModel (documented, checked by TLC in          *)
(* MC_PrimeSieveInd.tla on the small widths):                               *)
(*  - the Mark action (recursive operators Loop3/TailLoop there) is cut    *)
(*    into the iterations of the two loops of the code: MarkBegin,         *)
(*    Loop3Step, Loop3Exit, TailStep, TailExit with the cursor o;          *)
(*  - the output variables blk, hist, extra are dropped (they do not       *)
(*    influence offs) and the guard bc # w of next() is kept but w need    *)
(*    not be the number of blocks;                                         *)
(*  - P is an arbitrary list of positive moduli instead of Smalls(w).      *)
(***************************************************************************)
EXTENDS Integers

CONSTANTS
  \* @type: Int;
  NP,                                        \* number of sieving primes
  \* @type: Set(Int);
  K,                                         \* = 1..NP  (a constant: Apalache wants constant bounds in a..b)
  \* @type: Int -> Int;
  P                                          \* the moduli

VARIABLES
  \* @type: Int;
  w,
  \* @type: Int;
  bc,
  \* @type: Int -> Int;
  offs,
  \* @type: Int;
  pi,
  \* @type: Set(Int);
  marks,
  \* @type: Str;
  phase,
  \* @type: Int;
  o

vars == <<w, bc, offs, pi, marks, phase, o>>

MAXNP == 6                                   \* Apalache only (CInit); the TLAPS proof assumes K = 1..NP, NP any natural

Phases == {"idle", "out", "mark", "loop3", "tail", "end"}
Marking == {"mark", "loop3", "tail"}

Init == /\ w \in Nat /\ w >= 1
        /\ bc = 0
        /\ offs = [k \in K |-> (P[k] - 1) - ((w - 1) % P[k])]
        /\ pi = 0 /\ marks = {} /\ phase = "idle" /\ o = 0

CallEnd == /\ phase \in {"idle", "out", "end"} /\ bc = w
           /\ phase' = "end"
           /\ UNCHANGED <<w, bc, offs, pi, marks, o>>
CallFirst == /\ phase = "idle" /\ bc = 0 /\ bc # w
             /\ bc' = 1 /\ phase' = "out"
             /\ UNCHANGED <<w, offs, pi, marks, o>>
CallSieve == /\ phase = "out" /\ bc # 0 /\ bc # w
             /\ marks' = {} /\ pi' = 1 /\ phase' = "mark"
             /\ UNCHANGED <<w, bc, offs, o>>
\* let mut o = offsets[idx]
MarkBegin == /\ phase = "mark" /\ pi <= NP
             /\ o' = offs[pi] /\ phase' = "loop3"
             /\ UNCHANGED <<w, bc, offs, pi, marks>>
\* loop { o3p = o + 3p; if o3p >= len { break }; mark o, o+p, o+2p; o = o3p }
Loop3Step == /\ phase = "loop3" /\ o + 3 * P[pi] < w
             /\ marks' = marks \union {o, o + P[pi], o + 2 * P[pi]}
             /\ o' = o + 3 * P[pi]
             /\ UNCHANGED <<w, bc, offs, pi, phase>>
Loop3Exit == /\ phase = "loop3" /\ o + 3 * P[pi] >= w
             /\ phase' = "tail"
             /\ UNCHANGED <<w, bc, offs, pi, marks, o>>
\* while o < len { mark o; o += p }
TailStep == /\ phase = "tail" /\ o < w
            /\ marks' = marks \union {o}
            /\ o' = o + P[pi]
            /\ UNCHANGED <<w, bc, offs, pi, phase>>
\* offsets[idx] = o - len
TailExit == /\ phase = "tail" /\ o >= w
            /\ offs' = [offs EXCEPT ![pi] = o - w]
            /\ pi' = pi + 1 /\ phase' = "mark"
            /\ UNCHANGED <<w, bc, marks, o>>
Collect == /\ phase = "mark" /\ pi > NP
           /\ bc' = bc + 1 /\ phase' = "out" /\ pi' = 0
           /\ UNCHANGED <<w, offs, marks, o>>
Stutter == UNCHANGED vars                     \* Apalache: a finished run is not a deadlock

Next == CallEnd \/ CallFirst \/ CallSieve \/ MarkBegin \/ Loop3Step \/ Loop3Exit \/ TailStep \/ TailExit
        \/ Collect \/ Stutter
Spec == Init /\ [][Next]_vars

(***************************************************************************)
(* The invariants of PrimeSieveModel that concern offsets and indices.     *)
(***************************************************************************)
\* block the offset of prime k refers to (same expression as PrimeSieveModel!OffsetInv, "mark" = the three marking phases)
\* @type: Int => Int;
NextBlock(k) == IF phase \in Marking /\ k < pi THEN bc + 1 ELSE IF bc = 0 THEN 1 ELSE bc

OffsetInv == \A k \in K : offs[k] >= 0 /\ offs[k] < P[k] /\ ((NextBlock(k) * w + offs[k]) % P[k]) = 0
InBounds == \A i \in marks : 0 <= i /\ i < w

TypeOK == /\ w \in Nat /\ w >= 1
          /\ bc \in Nat
          /\ offs \in [K -> Int]
          /\ pi \in Nat
          /\ marks \subseteq Int
          /\ phase \in Phases
          /\ o \in Int
ConstOK == NP \in Nat /\ NP <= MAXNP /\ K = {k \in 1..MAXNP : k <= NP} /\ P \in [K -> Int] /\ \A k \in K : P[k] >= 1

\* strengthening: where the control is, and the loop invariant of the cursor
PhaseInv == /\ phase \in Marking => bc >= 1 /\ pi >= 1 /\ pi <= NP + 1
            /\ phase \in {"loop3", "tail"} => pi <= NP
LoopInv == phase \in {"loop3", "tail"} =>
             /\ o >= 0 /\ o < w + P[pi]
             /\ ((bc * w + o) % P[pi]) = 0

IndInv == TypeOK /\ PhaseInv /\ LoopInv /\ OffsetInv /\ InBounds

(***************************************************************************)
(* Apalache entry points.  CInit fixes nothing but the shape of the        *)
(* constants: NP <= MAXNP moduli, each any integer >= 1.                   *)
(***************************************************************************)
CInit == ConstOK
\* concrete moduli 2, 3, 5, 7 (then x % P[k] is linear for the solver); widths 1..64, any block count
CInitSmall == /\ NP = 4 /\ K = {1, 2, 3, 4}
              /\ P = [k \in {1, 2, 3, 4} |-> IF k = 1 THEN 2 ELSE IF k = 2 THEN 3 ELSE IF k = 3 THEN 5 ELSE 7]
IndInit == /\ w \in 1..64 /\ bc \in Nat /\ offs \in [K -> Int] /\ pi \in 0..(MAXNP + 1)
           /\ marks \in SUBSET (0..63) /\ phase \in Phases /\ o \in Int
           /\ IndInv
\* one concrete width (then bc * w is linear as well): every block count, every cursor position
IndInit60 == w = 60 /\ IndInit

(***************************************************************************)
(* Deliberately broken variants (the tools must reject them).              *)
(***************************************************************************)
\* off by one in the tail loop: `while o <= len`
TailStepBad == /\ phase = "tail" /\ o <= w
               /\ marks' = marks \union {o}
               /\ o' = o + P[pi]
               /\ UNCHANGED <<w, bc, offs, pi, phase>>
TailExitBad == /\ phase = "tail" /\ o > w
               /\ offs' = [offs EXCEPT ![pi] = o - w]
               /\ pi' = pi + 1 /\ phase' = "mark"
               /\ UNCHANGED <<w, bc, marks, o>>
NextBad == CallEnd \/ CallFirst \/ CallSieve \/ MarkBegin \/ Loop3Step \/ Loop3Exit \/ TailStepBad \/ TailExitBad
           \/ Collect \/ Stutter
\* initial offsets p - (w mod p) instead of (p - 1) - ((w - 1) mod p): equal to p when p divides w
InitBad == /\ w \in Nat /\ w >= 1
           /\ bc = 0
           /\ offs = [k \in K |-> P[k] - (w % P[k])]
           /\ pi = 0 /\ marks = {} /\ phase = "idle" /\ o = 0
=============================================================================
