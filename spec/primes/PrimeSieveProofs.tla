--------------------------- MODULE PrimeSieveProofs ---------------------------
(***************************************************************************)
(* C17 - TLAPS proof that PrimeSieveInd!IndInv (which contains the offsets *)
(* invariant OffsetInv and the index bound InBounds of PrimeSieveModel) is *)
(* an inductive invariant of PrimeSieveInd!Spec for EVERY block width      *)
(* w >= 1, every number of blocks, every number NP of moduli and all       *)
(* moduli P[k] >= 1.   Checked by:  tlapm --threads 4 PrimeSieveProofs.tla  *)
(***************************************************************************)
EXTENDS PrimeSieveInd, TLAPS

ASSUME ConstAssump == /\ NP \in Nat
                      /\ K = 1..NP
                      /\ P \in [K -> Int]
                      /\ \A k \in K : P[k] >= 1

(***************************************************************************)
(* Facts about % with a symbolic positive modulus.                          *)
(***************************************************************************)
LEMMA DivMod == ASSUME NEW x \in Int, NEW p \in Int, p >= 1
                PROVE  x = (x \div p) * p + (x % p) /\ (x \div p) \in Int /\ (x % p) \in 0..(p - 1)
  BY Z3

LEMMA MulNonneg == ASSUME NEW a \in Int, NEW b \in Int, a >= 0, b >= 0 PROVE a * b >= 0
  BY Z3

LEMMA Uniq == ASSUME NEW p \in Int, NEW q \in Int, NEW r \in Int, p >= 1,
                     0 <= q * p + r, q * p + r < p, 0 <= r, r < p
              PROVE  q = 0
<1>1. CASE q >= 1
  <2>0. (q - 1) \in Int /\ (q - 1) >= 0 /\ p >= 0 BY <1>1, Z3
  <2>1. (q - 1) * p >= 0  BY <2>0, MulNonneg, Z3
  <2>2. q * p = (q - 1) * p + p  BY Z3
  <2> QED BY <2>1, <2>2, Z3
<1>2. CASE q <= -1
  <2>0. (0 - q - 1) \in Int /\ (0 - q - 1) >= 0 /\ p >= 0 BY <1>2, Z3
  <2>1. (0 - q - 1) * p >= 0  BY <2>0, MulNonneg, Z3
  <2>2. (0 - q - 1) * p = 0 - q * p - p  BY Z3
  <2>3. q * p \in Int BY Z3
  <2>4. q * p <= 0 - p BY <2>1, <2>2, <2>3, Z3
  <2> QED BY <2>4, <2>3, Z3
<1> QED BY <1>1, <1>2, Z3

LEMMA ModUniq == ASSUME NEW x \in Int, NEW p \in Int, NEW q \in Int, NEW r \in Int, p >= 1,
                        x = q * p + r, 0 <= r, r < p
                 PROVE  x % p = r
<1> DEFINE d == x \div p
<1> DEFINE m == x % p
<1>1. x = d * p + m /\ d \in Int /\ m \in 0..(p - 1)  BY DivMod
<1> HIDE DEF d, m
<1>2a. (q - d) * p = q * p - d * p /\ q * p \in Int /\ d * p \in Int BY <1>1, Z3
<1>2. (q - d) * p + r = m  BY <1>1, <1>2a, Z3
<1>3. (q - d) \in Int /\ 0 <= (q - d) * p + r /\ (q - d) * p + r < p BY <1>1, <1>2, Z3
<1>4. q - d = 0  BY <1>3, Uniq, Z3
<1>5. m = r BY <1>1, <1>2, <1>4, Z3
<1> QED BY <1>5 DEF m

LEMMA SameMod == ASSUME NEW x \in Int, NEW y \in Int, NEW p \in Int, NEW c \in Int, p >= 1,
                        x % p = 0, y = x + c * p
                 PROVE  y % p = 0
<1> DEFINE d == x \div p
<1>1. x = d * p /\ d \in Int  BY DivMod, Z3
<1> HIDE DEF d
<1>2a. (d + c) * p = d * p + c * p /\ d * p \in Int /\ c * p \in Int BY <1>1, Z3
<1>2. y = (d + c) * p + 0 /\ (d + c) \in Int BY <1>1, <1>2a, Z3
<1>3. 0 <= 0 /\ 0 < p /\ 0 \in Int BY Z3
<1> QED BY <1>2, <1>3, ModUniq, Z3

(***************************************************************************)
(* The invariant holds initially.                                          *)
(***************************************************************************)
THEOREM InitOK == Init => IndInv
<1> SUFFICES ASSUME Init PROVE IndInv  OBVIOUS
<1> USE ConstAssump
<1>1. TypeOK /\ PhaseInv /\ LoopInv /\ InBounds
  BY Z3 DEF Init, TypeOK, PhaseInv, LoopInv, InBounds, Phases, Marking
<1>2. OffsetInv
  <2> SUFFICES ASSUME NEW k \in K
               PROVE  offs[k] >= 0 /\ offs[k] < P[k] /\ ((NextBlock(k) * w + offs[k]) % P[k]) = 0
      BY DEF OffsetInv
  <2> DEFINE p == P[k]
  <2> DEFINE m == (w - 1) % p
  <2> DEFINE d == (w - 1) \div p
  <2>1. p \in Int /\ p >= 1 /\ w \in Int  BY Z3 DEF Init
  <2>2. (w - 1) \in Int BY <2>1, Z3
  <2>3. w - 1 = d * p + m /\ d \in Int /\ m \in 0..(p - 1)  BY <2>1, <2>2, DivMod
  <2>4. offs[k] = (p - 1) - m  BY DEF Init
  <2>5. NextBlock(k) = 1  BY Z3 DEF Init, NextBlock, Marking
  <2> HIDE DEF p, m, d
  <2>6. (d + 1) * p = d * p + p /\ d * p \in Int BY <2>1, <2>3, Z3
  <2>7. 1 * w + ((p - 1) - m) = (d + 1) * p + 0 /\ (d + 1) \in Int /\ (1 * w + ((p - 1) - m)) \in Int
        BY <2>1, <2>3, <2>6, Z3
  <2>7a. 0 \in Int /\ 0 <= 0 /\ 0 < p  BY <2>1, Z3
  <2>8. (1 * w + ((p - 1) - m)) % p = 0  BY <2>1, <2>7, <2>7a, ModUniq, Z3
  <2> QED BY <2>1, <2>3, <2>4, <2>5, <2>8, Z3 DEF p
<1> QED BY <1>1, <1>2 DEF IndInv

(***************************************************************************)
(* Every step (and every stuttering step) preserves it.                    *)
(***************************************************************************)
THEOREM StepOK == IndInv /\ [Next]_vars => IndInv'
<1> SUFFICES ASSUME IndInv, [Next]_vars PROVE IndInv'  OBVIOUS
<1> USE ConstAssump
<1>a. CASE CallEnd
  BY <1>a, Z3 DEF IndInv, TypeOK, PhaseInv, LoopInv, OffsetInv, InBounds, NextBlock, Marking, Phases, CallEnd
<1>b. CASE CallFirst
  BY <1>b, Z3 DEF IndInv, TypeOK, PhaseInv, LoopInv, OffsetInv, InBounds, NextBlock, Marking, Phases, CallFirst
<1>c. CASE CallSieve
  <2>1. TypeOK' /\ PhaseInv' /\ LoopInv' /\ InBounds'
    BY <1>c, Z3 DEF IndInv, TypeOK, PhaseInv, LoopInv, InBounds, Marking, Phases, CallSieve
  <2>2. \A k \in K : NextBlock(k)' = NextBlock(k)
    BY <1>c, Z3 DEF IndInv, TypeOK, NextBlock, Marking, CallSieve
  <2>3. OffsetInv'
    BY <1>c, <2>2 DEF IndInv, OffsetInv, CallSieve
  <2> QED BY <2>1, <2>3 DEF IndInv
<1>d. CASE MarkBegin
  BY <1>d, Z3 DEF IndInv, TypeOK, PhaseInv, LoopInv, OffsetInv, InBounds, NextBlock, Marking, Phases, MarkBegin
<1>e. CASE Loop3Step
  <2> DEFINE p == P[pi]
  <2> DEFINE x == bc * w + o
  <2>0. phase \in {"loop3", "tail"} /\ pi \in K /\ o \in Int /\ bc \in Int /\ w \in Int
        BY <1>e, Z3 DEF IndInv, TypeOK, PhaseInv, Marking, Loop3Step
  <2>0a. p \in Int /\ p >= 1  BY <2>0
  <2>0b. bc * w \in Int  BY <2>0, Z3
  <2>0c. x % p = 0  BY <2>0 DEF IndInv, LoopInv
  <2>1. pi \in K /\ p \in Int /\ p >= 1 /\ o \in Int /\ bc * w \in Int /\ x \in Int /\ x % p = 0
        BY <2>0, <2>0a, <2>0b, <2>0c, Z3
  <2>2. bc * w + (o + 3 * p) = x + 3 * p /\ (bc * w + (o + 3 * p)) \in Int  BY <2>1, Z3
  <2>3. (bc * w + (o + 3 * p)) % p = 0  BY <2>1, <2>2, SameMod, Z3
  <2> HIDE DEF x
  <2> QED BY <1>e, <2>1, <2>3, Z3
          DEF IndInv, TypeOK, PhaseInv, LoopInv, OffsetInv, InBounds, NextBlock, Marking, Phases, Loop3Step
<1>f. CASE Loop3Exit
  BY <1>f, Z3 DEF IndInv, TypeOK, PhaseInv, LoopInv, OffsetInv, InBounds, NextBlock, Marking, Phases, Loop3Exit
<1>g. CASE TailStep
  <2> DEFINE p == P[pi]
  <2> DEFINE x == bc * w + o
  <2>0. phase \in {"loop3", "tail"} /\ pi \in K /\ o \in Int /\ bc \in Int /\ w \in Int
        BY <1>g, Z3 DEF IndInv, TypeOK, PhaseInv, Marking, TailStep
  <2>0a. p \in Int /\ p >= 1  BY <2>0
  <2>0b. bc * w \in Int  BY <2>0, Z3
  <2>0c. x % p = 0  BY <2>0 DEF IndInv, LoopInv
  <2>1. pi \in K /\ p \in Int /\ p >= 1 /\ o \in Int /\ bc * w \in Int /\ x \in Int /\ x % p = 0
        BY <2>0, <2>0a, <2>0b, <2>0c, Z3
  <2>2. bc * w + (o + p) = x + 1 * p /\ (bc * w + (o + p)) \in Int  BY <2>1, Z3
  <2>3. (bc * w + (o + p)) % p = 0  BY <2>1, <2>2, SameMod, Z3
  <2> HIDE DEF x
  <2> QED BY <1>g, <2>1, <2>3, Z3
          DEF IndInv, TypeOK, PhaseInv, LoopInv, OffsetInv, InBounds, NextBlock, Marking, Phases, TailStep
<1>h. CASE TailExit
  <2>0. phase \in {"loop3", "tail"} /\ pi \in K /\ o \in Int /\ bc \in Int /\ w \in Int
        BY <1>h, Z3 DEF IndInv, TypeOK, PhaseInv, Marking, TailExit
  <2>0a. P[pi] \in Int /\ P[pi] >= 1  BY <2>0
  <2>0b. bc * w \in Int  BY <2>0, Z3
  <2>1. pi \in K /\ P[pi] \in Int /\ P[pi] >= 1 /\ o \in Int /\ bc \in Int /\ w \in Int /\ bc * w \in Int
        BY <2>0, <2>0a, <2>0b
  <2>2. (bc + 1) * w + (o - w) = bc * w + o  BY <2>1, Z3
  <2>3. (((bc + 1) * w + (o - w)) % P[pi]) = 0  BY <1>h, <2>0, <2>2, Z3 DEF IndInv, LoopInv, TailExit
  <2>4. TypeOK' /\ PhaseInv' /\ LoopInv' /\ InBounds'
    BY <1>h, <2>1, Z3 DEF IndInv, TypeOK, PhaseInv, LoopInv, InBounds, Marking, Phases, TailExit
  <2>5. OffsetInv'
    <3> SUFFICES ASSUME NEW k \in K
                 PROVE  offs'[k] >= 0 /\ offs'[k] < P[k] /\ ((NextBlock(k)' * w' + offs'[k]) % P[k]) = 0
        BY DEF OffsetInv
    <3>0. offs \in [K -> Int] /\ offs' = [offs EXCEPT ![pi] = o - w] /\ w' = w /\ k \in Int /\ pi \in Int
        BY <1>h, <2>1, Z3 DEF IndInv, TypeOK, TailExit
    <3>1. CASE k = pi
      <4>1. offs'[k] = o - w  BY <3>0, <3>1, <2>1
      <4>2. NextBlock(k)' = bc + 1  BY <1>h, <3>0, <3>1, Z3 DEF NextBlock, Marking, TailExit
      <4>3. o - w >= 0 /\ o - w < P[pi]  BY <1>h, <2>0, <2>1, Z3 DEF IndInv, LoopInv, TailExit
      <4> QED BY <4>1, <4>2, <4>3, <2>3, <3>0, <3>1
    <3>2. CASE k # pi
      <4>1. offs'[k] = offs[k]  BY <3>0, <3>2
      <4>2. NextBlock(k)' = NextBlock(k)  BY <1>h, <3>0, <3>2, <2>0, Z3 DEF NextBlock, Marking, TailExit
      <4> QED BY <4>1, <4>2, <3>0 DEF IndInv, OffsetInv
    <3> QED BY <3>1, <3>2
  <2> QED BY <2>4, <2>5 DEF IndInv
<1>i. CASE Collect
  BY <1>i, Z3 DEF IndInv, TypeOK, PhaseInv, LoopInv, OffsetInv, InBounds, NextBlock, Marking, Phases, Collect
<1>j. CASE UNCHANGED vars
  BY <1>j, Z3 DEF IndInv, TypeOK, PhaseInv, LoopInv, OffsetInv, InBounds, NextBlock, Marking, Phases, vars
<1> QED BY <1>a, <1>b, <1>c, <1>d, <1>e, <1>f, <1>g, <1>h, <1>i, <1>j DEF Next, Stutter

THEOREM Inductive == Spec => []IndInv
  BY InitOK, StepOK, PTL DEF Spec

COROLLARY Spec => [](OffsetInv /\ InBounds)
  BY Inductive, PTL DEF IndInv
=============================================================================
