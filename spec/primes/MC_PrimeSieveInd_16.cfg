SPECIFICATION Spec
CONSTANT Widths = {16}
CONSTANT Wd = 16
INVARIANT IndOnOrig
PROPERTY StepsMatch
CHECK_DEADLOCK FALSE
