SPECIFICATION Spec
CONSTANT Widths = {4}
CONSTANT Wd = 4
INVARIANT IndOnOrig
PROPERTY StepsMatch
CHECK_DEADLOCK FALSE
