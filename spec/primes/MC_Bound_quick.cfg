SPECIFICATION Spec
CONSTANT MaxSeg = 19
INVARIANTS BoundHolds Report
CHECK_DEADLOCK FALSE
