SPECIFICATION Spec
CONSTANT Widths = {17}
CONSTANT Wd = 17
INVARIANT IndOnOrig
PROPERTY StepsMatch
CHECK_DEADLOCK FALSE
