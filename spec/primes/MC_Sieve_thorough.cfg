SPECIFICATION Spec
CONSTANT Widths = {4, 5, 6, 7, 8, 9, 10, 11, 12, 13, 14, 15, 16, 17, 18, 19, 20, 21, 22, 23, 24, 25, 26, 27, 28, 29, 30, 31, 32, 33, 48, 63, 64, 65, 96}
INVARIANTS OffsetInv InBounds BlockExact EndEmpty HistPrefix
CHECK_DEADLOCK FALSE
