SPECIFICATION Spec
CONSTANT MaxSeg = 240
INVARIANTS BoundHolds Report
CHECK_DEADLOCK FALSE
