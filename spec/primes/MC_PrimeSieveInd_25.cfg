SPECIFICATION Spec
CONSTANT Widths = {25}
CONSTANT Wd = 25
INVARIANT IndOnOrig
PROPERTY StepsMatch
CHECK_DEADLOCK FALSE
