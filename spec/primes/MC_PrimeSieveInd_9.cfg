SPECIFICATION Spec
CONSTANT Widths = {9}
CONSTANT Wd = 9
INVARIANT IndOnOrig
PROPERTY StepsMatch
CHECK_DEADLOCK FALSE
