SPECIFICATION Spec
CONSTANT Widths = {4, 8, 15, 16, 17, 32}
INVARIANTS OffsetInv InBounds BlockExact EndEmpty HistPrefix
CHECK_DEADLOCK FALSE
