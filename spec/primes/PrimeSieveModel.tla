--------------------------- MODULE PrimeSieveModel ---------------------------
(***************************************************************************)
(* C17 (M) - fbase::PrimeSieve as a state machine, block width a parameter.*)
(*                                                                         *)
(* The real sieve has width 2^16 and walks 2^16 blocks up to 2^32 with the *)
(* primes below 2^16.  Here the width W ranges over a set of small values: *)
(* W blocks of width W up to W^2, sieved with the primes below W.  The     *)
(* marking loop is transcribed with its unrolling by three and its tail,   *)
(* and the rolling offsets (offset <- o - W).  One action per call of      *)
(* next(), per prime processed, and per collection of the block.           *)
(*                                                                         *)
(* Checked in every state: the offsets invariant, every struck index is    *)
(* inside the block (the code indexes unchecked), each returned block is   *)
(* exactly the primes of its interval, the concatenation of all blocks is  *)
(* the increasing list of all primes below W^2, and calls after the last   *)
(* block return the empty block.                                           *)
(***************************************************************************)
EXTENDS Naturals, Sequences, FiniteSets, SequencesExt, TLC
CONSTANT Widths
VARIABLES w, bc, offs, pi, marks, blk, phase, hist, extra
vars == <<w, bc, offs, pi, marks, blk, phase, hist, extra>>

IsPrime(n) == n >= 2 /\ \A d \in 2..(n - 1) : n % d # 0
PrimesIn(lo, hi) == SetToSortSeq({n \in lo..hi : IsPrime(n)}, <)     \* by the definition
Smalls(W) == PrimesIn(0, W - 1)                                       \* primes(6542) of the code

RECURSIVE Loop3(_, _, _, _)
Loop3(o, p, W, m) ==                      \* loop { o3p = o + 3p; if o3p >= len break; mark o, o+p, o+2p; o = o3p }
  LET o3p == o + 3 * p IN
  IF o3p >= W THEN <<o, m>> ELSE Loop3(o3p, p, W, m \cup {o, o + p, o + 2 * p})
RECURSIVE TailLoop(_, _, _, _)
TailLoop(o, p, W, m) == IF o < W THEN TailLoop(o + p, p, W, m \cup {o}) ELSE <<o, m>>     \* while o < len { mark o; o += p }
MarkPrime(o, p, W) == LET a == Loop3(o, p, W, {}) IN TailLoop(a[1], p, W, a[2])

Init == /\ w \in Widths
        /\ bc = 0
        /\ offs = [k \in 1..Len(Smalls(w)) |-> LET p == Smalls(w)[k] IN (p - 1) - ((w - 1) % p)]
        /\ pi = 0 /\ marks = {} /\ blk = <<>> /\ phase = "idle" /\ hist = <<>> /\ extra = 0

\* next(): the three branches
CallEnd == /\ phase \in {"idle", "out", "end"} /\ bc = w /\ extra < 2
           /\ blk' = <<>> /\ phase' = "end" /\ extra' = extra + 1
           /\ UNCHANGED <<w, bc, offs, pi, marks, hist>>
CallFirst == /\ phase = "idle" /\ bc = 0 /\ bc # w
             /\ bc' = 1 /\ blk' = Smalls(w) /\ phase' = "out" /\ hist' = hist \o Smalls(w)
             /\ UNCHANGED <<w, offs, pi, marks, extra>>
CallSieve == /\ phase = "out" /\ bc # 0 /\ bc # w
             /\ marks' = {} /\ pi' = 1 /\ phase' = "mark"
             /\ UNCHANGED <<w, bc, offs, blk, hist, extra>>
Mark == /\ phase = "mark" /\ pi <= Len(offs)
        /\ LET r == MarkPrime(offs[pi], Smalls(w)[pi], w) IN
           /\ marks' = marks \cup r[2]
           /\ offs' = [offs EXCEPT ![pi] = r[1] - w]
        /\ pi' = pi + 1
        /\ UNCHANGED <<w, bc, blk, phase, hist, extra>>
Collect == /\ phase = "mark" /\ pi > Len(offs)
           /\ LET b == SetToSortSeq({bc * w + i : i \in (0..(w - 1)) \ marks}, <) IN
              blk' = b /\ hist' = hist \o b
           /\ bc' = bc + 1 /\ phase' = "out" /\ pi' = 0
           /\ UNCHANGED <<w, offs, marks, extra>>
Next == CallEnd \/ CallFirst \/ CallSieve \/ Mark \/ Collect
Spec == Init /\ [][Next]_vars

\* offsets[p] is the offset, inside the block the next call will sieve, of the first multiple of p
OffsetInv ==
  \A k \in 1..Len(offs) :
    LET p == Smalls(w)[k]
        nb == IF phase = "mark" /\ k < pi THEN bc + 1 ELSE IF bc = 0 THEN 1 ELSE bc
    IN offs[k] >= 0 /\ offs[k] < p /\ (nb * w + offs[k]) % p = 0
InBounds == marks \subseteq 0..(w - 1)
BlockExact == phase = "out" => blk = PrimesIn((bc - 1) * w, bc * w - 1)
EndEmpty == phase = "end" => blk = <<>> /\ bc = w /\ hist = PrimesIn(0, w * w - 1)
HistPrefix == phase \in {"out", "end"} => hist = PrimesIn(0, bc * w - 1)
=============================================================================
