----------------------------- MODULE PrimesTrace -----------------------------
(***************************************************************************)
(* C17 - prime enumeration is exact; stage-1 exponent blocks cover every   *)
(* prime power below B1.                                                   *)
(*                                                                         *)
(* Every event is judged against the specification's own primes            *)
(* (SieveDefs17), never against anything the library computed.             *)
(*                                                                         *)
(*  primes        header of one call primes(k): len = k, first element 2   *)
(*  primes_chunk  the returned list cut (by the harness, at the positions  *)
(*                where value div 2^16 changes) into runs; run number n    *)
(*                must lie in segment bprev + 1, be strictly increasing    *)
(*                and be exactly the primes of that segment (up to its     *)
(*                last element for the final run; from lo on for a list    *)
(*                that does not start at 2, i.e. the large primes of the   *)
(*                64-bit P-1 base): no composite listed, no prime skipped. *)
(*  sieve_block   one PrimeSieve::next() result, call number b: exactly    *)
(*                the primes of [b 2^16, (b+1) 2^16), increasing.          *)
(*  sieve_end     call number 2^16 (and later): empty.                     *)
(*  smooth, pm1_blocks, pm1base                                            *)
(*                exponent blocks, each with the factorisation the harness *)
(*                found by its own trial division: v = rest * prod p^e     *)
(*                (witness); CoverOK: for every prime p < B1 the exponents *)
(*                of p over all blocks add up to at least max{e: p^e < B1}.*)
(***************************************************************************)
EXTENDS BigNat, TraceLib, SieveDefs17
VARIABLE l

ASSUME P256 = {p \in 2..255 : IsPrimeDef(p)}
ASSUME \A n \in (0..2000) \cup (64000..65535) : (n \in SmallPrimeSet) <=> IsPrimeDef(n)

Increasing(s) == \A i \in 1..(Len(s) - 1) : s[i] < s[i + 1]
SeqSet(s) == Sorted({ s[i] : i \in 1..Len(s) })

\* no composite (and nothing outside lo..hi) listed
SoundIn(exp, idx, lo, hi) == \A i \in 1..Len(idx) : idx[i] >= lo /\ idx[i] <= hi /\ idx[i] \in exp
\* no prime of lo..hi skipped
CompleteIn(exp, idx, lo, hi) == LET got == SeqSet(idx) IN \A x \in exp : (x >= lo /\ x <= hi) => x \in got

InRange(b) == b >= 0 /\ b < W16

\* ---- exponent blocks
Flat(blocks) == FoldLeft(LAMBDA acc, blk : acc \o blk.f, <<>>, blocks)
BlockValue(blk) == FoldLeft(LAMBDA acc, x : Mul(acc, PowInt(FromInt(x[1]), x[2])), blk.rest, blk.f)
BlockOK(blk) == /\ blk.v = BlockValue(blk)
                /\ BitLen(blk.v) <= blk.w
                /\ \A i \in 1..Len(blk.f) : blk.f[i][1] >= 2 /\ blk.f[i][2] >= 1

RECURSIVE MaxExpFrom(_, _, _, _)
MaxExpFrom(p, b1, pw, e) == IF pw <= (b1 - 1) \div p THEN MaxExpFrom(p, b1, pw * p, e + 1) ELSE e
MaxExp(p, b1) == MaxExpFrom(p, b1, p, 1)              \* max {e : p^e < b1}, for p < b1

CoverOK(b1, blocks) ==
  LET F == Flat(blocks)
      PS == Sorted({ F[i][1] : i \in 1..Len(F) })
      SumExp(p) == FoldLeft(LAMBDA acc, x : IF x[1] = p THEN acc + x[2] ELSE acc, 0, F)
  IN \A b \in 0..((b1 - 1) \div W16) :
       \A i \in SegPrimeIdx(b) :
         LET p == b * W16 + i IN
           \/ p >= b1
           \/ IF p <= (b1 - 1) \div p THEN SumExp(p) >= MaxExp(p, b1) ELSE p \in PS

Verdict(i, e) ==
  IF Has(e, "outcome") THEN Strict(i, e.op, FALSE)      \* a panic / hang is not an action of the specification
  ELSE
  CASE e.op = "primes" ->
         /\ Strict(i, "primes.length", e.len = e.k)
         /\ Strict(i, "primes.first", e.k = 0 \/ e.first = 2)
    [] e.op = "primes_chunk" ->
         LET n == Len(e.idx)
             hi == IF e.last /\ n >= 1 THEN e.idx[n] ELSE W16 - 1
             exp == IF InRange(e.b) THEN SegPrimeIdx(e.b) ELSE {}
         IN /\ Strict(i, "primes_chunk.order", n >= 1 /\ Increasing(e.idx) /\ e.b = e.bprev + 1 /\ InRange(e.b))
            /\ Strict(i, "primes_chunk.composite_listed", InRange(e.b) => SoundIn(exp, e.idx, e.lo, hi))
            /\ Strict(i, "primes_chunk.prime_skipped", InRange(e.b) => CompleteIn(exp, e.idx, e.lo, hi))
    [] e.op = "sieve_block" ->
         LET exp == IF InRange(e.b) THEN SegPrimeIdx(e.b) ELSE {} IN
         /\ Strict(i, "sieve_block.order", Increasing(e.idx) /\ InRange(e.b))
         /\ Strict(i, "sieve_block.composite_listed", SoundIn(exp, e.idx, 0, W16 - 1))
         /\ Strict(i, "sieve_block.prime_skipped", CompleteIn(exp, e.idx, 0, W16 - 1))
    [] e.op = "sieve_end" -> Strict(i, "sieve_end", e.b >= W16 /\ e.len = 0)
    [] e.op \in {"smooth", "pm1_blocks", "pm1base"} ->
         /\ Witness(i, e.op \o ".factorisation", \A j \in 1..Len(e.blocks) : BlockOK(e.blocks[j]))
         /\ Witness(i, e.op \o ".complete_run", ~e.cut)       \* stage 1 was not cut short by a found factor
         /\ Strict(i, e.op \o ".cover", CoverOK(e.b1, e.blocks))
         /\ Drift(i, e.op \o ".cofactor", \A j \in 1..Len(e.blocks) : e.blocks[j].rest = One)
    [] OTHER -> Strict(i, "unknown op", FALSE)

Init == l = 1
Next == l <= NRec /\ l' = l + 1 /\ Verdict(l, Rec[l])
Spec == Init /\ [][Next]_l
=============================================================================
