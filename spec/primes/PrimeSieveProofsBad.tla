------------------------- MODULE PrimeSieveProofsBad -------------------------
(***************************************************************************)
(* Non-vacuity of PrimeSieveProofs: the same proof script applied to the   *)
(* off-by-one tail loop `while o <= len` (PrimeSieveInd!TailStepBad) and   *)
(* to the initial offsets p - (w mod p) (PrimeSieveInd!InitBad).  Both     *)
(* claims are FALSE; tlapm must report failed obligations for this module. *)
(***************************************************************************)
EXTENDS PrimeSieveProofs

THEOREM TailStepBadOK == IndInv /\ TailStepBad => IndInv'
<1> SUFFICES ASSUME IndInv, TailStepBad PROVE IndInv'  OBVIOUS
<1> USE ConstAssump
<1> DEFINE p == P[pi]
<1> DEFINE x == bc * w + o
<1>0. phase \in {"loop3", "tail"} /\ pi \in K /\ o \in Int /\ bc \in Int /\ w \in Int
      BY Z3 DEF IndInv, TypeOK, PhaseInv, Marking, TailStepBad
<1>0a. p \in Int /\ p >= 1  BY <1>0
<1>0b. bc * w \in Int  BY <1>0, Z3
<1>0c. x % p = 0  BY <1>0 DEF IndInv, LoopInv
<1>2. bc * w + (o + p) = x + 1 * p /\ (bc * w + (o + p)) \in Int /\ x \in Int  BY <1>0, <1>0a, <1>0b, Z3
<1>3. (bc * w + (o + p)) % p = 0  BY <1>0, <1>0a, <1>0c, <1>2, SameMod, Z3
<1> HIDE DEF x
<1> QED BY <1>0, <1>0a, <1>3, Z3
        DEF IndInv, TypeOK, PhaseInv, LoopInv, OffsetInv, InBounds, NextBlock, Marking, Phases, TailStepBad

THEOREM InitBadOK == InitBad => \A k \in K : offs[k] < P[k]
  BY ConstAssump, DivMod, Z3 DEF InitBad
=============================================================================
