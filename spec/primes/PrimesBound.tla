----------------------------- MODULE PrimesBound -----------------------------
(***************************************************************************)
(* C17 (M) - the arithmetic fact fbase::primes(k) rests on: its sieve has  *)
(* max(100, k * bitlen(k)) div 2 cells for the odd numbers 2i+1, so the    *)
(* k-th prime is found iff  p_k <= 2 * (bound div 2) - 1.  Walks the       *)
(* specification's own primes segment by segment, counting, and checks the *)
(* inequality for every k from 2 up to the number of primes met.           *)
(* (k = 1 needs no cell: 2 is not looked up in the sieve.)                 *)
(***************************************************************************)
EXTENDS Naturals, Sequences, FiniteSets, SequencesExt, TLC, SieveDefs17
CONSTANT MaxSeg
VARIABLES b, cnt, ok

RECURSIVE BitLenI(_)
BitLenI(n) == IF n = 0 THEN 0 ELSE 1 + BitLenI(n \div 2)
Bound(k) == LET x == k * BitLenI(k) IN IF x > 100 THEN x ELSE 100
Fits(k, p) == k = 1 \/ p <= 2 * (Bound(k) \div 2) - 1

SegOK(S, seg, c) ==
  LET s == SetToSeq(S) IN
  /\ \A i \in 1..(Len(s) - 1) : s[i] < s[i + 1]          \* s enumerates the segment's primes in increasing order
  /\ \A i \in 1..Len(s) : Fits(c + i, seg * W16 + s[i])

Init == b = 0 /\ cnt = 0 /\ ok = TRUE
Next == /\ b <= MaxSeg
        /\ LET S == SegPrimeIdx(b) IN ok' = SegOK(S, b, cnt) /\ cnt' = cnt + Cardinality(S)
        /\ b' = b + 1
Spec == Init /\ [][Next]_<<b, cnt, ok>>
BoundHolds == ok
Report == b = MaxSeg + 1 => PrintT(<<"REACH", "primes_counted", cnt>>)
=============================================================================
