SPECIFICATION Spec
CONSTANTS
  LO = 9
  HI = 4000
  NS <- OddComposites
  CS <- SomeC
  ITERS = 128
INVARIANTS NeverMissed
CHECK_DEADLOCK FALSE
