---------------------------- MODULE PollardRho ----------------------------
(***************************************************************************)
(* The loop of src/pollard_rho.rs::rho64 as a state machine, one action    *)
(* per iteration, over the pure step function of RhoFn (which is exact for *)
(* n < 2^15).  Checked exhaustively over sets of moduli and increments.    *)
(***************************************************************************)
EXTENDS RhoFn

(***************************************************************************)
(* State machine                                                           *)
(***************************************************************************)
CONSTANTS NS,      \* set of moduli (odd, 3 <= n < 2^15)
          CS,      \* set of increments
          ITERS    \* loop bound
VARIABLES n, c, st, e2, hist   \* hist: ghost, every x2 so far (hist[k+1] = F^k(seed))

vars == <<n, c, st, e2, hist>>

Init == /\ n \in NS /\ c \in CS
        /\ st = St0 /\ e2 = 1 /\ hist = <<2>>

Iterate == /\ e2 < ITERS /\ ~st.done
           /\ st' = Step(n, c, Rinv(n), st, e2)
           /\ e2' = e2 + 1
           /\ hist' = Append(hist, st'.x2)
           /\ UNCHANGED <<n, c>>

Next == Iterate
Spec == Init /\ [][Next]_vars

Finished == st.done \/ e2 = ITERS
Result == Final(n, st)

TypeOK == /\ st.x1 \in 0..(n + 9) /\ st.x2 \in 0..(n + 9) /\ st.prod \in 0..(n - 1)
          /\ e2 \in 1..ITERS /\ Len(hist) = e2

\* what the function returns is a genuine split, or nothing
ResultProper == Finished => \/ Result = None
                            \/ /\ Len(Result) = 2 /\ Proper(n, Result[1])
                               /\ Result[1] * Result[2] = n

\* Brent's bookkeeping: x1 and x2 are the iterates they are supposed to be, and comparisons happen only for
\* 3/2 e1 <= e2 <= 2 e1 + 1 (the comment in the code says 2 e1 - 1; the code does 2 e1 + 1)
BrentInv == /\ st.x1 = hist[st.e1 + 1]
            /\ (~st.done) => st.x2 = hist[e2]
            /\ (st.e1 > 0 /\ e2 - 1 >= st.nis /\ e2 - 1 <= st.nie /\ ~st.done) =>
                  /\ 2 * (e2 - 1) >= 3 * st.e1 \/ e2 - 1 = st.e1
                  /\ e2 - 1 <= (2 * st.e1) + 1
            /\ st.nie = (2 * st.e1) + 1
            /\ st.e1 = 0 \/ \E k \in 1..20 : st.e1 + 1 = 2^k

\* the accumulator only ever collects factors of differences: a prime of n divides prod only if it divided a compared difference
\* (design fact behind "gcd(n, prod) is a product of factors found")
FnAgrees == Finished => Result = Rho64(n, c, ITERS)

\* reachability question (must FAIL for the hazard cfg to be non-vacuous): the run fails although a difference showed a factor
NeverMissed == Finished => ~(Result = None /\ st.missed)
=============================================================================
