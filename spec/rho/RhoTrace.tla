------------------------------ MODULE RhoTrace ------------------------------
(***************************************************************************)
(* Real calls of rho64 / rho / rho_semiprime on moduli below 2^15, in      *)
(* batches.  Strict: whatever is returned is a genuine split (d, n/d) with *)
(* 1 < d < n, or nothing ("nothing false", C16).  Drift: the result is the *)
(* one the exact model RhoFn computes for the same (n, c, iters) - this    *)
(* is what binds the PollardRho state machine to the code.                 *)
(***************************************************************************)
EXTENDS RhoFn, TraceLib
VARIABLE l

\* by division, not multiplication: a wrong pair may hold anything below 2^31 (the driver clamps larger words)
SplitOK(m, r) == \/ r = None
                 \/ /\ Len(r) = 2 /\ r[1] > 1 /\ r[1] < m /\ m % r[1] = 0 /\ r[2] = m \div r[1]

Predicted(e, k) == CASE e.op = "rho64_batch" -> Rho64(e.ns[k], e.c, e.iters)
                     [] e.op = "rho_batch"   -> Rho(e.ns[k])
                     [] e.op = "semi_batch"  -> RhoSemi(e.ns[k])

Known(e) == e.op \in {"rho64_batch", "rho_batch", "semi_batch"}

BadSplit(e) == {k \in 1..Len(e.ns) : ~SplitOK(e.ns[k], e.rs[k])}
BadModel(e) == {k \in 1..Len(e.ns) : e.rs[k] # Predicted(e, k)}

Init == l = 1
Next == /\ l <= NRec /\ l' = l + 1
        /\ LET e == Rec[l] IN
           IF Has(e, "outcome") \/ ~Known(e) THEN Strict(l, e.op \o ".outcome", FALSE)
           ELSE /\ Strict(l, e.op \o ".split", BadSplit(e) = {})
                /\ Drift(l, e.op \o ".model", BadModel(e) = {})
Spec == Init /\ [][Next]_l
=============================================================================
