---------------------------- MODULE RhoHazard ----------------------------
(* For which inputs does rho() (c = 1..9, 128 iterations) fail altogether?  factor_impl's Algo::Rho branch then falls
   through to the quadratic-sieve block.  Printed, not asserted: the numbers are replayed against the real code. *)
EXTENDS PollardRho, IOUtils
LO == atoi(IOEnv.LO)
HI == atoi(IOEnv.HI)
IsComposite(m) == \E d \in 3..180 : d * d <= m /\ m % d = 0
NoSmall(m) == \A d \in {3, 5, 7, 11, 13} : m % d # 0
Fails == {m \in LO..HI : m % 2 = 1 /\ IsComposite(m) /\ Rho(m) = None}
ASSUME PrintT(<<"RHOFAIL", LO, HI, Fails>>)
ASSUME PrintT(<<"RHOFAIL-NOSMALL", {m \in Fails : NoSmall(m)}>>)
HInit == n = 9 /\ c = 1 /\ st = St0 /\ e2 = 1 /\ hist = <<2>>
HNext == UNCHANGED vars
=============================================================================
