SPECIFICATION Spec
CONSTANTS
  NS = {9, 15, 21, 25, 35, 49, 77, 91, 121, 143, 169, 221, 323, 437, 667, 899, 1147, 1517, 2021, 3127, 4087, 5183, 10403, 19043, 25591, 32399, 32761, 31861}
  CS = {1, 2, 3, 9}
  ITERS = 128
INVARIANTS TypeOK ResultProper BrentInv FnAgrees
CHECK_DEADLOCK FALSE
