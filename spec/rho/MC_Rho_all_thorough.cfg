SPECIFICATION Spec
CONSTANTS
  LO = 9
  HI = 6000
  NS <- OddComposites
  CS <- AllC
  ITERS = 128
INVARIANTS TypeOK ResultProper BrentInv FnAgrees
CHECK_DEADLOCK FALSE
