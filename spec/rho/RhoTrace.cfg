SPECIFICATION Spec
POSTCONDITION TraceComplete
CHECK_DEADLOCK FALSE
