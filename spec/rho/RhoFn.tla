---------------------------- MODULE RhoFn ----------------------------
(***************************************************************************)
(* Pollard's rho, Brent's variant, as src/pollard_rho.rs::rho64 runs it.   *)
(*                                                                         *)
(* The code iterates X -> mg_mul(X, X) + c on Montgomery representatives   *)
(* (R = 2^64), compares x1 = F^e1(seed) with x2 = F^e2(seed) only inside   *)
(* the intervals [3*2^(k-1), 2^(k+1) - 1], multiplies the differences into *)
(* an accumulator and takes a gcd when the accumulator becomes 0, every    *)
(* 128 steps after step 512, and at the end.                               *)
(*                                                                         *)
(* Everything below is EXACT for moduli n < 2^15 (all products fit TLC's   *)
(* integers): mg_mul(a, b) = a*b*R^-1 mod n with R^-1 = ((n+1)/2)^64, so   *)
(* Rho64(n, c, iters) is what the real function returns, not an            *)
(* abstraction of it.  The pure operators are used by the trace spec       *)
(* (RhoTrace) and the state machine (one action per loop iteration) by the *)
(* model checker; the invariant FnAgrees ties the two together.            *)
(***************************************************************************)
EXTENDS Naturals, Sequences, SequencesExt, FiniteSets, TLC

RECURSIVE Gcd(_, _)
Gcd(a, b) == IF b = 0 THEN a ELSE Gcd(b, a % b)

\* R^-1 mod n for odd n, R = 2^64: six squarings of 1/2 = (n+1)/2
Rinv(n) == LET h  == ((n + 1) \div 2) % n
               s1 == (h * h) % n
               s2 == (s1 * s1) % n
               s3 == (s2 * s2) % n
               s4 == (s3 * s3) % n
               s5 == (s4 * s4) % n
           IN (s5 * s5) % n

\* mg_mul on representatives that may exceed n by a few units (x2 += c is not reduced)
MgMul(n, ri, a, b) == ((((a % n) * (b % n)) % n) * ri) % n

AbsDiff(a, b) == IF a >= b THEN a - b ELSE b - a

Proper(n, d) == d > 1 /\ d < n

None == <<>>

St0 == [x1 |-> 2, x2 |-> 2, e1 |-> 0, prod |-> 1, nis |-> 0, nie |-> 1, done |-> FALSE, res |-> None, missed |-> FALSE]

(* one iteration of `for e2 in 1..iters` *)
Step(n, c, ri, st, e2) ==
  IF st.done THEN st
  ELSE
    LET x2 == MgMul(n, ri, st.x2, st.x2) + c IN
    IF e2 < st.nis THEN [st EXCEPT !.x2 = x2]
    ELSE
      LET diff == AbsDiff(st.x1, x2)
          pn   == MgMul(n, ri, st.prod, diff)
          d0   == Gcd(n, diff)
          d1   == Gcd(n, st.prod)
      IN
      IF pn = 0 /\ Proper(n, d0)
      THEN [st EXCEPT !.x2 = x2, !.done = TRUE, !.res = <<d0, n \div d0>>]
      ELSE IF e2 >= 512 /\ e2 % 128 = 127 /\ Proper(n, d1)
      THEN [st EXCEPT !.x2 = x2, !.done = TRUE, !.res = <<d1, n \div d1>>]
      ELSE
        LET st1 == [st EXCEPT !.x2 = x2, !.prod = pn,
                              \* ghost: a proper divisor was visible in this difference (used for statistics only)
                              !.missed = st.missed \/ Proper(n, d0)]
        IN IF e2 = st.nie
           THEN [st1 EXCEPT !.x1 = x2, !.e1 = e2,
                            !.nis = (e2 + 1) + ((e2 + 1) \div 2), !.nie = (2 * (e2 + 1)) - 1]
           ELSE st1

Final(n, st) ==
  IF st.done THEN st.res
  ELSE LET d == Gcd(n, st.prod) IN IF Proper(n, d) THEN <<d, n \div d>> ELSE None

Run(n, c, iters) ==
  LET ri == Rinv(n) IN
  FoldLeft(LAMBDA st, e2 : Step(n, c, ri, st, e2), St0, [i \in 1..(iters - 1) |-> i])

Rho64(n, c, iters) == Final(n, Run(n, c, iters))

(* src/pollard_rho.rs::rho for inputs below 2^15: 128 iterations, c = 1..9, first success *)
RECURSIVE RhoFrom(_, _, _)
RhoFrom(n, c, iters) ==
  IF c > 9 THEN None
  ELSE LET r == Rho64(n, c, iters) IN IF r # None THEN r ELSE RhoFrom(n, c + 1, iters)
Rho(n) == RhoFrom(n, 1, 128)

(* rho_semiprime for n < 2^40: c = 1, 2, 3 with 2048 iterations *)
RhoSemi(n) == LET a == Rho64(n, 1, 2048) IN IF a # None THEN a ELSE
              LET b == Rho64(n, 2, 2048) IN IF b # None THEN b ELSE Rho64(n, 3, 2048)
=============================================================================
