---------------------------- MODULE MC_PollardRho ----------------------------
EXTENDS PollardRho
CONSTANTS LO, HI
IsComposite(m) == \E d \in 3..180 : d * d <= m /\ m % d = 0
\* every odd composite of the range (multiples of 3, 5, ... and prime powers included: the function must stay sound on them)
OddComposites == {m \in LO..HI : m % 2 = 1 /\ IsComposite(m)}
AllC == 1..9
SomeC == {1, 2, 9}
=============================================================================
