INIT HInit
NEXT HNext
CONSTANTS NS = {9} CS = {1} ITERS = 2
CHECK_DEADLOCK FALSE
