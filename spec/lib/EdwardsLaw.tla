----------------------------- MODULE EdwardsLaw -----------------------------
(***************************************************************************)
(* The group law of a twisted Edwards curve  a x^2 + y^2 = 1 + d x^2 y^2   *)
(* over a commutative ring, written once for an abstract ring (operator    *)
(* parameters) so that the same text is evaluated on small integers by the *)
(* toy model (Edwards.tla) and on BigNat residues by the trace             *)
(* specification (EdwardsTrace.tla).                                       *)
(*                                                                         *)
(* Part 1 is the DEFINITION: the affine addition law                       *)
(*    x3 = (x1 y2 + y1 x2) / (1 + d x1 x2 y1 y2)                           *)
(*    y3 = (y1 y2 - a x1 x2) / (1 - d x1 x2 y1 y2)                         *)
(* with x = X/Z, y = Y/Z substituted and denominators cleared, so that no  *)
(* inversion is needed and a composite modulus is fine.  Points are        *)
(* triples <<X, Y, Z>> compared projectively.                              *)
(*                                                                         *)
(* Part 2 transcribes the formula sets of /repo/src/ecm.rs and ecm128.rs   *)
(* line by line (used by the toy model only: the trace specification       *)
(* judges the real code's outputs against Part 1).                         *)
(***************************************************************************)
EXTENDS Naturals, Sequences, SequencesExt

CONSTANTS MulM(_, _), AddM(_, _), SubM(_, _), ZeroM, OneM

NegM(x) == SubM(ZeroM, x)
SqrM(x) == MulM(x, x)
Dbl2M(x) == AddM(x, x)

-----------------------------------------------------------------------------
(* Part 1: definition.  A curve is a record [a, d] of ring elements.       *)

Identity == <<ZeroM, OneM, OneM>>
NegP(P) == <<NegM(P[1]), P[2], P[3]>>

\* (a X^2 + Y^2) Z^2 = Z^4 + d X^2 Y^2
OnCurve(c, P) ==
  LET x2 == SqrM(P[1])  y2 == SqrM(P[2])  z2 == SqrM(P[3])
  IN MulM(AddM(MulM(c.a, x2), y2), z2) = AddM(SqrM(z2), MulM(c.d, MulM(x2, y2)))

ProjEq(P, Q) ==
  /\ MulM(P[1], Q[2]) = MulM(P[2], Q[1])
  /\ MulM(P[2], Q[3]) = MulM(P[3], Q[2])
  /\ MulM(P[3], Q[1]) = MulM(P[1], Q[3])

DefAdd(c, P, Q) ==
  LET zz   == MulM(P[3], Q[3])
      b    == SqrM(zz)
      x1x2 == MulM(P[1], Q[1])
      y1y2 == MulM(P[2], Q[2])
      n1   == AddM(MulM(P[1], Q[2]), MulM(P[2], Q[1]))     \* x1 y2 + y1 x2   (times Z1 Z2)
      n2   == SubM(y1y2, MulM(c.a, x1x2))                  \* y1 y2 - a x1 x2 (times Z1 Z2)
      e    == MulM(c.d, MulM(x1x2, y1y2))                  \* d x1 x2 y1 y2   (times (Z1 Z2)^2)
      f    == SubM(b, e)
      g    == AddM(b, e)
  IN <<MulM(MulM(n1, zz), f), MulM(MulM(n2, zz), g), MulM(f, g)>>

DefDbl(c, P) == DefAdd(c, P, P)

\* plain double-and-add, most significant bit first; bits is a sequence of 0/1
ScalarMul(c, bits, P) ==
  FoldLeft(LAMBDA acc, bt : LET t == DefDbl(c, acc) IN IF bt = 1 THEN DefAdd(c, t, P) ELSE t,
           Identity, bits)

\* the two affine denominators of the "dedicated" (non-unified) addition used by the extended
\* coordinate formulas: x3 = (x1 y1 + x2 y2)/(y1 y2 + a x1 x2), y3 = (x1 y1 - x2 y2)/(x1 y2 - y1 x2);
\* the product below is a unit iff both are non-zero modulo every prime factor.
DedicatedDen(c, P, Q) ==
  MulM(AddM(MulM(P[2], Q[2]), MulM(c.a, MulM(P[1], Q[1]))), SubM(MulM(P[1], Q[2]), MulM(P[2], Q[1])))

\* extended coordinates <<X, Y, Z, T>> with X Y = Z T
ExtValid(E) == MulM(E[1], E[2]) = MulM(E[3], E[4])
Proj(E) == <<E[1], E[2], E[3]>>

-----------------------------------------------------------------------------
(* Part 2: transcription of the code.  tw = TRUE for a = -1.               *)

\* ecm.rs Curve::add (add-2007-bl / add-2008-bbjlp)
CodeAdd(tw, dd, p, q) ==
  LET a   == MulM(p[3], q[3])
      b   == MulM(a, a)
      c   == MulM(p[1], q[1])
      d   == MulM(p[2], q[2])
      cd  == MulM(AddM(p[1], p[2]), AddM(q[1], q[2]))
      cpd == AddM(c, d)
      cross == SubM(cd, cpd)
      e   == MulM(dd, MulM(c, d))
      f   == SubM(b, e)
      g   == AddM(b, e)
  IN <<MulM(MulM(a, f), cross), MulM(MulM(a, g), IF tw THEN cpd ELSE SubM(d, c)), MulM(f, g)>>

\* ecm.rs Curve::_addext (add-2008-hwcd-4 for a = -1, add-2008-hwcd-2 for a = 1)
CodeAddExt(tw, p, q, proj) ==
  LET a == IF tw THEN MulM(SubM(p[2], p[1]), AddM(q[2], q[1])) ELSE MulM(p[1], q[1])
      b == IF tw THEN MulM(AddM(p[2], p[1]), SubM(q[2], q[1])) ELSE MulM(p[2], q[2])
      c == IF tw THEN Dbl2M(MulM(p[3], q[4])) ELSE MulM(p[3], q[4])
      d == IF tw THEN Dbl2M(MulM(p[4], q[3])) ELSE MulM(p[4], q[3])
      e == AddM(d, c)
      f == IF tw THEN SubM(b, a)
           ELSE AddM(MulM(SubM(p[1], p[2]), AddM(q[1], q[2])), SubM(b, a))
      g == AddM(b, a)
      h == SubM(d, c)
  IN <<MulM(e, f), MulM(g, h), MulM(f, g), IF proj THEN ZeroM ELSE MulM(e, h)>>

CodeAddExtProj(tw, p, q) == Proj(CodeAddExt(tw, p, q, TRUE))
CodeSubExtProj(tw, p, q) == CodeAddExtProj(tw, p, <<NegM(q[1]), q[2], q[3], NegM(q[4])>>)

\* ecm.rs Curve::dblext (dbl-2008-hwcd)
CodeDblExt(tw, p) ==
  LET xy  == AddM(p[1], p[2])
      xy2 == MulM(xy, xy)
      a   == MulM(p[1], p[1])
      b   == MulM(p[2], p[2])
      c   == Dbl2M(MulM(p[3], p[3]))
      e   == SubM(SubM(xy2, a), b)
      g   == IF tw THEN SubM(b, a) ELSE AddM(a, b)
      f   == SubM(g, c)
      h   == IF tw THEN SubM(ZeroM, AddM(a, b)) ELSE SubM(a, b)
  IN <<MulM(e, f), MulM(g, h), MulM(f, g), MulM(e, h)>>

\* ecm.rs Curve::double (dbl-2007-bl / dbl-2008-bbjlp)
CodeDouble(tw, p) ==
  LET xpy == AddM(p[1], p[2])
      b   == MulM(xpy, xpy)
      c   == MulM(p[1], p[1])
      d   == MulM(p[2], p[2])
      cpd == AddM(c, d)
      h   == MulM(p[3], p[3])
  IN IF tw
     THEN LET f == SubM(d, c)
              j == SubM(SubM(f, h), h)
          IN <<MulM(SubM(b, cpd), j), MulM(f, SubM(ZeroM, cpd)), MulM(f, j)>>
     ELSE LET j == SubM(SubM(cpd, h), h)
          IN <<MulM(SubM(b, cpd), j), MulM(cpd, SubM(c, d)), MulM(cpd, j)>>

\* ecm.rs Curve::to_extended / ecm128.rs Curve::ext (Segre embedding)
CodeToExt(p) == <<MulM(p[1], p[3]), MulM(p[2], p[3]), MulM(p[3], p[3]), MulM(p[1], p[2])>>

\* ecm128.rs (a = -1 only): add = hwcd-4, dblext, double, dbladd = add(dblext(p), q) without T
Code128Add(p, q) == CodeAddExt(TRUE, p, q, FALSE)
Code128DblExt(p) ==
  LET xy  == AddM(p[1], p[2])
      xy2 == MulM(xy, xy)
      a   == MulM(p[1], p[1])
      b   == MulM(p[2], p[2])
      c   == Dbl2M(MulM(p[3], p[3]))
      e   == SubM(SubM(xy2, a), b)
      g   == SubM(b, a)
      f   == SubM(g, c)
      h   == SubM(ZeroM, AddM(a, b))
  IN <<MulM(e, f), MulM(g, h), MulM(f, g), MulM(e, h)>>
Code128Double(p) ==
  LET xpy == AddM(p[1], p[2])
      b   == MulM(xpy, xpy)
      c   == MulM(p[1], p[1])
      d   == MulM(p[2], p[2])
      cpd == AddM(c, d)
      f   == SubM(d, c)
      h   == MulM(p[3], p[3])
      j   == SubM(SubM(f, h), h)
  IN <<MulM(SubM(b, cpd), j), MulM(f, SubM(ZeroM, cpd)), MulM(f, j)>>
Code128DblAdd(p, q) ==
  LET pp == Code128DblExt(p)
      a  == MulM(SubM(pp[2], pp[1]), AddM(q[2], q[1]))
      b  == MulM(AddM(pp[2], pp[1]), SubM(q[2], q[1]))
      c  == Dbl2M(MulM(pp[3], q[4]))
      d  == Dbl2M(MulM(pp[4], q[3]))
      e  == AddM(d, c)
      f  == SubM(b, a)
      g  == AddM(b, a)
      h  == SubM(d, c)
  IN <<MulM(e, f), MulM(g, h), MulM(f, g)>>
=============================================================================
