-------------------------------- MODULE Certs --------------------------------
(***************************************************************************)
(* Primality and compositeness certificates verified inside TLC, so that   *)
(* "p is prime" in a trace never rests on the library under test.          *)
(*                                                                         *)
(* A chain is a sequence of records; chain[1] = [ps |-> small prime < 2^31,*)
(* p |-> its digits] is checked by trial division; chain[i], i > 1, is a   *)
(* Pocklington step [p, q, a]: q = chain[i-1].p, q | p - 1, q*q > p,       *)
(* a^(p-1) == 1 (mod p) and gcd(a^((p-1)/q) - 1, p) = 1, which proves p    *)
(* prime when q is.  ChainOK(c) => Last(c).p is prime.                     *)
(***************************************************************************)
EXTENDS BigNat

\* n a TLC integer, 2 <= n < 2^31
IsSmallPrime(n) ==
  /\ n >= 2
  /\ (n < 4 \/ (n % 2 # 0 /\ \A k \in 1..23170 : LET d == 2 * k + 1 IN d > n \div d \/ n % d # 0))

PockStepOK(s, q) ==
  LET pm1 == Sub(s.p, One)
      e   == DivMod(pm1, q)
      a   == FromInt(s.a)
  IN /\ s.q = q
     /\ e[2] = <<>>                                   \* q | p - 1
     /\ Gt(Sqr(q), s.p)
     /\ PowMod(a, pm1, s.p) = One
     /\ Gcd(s.p, Mod(Add(PowMod(a, e[1], s.p), pm1), s.p)) = One

ChainOK(c) ==
  /\ Len(c) >= 1
  /\ IsSmallPrime(c[1].ps) /\ c[1].p = FromInt(c[1].ps)
  /\ \A i \in 2..Len(c) : PockStepOK(c[i], c[i-1].p)

ChainPrime(c) == c[Len(c)].p

\* d is a non-trivial divisor of n: n is composite
CompositeBy(n, d) == Gt(d, One) /\ Lt(d, n) /\ Mod(n, d) = <<>>
=============================================================================
