------------------------------- MODULE BigInt -------------------------------
(***************************************************************************)
(* Signed arbitrary precision integers on top of BigNat:                   *)
(* a record [neg |-> BOOLEAN, mag |-> BigNat], zero always has neg=FALSE.  *)
(***************************************************************************)
EXTENDS BigNat

IMk(neg, mag) == [neg |-> (neg /\ mag # <<>>), mag |-> mag]
IFromNat(a) == [neg |-> FALSE, mag |-> a]
IZero == IFromNat(<<>>)
IOne == IFromNat(<<1>>)
INeg(x) == IMk(~x.neg, x.mag)
IIsInt(x) == IsNat(x.mag) /\ (x.mag = <<>> => ~x.neg)

IAdd(x, y) ==
  IF x.neg = y.neg THEN IMk(x.neg, Add(x.mag, y.mag))
  ELSE IF Ge(x.mag, y.mag) THEN IMk(x.neg, Sub(x.mag, y.mag))
  ELSE IMk(y.neg, Sub(y.mag, x.mag))
ISub(x, y) == IAdd(x, INeg(y))
IMul(x, y) == IMk(x.neg # y.neg, Mul(x.mag, y.mag))
IMulNat(x, a) == IMk(x.neg, Mul(x.mag, a))
ISqr(x) == IFromNat(Sqr(x.mag))

ICmp(x, y) ==
  IF x.neg /\ ~y.neg THEN -1
  ELSE IF ~x.neg /\ y.neg THEN 1
  ELSE IF x.neg THEN Cmp(y.mag, x.mag) ELSE Cmp(x.mag, y.mag)
ILt(x, y) == ICmp(x, y) = -1
ILe(x, y) == ICmp(x, y) # 1

\* Euclidean remainder in [0, n), n a BigNat > 0
IMod(x, n) ==
  LET r == Mod(x.mag, n)
  IN IF x.neg /\ r # <<>> THEN Sub(n, r) ELSE r

\* x == y (mod n)
ICong(x, y, n) == IMod(x, n) = IMod(y, n)

\* small signed TLC integer -> BigInt
IFromInt(k) == IF k < 0 THEN IMk(TRUE, FromInt(0 - k)) ELSE IFromNat(FromInt(k))
=============================================================================
