------------------------------ MODULE TraceLib ------------------------------
(***************************************************************************)
(* Common part of every trace specification.                               *)
(*                                                                         *)
(* The trace is an ndjson file named by the environment variable TRACE;    *)
(* each line is one event recorded from the implementation.  A trace spec  *)
(* has a line counter l (plus whatever abstract state it carries) and one  *)
(* step per event.  An event whose predicate is FALSE does not block the   *)
(* run: it is reported on stdout as                                        *)
(*      <<"REJECT", kind, global index, tag>>                              *)
(* so that all rejections of a run are seen at once; the runner turns      *)
(*   kind "strict"  into a VIOLATION (the property's own statement fails), *)
(*   kind "witness" into a tool error (a certificate supplied by the       *)
(*                  harness did not verify: nothing is known), and         *)
(*   kind "drift"   into a MODEL-DRIFT note (the detailed model no longer  *)
(*                  describes the code; not a statement about the code).   *)
(* The postcondition prints TRACE-COMPLETE only if every line was consumed.*)
(***************************************************************************)
EXTENDS Naturals, Sequences, TLC, TLCExt, Json, IOUtils

Rec == ndJsonDeserialize(IOEnv.TRACE)
NRec == Len(Rec)

\* global index of line i (shards carry the original index in field "i")
Gi(i) == IF "i" \in DOMAIN Rec[i] THEN Rec[i].i ELSE i

Has(e, f) == f \in DOMAIN e

Judge(kind, i, tag, ok) == IF ok THEN TRUE ELSE PrintT(<<"REJECT", kind, Gi(i), tag>>)
Strict(i, tag, ok)  == Judge("strict", i, tag, ok)
Witness(i, tag, ok) == Judge("witness", i, tag, ok)
Drift(i, tag, ok)   == Judge("drift", i, tag, ok)
Note(i, tag, val)   == PrintT(<<"NOTE", Gi(i), tag, val>>)

TraceComplete ==
  IF TLCGet("stats").diameter = NRec + 1
  THEN PrintT(<<"TRACE-COMPLETE", NRec>>)
  ELSE PrintT(<<"TRACE-INCOMPLETE", TLCGet("stats").diameter - 1, NRec>>) /\ FALSE
=============================================================================
