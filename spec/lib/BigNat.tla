------------------------------- MODULE BigNat -------------------------------
(***************************************************************************)
(* Arbitrary precision natural numbers for TLC.                            *)
(*                                                                         *)
(* TLC integers are 32-bit and raise an error on overflow, so every number *)
(* that does not provably fit is a little-endian sequence of digits in     *)
(* base B = 4096, normalised (no most-significant zero digit; zero is the  *)
(* empty sequence).  With that base a product of two digits is < 2^24 and  *)
(* a column of up to 120 such products still fits 31 bits, and Knuth's     *)
(* algorithm D works with single TLC integers for every intermediate.      *)
(*                                                                         *)
(* Two normalised numbers are equal iff they are equal as TLA+ values.     *)
(***************************************************************************)
EXTENDS Naturals, Sequences, SequencesExt

B  == 4096
LB == 12

Max2(x, y) == IF x >= y THEN x ELSE y
Min2(x, y) == IF x <= y THEN x ELSE y

Idx(n) == [i \in 1..n |-> i]
Dg(a, i) == IF i >= 1 /\ i <= Len(a) THEN a[i] ELSE 0

IsNat(a) == /\ \A i \in 1..Len(a) : a[i] \in 0..(B-1)
            /\ (Len(a) > 0 => a[Len(a)] # 0)

Norm(s) == SubSeq(s, 1, SelectLastInSeq(s, LAMBDA d : d # 0))

Zero == <<>>
One  == <<1>>
IsZero(a) == a = <<>>

\* n is a TLC integer, 0 <= n < 2^31
RECURSIVE FromInt(_)
FromInt(n) == IF n = 0 THEN <<>> ELSE <<n % B>> \o FromInt(n \div B)

FitsInt(a) == Len(a) <= 2 \/ (Len(a) = 3 /\ a[3] < 128)
ToInt(a) == Dg(a, 1) + B * Dg(a, 2) + B * B * Dg(a, 3)

-----------------------------------------------------------------------------
(* comparison *)
Cmp(a, b) ==
  IF Len(a) # Len(b) THEN (IF Len(a) < Len(b) THEN -1 ELSE 1)
  ELSE LET k == SelectLastInSeq(Idx(Len(a)), LAMBDA i : a[i] # b[i])
       IN IF k = 0 THEN 0 ELSE IF a[k] < b[k] THEN -1 ELSE 1
Lt(a, b) == Cmp(a, b) = -1
Le(a, b) == Cmp(a, b) # 1
Gt(a, b) == Cmp(a, b) = 1
Ge(a, b) == Cmp(a, b) # -1

-----------------------------------------------------------------------------
(* addition, subtraction *)
Add(a, b) ==
  LET n  == Max2(Len(a), Len(b))
      st == FoldLeft(LAMBDA acc, i :
                       LET t == Dg(a, i) + Dg(b, i) + acc[2]
                       IN <<Append(acc[1], t % B), t \div B>>,
                     <<<<>>, 0>>, Idx(n))
  IN IF st[2] = 0 THEN st[1] ELSE Append(st[1], st[2])

\* requires a >= b
Sub(a, b) ==
  LET st == FoldLeft(LAMBDA acc, i :
                       LET t == a[i] + B - Dg(b, i) - acc[2]
                       IN <<Append(acc[1], t % B), 1 - (t \div B)>>,
                     <<<<>>, 0>>, Idx(Len(a)))
  IN Norm(st[1])

AbsDiff(a, b) == IF Ge(a, b) THEN Sub(a, b) ELSE Sub(b, a)

-----------------------------------------------------------------------------
(* multiplication *)
\* m is a TLC integer, 0 <= m < 2^18
MulSmall(a, m) ==
  IF m = 0 \/ a = <<>> THEN <<>>
  ELSE LET st == FoldLeft(LAMBDA acc, i :
                            LET t == a[i] * m + acc[2]
                            IN <<Append(acc[1], t % B), t \div B>>,
                          <<<<>>, 0>>, Idx(Len(a)))
       IN st[1] \o FromInt(st[2])

\* a * B^k
ShlD(a, k) == IF a = <<>> THEN <<>> ELSE [i \in 1..k |-> 0] \o a
\* a div B^k
ShrD(a, k) == IF k >= Len(a) THEN <<>> ELSE SubSeq(a, k + 1, Len(a))
\* a mod B^k
LowD(a, k) == IF k >= Len(a) THEN a ELSE Norm(SubSeq(a, 1, k))

\* column-sum product; requires Min2(Len(a), Len(b)) <= 120
MulRaw(a, b) ==
  IF a = <<>> \/ b = <<>> THEN <<>>
  ELSE
  LET la == Len(a)
      lb == Len(b)
      Col(k) == \* sum of a[i]*b[k+1-i]
        FoldLeft(LAMBDA s, i : s + a[i] * b[k + 1 - i], 0,
                 [j \in 1..(Min2(la, k) - Max2(1, k + 1 - lb) + 1) |-> j + Max2(1, k + 1 - lb) - 1])
      st == FoldLeft(LAMBDA acc, k :
                       LET t == Col(k) + acc[2]
                       IN <<Append(acc[1], t % B), t \div B>>,
                     <<<<>>, 0>>, Idx(la + lb - 1))
  IN Norm(st[1] \o FromInt(st[2]))

RECURSIVE MulChunk(_, _)
MulChunk(a, b) == \* Len(b) arbitrary
  IF Len(b) <= 100 THEN MulRaw(a, b)
  ELSE Add(MulRaw(a, LowD(b, 100)), ShlD(MulChunk(a, ShrD(b, 100)), 100))

Mul(a, b) == IF Len(a) >= Len(b) THEN MulChunk(a, b) ELSE MulChunk(b, a)
Sqr(a) == Mul(a, a)

-----------------------------------------------------------------------------
(* division *)
\* m a TLC integer, 1 <= m < 2^18; returns <<quotient, remainder (TLC int)>>
DivModSmall(a, m) ==
  LET st == FoldLeft(LAMBDA acc, i :
                       LET t == acc[2] * B + a[Len(a) + 1 - i]
                       IN <<<<t \div m>> \o acc[1], t % m>>,
                     <<<<>>, 0>>, Idx(Len(a)))
  IN <<Norm(st[1]), st[2]>>

ModSmall(a, m) == DivModSmall(a, m)[2]

\* Knuth D on normalised divisor v (top digit >= B/2), any u.
\* One step: rem < v*B on entry (as a number), next digit d is pushed below.
DivStep(rem, d, v) ==
  LET r1   == IF rem = <<>> /\ d = 0 THEN <<>> ELSE <<d>> \o rem
      n    == Len(v)
      top  == Dg(r1, n + 1) * B + Dg(r1, n)
      qh0  == Min2(top \div v[n], B - 1)
      RECURSIVE Fix(_)
      Fix(q) == LET t == MulSmall(v, q)
                IN IF Gt(t, r1) THEN Fix(q - 1) ELSE <<q, Sub(r1, t)>>
  IN Fix(qh0)

DivModNorm(u, v) ==
  LET st == FoldLeft(LAMBDA acc, i :
                       LET s == DivStep(acc[2], u[Len(u) + 1 - i], v)
                       IN <<<<s[1]>> \o acc[1], s[2]>>,
                     <<<<>>, <<>>>>, Idx(Len(u)))
  IN <<Norm(st[1]), st[2]>>

\* b # 0.  Returns <<a div b, a mod b>>
DivMod(a, b) ==
  IF Len(b) = 1 THEN LET r == DivModSmall(a, b[1]) IN <<r[1], FromInt(r[2])>>
  ELSE IF Lt(a, b) THEN <<<<>>, a>>
  ELSE LET d  == B \div (b[Len(b)] + 1)
           r  == DivModNorm(MulSmall(a, d), MulSmall(b, d))
       IN <<r[1], DivModSmall(r[2], d)[1]>>

Div(a, b) == DivMod(a, b)[1]
Mod(a, b) == DivMod(a, b)[2]
Divides(d, a) == d # <<>> /\ Mod(a, d) = <<>>

-----------------------------------------------------------------------------
(* bits *)
RECURSIVE BitLenInt(_)
BitLenInt(n) == IF n = 0 THEN 0 ELSE 1 + BitLenInt(n \div 2)
BitLen(a) == IF a = <<>> THEN 0 ELSE LB * (Len(a) - 1) + BitLenInt(a[Len(a)])

RECURSIVE Pow2Int(_)
Pow2Int(k) == IF k = 0 THEN 1 ELSE 2 * Pow2Int(k - 1)      \* k <= 30

Pow2(k) == ShlD(<<Pow2Int(k % LB)>>, k \div LB)
Bit(a, i) == (Dg(a, (i \div LB) + 1) \div Pow2Int(i % LB)) % 2     \* bit i (from 0)
IsOdd(a) == a # <<>> /\ a[1] % 2 = 1
IsEven(a) == ~IsOdd(a)

Shl(a, k) == ShlD(MulSmall(a, Pow2Int(k % LB)), k \div LB)
Shr(a, k) == DivModSmall(ShrD(a, k \div LB), Pow2Int(k % LB))[1]
LowBits(a, k) == \* a mod 2^k
  LET q == k \div LB
      r == k % LB
  IN IF q >= Len(a) THEN a
     ELSE Norm(SubSeq(a, 1, q) \o <<a[q + 1] % Pow2Int(r)>>)

\* bit sequence, least significant first, length BitLen(a)
BitsOf(a) == [i \in 1..BitLen(a) |-> Bit(a, i - 1)]

RECURSIVE TrailingZeros(_)
TrailingZeros(a) == IF a = <<>> THEN 0
                    ELSE IF a[1] = 0 THEN LB + TrailingZeros(Tail(a))
                    ELSE LET RECURSIVE tz(_)
                             tz(n) == IF n % 2 = 1 THEN 0 ELSE 1 + tz(n \div 2)
                         IN tz(a[1])

-----------------------------------------------------------------------------
(* modular arithmetic *)
AddMod(a, b, n) == LET s == Add(a, b) IN IF Ge(s, n) THEN Sub(s, n) ELSE s   \* a,b < n
SubMod(a, b, n) == IF Ge(a, b) THEN Sub(a, b) ELSE Sub(Add(a, n), b)          \* a,b < n
MulMod(a, b, n) == Mod(Mul(a, b), n)

\* b^e mod n, e a BigNat
PowMod(b, e, n) ==
  IF n = One THEN <<>>
  ELSE LET st == FoldLeft(LAMBDA acc, bit :
                            <<IF bit = 1 THEN MulMod(acc[1], acc[2], n) ELSE acc[1],
                              MulMod(acc[2], acc[2], n)>>,
                          <<One, Mod(b, n)>>, BitsOf(e))
       IN st[1]

\* b^e as a plain number, e a small TLC integer
RECURSIVE PowInt(_, _)
PowInt(b, e) == IF e = 0 THEN One
                ELSE IF e % 2 = 0 THEN Sqr(PowInt(b, e \div 2))
                ELSE Mul(b, Sqr(PowInt(b, e \div 2)))

RECURSIVE Gcd(_, _)
Gcd(a, b) == IF b = <<>> THEN a ELSE Gcd(b, Mod(a, b))

\* product of a sequence of BigNats
Prod(seq) == FoldLeft(LAMBDA acc, x : Mul(acc, x), One, seq)

\* integer square root test: r = floor(sqrt(n))
IsIsqrt(r, n) == Le(Sqr(r), n) /\ Gt(Sqr(Add(r, One)), n)

\* congruence a == b (mod n)
Cong(a, b, n) == Mod(a, n) = Mod(b, n)
=============================================================================
