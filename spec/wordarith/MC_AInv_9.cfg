SPECIFICATION Spec
CONSTANTS PB = 9
          G = 8
          TS = 8
INVARIANT TableOK
INVARIANT LoopInv
INVARIANT KaliskiInv
INVARIANT Bounds
INVARIANT ProductFits
INVARIANT Inverse
CHECK_DEADLOCK FALSE
