------------------------------ MODULE Reciprocal ------------------------------
(***************************************************************************)
(* Scaled model of the precomputed-reciprocal division of arith.rs         *)
(* (Dividers::new, divmod64, modu63, modu16, mod_u128 / the Horner step of *)
(* mod_uint, and one digit step of divmod_uint_inplace), parametric in the *)
(* word width W (64 in the code), the bound 2^PB on the primes (30 in the  *)
(* code; PB <= W/2 as in the code, where r64 < 2^32) and the width H of    *)
(* the short routine (16 in the code).  Every Rust intermediate that lives *)
(* in a machine word is checked to fit (NoOverflow); every result is       *)
(* checked against \div and % (Exact).  One initial state per (op, p, n);  *)
(* one action per branch of the routine.                                   *)
(*                                                                         *)
(* This proves the design for small words, not the code; the code is bound *)
(* by the trace specification WordArithTrace.                              *)
(***************************************************************************)
EXTENDS Naturals, TLC
CONSTANTS W, PB, H, OPS
VARIABLES op, p, n, pc, q, r, ovf, branch

vars == <<op, p, n, pc, q, r, ovf, branch>>

RECURSIVE P2r(_)
P2r(k) == IF k = 0 THEN 1 ELSE 2 * P2r(k - 1)
RECURSIVE Bits(_)
Bits(x) == IF x = 0 THEN 0 ELSE 1 + Bits(x \div 2)
IsPrime(x) == x >= 2 /\ \A d \in 2..(x - 1) : d * d > x \/ x % d # 0

\* tables (constant definitions are evaluated once by TLC)
P2T == [k \in 0..(2 * W) |-> P2r(k)]
P2(k) == P2T[k]
WW == P2T[W]
OddPrimes == {x \in 3..(P2r(PB) - 1) : IsPrime(x)}

(* Dividers::new, p odd *)
NewRec(x) ==
  LET mbig == P2r(2 * W - 1) \div x                   \* 2^127 / p
      sz   == Bits(mbig)
      mw   == (mbig \div P2r(sz - W)) + 1             \* m64
      sw   == 2 * W - 1 - sz                          \* s64
  IN [sz |-> sz, mw |-> mw, sw |-> sw,
      rw |-> ((P2r(W) - 1) % x) + 1,                  \* r64 = 2^64 mod p
      mh |-> (mbig \div P2r(sz - (H + 1))) + 1,       \* m16 (H+1 bits)
      sh |-> 2 * W - 1 + H + 1 - sz,                  \* s16
      mq |-> (mw - 1) \div P2r(sw)]                   \* "(m64 - 1) >> s64" = 2^64 div p
DT == [x \in OddPrimes |-> NewRec(x)]
SZ(x) == DT[x].sz
MW(x) == DT[x].mw
SW(x) == DT[x].sw
RW(x) == DT[x].rw
MH(x) == DT[x].mh
SH(x) == DT[x].sh
MQ(x) == DT[x].mq

\* the constructor's own sanity check ("incorrect divider" panic) and field widths
NewOK(x) ==
  /\ SZ(x) >= W /\ SZ(x) >= H + 1
  /\ MW(x) < WW                                       \* m64 fits a word (the +1 does not carry out)
  /\ SW(x) < W
  /\ MQ(x) = WW \div x
  /\ (WW - ((MQ(x) * x) % WW)) % WW = RW(x)           \* mp == r64
  /\ RW(x) = WW % x
  /\ MH(x) < 2 * P2(H)

\* estimated quotient of divmod64 / modu63
QEst(x, m) == ((m * MW(x)) \div WW) \div P2(SW(x))

Init ==
  /\ op \in OPS
  /\ p \in OddPrimes
  /\ n \in CASE op = "divmod" -> 0..(WW - 1)
             [] op = "mod63"  -> 0..(WW \div 2 - 1)             \* top bit clear
             [] op = "modH"   -> IF p < P2(H) THEN 0..(P2(H) - 1) ELSE {}
             [] op = "mod2w"  -> 0..(WW * WW - 1)                \* two words
             [] op = "dmstep" -> 0..(p * WW - 1)                 \* carry < p, one digit
  /\ pc = "start" /\ q = 0 /\ r = 0 /\ ovf = FALSE /\ branch = "-"

Done(qq, rr, o, b) == pc' = "done" /\ q' = qq /\ r' = rr /\ ovf' = o /\ branch' = b /\ UNCHANGED <<op, p, n>>

\* divmod64 on a one-word argument: <<quotient, remainder, overflow?, corrected?>>
DivMod1(x, m) ==
  LET qe == QEst(x, m)
      qp == qe * x
  IN IF qp > m THEN <<qe - 1, x - (qp - m), qp >= WW \/ qe = 0, TRUE>>
     ELSE <<qe, m - qp, qp >= WW, FALSE>>

DivNoCorr ==
  /\ pc = "start" /\ op = "divmod" /\ ~DivMod1(p, n)[4]
  /\ Done(DivMod1(p, n)[1], DivMod1(p, n)[2], DivMod1(p, n)[3], "nocorr")
DivCorr ==
  /\ pc = "start" /\ op = "divmod" /\ DivMod1(p, n)[4]
  /\ Done(DivMod1(p, n)[1], DivMod1(p, n)[2], DivMod1(p, n)[3], "corr")

\* modu63: no correction step; n - q*p must not wrap
Mod63 ==
  /\ pc = "start" /\ op = "mod63"
  /\ LET qe == QEst(p, n) IN
     Done(qe, IF qe * p <= n THEN n - qe * p ELSE 0, qe * p > n, "-")

\* modu16: (n * m16) >> s16, truncated to H bits; n - q*p in H-bit arithmetic
ModH ==
  /\ pc = "start" /\ op = "modH"
  /\ LET qe == ((n * MH(p)) \div P2(SH(p))) % P2(H) IN
     Done(qe, IF qe * p <= n THEN n - qe * p ELSE 0, qe * p > n, "-")

\* mod_u128 (= one Horner step of mod_uint with pol = high word)
Mod2W ==
  /\ pc = "start" /\ op = "mod2w"
  /\ LET n0 == n % WW
         n1 == n \div WW
         pr == n1 * RW(p) + n0
         hi == (pr \div WW) * RW(p)
         lo == pr % WW
         c  == lo + hi >= WW
         nred == IF c THEN lo + hi - WW + RW(p) ELSE lo + hi
     IN IF n1 = 0
        THEN Done(0, DivMod1(p, n0)[2], DivMod1(p, n0)[3], "oneword")
        ELSE Done(0, DivMod1(p, nred % WW)[2],
                  DivMod1(p, nred % WW)[3] \/ hi >= WW \/ nred >= WW \/ pr \div WW >= WW,
                  IF c THEN "carry" ELSE "nocarry")

\* one digit of divmod_uint_inplace: n = carry * 2^W + d with carry < p
DmStep ==
  /\ pc = "start" /\ op = "dmstep"
  /\ LET d  == n % WW
         cy == n \div WW
         a  == DivMod1(p, d)
         t  == cy * RW(p) + a[2]
         b  == DivMod1(p, t % WW)
         qq == a[1] + cy * MQ(p) + b[1]
     IN IF cy = 0 THEN Done(a[1], a[2], a[3], "nocarry")
        ELSE Done(qq % WW, b[2], a[3] \/ b[3] \/ t >= WW \/ cy * MQ(p) >= WW \/ qq >= WW, "carry")

Next == DivNoCorr \/ DivCorr \/ Mod63 \/ ModH \/ Mod2W \/ DmStep \/ (pc = "done" /\ UNCHANGED vars)
Spec == Init /\ [][Next]_vars

-----------------------------------------------------------------------------
ConstructorOK == NewOK(p)
NoOverflow == pc = "done" => ~ovf
Exact == pc = "done" =>
  CASE op \in {"divmod", "dmstep"} -> q = n \div p /\ r = n % p
    [] OTHER -> r = n % p
\* the estimate is never below the true quotient and at most one above it
EstimateWithinOne == (pc = "start" /\ op = "divmod") => (QEst(p, n) = n \div p \/ QEst(p, n) = n \div p + 1)
\* reachability questions (expected to be violated: the branches exist)
CorrectionUnreachable == branch # "corr"
CarryUnreachable == ~(op = "mod2w" /\ branch = "carry")
=============================================================================
