---------------------------- MODULE AlmostInverse ----------------------------
(***************************************************************************)
(* Model of arith.rs Inverter::{new, invert}: Kaliski's "almost inverse"   *)
(* followed by the normalisation of the exponent k to a multiple of G = 8  *)
(* with a table of -2^-(G j + G) mod p.  One action per loop iteration.    *)
(* Exhaustive over all odd primes p < 2^PB and all 0 < x < p.  The table   *)
(* has TS entries (8 in the code, enough for 2 * 28 bits).                 *)
(*                                                                         *)
(* Invariants: the loop invariant asserted by the code (r x + u 2^k == 0), *)
(* Kaliski's u s + v r = p (hence r, s <= p: no 32-bit overflow),          *)
(* k <= 2 bits(p), the table index is in range, the final product fits a   *)
(* 64-bit word, and the result is the inverse of x.                        *)
(***************************************************************************)
EXTENDS Naturals, TLC
CONSTANTS PB, G, TS
VARIABLES p, x, u, v, r, s, k, pc, res, firstEven

vars == <<p, x, u, v, r, s, k, pc, res, firstEven>>

RECURSIVE P2(_)
P2(e) == IF e = 0 THEN 1 ELSE 2 * P2(e - 1)
RECURSIVE Bits(_)
Bits(a) == IF a = 0 THEN 0 ELSE 1 + Bits(a \div 2)
RECURSIVE TZ(_)
TZ(a) == IF a % 2 = 1 THEN 0 ELSE 1 + TZ(a \div 2)            \* a > 0
IsPrime(a) == a >= 2 /\ \A d \in 2..(a - 1) : d * d > a \/ a % d # 0
OddPrimes == {a \in 3..(P2(PB) - 1) : IsPrime(a)}

\* 2^e mod q without leaving small integers
RECURSIVE P2Mod(_, _)
P2Mod(e, q) == IF e = 0 THEN 1 % q ELSE (2 * P2Mod(e - 1, q)) % q

\* Inverter::new: halve x = 1 repeatedly modulo q; entry j (from 0) is q - 2^-(G j + G)
RECURSIVE Halve(_, _, _)
Halve(a, t, q) == IF t = 0 THEN a ELSE Halve(IF a % 2 = 0 THEN a \div 2 ELSE (a + q) \div 2, t - 1, q)
InvPow2(q) == [j \in 0..(TS - 1) |-> q - Halve(1, G * j + G, q)]
Tab == [q \in OddPrimes |-> InvPow2(q)]

Init ==
  /\ p \in OddPrimes
  /\ x \in 1..(p - 1)
  /\ u = p /\ s = 1 /\ res = 0 /\ pc = "loop"
  /\ firstEven = (x % 2 = 0)
  \* "initially p is odd and x might be even": strip the trailing zeros of x
  /\ v = x \div P2(TZ(x)) /\ r = 0 /\ k = TZ(x)

StepU == \* u > v
  /\ pc = "loop" /\ u > v
  /\ LET d == u - v  t == TZ(d) IN
     /\ u' = d \div P2(t) /\ r' = r + s /\ s' = s * P2(t) /\ k' = k + t
  /\ UNCHANGED <<p, x, v, pc, res, firstEven>>

StepV == \* u < v
  /\ pc = "loop" /\ u < v
  /\ LET d == v - u  t == TZ(d) IN
     /\ v' = d \div P2(t) /\ s' = r + s /\ r' = r * P2(t) /\ k' = k + t
  /\ UNCHANGED <<p, x, u, pc, res, firstEven>>

Finish == \* u = v (= 1): normalise k to the next multiple of G and multiply by the table entry
  /\ pc = "loop" /\ u = v
  /\ LET idx == k \div G
         rr  == r * P2(G - (k % G))
     IN res' = IF idx < TS THEN (rr * Tab[p][idx]) % p ELSE 0
  /\ pc' = "done"
  /\ UNCHANGED <<p, x, u, v, r, s, k, firstEven>>

Next == StepU \/ StepV \/ Finish \/ (pc = "done" /\ UNCHANGED vars)
Spec == Init /\ [][Next]_vars

-----------------------------------------------------------------------------
\* the table really holds -2^-(Gj+G)
TableOK == (pc = "loop" /\ x = 1) =>
             \A j \in 0..(TS - 1) : (Tab[p][j] * P2Mod(G * j + G, p) + 1) % p = 0 /\ Tab[p][j] \in 1..p
\* the code's debug assertion; u, v stay odd
LoopInv == /\ (r * x + u * P2Mod(k, p)) % p = 0
           /\ u % 2 = 1 /\ v % 2 = 1
\* Kaliski's invariant: hence r, s <= p and the 32-bit sums and shifts of the code cannot overflow
KaliskiInv == u * s + v * r = p
Bounds == /\ r <= 2 * p /\ s <= 2 * p
          /\ k <= 2 * Bits(p)
          /\ (pc = "done" => (u = 1 /\ k \div G < TS))
\* final product r << (G - k mod G) times a table entry fits 64 bits: < 2p * 2^G * p
ProductFits == pc = "done" => 2 * Bits(p) + G + 1 <= 64
Inverse == pc = "done" => (res < p /\ (res * x) % p = 1)
=============================================================================
