SPECIFICATION Spec
CONSTANTS W = 10
          PB = 5
          H = 5
          OPS = {"divmod", "mod63", "modH", "dmstep"}
INVARIANT ConstructorOK
INVARIANT NoOverflow
INVARIANT Exact
INVARIANT EstimateWithinOne
CHECK_DEADLOCK FALSE
