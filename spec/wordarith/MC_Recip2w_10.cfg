SPECIFICATION Spec
CONSTANTS W = 10
          PB = 5
          H = 5
          OPS = {"mod2w"}
INVARIANT ConstructorOK
INVARIANT NoOverflow
INVARIANT Exact
CHECK_DEADLOCK FALSE
