SPECIFICATION Spec
CONSTANTS W = 6
          PB = 3
          H = 3
          OPS = {"mod2w"}
INVARIANT ConstructorOK
INVARIANT NoOverflow
INVARIANT Exact
CHECK_DEADLOCK FALSE
