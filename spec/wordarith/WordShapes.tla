------------------------------ MODULE WordShapes ------------------------------
(***************************************************************************)
(* Input space of the C08 driver: routine x class of prime x operand       *)
(* pattern.  The harness turns a prime class into concrete primes and an   *)
(* operand pattern into a handful of concrete operands (seeded), and calls *)
(* the routine once per operand; all operands of one (routine, prime) go   *)
(* into one batch event.  This module is the single statement of what is   *)
(* covered; routines without a divisor have the class "-".                 *)
(***************************************************************************)
EXTENDS Naturals, TLC, Json
VARIABLE s

\* classes of primes below 2^30 (Dividers), 2^28 (Inverter), 2^24 (sqrt_mod)
PC30 == {"two",        \* p = 2 (special-cased everywhere)
         "tiny",       \* every odd prime below 256
         "tz",         \* primes whose 64-bit multiplier ends in many zero bits (found by scanning Dividers::new)
         "fermat",     \* divisors of 2^k +- 1 (257, 641, 65537, 274177 = the recorded regression, 6700417, ...)
         "below2k",    \* largest prime below 2^k, k = 9..30
         "above2k",    \* smallest prime above 2^k, k = 8..29
         "top",        \* the largest primes below 2^30, 2^28, 2^24, 2^16
         "rand"}       \* random primes of every bit length 9..30

U64Pats == {"zero", "one", "pm1", "p", "pp1", "mul32", "mul48", "mul62", "mul63", "mul64", "max", "pow2",
            "qmaxrem", "qzero", "qm1", "rand64", "randbits", "psq"}
I64Pats == U64Pats \cup {"i64min"}
U128Pats == {"hi0", "mul64", "mul127", "mul128", "max", "pow2", "carry", "n0zero", "n0ones", "rand128", "qzero", "qm1"}
UintPats == {"zero", "small", "ones", "topbit", "altwords", "tricky", "mulq", "mul2k", "carry", "rand", "sparse"}
U16Pats == {"edges", "mul", "rand"}
InvPats == {"one", "two", "pm1", "pm2", "pow2", "half", "rand", "smallrand"}
SqrtPats == {"zero", "one", "pm1", "square", "rand", "bign", "mulp"}

Space ==
  [divmod64    |-> [pcs |-> PC30, nps |-> U64Pats],
   modu63      |-> [pcs |-> PC30, nps |-> U64Pats],
   modi64      |-> [pcs |-> PC30, nps |-> I64Pats],
   mod_u128    |-> [pcs |-> PC30, nps |-> U128Pats],
   mod_uint    |-> [pcs |-> PC30, nps |-> UintPats],
   divmod_uint |-> [pcs |-> PC30, nps |-> UintPats],
   modu16      |-> [pcs |-> {"all16"}, nps |-> U16Pats],             \* every prime below 2^16
   modu16_all  |-> [pcs |-> {"two", "tiny"}, nps |-> {"all"}],        \* every 16-bit n
   invert      |-> [pcs |-> PC30 \ {"two"}, nps |-> InvPats],          \* restricted to p < 2^28 by the harness
   invert_all  |-> [pcs |-> {"all10"}, nps |-> {"all"}],              \* every p < 2^10, every x
   sqrt_all    |-> [pcs |-> {"all10"}, nps |-> {"all"}],              \* every p < 2^10, every residue
   sqrt_mod    |-> [pcs |-> {"two", "fermat", "below2k", "above2k", "top", "rand", "twoadic"},   \* p < 2^24; twoadic: p = c 2^k + 1
                    nps |-> SqrtPats],
   sqrt_big    |-> [pcs |-> {"p3mod4"}, nps |-> {"zero", "one", "pm1", "square", "rand", "bign"}],
   fbase       |-> [pcs |-> {"-"}, nps |-> {"pos", "neg", "small"}],
   isqrt       |-> [pcs |-> {"arith64", "squfof", "arith256", "arith1024"},
                    nps |-> {"small", "squares", "pow2", "max", "f64edge", "rand"}],
   pow_mod     |-> [pcs |-> {"u64", "u256", "u1024"}, nps |-> {"k0", "k1", "n0", "nbig", "pmax", "rand", "fermat"}],
   inv_mod64   |-> [pcs |-> {"-"}, nps |-> {"small", "coprime", "common", "top63", "top64", "ngep", "one", "zero"}],
   perfect_power |-> [pcs |-> {"u64", "u1024"}, nps |-> {"square", "cube", "prime_exp", "composite_exp", "near", "rand", "pow2"}]]

Init == \E o \in DOMAIN Space : s \in [op : {o}, pc : Space[o].pcs, np : Space[o].nps]
Next == UNCHANGED s
Emit == PrintT(<<"SHAPE", ToJson(s)>>)
=============================================================================
