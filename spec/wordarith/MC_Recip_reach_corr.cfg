SPECIFICATION Spec
CONSTANTS W = 8
          PB = 4
          H = 4
          OPS = {"divmod"}
INVARIANT CorrectionUnreachable
CHECK_DEADLOCK FALSE
