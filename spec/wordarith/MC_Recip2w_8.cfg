SPECIFICATION Spec
CONSTANTS W = 8
          PB = 4
          H = 4
          OPS = {"mod2w"}
INVARIANT ConstructorOK
INVARIANT NoOverflow
INVARIANT Exact
CHECK_DEADLOCK FALSE
