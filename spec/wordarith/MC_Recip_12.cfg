SPECIFICATION Spec
CONSTANTS W = 12
          PB = 6
          H = 6
          OPS = {"divmod", "mod63", "modH", "dmstep"}
INVARIANT ConstructorOK
INVARIANT NoOverflow
INVARIANT Exact
INVARIANT EstimateWithinOne
CHECK_DEADLOCK FALSE
