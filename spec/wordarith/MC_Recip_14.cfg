SPECIFICATION Spec
CONSTANTS W = 14
          PB = 7
          H = 7
          OPS = {"divmod", "mod63", "modH"}
INVARIANT ConstructorOK
INVARIANT NoOverflow
INVARIANT Exact
INVARIANT EstimateWithinOne
CHECK_DEADLOCK FALSE
