---------------------------- MODULE WordArithTrace ----------------------------
(***************************************************************************)
(* C08 - word-level division, inversion and square-root primitives of      *)
(* arith.rs (and squfof::isqrt) are exact.                                 *)
(*                                                                         *)
(* One event = one batch of calls with the same divisor / routine: the     *)
(* operands and what the real code returned.  The contracts are plain      *)
(* arithmetic: n = q p + r with r < p, r = n mod p (Euclidean for signed   *)
(* n), x i == 1 (mod p), r^2 == a (mod p) or a is a non-residue (Euler's   *)
(* criterion evaluated here), r = floor(sqrt n), r = n^k mod p, and so on. *)
(* Moduli below 2^30 are TLC integers; 64-bit and wider values are BigNat  *)
(* digit sequences.  Small-integer modular products never leave 31 bits    *)
(* (MulModInt: Horner by chunks of 31 - bits(p) bits).                     *)
(*                                                                         *)
(* Small outputs (16/32-bit results) are logged as integers saturated at   *)
(* 2^31 - 1, which is outside every valid range here (p < 2^30).           *)
(***************************************************************************)
EXTENDS BigInt, Certs, TraceLib
VARIABLE l

-----------------------------------------------------------------------------
(* small-integer helpers: everything stays below 2^31 *)
RECURSIVE ISqrtB(_, _, _)
ISqrtB(n, lo, hi) == \* largest s in lo..hi with s*s <= n; hi <= 46340
  IF lo = hi THEN lo
  ELSE LET mid == (lo + hi + 1) \div 2
       IN IF mid * mid <= n THEN ISqrtB(n, mid, hi) ELSE ISqrtB(n, lo, mid - 1)
ISqrtInt(n) == ISqrtB(n, 0, 46340)

IsPrimeInt(n) ==
  /\ n >= 2
  /\ (n < 4 \/ (n % 2 = 1 /\ \A k \in 1..(ISqrtInt(n) \div 2) : n % (2 * k + 1) # 0 \/ 2 * k + 1 = n))

\* a * b mod p for 0 <= a < p < 2^30, 0 <= b < 2^31
MulModInt(a, b, p) ==
  LET base == Pow2Int(31 - BitLenInt(p))
      RECURSIVE Hn(_)
      Hn(bb) == IF bb = 0 THEN 0
                ELSE (((Hn(bb \div base) * base) % p) + ((a * (bb % base)) % p)) % p
  IN Hn(b)

RECURSIVE PowModInt(_, _, _)
PowModInt(b, e, p) == \* b < p < 2^30, e < 2^31
  IF e = 0 THEN 1 % p
  ELSE LET h  == PowModInt(b, e \div 2, p)
           h2 == MulModInt(h, h, p)
       IN IF e % 2 = 1 THEN MulModInt(h2, b, p) ELSE h2

\* Euler's criterion, p an odd prime, 0 < a < p
IsResidue(a, p) == PowModInt(a, (p - 1) \div 2, p) = 1

Bad(n, P(_)) == {i \in 1..n : ~P(i)}

-----------------------------------------------------------------------------
(* contracts; each returns the set of failing positions of the batch *)

\* true quotient and remainder (divmod64, divmod_uint)
DivModBad(e) ==
  LET P == FromInt(e.p) IN
  Bad(Len(e.ns), LAMBDA i : /\ Lt(e.rs[i], P)
                            /\ Add(Mul(e.qs[i], P), e.rs[i]) = e.ns[i]
                            /\ IsNat(e.qs[i]) /\ IsNat(e.rs[i]))

\* true remainder (modu63, mod_u128, mod_uint)
ModBad(e) ==
  LET P == FromInt(e.p) IN
  Bad(Len(e.ns), LAMBDA i : e.rs[i] = Mod(e.ns[i], P))

\* Euclidean remainder of a signed argument (modi64)
ModSignedBad(e) ==
  LET P == FromInt(e.p) IN
  Bad(Len(e.ns), LAMBDA i : e.rs[i] = IMod(e.ns[i], P))

\* 16-bit remainder: operands and results are plain integers
Mod16Bad(e) == Bad(Len(e.ns), LAMBDA i : e.rs[i] = e.ns[i] % e.p)
Mod16AllBad(e) == Bad(Len(e.rs), LAMBDA i : e.rs[i] = (e.base + i - 1) % e.p)

\* fast modular inverse, 0 < x < p < 2^28
InvertBad(e) ==
  Bad(Len(e.xs), LAMBDA i : /\ e.is[i] >= 0 /\ e.is[i] < e.p
                            /\ MulModInt(e.xs[i] % e.p, e.is[i], e.p) = 1 % e.p)
InvertAllBad(e) == \* is[x] for x = 1..p-1
  Bad(Len(e.is), LAMBDA x : /\ e.is[x] >= 0 /\ e.is[x] < e.p
                            /\ MulModInt(x, e.is[x], e.p) = 1 % e.p)

\* modular square root: a root exactly when one exists (rs[i] = -1 means None)
SqrtOK(a, r, p) ==
  IF p = 2 THEN r = a
  ELSE IF r = -1 THEN a # 0 /\ ~IsResidue(a, p)
  ELSE r >= 0 /\ r < p /\ MulModInt(r, r, p) = a
SqrtAllBad(e) == \* every residue a = i - 1 of a prime p < 2^10: compared with the set of all squares
  LET sq == {(r * r) % e.p : r \in 0..(e.p - 1)} IN
  Bad(Len(e.rs), LAMBDA i : IF e.rs[i] = -1 THEN (i - 1) \notin sq
                            ELSE e.rs[i] \in 0..(e.p - 1) /\ (e.rs[i] * e.rs[i]) % e.p = i - 1)
SqrtBad(e) == \* ns[i] any 64-bit number, reduced modulo p first
  LET P == FromInt(e.p) IN
  Bad(Len(e.ns), LAMBDA i : SqrtOK(ToInt(Mod(e.ns[i], P)), e.rs[i], e.p))

\* multiword prime p = 3 mod 4 (certified): Some(r) => r^2 == a, None => a^((p-1)/2) # 1
SqrtBigBad(e) ==
  LET half == Shr(e.p, 1) IN
  Bad(Len(e.ns), LAMBDA i :
        LET a == Mod(e.ns[i], e.p) IN
        IF e.some[i] THEN Lt(e.rs[i], e.p) /\ Mod(Sqr(e.rs[i]), e.p) = a
        ELSE a # <<>> /\ PowMod(a, half, e.p) # One)

\* factor base: every listed prime carries a root of n, every skipped prime below the bound has none
FBaseBad(e) ==
  Bad(Len(e.ps), LAMBDA i :
        LET p == e.ps[i]
            a == ToInt(IMod(e.n, FromInt(p)))
        IN SqrtOK(a, e.rs[i], p))

IsqrtBad(e) == Bad(Len(e.ns), LAMBDA i : IsNat(e.rs[i]) /\ IsIsqrt(e.rs[i], e.ns[i]))

PowModBad(e) == Bad(Len(e.ns), LAMBDA i : e.rs[i] = PowMod(e.ns[i], e.ks[i], e.ps[i]))

\* inv_mod64(n, p): Some(x) => x < p and n x == 1 (mod p); None => gcd(n, p) # 1
InvMod64Bad(e) ==
  Bad(Len(e.ns), LAMBDA i :
        IF e.some[i] THEN Lt(e.rs[i], e.ps[i]) /\ Mod(Mul(e.ns[i], e.rs[i]), e.ps[i]) = Mod(One, e.ps[i])
        ELSE Gcd(e.ns[i], e.ps[i]) # One)

\* perfect power: roots[j] is the floor of the KS[j]-th root of n (witness, verified below)
KS == <<2, 3, 5, 7, 11, 13, 17, 19>>
RootWitnessOK(n, roots) ==
  \A j \in 1..8 : Le(PowInt(roots[j], KS[j]), n) /\ Gt(PowInt(Add(roots[j], One), KS[j]), n)
HasRoot(n, roots) == \E j \in 1..8 : PowInt(roots[j], KS[j]) = n
PerfectPowerOK(e) ==
  IF e.some THEN e.k >= 2 /\ PowInt(e.r, e.k) = e.n
  ELSE ~HasRoot(e.n, e.roots)

-----------------------------------------------------------------------------
Ops == {"divmod64", "divmod_uint", "modu63", "mod_u128", "mod_uint", "modi64", "modu16", "modu16_all",
        "invert", "invert_all", "sqrt_all", "sqrt_mod", "sqrt_big", "fbase", "isqrt", "pow_mod", "inv_mod64",
        "perfect_power"}

BadSet(e) ==
  CASE e.op \in {"divmod64", "divmod_uint"} -> DivModBad(e)
    [] e.op \in {"modu63", "mod_u128", "mod_uint"} -> ModBad(e)
    [] e.op = "modi64" -> ModSignedBad(e)
    [] e.op = "modu16" -> Mod16Bad(e)
    [] e.op = "modu16_all" -> Mod16AllBad(e)
    [] e.op = "invert" -> InvertBad(e)
    [] e.op = "invert_all" -> InvertAllBad(e)
    [] e.op = "sqrt_all" -> SqrtAllBad(e)
    [] e.op = "sqrt_mod" -> SqrtBad(e)
    [] e.op = "sqrt_big" -> SqrtBigBad(e)
    [] e.op = "fbase" -> FBaseBad(e)
    [] e.op = "isqrt" -> IsqrtBad(e)
    [] e.op = "pow_mod" -> PowModBad(e)
    [] e.op = "inv_mod64" -> InvMod64Bad(e)
    [] e.op = "perfect_power" -> IF PerfectPowerOK(e) THEN {} ELSE {1}

\* what the harness promises about its own inputs (preconditions of the routines, certificates)
PreOK(e) ==
  CASE e.op \in {"divmod64", "divmod_uint", "modu63", "mod_u128", "mod_uint", "modi64"} ->
         IsPrimeInt(e.p) /\ e.p < 1073741824
    [] e.op \in {"modu16", "modu16_all"} -> IsPrimeInt(e.p) /\ e.p < 65536
    [] e.op = "invert" -> IsPrimeInt(e.p) /\ e.p < 268435456 /\ \A i \in 1..Len(e.xs) : e.xs[i] > 0 /\ e.xs[i] < e.p
    [] e.op = "invert_all" -> IsPrimeInt(e.p) /\ Len(e.is) = e.p - 1
    [] e.op = "sqrt_all" -> IsPrimeInt(e.p) /\ e.p < 1024 /\ Len(e.rs) = e.p
    [] e.op = "sqrt_mod" -> IsPrimeInt(e.p) /\ e.p < 16777216
    [] e.op = "sqrt_big" -> ChainOK(e.chain) /\ ChainPrime(e.chain) = e.p /\ e.p[1] % 4 = 3
    [] e.op = "fbase" -> \A i \in 1..Len(e.ps) : IsPrimeInt(e.ps[i]) /\ e.ps[i] < 16777216
    [] e.op = "perfect_power" -> RootWitnessOK(e.n, e.roots) /\ Gt(e.n, One)
    [] OTHER -> TRUE

\* detail beyond the property text: the base returned by perfect_power is not itself a perfect power
DriftOK(e) ==
  IF e.op = "perfect_power" /\ ~Has(e, "outcome") /\ e.some
  THEN RootWitnessOK(e.r, e.broots) /\ ~HasRoot(e.r, e.broots)
  ELSE TRUE

Judge1(i, e) ==
  IF e.op \notin Ops THEN Strict(i, e.op, FALSE)
  ELSE IF Has(e, "outcome") THEN Strict(i, e.op, FALSE)      \* a panic is not a value
  ELSE LET bad == BadSet(e) IN
       /\ Witness(i, e.op, PreOK(e))
       /\ Strict(i, e.op, bad = {})
       /\ (bad = {} \/ Note(i, "bad_positions", bad))
       /\ Drift(i, e.op, DriftOK(e))

Init == l = 1
Next == l <= NRec /\ l' = l + 1 /\ Judge1(l, Rec[l])
Spec == Init /\ [][Next]_l
=============================================================================
