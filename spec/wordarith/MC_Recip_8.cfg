SPECIFICATION Spec
CONSTANTS W = 8
          PB = 4
          H = 4
          OPS = {"divmod", "mod63", "modH", "dmstep"}
INVARIANT ConstructorOK
INVARIANT NoOverflow
INVARIANT Exact
INVARIANT EstimateWithinOne
CHECK_DEADLOCK FALSE
