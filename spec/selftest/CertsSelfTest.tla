---------------------------- MODULE CertsSelfTest ----------------------------
EXTENDS Certs, TraceLib
VARIABLE l
Ok(e) == CASE e.op = "chain" -> ChainOK(e.chain) /\ ChainPrime(e.chain) = e.p /\ BitLen(e.p) = e.bits
           [] e.op = "badchain" -> ~ChainOK(e.chain)
           [] OTHER -> FALSE
Init == l = 1
Next == l <= NRec /\ l' = l + 1 /\ Strict(l, Rec[l].op, Ok(Rec[l]))
Spec == Init /\ [][Next]_l
=============================================================================
