#!/usr/bin/env python3
"""Vectors for the BigNat/BigInt self-test, from Python's own integers."""
import json, random, sys, math
B = 4096
def D(n):
    assert n >= 0
    d = []
    while n:
        d.append(n % B); n //= B
    return d
def I(n):
    return {"neg": n < 0, "mag": D(abs(n))}
def main(out, seed, count):
    rnd = random.Random(seed)
    def rn(maxbits):
        bits = rnd.choice([0, 1, 5, 11, 12, 13, 24, 31, 32, 63, 64, 65, 127, 128, 500, 512, 1000, 1024, 2047, maxbits])
        bits = min(bits, maxbits)
        k = rnd.randrange(6)
        if bits == 0: return 0
        if k == 0: return (1 << bits) - 1
        if k == 1: return 1 << (bits - 1)
        if k == 2: return (1 << bits) - rnd.randrange(1, 1 << min(bits, 8))  if bits > 8 else rnd.getrandbits(bits)
        return rnd.getrandbits(bits)
    ev = []
    for _ in range(count):
        a, b = rn(2048), rn(2048)
        ev.append({"op": "add", "a": D(a), "b": D(b), "r": D(a + b)})
        hi, lo = max(a, b), min(a, b)
        ev.append({"op": "sub", "a": D(hi), "b": D(lo), "r": D(hi - lo)})
        ev.append({"op": "mul", "a": D(a), "b": D(b), "r": D(a * b)})
        ev.append({"op": "cmp", "a": D(a), "b": D(b), "r": (a > b) - (a < b)})
        if b:
            ev.append({"op": "divmod", "a": D(a), "b": D(b), "q": D(a // b), "r": D(a % b)})
            # adversarial for quotient estimation: a = q*b + (b-1), a = q*b
            q = rn(600)
            ev.append({"op": "divmod", "a": D(q * b + b - 1), "b": D(b), "q": D(q), "r": D(b - 1)})
            ev.append({"op": "divmod", "a": D(q * b), "b": D(b), "q": D(q), "r": D(0)})
        k = rnd.randrange(0, 200)
        ev.append({"op": "shl", "a": D(a), "k": k, "r": D(a << k)})
        ev.append({"op": "shr", "a": D(a), "k": k, "r": D(a >> k)})
        ev.append({"op": "low", "a": D(a), "k": k, "r": D(a & ((1 << k) - 1))})
        ev.append({"op": "bitlen", "a": D(a), "r": a.bit_length()})
        ev.append({"op": "bit", "a": D(a), "k": k, "r": (a >> k) & 1})
        if a:
            ev.append({"op": "tz", "a": D(a), "r": (a & -a).bit_length() - 1})
        ev.append({"op": "pow2", "k": k, "r": D(1 << k)})
        s = rnd.getrandbits(rnd.choice([1, 12, 13, 24, 30, 31]))
        ev.append({"op": "fromint", "k": s, "r": D(s)})
        m = rnd.randrange(1, 1 << 18)
        ev.append({"op": "small", "a": D(a), "m": m, "q": D(a // m), "r": a % m, "p": D(a * m)})
        x, y = rnd.choice([-1, 1]) * a, rnd.choice([-1, 1]) * b
        ev.append({"op": "iadd", "a": I(x), "b": I(y), "r": I(x + y)})
        ev.append({"op": "isub", "a": I(x), "b": I(y), "r": I(x - y)})
        ev.append({"op": "imul", "a": I(x), "b": I(y), "r": I(x * y)})
        ev.append({"op": "icmp", "a": I(x), "b": I(y), "r": (x > y) - (x < y)})
        if b:
            ev.append({"op": "imod", "a": I(x), "n": D(b), "r": D(x % b)})
        ev.append({"op": "isqrt", "a": D(a), "r": D(math.isqrt(a))})
    for _ in range(max(2, count // 10)):
        n = rn(300) | 1
        a, e = rn(300), rn(300)
        if n > 1:
            ev.append({"op": "powmod", "a": D(a), "b": D(e), "n": D(n), "r": D(pow(a, e, n))})
        a, b = rn(600), rn(600)
        ev.append({"op": "gcd", "a": D(a), "b": D(b), "r": D(math.gcd(a, b))})
    # large multiplication exercising the chunked path (min length > 100 digits)
    a, b = rnd.getrandbits(4000), rnd.getrandbits(3000)
    ev.append({"op": "mul", "a": D(a), "b": D(b), "r": D(a * b)})
    a, b = (1 << 4000) - 1, (1 << 3600) - 1
    ev.append({"op": "mul", "a": D(a), "b": D(b), "r": D(a * b)})
    ev.append({"op": "divmod", "a": D(a), "b": D(b), "q": D(a // b), "r": D(a % b)})
    with open(out, "w") as f:
        for e in ev:
            f.write(json.dumps(e) + "\n")
    print(len(ev))
if __name__ == "__main__":
    main(sys.argv[1], int(sys.argv[2]) if len(sys.argv) > 2 else 1, int(sys.argv[3]) if len(sys.argv) > 3 else 60)
