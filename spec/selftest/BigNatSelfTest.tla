--------------------------- MODULE BigNatSelfTest ---------------------------
(* Validates BigNat/BigInt against vectors produced by Python's integers.   *)
EXTENDS BigInt, TraceLib
VARIABLE l

Ok(e) ==
  CASE e.op = "add"    -> Add(e.a, e.b) = e.r
    [] e.op = "sub"    -> Sub(e.a, e.b) = e.r
    [] e.op = "mul"    -> Mul(e.a, e.b) = e.r
    [] e.op = "divmod" -> DivMod(e.a, e.b) = <<e.q, e.r>>
    [] e.op = "cmp"    -> Cmp(e.a, e.b) = e.r
    [] e.op = "powmod" -> PowMod(e.a, e.b, e.n) = e.r
    [] e.op = "gcd"    -> Gcd(e.a, e.b) = e.r
    [] e.op = "shl"    -> Shl(e.a, e.k) = e.r
    [] e.op = "shr"    -> Shr(e.a, e.k) = e.r
    [] e.op = "low"    -> LowBits(e.a, e.k) = e.r
    [] e.op = "bitlen" -> BitLen(e.a) = e.r /\ IsNat(e.a)
    [] e.op = "tz"     -> TrailingZeros(e.a) = e.r
    [] e.op = "bit"    -> Bit(e.a, e.k) = e.r
    [] e.op = "pow2"   -> Pow2(e.k) = e.r
    [] e.op = "fromint"-> FromInt(e.k) = e.r /\ ToInt(e.r) = e.k /\ FitsInt(e.r)
    [] e.op = "small"  -> DivModSmall(e.a, e.m) = <<e.q, e.r>> /\ MulSmall(e.a, e.m) = e.p
    [] e.op = "iadd"   -> IAdd(e.a, e.b) = e.r
    [] e.op = "isub"   -> ISub(e.a, e.b) = e.r
    [] e.op = "imul"   -> IMul(e.a, e.b) = e.r
    [] e.op = "imod"   -> IMod(e.a, e.n) = e.r
    [] e.op = "icmp"   -> ICmp(e.a, e.b) = e.r
    [] e.op = "isqrt"  -> IsIsqrt(e.r, e.a) /\ ~IsIsqrt(Add(e.r, One), e.a)
    [] OTHER -> FALSE

Init == l = 1
Next == l <= NRec /\ l' = l + 1 /\ Strict(l, Rec[l].op, Ok(Rec[l]))
Spec == Init /\ [][Next]_l
=============================================================================
