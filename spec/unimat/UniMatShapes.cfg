INIT Init
NEXT Next
CONSTANTS ExtK = {16, 24, 33, 40}
          DenseK = {12, 20, 28, 40}
          WideK = {64, 120}
          BigRows = {1, 3, 9, 20}
          BmL = {1, 2, 3, 5, 8, 16}
INVARIANT Emit
CHECK_DEADLOCK FALSE
