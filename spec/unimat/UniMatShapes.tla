---------------------------- MODULE UniMatShapes ----------------------------
(***************************************************************************)
(* Input space of the C19 driver beyond the behaviours of UniMat.tla:      *)
(* which native variant is built on top of a behaviour (dimension x        *)
(* operation mix) and which Berlekamp-Massey sequences are tried.  The     *)
(* driver assigns the shapes round-robin to the behaviours; every base     *)
(* behaviour additionally goes to every routine as it is.                  *)
(*   ext   : embedded in K x K, 3K operations (sparse): all routines       *)
(*   dense : embedded in K x K, 40K operations (full rows): dense det,     *)
(*           dense index, Wiedemann                                        *)
(*   big   : rows scaled by 40..58-bit tokens: det needs 1..20+ CRT primes *)
(*   wide  : a few hundred rows, 4K operations: Wiedemann / CRT sparse det *)
(***************************************************************************)
EXTENDS Naturals, TLC, Json
CONSTANTS ExtK, DenseK, WideK, BigRows, BmL
VARIABLE s

Mat == [kind : {"mat"}, variant : {"ext"}, kk : ExtK, nbig : BigRows]
       \cup [kind : {"mat"}, variant : {"dense"}, kk : DenseK, nbig : {0}]
       \cup [kind : {"mat"}, variant : {"big"}, kk : {0}, nbig : BigRows]
       \cup [kind : {"mat"}, variant : {"wide"}, kk : WideK, nbig : {0}]
\* pkind: 0 = 65537, 1 = 2^31-1, 2 = 41-bit prime, 3 = 62-bit prime
\* skind: 0 = random taps and start, 1 = single tap (s_i = t s_(i-L)), 2 = impulse response, 3 = start 1,2,1,2
Bm == [kind : {"bm"}, L : BmL, pkind : 0..3, skind : 0..3]

Init == s \in Mat \cup Bm
Next == UNCHANGED s
Emit == PrintT(<<"SHAPE", ToJson(s)>>)
=============================================================================
