SPECIFICATION Spec
CONSTANTS KSet = {1, 2, 3, 4, 5, 6, 7, 8, 9, 10, 11, 12}
          DSet = {0, 1, 2, 3, 4, 5, 6, 7, 8, 9, 10, 12, 16, 18, 25, 27, 30, 36, 49, 64, 81, 100, 101, 127, 210, 256, 1000, 1009, 4096, 30030, 65537, 131071}
          CSet <- C3
          TSet <- TSim
          StepSet = {0, 1, 3, 6, 12, 25, 40, 60}
          MaxAbs = 200000
          MaxCo = 500
          MaxExtra = 6
          MaxScale = 3
          Pick <- PickOne
          PickFun <- PickFunOne
INVARIANTS TypeOK Emit
CHECK_DEADLOCK FALSE
