---------------------------- MODULE UniMatTrace ----------------------------
(***************************************************************************)
(* C19 - integer determinants, lattice indices and Smith forms are exact.  *)
(*                                                                         *)
(* Every event is one call of a routine of matrix::intdense /              *)
(* matrix::intsparse on a matrix whose determinant is known by             *)
(* construction (behaviour of UniMat.tla, possibly extended natively with  *)
(* the same rules):   det(M) = sign * Product(factors),                    *)
(* index of the row lattice = |det(M)|, Z^k / lattice ~ (+) Z/diag[i]      *)
(* while grp.  StrictC19 is the property statement on the returned values. *)
(* Independently of the bookkeeping, the specification recomputes det(M)   *)
(* modulo two small primes from the logged matrix by Gaussian elimination  *)
(* and compares it with sign * Product(factors) (a mismatch means the      *)
(* generator is wrong: Witness, i.e. tool error, never a violation).       *)
(*                                                                         *)
(* Refusals.  The lattice index and Smith routines are heuristic           *)
(* (floating-point Gram-Schmidt thresholds, random row selections,         *)
(* reduction modulo h that relies on redundant relations) and announce     *)
(* failure by specific panics: those are reported as Drift (no verdict).   *)
(* Any other panic, and every returned value, is judged strictly.          *)
(***************************************************************************)
EXTENDS BigInt, TraceLib, FiniteSets
VARIABLE l

-----------------------------------------------------------------------------
(* small modular arithmetic on TLC integers, p < 2^15 *)
P1 == 32749
P2 == 32719

SMod(x, p) == IF x >= 0 THEN x % p ELSE (p - ((0 - x) % p)) % p

RECURSIVE PowI(_, _, _)
PowI(b, ex, p) == IF ex = 0 THEN 1
                  ELSE LET h == PowI(b, ex \div 2, p)
                           h2 == (h * h) % p
                       IN IF ex % 2 = 1 THEN (h2 * b) % p ELSE h2

BigModSmall(x, p) == LET r == ModSmall(x.mag, p) IN IF x.neg /\ r # 0 THEN p - r ELSE r

\* the logged matrix reduced modulo p
MatMod(e, p) ==
  IF e.mk = "int" THEN TLCEval([r \in 1..e.k |-> TLCEval([c \in 1..e.k |-> SMod(e.Mi[r][c], p)])])
  ELSE TLCEval([r \in 1..e.k |-> TLCEval([c \in 1..e.k |-> BigModSmall(e.Mb[r][c], p)])])

\* determinant modulo p by Gaussian elimination (definition-level oracle for the generator)
DetModP(A, n, p) ==
  LET RECURSIVE Go(_, _, _)
      Go(m, c, acc) ==
        IF c > n THEN acc
        ELSE LET cand == {r \in c..n : m[r][c] # 0}
             IN IF cand = {} THEN 0
                ELSE LET pr  == CHOOSE r \in cand : \A r2 \in cand : r <= r2
                         m1  == IF pr = c THEN m ELSE [m EXCEPT ![c] = m[pr], ![pr] = m[c]]
                         a1  == IF pr = c THEN acc ELSE (p - acc) % p
                         pv  == m1[c][c]
                         inv == PowI(pv, p - 2, p)
                         m2  == TLCEval([r \in 1..n |->
                                   IF r <= c \/ m1[r][c] = 0 THEN m1[r]
                                   ELSE LET f == (m1[r][c] * inv) % p
                                        IN TLCEval([cc \in 1..n |-> (m1[r][cc] + (p - f) * m1[c][cc]) % p])])
                     IN Go(m2, c + 1, (a1 * pv) % p)
  IN Go(A, 1, 1)

-----------------------------------------------------------------------------
(* known facts *)
IProd(fs) == FoldLeft(LAMBDA acc, x : IMul(acc, x), IOne, fs)
ExpDet(e) == IMul(IFromInt(e.sign), IProd(e.factors))
ExpIndex(e) == ExpDet(e).mag

\* the generator's bookkeeping agrees with the determinant of the logged matrix modulo P1 and P2
BookOK(e) ==
  IF e.mk = "none" THEN TRUE
  ELSE /\ DetModP(MatMod(e, P1), e.k, P1) = BigModSmall(ExpDet(e), P1)
       /\ DetModP(MatMod(e, P2), e.k, P2) = BigModSmall(ExpDet(e), P2)

\* redundant rows are the stated integer combinations of the basis rows (entries and coordinates are
\* bounded by the generator so that plain integers suffice)
ExtraRowsOK(e) ==
  IF ~Has(e, "XC") THEN TRUE
  ELSE \A x \in 1..Len(e.X) : \A c \in 1..e.k :
         e.X[x][c] = FoldLeft(LAMBDA s, q : s + e.XC[x][q] * e.Mi[q][c], 0, [q \in 1..e.k |-> q])

BoundsOK(e) == Le(e.hmin, ExpIndex(e)) /\ Le(ExpIndex(e), e.hmax)

-----------------------------------------------------------------------------
(* finite abelian groups given by cyclic factors: compare p-primary components *)
RECURSIVE Strip(_, _)
Strip(n, d) == IF n % d = 0 THEN Strip(n \div d, d) ELSE n
RECURSIVE PrimesFrom(_, _)
PrimesFrom(n, d) == IF n = 1 THEN {}
                    ELSE IF d * d > n THEN {n}
                    ELSE IF n % d = 0 THEN {d} \cup PrimesFrom(Strip(n, d), d + 1)
                    ELSE PrimesFrom(n, d + 1)
PrimesOfSeq(ds) == UNION {PrimesFrom(ds[i], 2) : i \in 1..Len(ds)}

RECURSIVE ValI(_, _)
ValI(n, q) == IF n % q = 0 THEN 1 + ValI(n \div q, q) ELSE 0
RECURSIVE ValB(_, _)
ValB(a, q) == IF a = <<>> THEN 0
              ELSE LET dm == DivModSmall(a, q) IN IF dm[2] = 0 THEN 1 + ValB(dm[1], q) ELSE 0

\* (+) Z/ds[i] (small integers) is isomorphic to (+) Z/os[j] (BigNats) given equal orders:
\* for every prime q of the order, the multisets of q-adic valuations of the cyclic factors agree
SameGroup(ds, os) ==
  \A q \in PrimesOfSeq(ds) :
    LET vd == [i \in 1..Len(ds) |-> ValI(ds[i], q)]
        vo == [j \in 1..Len(os) |-> ValB(os[j], q)]
    IN \A v \in 1..127 : Cardinality({i \in 1..Len(ds) : vd[i] = v}) = Cardinality({j \in 1..Len(os) : vo[j] = v})

-----------------------------------------------------------------------------
(* contracts *)
Panicked(e) == Has(e, "outcome")
\* announced refusals of the heuristic routines (class computed from the panic message by the harness)
Refused(e) == Panicked(e) /\ e.rk \in {"noindex", "float", "snfdet"}

DetOK(e) == ~Panicked(e) /\ e.res = ExpDet(e)

\* Wiedemann: the value is the determinant; a reported 0 for a non-singular matrix is the routine's
\* documented degenerate case (minimal polynomial of the Krylov sequence of degree < n), see Degenerate
\* (the property's own statement: the sparse determinant agrees with the exact one; the degenerate zeros are a
\* genuine, recorded defect - known_findings.json C19-wiedemann-degenerate-zero - not part of the contract)
SparseDetOK(e) == ~Panicked(e) /\ e.res = ExpDet(e)
DetP4OK(e) == /\ ~Panicked(e)
              /\ \A i \in 1..4 : e.res[i] = IMod(ExpDet(e), e.primes[i])
Degenerate(e) == /\ ~Panicked(e)
                 /\ IF e.op = "detp4" THEN \E i \in 1..4 : e.res[i] = <<>> /\ IMod(ExpDet(e), e.primes[i]) # <<>>
                    ELSE e.res = IZero /\ ExpDet(e) # IZero

\* the property: the index is returned whenever the bounds bracket it (BoundsOK is a Witness).  The heuristic
\* routines give up on some inputs by a panic of their own ("failed to determine lattice index", the
\* floating-point integrality assertion, reduce's det == h assertion): those are genuine, recorded defects
\* (known_findings.json, matched by call site), not part of the contract.
LatticeOK(e) == ~Panicked(e) /\ e.res = ExpIndex(e)

SnfOK(e) ==
  IF Panicked(e) THEN FALSE
  ELSE LET os == [j \in 1..Len(e.out) |-> e.out[j].mag]
       IN /\ e.h = ExpIndex(e)
          /\ \A j \in 1..Len(e.out) : ~e.out[j].neg /\ e.out[j].mag # <<>>
          /\ e.offdiag_zero
          /\ Prod(os) = ExpIndex(e)
          /\ (e.grp => SameGroup(e.diag, os))

(***************************************************************************)
(* The Smith reduction as a PRESENTATION of the quotient: kept generators  *)
(* gens[i] have coordinates q[i] (row i of the transformation matrix, the  *)
(* driver reduces entry j modulo ds[j]), a removed generator p has the     *)
(* coordinates of its substitution relation sum e*coords(l) (removed is    *)
(* unwound last to first).  The map must send every input relation to 0 in *)
(* every cyclic factor Z/ds[j], and the factors must multiply to the index *)
(* known by construction.  Small groups only (plain integers).             *)
(***************************************************************************)
CapProd(sq) == FoldLeft(LAMBDA a, x : IF a > 40000 THEN 40001 ELSE a * x, 1, sq)

\* coordinates of a combination [[label, e], ...] given the coordinates known so far (cm: function label -> sequence)
Comb(rel, cm, ds) ==
  [j \in 1..Len(ds) |->
     FoldLeft(LAMBDA a, t : (a + ((t[2] % ds[j]) * cm[t[1]][j])) % ds[j], 0, rel)]

RECURSIVE Unwind(_, _, _, _)
Unwind(removed, k, cm, ds) ==
  IF k = 0 THEN cm
  ELSE LET p == removed[k][1]  rel == removed[k][2] IN
       IF \A t \in 1..Len(rel) : rel[t][1] \in DOMAIN cm
       THEN Unwind(removed, k - 1, cm @@ (p :> Comb(rel, cm, ds)), ds)
       ELSE cm      \* a removed generator defined through one that has no coordinates yet: left undefined, rejected below

SnfHomOK(e) ==
  IF Panicked(e) THEN TRUE           \* the announced refusals of the index heuristics are judged on the "snf" events
  ELSE
  /\ e.wellformed /\ e.offdiag_zero
  /\ e.hh = e.h
  /\ \A j \in 1..Len(e.ds) : e.ds[j] >= 1 /\ e.ds[j] <= 32767
  /\ CapProd(e.ds) = e.h
  /\ LET m  == Len(e.ds)
         c0 == [g \in {e.gens[i] : i \in 1..m} |-> e.q[CHOOSE i \in 1..m : e.gens[i] = g]]
         cm == Unwind(e.removed, Len(e.removed), c0, e.ds)
     IN /\ \A i \in 1..Len(e.labels) : e.labels[i] \in DOMAIN cm
        /\ \A r \in 1..Len(e.rels) : \A j \in 1..m : Comb(e.rels[r], cm, e.ds)[j] = 0

\* u[0] = 1 and u annihilates the sequence: coefficients n/2 .. n-1 of u(x) * seq(x) vanish modulo p
BmOK(e) ==
  LET n == Len(e.seq) IN
  /\ ~Panicked(e)
  /\ Len(e.u) = n
  /\ e.u[1] = One
  /\ \A i \in (n \div 2)..(n - 1) :
       Mod(FoldLeft(LAMBDA s, j : Add(s, Mul(e.u[j + 1], e.seq[i - j + 1])), Zero, [j \in 1..(i + 1) |-> j - 1]), e.p) = Zero

SelfTestOK(e) == /\ e.b = Pow2(100) /\ e.a.neg /\ e.a.mag = Add(Pow2(100), FromInt(e.c))

StrictC19(e) ==
  CASE e.op = "det_dense"      -> DetOK(e)
    [] e.op = "det_sparse"     -> SparseDetOK(e)
    [] e.op = "detp4"          -> DetP4OK(e)
    [] e.op = "lattice_dense"  -> LatticeOK(e)
    [] e.op = "lattice_sparse" -> LatticeOK(e)
    [] e.op = "snf"            -> SnfOK(e)
    [] e.op = "snf_hom"        -> SnfHomOK(e)
    [] e.op = "bm"             -> BmOK(e)
    [] e.op = "selftest"       -> SelfTestOK(e)
    [] OTHER -> FALSE

\* certificates of the generator / harness (tool error when they fail)
WitnessOK(e) ==
  CASE e.op \in {"det_dense", "det_sparse", "detp4"} -> BookOK(e)
    [] e.op = "lattice_dense" -> BookOK(e) /\ ExtraRowsOK(e) /\ BoundsOK(e)
    [] e.op \in {"lattice_sparse", "snf"} -> BoundsOK(e)
    [] OTHER -> TRUE

\* no verdict: announced refusals and the Wiedemann degenerate case
NoDrift(e) ==
  CASE e.op \in {"lattice_dense", "lattice_sparse", "snf"} -> TRUE
    [] e.op \in {"det_sparse", "detp4"} -> TRUE
    [] OTHER -> TRUE

Init == l = 1
Next == /\ l <= NRec
        /\ l' = l + 1
        /\ LET w == WitnessOK(Rec[l])
           IN /\ Witness(l, Rec[l].op, w)
              \* judged only on inputs whose certificates hold
              /\ Strict(l, Rec[l].op, ~w \/ StrictC19(Rec[l]))
              /\ Drift(l, Rec[l].op, ~w \/ NoDrift(Rec[l]))
Spec == Init /\ [][Next]_l
=============================================================================
