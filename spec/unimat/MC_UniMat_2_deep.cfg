SPECIFICATION Spec
CONSTANTS KSet = {1, 2}
          DSet = {0, 1, 2, 3, 4, 6}
          CSet <- C2
          TSet <- T3
          StepSet = {4}
          MaxAbs = 12
          MaxCo = 12
          MaxExtra = 1
          MaxScale = 1
          Pick <- PickAll
          PickFun <- PickFunAll
INVARIANTS TypeOK DetOK GroupOK ExtraOK
CHECK_DEADLOCK FALSE
