------------------------------- MODULE UniMat -------------------------------
(***************************************************************************)
(* C19 - generator of integer matrices whose determinant, lattice index    *)
(* and quotient group are known by construction.                           *)
(*                                                                         *)
(* State: a k x k integer matrix M (the "basis part"), a list X of extra   *)
(* rows (redundant generators of the same row lattice, each with its       *)
(* coordinates XC on the current basis), and the bookkeeping               *)
(*      det(M) = sign * Product(factors)                                   *)
(*      index of the row lattice of M ++ X in Z^k = |det(M)|               *)
(*      Z^k / lattice  ~  (+) Z/diag[i]        while grp = TRUE            *)
(* Init is M = diag(d_1..d_k); every action is an elementary operation     *)
(* whose effect on those three facts is known:                             *)
(*   AddRow(i,j,c)  row_i += c row_j      lattice, det, group unchanged    *)
(*   AddCol(i,j,c)  col_i += c col_j      lattice moved by an automorphism *)
(*                                        of Z^k: det, group unchanged     *)
(*   SwapRows, NegRow                     sign flips                       *)
(*   ScaleRow(i,t)                        factor t appended; the group is  *)
(*                                        no longer known (grp = FALSE)    *)
(*   AppendComb                           a redundant row: nothing changes *)
(*                                                                         *)
(* Exhaustive mode (MC_*.cfg, Pick <- PickAll): for k <= 3 the invariants  *)
(* compare the bookkeeping with the definitions (Leibniz determinant,      *)
(* determinantal divisors = gcd of minors, membership of extra rows), so   *)
(* the rules the harness also uses natively for larger matrices are model  *)
(* checked.  Simulation mode (Sim_*.cfg, Pick <- PickOne): TLC prints one  *)
(* JSON behaviour per run (invariant Emit) which the harness replays into  *)
(* the real determinant / lattice index / Smith form routines.             *)
(***************************************************************************)
EXTENDS Integers, Sequences, FiniteSets, TLC, Json

CONSTANTS KSet,      \* dimensions
          DSet,      \* diagonal entries (0 = singular)
          CSet,      \* coefficients of row / column additions and combinations
          TSet,      \* scale factors
          StepSet,   \* behaviour lengths
          MaxAbs,    \* bound on |entries|
          MaxCo,     \* bound on the coordinates of redundant rows
          MaxExtra,  \* bound on the number of redundant rows
          MaxScale,  \* bound on the number of ScaleRow steps
          Pick(_),   \* PickAll (exhaustive) or PickOne (simulation): the choices explored of a set
          PickFun(_, _) \* PickFunAll / PickFunOne: the functions 1..n -> S explored

VARIABLES k, M, X, XC, sign, factors, diag, grp, steps, target, nops

vars == <<k, M, X, XC, sign, factors, diag, grp, steps, target, nops>>

\* named constant sets (a .cfg file cannot contain negative numbers)
C2 == {-2, -1, 0, 1, 2}
C2p == {-1, 0, 1, 2}
C3 == {-3, -2, -1, 0, 1, 2, 3}
T3 == {-1, 2, 3}
TSim == {-1, 2, 3, 5, 7, 64}

PickAll(S) == S
PickOne(S) == IF S = {} THEN {} ELSE {RandomElement(S)}
PickFunAll(n, S) == [1..n -> S]
PickFunOne(n, S) == {[i \in 1..n |-> RandomElement(S)]}

RowComb(co, m, kk, cc) == LET RECURSIVE S(_)
                              S(q) == IF q > kk THEN 0 ELSE co[q] * m[q][cc] + S(q + 1)
                          IN S(1)

Abs(x) == IF x < 0 THEN 0 - x ELSE x
RECURSIVE GcdI(_, _)
GcdI(a, b) == IF b = 0 THEN Abs(a) ELSE GcdI(b, a % Abs(b))

RECURSIVE ProdSeq(_)
ProdSeq(s) == IF s = <<>> THEN 1 ELSE Head(s) * ProdSeq(Tail(s))

BoundedBy(m, b) == \A r \in 1..Len(m) : \A c \in 1..Len(m[r]) : Abs(m[r][c]) <= b
Bounded(m) == BoundedBy(m, MaxAbs)

Diag(kk, d) == [r \in 1..kk |-> [c \in 1..kk |-> IF r = c THEN d[r] ELSE 0]]

\* steps = -1: nothing chosen yet (the choice is an action so that every simulated behaviour draws its own)
Init ==
  /\ k = 0 /\ diag = <<>> /\ M = <<>> /\ X = <<>> /\ XC = <<>> /\ sign = 1 /\ factors = <<>> /\ grp = TRUE
  /\ steps = -1 /\ target = 0
  /\ nops = [addrow |-> 0, addcol |-> 0, swap |-> 0, neg |-> 0, scale |-> 0, comb |-> 0]

Setup ==
  /\ steps = -1
  /\ \E kk \in Pick(KSet) : \E d \in PickFun(kk, DSet) : \E t \in Pick(StepSet) :
       /\ k' = kk /\ diag' = d /\ M' = Diag(kk, d) /\ factors' = d /\ target' = t
  /\ steps' = 0
  /\ UNCHANGED <<X, XC, sign, grp, nops>>

Step(name) == /\ steps >= 0 /\ steps < target
              /\ steps' = steps + 1
              /\ nops' = [nops EXCEPT ![name] = @ + 1]
              /\ UNCHANGED <<k, target, diag>>

\* row_i += c * row_j (basis rows).  Extra row x = sum a_l b_l keeps its value; its coordinates on
\* the new basis are a_j - c a_i at j.
AddRow ==
  \E i \in Pick(1..k) : \E j \in Pick((1..k) \ {i}) : \E c \in Pick(CSet \ {0}) :
    /\ Step("addrow")
    /\ M' = [M EXCEPT ![i] = [cc \in 1..k |-> M[i][cc] + c * M[j][cc]]]
    /\ XC' = [x \in 1..Len(XC) |-> [XC[x] EXCEPT ![j] = XC[x][j] - c * XC[x][i]]]
    /\ Bounded(M') /\ BoundedBy(XC', MaxCo)
    /\ UNCHANGED <<X, sign, factors, grp>>

\* col_i += c * col_j, applied to every generator (basis and extra rows)
AddCol ==
  \E i \in Pick(1..k) : \E j \in Pick((1..k) \ {i}) : \E c \in Pick(CSet \ {0}) :
    /\ Step("addcol")
    /\ M' = [r \in 1..k |-> [M[r] EXCEPT ![i] = M[r][i] + c * M[r][j]]]
    /\ X' = [x \in 1..Len(X) |-> [X[x] EXCEPT ![i] = X[x][i] + c * X[x][j]]]
    /\ Bounded(M') /\ Bounded(X')
    /\ UNCHANGED <<XC, sign, factors, grp>>

SwapRows ==
  \E i \in Pick(1..k) : \E j \in Pick((1..k) \ {i}) :
    /\ Step("swap")
    /\ M' = [M EXCEPT ![i] = M[j], ![j] = M[i]]
    /\ XC' = [x \in 1..Len(XC) |-> [XC[x] EXCEPT ![i] = XC[x][j], ![j] = XC[x][i]]]
    /\ sign' = 0 - sign
    /\ UNCHANGED <<X, factors, grp>>

NegRow ==
  \E i \in Pick(1..k) :
    /\ Step("neg")
    /\ M' = [M EXCEPT ![i] = [cc \in 1..k |-> 0 - M[i][cc]]]
    /\ XC' = [x \in 1..Len(XC) |-> [XC[x] EXCEPT ![i] = 0 - XC[x][i]]]
    /\ sign' = 0 - sign
    /\ UNCHANGED <<X, factors, grp>>

\* only while there is no redundant row (a redundant row need not stay in the scaled lattice)
ScaleRow ==
  \E i \in Pick(1..k) : \E t \in Pick(TSet) :
    /\ Len(X) = 0
    /\ nops.scale < MaxScale
    /\ Step("scale")
    /\ M' = [M EXCEPT ![i] = [cc \in 1..k |-> t * M[i][cc]]]
    /\ Bounded(M')
    /\ factors' = Append(factors, t)
    /\ grp' = FALSE
    /\ UNCHANGED <<X, XC, sign>>

\* redundant generator a*row_i + b*row_j (+ row_l)
AppendComb ==
  \E i \in Pick(1..k) : \E j \in Pick(1..k) : \E l \in Pick(1..k) :
  \E a \in Pick(CSet) : \E b \in Pick(CSet) :
    /\ Len(X) < MaxExtra
    /\ Step("comb")
    /\ LET co == [q \in 1..k |-> (IF q = i THEN a ELSE 0) + (IF q = j /\ j # i THEN b ELSE 0)
                                 + (IF q = l /\ l # i /\ l # j THEN 1 ELSE 0)]
           row == [cc \in 1..k |-> RowComb(co, M, k, cc)]
       IN /\ X' = Append(X, row)
          /\ XC' = Append(XC, co)
          /\ Bounded(X')
    /\ UNCHANGED <<M, sign, factors, grp>>

Next == Setup \/ AddRow \/ AddCol \/ SwapRows \/ NegRow \/ ScaleRow \/ AppendComb
Spec == Init /\ [][Next]_vars

-----------------------------------------------------------------------------
(* definitions the bookkeeping is compared with (k <= 3) *)
Det1(m) == m[1][1]
Det2(m) == m[1][1] * m[2][2] - m[1][2] * m[2][1]
Det3(m) == m[1][1] * (m[2][2] * m[3][3] - m[2][3] * m[3][2])
         - m[1][2] * (m[2][1] * m[3][3] - m[2][3] * m[3][1])
         + m[1][3] * (m[2][1] * m[3][2] - m[2][2] * m[3][1])
Leibniz(m) == CASE k = 1 -> Det1(m) [] k = 2 -> Det2(m) [] k = 3 -> Det3(m)

RECURSIVE GcdSet(_)
GcdSet(S) == IF S = {} THEN 0 ELSE LET x == CHOOSE y \in S : TRUE IN GcdI(x, GcdSet(S \ {x}))

\* determinantal divisors: gcd of all 1x1 minors, of all 2x2 minors
Div1(m) == GcdSet({m[r][c] : r \in 1..k, c \in 1..k})
Div2(m) == GcdSet({m[r1][c1] * m[r2][c2] - m[r1][c2] * m[r2][c1] :
                     r1 \in 1..k, r2 \in 1..k, c1 \in 1..k, c2 \in 1..k})

DetOK == (k >= 1 /\ k <= 3) => Leibniz(M) = sign * ProdSeq(factors)
\* the quotient group is determined by the determinantal divisors; they must be those of diag
GroupOK == (k >= 1 /\ k <= 3 /\ grp) =>
             /\ Div1(M) = Div1(Diag(k, diag))
             /\ (k >= 2 => Div2(M) = Div2(Diag(k, diag)))
             /\ Abs(Leibniz(M)) = Abs(ProdSeq(diag))
\* every redundant row is the stated integer combination of the basis rows
ExtraOK == \A x \in 1..Len(X) : \A cc \in 1..k : X[x][cc] = RowComb(XC[x], M, k, cc)
TypeOK == /\ sign \in {-1, 1} /\ Len(M) = k /\ Len(X) = Len(XC) /\ Bounded(M)

\* one JSON line per finished behaviour (simulation mode)
Emit == (steps = target /\ k >= 1) =>
          PrintT(<<"BEH", ToJson([k |-> k, M |-> M, X |-> X, XC |-> XC, sign |-> sign, factors |-> factors,
                                  diag |-> diag, grp |-> grp, steps |-> steps, nops |-> nops])>>)
=============================================================================
