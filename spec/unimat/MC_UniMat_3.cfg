SPECIFICATION Spec
CONSTANTS KSet = {3}
          DSet = {0, 2, 3}
          CSet <- C2p
          TSet = {2}
          StepSet = {2}
          MaxAbs = 8
          MaxCo = 8
          MaxExtra = 1
          MaxScale = 1
          Pick <- PickAll
          PickFun <- PickFunAll
INVARIANTS TypeOK DetOK GroupOK ExtraOK
CHECK_DEADLOCK FALSE
