INIT Init
NEXT Next
CONSTANTS ExtK = {16, 24, 33, 40, 60}
          DenseK = {12, 20, 28, 40, 60}
          WideK = {64, 120, 200, 300}
          BigRows = {1, 2, 5, 9, 14, 20, 24}
          BmL = {1, 2, 3, 4, 5, 7, 8, 12, 16, 24}
INVARIANT Emit
CHECK_DEADLOCK FALSE
