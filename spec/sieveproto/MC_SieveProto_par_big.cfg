SPECIFICATION Spec
CONSTANTS
  Workers = {w1, w2}
  NTasks = 2
  PolysPerTask = 2
  MaxRaw = 2
  Need = 3
  FB = 3
  Target0 = 1
  Slack = 1
  Seq = FALSE
  UseLock = TRUE
  UseGapAtomic = TRUE
  FinalTestsDone = TRUE
  AbortEnabled = FALSE
SYMMETRY Perms
INVARIANT TypeOK
INVARIANT WriterExclusive
INVARIANT NoLostInsert
INVARIANT FinalValid
INVARIANT FlagsTruthful
INVARIANT CompleteOrExhausted
INVARIANT NoSpuriousPanic
CHECK_DEADLOCK TRUE
