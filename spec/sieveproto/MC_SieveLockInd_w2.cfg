SPECIFICATION Spec
CONSTANTS
  Workers = {"w1", "w2"}
  NTasks = 2
  PolysPerTask = 2
  MaxRaw = 1
  Need = 2
  FB = 1
  Target0 = 1
  Slack = 0
  Seq = FALSE
  UseLock = TRUE
  UseGapAtomic = TRUE
  FinalTestsDone = TRUE
  AbortEnabled = FALSE
INVARIANT IndOnOrig
PROPERTY StepsMatch
PROPERTY InitMatch
CHECK_DEADLOCK TRUE
