SPECIFICATION Spec
CONSTANTS
  Workers = {w1, w2}
  NTasks = 2
  PolysPerTask = 2
  MaxRaw = 1
  Need = 2
  FB = 1
  Target0 = 1
  Slack = 0
  Seq = FALSE
  UseLock = TRUE
  UseGapAtomic = TRUE
  FinalTestsDone = TRUE
  AbortEnabled = FALSE
SYMMETRY Perms
INVARIANT TypeOK
INVARIANT WriterExclusive
INVARIANT NoLostInsert
INVARIANT FinalValid
INVARIANT FlagsTruthful
INVARIANT CompleteOrExhausted
INVARIANT NoSpuriousPanic
CHECK_DEADLOCK TRUE
