---------------------------- MODULE SieveLockInd ----------------------------
(***************************************************************************)
(* C04 - the store / RwLock part of SieveProto.tla for N workers and       *)
(* UNBOUNDED counters, as an inductive invariant (Apalache).               *)
(*                                                                         *)
(* SieveProto.tla is checked by TLC for 2 (3) workers and a handful of     *)
(* tasks and polynomials.  WriterExclusive and NoLostInsert only depend on *)
(* the lock and on the two-step RelationSet::add; this module RESTATES     *)
(* exactly those actions (AcqW with raw > 0, AddRead, AddWrite, RelW,      *)
(* AcqR, ReadLen, ReadGap, RelR; UseLock = TRUE) on the same variables pc, *)
(* lock, store, raw, tmp, ins, lenIns, and replaces ALL the rest of the    *)
(* protocol (tasks, relaxed atomics, abort, main thread) by one action     *)
(* Ctl: any set of workers that hold no lock may move to any location      *)
(* outside the locked regions, with any number of raw relations.  Every    *)
(* step of SieveProto is a step of this module (TLC: MC_SieveLockInd.tla), *)
(* so an inductive invariant here is an invariant there - for any number   *)
(* of tasks, polynomials, relations, and any Need / FB / target values.    *)
(* Workers is any subset of {"w1", .., "w4"} (Sum is written out).         *)
(***************************************************************************)
EXTENDS Integers, FiniteSets

CONSTANT
  \* @type: Set(Str);
  Workers

VARIABLES
  \* @type: Str -> Str;
  pc,
  \* @type: { readers: Set(Str), writer: Str };
  lock,
  \* @type: { ins: Int, len: Int, valid: Bool };
  store,
  \* @type: Str -> Int;
  raw,
  \* @type: Str -> <<Int, Int>>;
  tmp,
  \* @type: Str -> Int;
  ins,
  \* @type: Str -> Int;
  lenIns

vars == <<pc, lock, store, raw, tmp, ins, lenIns>>

None == "none"
AddPcs == {"p_add", "p_add2", "p_relw"}                         \* inside the write lock
ReadPcs == {"r_read", "r_rel", "g_read", "g_rel", "e_rel"}      \* inside a read lock
LockPcs == AddPcs \union ReadPcs
FreePcs == {"w_init", "w_idle", "w_end", "t_gap", "s_gap", "t_done", "s_done", "t_poll", "s_poll", "u_start",
            "p_done", "p_sieve", "p_ins", "r_acq", "g_acq", "e_acq", "inc_polys", "ld_target", "st_gap", "st_done",
            "st_target"}
AllPcs == FreePcs \union LockPcs

Init ==
  /\ pc = [w \in Workers |-> "w_init"]
  /\ lock = [readers |-> {}, writer |-> None]
  /\ store = [ins |-> 0, len |-> 0, valid |-> TRUE]
  /\ raw = [w \in Workers |-> 0]
  /\ tmp = [w \in Workers |-> <<0, 0>>]
  /\ ins = [w \in Workers |-> 0]
  /\ lenIns = [w \in Workers |-> 0]

\* @type: (Str, Str) => Bool;
Go(w, p) == pc' = [pc EXCEPT ![w] = p]

\* s.rels.write().unwrap()   (SieveProto!AcqW, branch raw[w] > 0; the branch raw[w] = 0 is a Ctl step)
\* @type: Str => Bool;
AcqW(w) ==
  /\ pc[w] = "p_ins" /\ raw[w] # 0
  /\ lock.writer = None /\ lock.readers = {}
  /\ lock' = [lock EXCEPT !.writer = w]
  /\ Go(w, "p_add")
  /\ UNCHANGED <<store, raw, tmp, ins, lenIns>>
\* @type: Str => Bool;
AddRead(w) ==
  /\ pc[w] = "p_add"
  /\ tmp' = [tmp EXCEPT ![w] = <<store.ins, store.len>>]
  /\ store' = [store EXCEPT !.valid = store.valid /\ ~(\E v \in Workers \ {w} : pc[v] = "p_add2")]
  /\ Go(w, "p_add2")
  /\ UNCHANGED <<lock, raw, ins, lenIns>>
\* @type: Str => Bool;
AddWrite(w) ==
  /\ pc[w] = "p_add2"
  /\ \E bb \in {0, 1} :
        /\ store' = [store EXCEPT !.ins = tmp[w][1] + 1, !.len = tmp[w][2] + bb]
        /\ lenIns' = [lenIns EXCEPT ![w] = lenIns[w] + bb]
  /\ ins' = [ins EXCEPT ![w] = ins[w] + 1]
  /\ Go(w, "p_relw")
  /\ UNCHANGED <<lock, raw, tmp>>
\* @type: Str => Bool;
RelW(w) ==
  /\ pc[w] = "p_relw"
  /\ lock' = [lock EXCEPT !.writer = None]
  /\ raw' = [raw EXCEPT ![w] = raw[w] - 1]
  /\ Go(w, "p_ins")
  /\ UNCHANGED <<store, tmp, ins, lenIns>>
\* @type: Str => Bool;
AcqR(w) ==
  /\ pc[w] \in {"r_acq", "g_acq", "e_acq"}
  /\ lock.writer = None
  /\ lock' = [lock EXCEPT !.readers = lock.readers \union {w}]
  /\ Go(w, IF pc[w] = "r_acq" THEN "r_read" ELSE IF pc[w] = "g_acq" THEN "g_read" ELSE "e_rel")
  /\ UNCHANGED <<store, raw, tmp, ins, lenIns>>
\* ReadLen / ReadGap: the private copies rlen, rgap are not variables here
\* @type: Str => Bool;
ReadIn(w) ==
  /\ pc[w] \in {"r_read", "g_read"}
  /\ Go(w, IF pc[w] = "r_read" THEN "r_rel" ELSE "g_rel")
  /\ UNCHANGED <<lock, store, raw, tmp, ins, lenIns>>
\* @type: Str => Bool;
RelR(w) ==
  /\ pc[w] \in {"r_rel", "g_rel", "e_rel"}
  /\ lock' = [lock EXCEPT !.readers = lock.readers \ {w}]
  /\ \E p \in FreePcs : Go(w, p)
  /\ UNCHANGED <<store, raw, tmp, ins, lenIns>>
\* everything else of the protocol: workers outside the locked regions move freely
Ctl ==
  /\ pc' \in [Workers -> AllPcs]
  /\ \A w \in Workers : pc'[w] # pc[w] => (pc[w] \in FreePcs /\ pc'[w] \in FreePcs)
  /\ raw' \in [Workers -> Int]
  /\ \A w \in Workers : pc[w] \in LockPcs => raw'[w] = raw[w]
  /\ UNCHANGED <<lock, store, tmp, ins, lenIns>>

\* @type: Str => Bool;
WorkerStep(w) == AcqW(w) \/ AddRead(w) \/ AddWrite(w) \/ RelW(w) \/ AcqR(w) \/ ReadIn(w) \/ RelR(w)
Next == Ctl \/ \E w \in Workers : WorkerStep(w)
Spec == Init /\ [][Next]_vars

-----------------------------------------------------------------------------
\* @type: (Str -> Int) => Int;
Sum(f) == (IF "w1" \in Workers THEN f["w1"] ELSE 0) + (IF "w2" \in Workers THEN f["w2"] ELSE 0)
          + (IF "w3" \in Workers THEN f["w3"] ELSE 0) + (IF "w4" \in Workers THEN f["w4"] ELSE 0)

\* @type: Str => Bool;
InAdd(w) == pc[w] \in AddPcs
\* @type: Str => Bool;
Reading(w) == pc[w] \in ReadPcs

\* the two properties, as SieveProto states them
WriterExclusive ==
  /\ Cardinality({w \in Workers : InAdd(w)}) <= 1
  /\ \A w \in Workers : InAdd(w) => ~(\E v \in Workers : Reading(v))
NoLostInsert ==
  (\A w \in Workers : pc[w] # "p_add2") => (store.ins = Sum(ins) /\ store.len = Sum(lenIns))

\* the inductive strengthening
TypeOK == /\ pc \in [Workers -> AllPcs]
          /\ lock.readers \subseteq Workers /\ lock.writer \in Workers \union {None}
LockInv == /\ \A w \in Workers : (lock.writer = w <=> InAdd(w)) /\ (w \in lock.readers <=> Reading(w))
           /\ lock.writer # None => lock.readers = {}
SumInv == store.ins = Sum(ins) /\ store.len = Sum(lenIns) /\ store.valid
TmpInv == \A w \in Workers : pc[w] = "p_add2" => tmp[w] = <<store.ins, store.len>>
IndInv == TypeOK /\ LockInv /\ SumInv /\ TmpInv
Inv == IndInv /\ WriterExclusive /\ NoLostInsert

IndInit ==
  /\ pc \in [Workers -> AllPcs]
  /\ \E rs \in SUBSET Workers, wr \in Workers \union {None} : lock = [readers |-> rs, writer |-> wr]
  /\ \E i \in Int, l \in Int, v \in BOOLEAN : store = [ins |-> i, len |-> l, valid |-> v]
  /\ raw \in [Workers -> Int]
  /\ \E ta \in [Workers -> Int], tb \in [Workers -> Int] : tmp = [w \in Workers |-> <<ta[w], tb[w]>>]
  /\ ins \in [Workers -> Int]
  /\ lenIns \in [Workers -> Int]
  /\ IndInv

CInit2 == Workers = {"w1", "w2"}
CInit3 == Workers = {"w1", "w2", "w3"}
CInit4 == Workers = {"w1", "w2", "w3", "w4"}

-----------------------------------------------------------------------------
\* Deliberately broken variant: inserts without the write lock (SieveProto UseLock = FALSE)
\* @type: Str => Bool;
AcqWNoLock(w) ==
  /\ pc[w] = "p_ins" /\ raw[w] # 0
  /\ Go(w, "p_add")
  /\ UNCHANGED <<lock, store, raw, tmp, ins, lenIns>>
NextNoLock == Ctl \/ \E w \in Workers : (AcqWNoLock(w) \/ AddRead(w) \/ AddWrite(w) \/ RelW(w) \/ AcqR(w) \/ ReadIn(w) \/ RelR(w))
\* readers admitted while a writer holds the lock
\* @type: Str => Bool;
AcqRBad(w) ==
  /\ pc[w] \in {"r_acq", "g_acq", "e_acq"}
  /\ lock' = [lock EXCEPT !.readers = lock.readers \union {w}]
  /\ Go(w, IF pc[w] = "r_acq" THEN "r_read" ELSE IF pc[w] = "g_acq" THEN "g_read" ELSE "e_rel")
  /\ UNCHANGED <<store, raw, tmp, ins, lenIns>>
NextBadR == Ctl \/ \E w \in Workers : (AcqW(w) \/ AddRead(w) \/ AddWrite(w) \/ RelW(w) \/ AcqRBad(w) \/ ReadIn(w) \/ RelR(w))
=============================================================================
