----------------------------- MODULE SieveProto -----------------------------
(***************************************************************************)
(* C04 / C05 (M) - the protocol between the threads of a parallel sieve.   *)
(*                                                                         *)
(* Transcribed from src/siqs.rs (siqs: lines 120-170, sieve_a: 172-250,    *)
(* sieve_block_poly: the insert at the end), which is the richest of the   *)
(* four loops; src/mpqs.rs (finished(), 672-698) is the same protocol      *)
(* without the gap atomic (UseGapAtomic = FALSE) and src/ecm.rs:216-292    *)
(* is the degenerate case with no store (Need = 0 is never reached, the    *)
(* done flag alone steers).  One action per access to shared state.        *)
(*                                                                         *)
(* Processes: main + Workers (the rayon pool; with Seq = TRUE the single   *)
(* worker is the calling thread itself and runs the sequential loop, which *)
(* sieves first and checks afterwards).                                    *)
(*                                                                         *)
(* Shared state                                                            *)
(*   tasks     number of A values not yet handed out (par_iter: any order) *)
(*   lock      RwLock<RelationSet>: set of readers, optional writer        *)
(*   store     ABSTRACT relation store: ins = number of insertions, len =  *)
(*             number of complete relations (cycles), valid = no torn      *)
(*             update was ever observed.  RelationSet::add is modelled as  *)
(*             a read step and a write step so that the need for the write *)
(*             lock is visible (UseLock = FALSE breaks NoLostInsert).      *)
(*   done/gap/target  RELAXED ATOMICS: a load may return ANY value written *)
(*             so far or the initial one (xxxW = set of those values);     *)
(*             after the join main reads the last value in modification    *)
(*             order (xxxLast).  The claim under test is that they only    *)
(*             steer early exit, never correctness.                        *)
(*   polys     polys_done, a fetch_add counter (never read for control)    *)
(*   abortFlag the caller's predicate; AbortFlips is the fault action      *)
(*                                                                         *)
(* gap(len) of the code is nprimes + MIN_KERNEL_SIZE - len (1000 for an    *)
(* empty store); here Need stands for nprimes + MIN_KERNEL_SIZE and FB for *)
(* the factor base size; the code only knows nprimes <= FB, so Need <= FB  *)
(* and Need > FB are both possible (two families of configs; Need <= FB    *)
(* was observed on the real code: oversized fb_size, or large_factor = 1   *)
(* at 150+ bits).                                                          *)
(*                                                                         *)
(* FINDING (fixed in /repo): ReadGap and StoreGap are separate steps, so a *)
(* stale non-zero gap can be stored after another worker stored gap = 0    *)
(* and done; with the old final test (FinalTestsDone = FALSE) Finalize     *)
(* then panics although enough relations exist whenever len <= FB.  TLC    *)
(* finds it (MC_SieveProto_hazard.cfg violates NoSpuriousPanic); the same  *)
(* schedule was replayed on the real code with a gate at the sched points  *)
(* and produced the panic.  With the fixed test NoSpuriousPanic holds for  *)
(* Need <= FB too (MC_SieveProto_needle.cfg).                              *)
(***************************************************************************)
EXTENDS Naturals, FiniteSets, TLC

CONSTANTS Workers,        \* pool threads
          NTasks,         \* number of A values
          PolysPerTask,   \* polynomials per A
          MaxRaw,         \* raw relations a polynomial can yield (0..MaxRaw)
          Need,           \* relations needed: gap(len) = Need - len
          FB,             \* factor base size (panic test: gap # 0 /\ len <= FB)
          Target0,        \* initial target (fb * 8 / 10)
          Slack,          \* min(10, fb / 4)
          Seq,            \* TRUE: no pool, the sequential loop
          UseLock,        \* FALSE: mutation - inserts without the write lock
          UseGapAtomic,   \* FALSE: MPQS flavour (no gap atomic, no panic test)
          FinalTestsDone, \* TRUE: the final test reads `done` (current code, after the fix of the stale-gap
                          \* panic); FALSE: it reads `gap` (the code before the fix, kept to show the hazard)
          AbortEnabled    \* TRUE: the AbortFlips fault action exists

VARIABLES pc, mpc, tasks, lock, store, doneW, doneLast, gapW, gapLast, targetW, targetLast, polys,
          abortFlag, idx, raw, tmp, rlen, rgap, ins, lenIns, sawAbort,
          unitsAfterTrue, unitsAfterFlip, sieved, stoppedEarly

vars == <<pc, mpc, tasks, lock, store, doneW, doneLast, gapW, gapLast, targetW, targetLast, polys,
          abortFlag, idx, raw, tmp, rlen, rgap, ins, lenIns, sawAbort,
          unitsAfterTrue, unitsAfterFlip, sieved, stoppedEarly>>

None == "none"
Inf == 1000
Gap(len) == IF len = 0 THEN Inf ELSE IF Need > len THEN Need - len ELSE 0
Min2(a, b) == IF a <= b THEN a ELSE b

Init ==
  /\ pc = [w \in Workers |-> "w_init"]
  /\ mpc = "m_fork"
  /\ tasks = NTasks
  /\ lock = [readers |-> {}, writer |-> None]
  /\ store = [ins |-> 0, len |-> 0, valid |-> TRUE]
  /\ doneW = {FALSE} /\ doneLast = FALSE
  /\ gapW = {FB} /\ gapLast = FB
  /\ targetW = {Target0} /\ targetLast = Target0
  /\ polys = 0
  /\ abortFlag = FALSE
  /\ idx = [w \in Workers |-> 0]
  /\ raw = [w \in Workers |-> 0]
  /\ tmp = [w \in Workers |-> <<0, 0>>]
  /\ rlen = [w \in Workers |-> 0]
  /\ rgap = [w \in Workers |-> 0]
  /\ ins = [w \in Workers |-> 0]
  /\ lenIns = [w \in Workers |-> 0]
  /\ sawAbort = [w \in Workers |-> FALSE]
  /\ unitsAfterTrue = [w \in Workers |-> 0]
  /\ unitsAfterFlip = [w \in Workers |-> 0]
  /\ sieved = 0
  /\ stoppedEarly = FALSE

Go(w, p) == pc' = [pc EXCEPT ![w] = p]

\* where a worker goes when its closure / loop body is over
AfterUnit == IF Seq THEN (IF UseGapAtomic THEN "s_gap" ELSE "s_done") ELSE "w_idle"

-----------------------------------------------------------------------------
(* main *)
Fork == /\ mpc = "m_fork" /\ mpc' = "m_join"
        /\ pc' = [w \in Workers |-> "w_idle"]
        /\ UNCHANGED <<tasks, lock, store, doneW, doneLast, gapW, gapLast, targetW, targetLast, polys, abortFlag,
                       idx, raw, tmp, rlen, rgap, ins, lenIns, sawAbort, unitsAfterTrue, unitsAfterFlip, sieved, stoppedEarly>>

Join == /\ mpc = "m_join" /\ \A w \in Workers : pc[w] = "w_end"
        /\ mpc' = "m_abort"
        /\ UNCHANGED <<pc, tasks, lock, store, doneW, doneLast, gapW, gapLast, targetW, targetLast, polys, abortFlag,
                       idx, raw, tmp, rlen, rgap, ins, lenIns, sawAbort, unitsAfterTrue, unitsAfterFlip, sieved, stoppedEarly>>

\* siqs.rs:148  if prefs.abort() { return Ok(vec![]) }
FinalAbortCheck ==
        /\ mpc = "m_abort"
        /\ mpc' = IF abortFlag THEN "m_aborted" ELSE "m_final"
        /\ UNCHANGED <<pc, tasks, lock, store, doneW, doneLast, gapW, gapLast, targetW, targetLast, polys, abortFlag,
                       idx, raw, tmp, rlen, rgap, ins, lenIns, sawAbort, unitsAfterTrue, unitsAfterFlip, sieved, stoppedEarly>>

\* siqs.rs:150-170  into_inner, truncate, the panic test, final_step.  The test was
\*   if s.gap.load(Relaxed) != 0 && rels.len() <= fbase.len() { panic!(..) }
\* and is, since the fix of the stale-gap panic found with this model and reproduced on the code,
\*   if !s.done.load(Relaxed) && rels.len() <= fbase.len() { panic!(..) }
Finalize ==
        /\ mpc = "m_final"
        /\ mpc' = IF UseGapAtomic /\ store.len <= FB /\ (IF FinalTestsDone THEN ~doneLast ELSE gapLast # 0)
                  THEN "m_panic" ELSE "m_done"
        /\ UNCHANGED <<pc, tasks, lock, store, doneW, doneLast, gapW, gapLast, targetW, targetLast, polys, abortFlag,
                       idx, raw, tmp, rlen, rgap, ins, lenIns, sawAbort, unitsAfterTrue, unitsAfterFlip, sieved, stoppedEarly>>

\* fault action: the predicate starts returning true, at any moment
AbortFlips ==
        /\ AbortEnabled /\ ~abortFlag /\ mpc \in {"m_fork", "m_join", "m_abort"}
        /\ abortFlag' = TRUE
        /\ UNCHANGED <<pc, mpc, tasks, lock, store, doneW, doneLast, gapW, gapLast, targetW, targetLast, polys,
                       idx, raw, tmp, rlen, rgap, ins, lenIns, sawAbort, unitsAfterTrue, unitsAfterFlip, sieved, stoppedEarly>>

-----------------------------------------------------------------------------
(* workers *)
U(w) == UNCHANGED <<mpc, tasks, lock, store, doneW, doneLast, gapW, gapLast, targetW, targetLast, polys, abortFlag,
                    idx, raw, tmp, rlen, rgap, ins, lenIns, sawAbort, unitsAfterTrue, unitsAfterFlip, sieved, stoppedEarly>>

\* rayon hands out the next item; no items left: the worker is finished
TakeTask(w) ==
  /\ pc[w] = "w_idle"
  /\ IF tasks > 0
     THEN /\ tasks' = tasks - 1
          /\ Go(w, IF Seq THEN "u_start" ELSE IF UseGapAtomic THEN "t_gap" ELSE "t_done")
     ELSE /\ Go(w, "w_end") /\ UNCHANGED tasks
  /\ UNCHANGED <<mpc, lock, store, doneW, doneLast, gapW, gapLast, targetW, targetLast, polys, abortFlag,
                 idx, raw, tmp, rlen, rgap, ins, lenIns, sawAbort, unitsAfterTrue, unitsAfterFlip, sieved, stoppedEarly>>

\* siqs.rs:128 / 140   if s.gap.load(Relaxed) == 0 { return / break }
LoadGap(w) ==
  /\ pc[w] \in {"t_gap", "s_gap"}
  /\ \E g \in gapW :
        /\ Go(w, IF g = 0 THEN (IF Seq THEN "w_end" ELSE "w_idle") ELSE IF Seq THEN "s_done" ELSE "t_done")
        /\ stoppedEarly' = (stoppedEarly \/ g = 0)
  /\ UNCHANGED <<mpc, tasks, lock, store, doneW, doneLast, gapW, gapLast, targetW, targetLast, polys, abortFlag,
                 idx, raw, tmp, rlen, rgap, ins, lenIns, sawAbort, unitsAfterTrue, unitsAfterFlip, sieved>>

\* siqs.rs:131 / 143   if s.done.load(Relaxed) || ...
LoadDone(w) ==
  /\ pc[w] \in {"t_done", "s_done"}
  /\ \E d \in doneW :
        /\ Go(w, IF d THEN (IF Seq THEN "w_end" ELSE "w_idle") ELSE IF Seq THEN "s_poll" ELSE "t_poll")
        /\ stoppedEarly' = (stoppedEarly \/ d)
  /\ UNCHANGED <<mpc, tasks, lock, store, doneW, doneLast, gapW, gapLast, targetW, targetLast, polys, abortFlag,
                 idx, raw, tmp, rlen, rgap, ins, lenIns, sawAbort, unitsAfterTrue, unitsAfterFlip, sieved>>

\*                     ... || prefs.abort() { return / break }
PollAbort(w) ==
  /\ pc[w] \in {"t_poll", "s_poll"}
  /\ IF abortFlag
     THEN /\ sawAbort' = [sawAbort EXCEPT ![w] = TRUE]
          /\ Go(w, IF Seq THEN "w_end" ELSE "w_idle")
     ELSE /\ UNCHANGED sawAbort
          /\ Go(w, IF Seq THEN "w_idle" ELSE "u_start")
  /\ UNCHANGED <<mpc, tasks, lock, store, doneW, doneLast, gapW, gapLast, targetW, targetLast, polys, abortFlag,
                 idx, raw, tmp, rlen, rgap, ins, lenIns, unitsAfterTrue, unitsAfterFlip, sieved, stoppedEarly>>

\* sieve_a begins: one abortable unit
UnitStart(w) ==
  /\ pc[w] = "u_start"
  /\ idx' = [idx EXCEPT ![w] = 0]
  /\ unitsAfterTrue' = [unitsAfterTrue EXCEPT ![w] = IF sawAbort[w] THEN @ + 1 ELSE @]
  /\ unitsAfterFlip' = [unitsAfterFlip EXCEPT ![w] = IF abortFlag THEN @ + 1 ELSE @]
  /\ Go(w, "p_done")
  /\ UNCHANGED <<mpc, tasks, lock, store, doneW, doneLast, gapW, gapLast, targetW, targetLast, polys, abortFlag,
                 raw, tmp, rlen, rgap, ins, lenIns, sawAbort, sieved, stoppedEarly>>

\* siqs.rs:194   if s.done.load(Relaxed) { return }   (top of the polynomial loop)
LoadDonePoly(w) ==
  /\ pc[w] = "p_done"
  /\ \E d \in doneW :
        /\ Go(w, IF d THEN AfterUnit ELSE "p_sieve")
        /\ stoppedEarly' = (stoppedEarly \/ d)
  /\ UNCHANGED <<mpc, tasks, lock, store, doneW, doneLast, gapW, gapLast, targetW, targetLast, polys, abortFlag,
                 idx, raw, tmp, rlen, rgap, ins, lenIns, sawAbort, unitsAfterTrue, unitsAfterFlip, sieved>>

\* siqs_sieve_poly: thread-local work producing some raw relations
SievePoly(w) ==
  /\ pc[w] = "p_sieve"
  /\ \E k \in 0..MaxRaw : raw' = [raw EXCEPT ![w] = k]
  /\ sieved' = sieved + 1
  /\ Go(w, "p_ins")
  /\ UNCHANGED <<mpc, tasks, lock, store, doneW, doneLast, gapW, gapLast, targetW, targetLast, polys, abortFlag,
                 idx, tmp, rlen, rgap, ins, lenIns, sawAbort, unitsAfterTrue, unitsAfterFlip, stoppedEarly>>

\* s.rels.write().unwrap() ...
AcqW(w) ==
  /\ pc[w] = "p_ins"
  /\ IF raw[w] = 0
     THEN Go(w, "r_acq") /\ UNCHANGED lock
     ELSE /\ (UseLock => lock.writer = None /\ lock.readers = {})
          /\ lock' = IF UseLock THEN [lock EXCEPT !.writer = w] ELSE lock
          /\ Go(w, "p_add")
  /\ UNCHANGED <<mpc, tasks, store, doneW, doneLast, gapW, gapLast, targetW, targetLast, polys, abortFlag,
                 idx, raw, tmp, rlen, rgap, ins, lenIns, sawAbort, unitsAfterTrue, unitsAfterFlip, sieved, stoppedEarly>>

\* ... .add(rel, pq): reads the collections ...
AddRead(w) ==
  /\ pc[w] = "p_add"
  /\ tmp' = [tmp EXCEPT ![w] = <<store.ins, store.len>>]
  \* another thread in the middle of its own add: a torn update of the maps
  /\ store' = [store EXCEPT !.valid = @ /\ ~(\E v \in Workers \ {w} : pc[v] = "p_add2")]
  /\ Go(w, "p_add2")
  /\ UNCHANGED <<mpc, tasks, lock, doneW, doneLast, gapW, gapLast, targetW, targetLast, polys, abortFlag,
                 idx, raw, rlen, rgap, ins, lenIns, sawAbort, unitsAfterTrue, unitsAfterFlip, sieved, stoppedEarly>>

\* ... and writes them back (a complete relation or a cycle raises len, a partial one does not)
AddWrite(w) ==
  /\ pc[w] = "p_add2"
  /\ \E b \in {0, 1} :
        /\ store' = [store EXCEPT !.ins = tmp[w][1] + 1, !.len = tmp[w][2] + b]
        /\ lenIns' = [lenIns EXCEPT ![w] = @ + b]
  /\ ins' = [ins EXCEPT ![w] = @ + 1]
  /\ Go(w, "p_relw")
  /\ UNCHANGED <<mpc, tasks, lock, doneW, doneLast, gapW, gapLast, targetW, targetLast, polys, abortFlag,
                 idx, raw, tmp, rlen, rgap, sawAbort, unitsAfterTrue, unitsAfterFlip, sieved, stoppedEarly>>

\* the guard is dropped at the end of the statement
RelW(w) ==
  /\ pc[w] = "p_relw"
  /\ lock' = IF UseLock THEN [lock EXCEPT !.writer = None] ELSE lock
  /\ raw' = [raw EXCEPT ![w] = @ - 1]
  /\ Go(w, "p_ins")
  /\ UNCHANGED <<mpc, tasks, store, doneW, doneLast, gapW, gapLast, targetW, targetLast, polys, abortFlag,
                 idx, tmp, rlen, rgap, ins, lenIns, sawAbort, unitsAfterTrue, unitsAfterFlip, sieved, stoppedEarly>>

\* read sections:  r_* = rlen (siqs.rs:204), g_* = rgap (siqs.rs:213), e_* = the log line at the end of sieve_a
AcqR(w) ==
  /\ pc[w] \in {"r_acq", "g_acq", "e_acq"}
  /\ lock.writer = None
  /\ lock' = [lock EXCEPT !.readers = @ \cup {w}]
  /\ Go(w, CASE pc[w] = "r_acq" -> "r_read" [] pc[w] = "g_acq" -> "g_read" [] OTHER -> "e_rel")
  /\ UNCHANGED <<mpc, tasks, store, doneW, doneLast, gapW, gapLast, targetW, targetLast, polys, abortFlag,
                 idx, raw, tmp, rlen, rgap, ins, lenIns, sawAbort, unitsAfterTrue, unitsAfterFlip, sieved, stoppedEarly>>

ReadLen(w) ==
  /\ pc[w] = "r_read"
  /\ rlen' = [rlen EXCEPT ![w] = store.len]
  /\ Go(w, "r_rel")
  /\ UNCHANGED <<mpc, tasks, lock, store, doneW, doneLast, gapW, gapLast, targetW, targetLast, polys, abortFlag,
                 idx, raw, tmp, rgap, ins, lenIns, sawAbort, unitsAfterTrue, unitsAfterFlip, sieved, stoppedEarly>>

ReadGap(w) ==
  /\ pc[w] = "g_read"
  /\ rgap' = [rgap EXCEPT ![w] = Gap(store.len)]
  /\ Go(w, "g_rel")
  /\ UNCHANGED <<mpc, tasks, lock, store, doneW, doneLast, gapW, gapLast, targetW, targetLast, polys, abortFlag,
                 idx, raw, tmp, rlen, ins, lenIns, sawAbort, unitsAfterTrue, unitsAfterFlip, sieved, stoppedEarly>>

RelR(w) ==
  /\ pc[w] \in {"r_rel", "g_rel", "e_rel"}
  /\ lock' = [lock EXCEPT !.readers = @ \ {w}]
  /\ Go(w, CASE pc[w] = "r_rel" -> "inc_polys"
             [] pc[w] = "g_rel" -> (IF UseGapAtomic THEN "st_gap" ELSE IF rgap[w] = 0 THEN "st_done" ELSE "st_target")
             [] OTHER -> AfterUnit)
  /\ UNCHANGED <<mpc, tasks, store, doneW, doneLast, gapW, gapLast, targetW, targetLast, polys, abortFlag,
                 idx, raw, tmp, rlen, rgap, ins, lenIns, sawAbort, unitsAfterTrue, unitsAfterFlip, sieved, stoppedEarly>>

\* s.polys_done.fetch_add(1, SeqCst)
IncPolys(w) ==
  /\ pc[w] = "inc_polys"
  /\ polys' = polys + 1
  /\ Go(w, "ld_target")
  /\ UNCHANGED <<mpc, tasks, lock, store, doneW, doneLast, gapW, gapLast, targetW, targetLast, abortFlag,
                 idx, raw, tmp, rlen, rgap, ins, lenIns, sawAbort, unitsAfterTrue, unitsAfterFlip, sieved, stoppedEarly>>

\* end of one iteration of the polynomial loop
NextPolyPc(w) == IF idx[w] + 1 < PolysPerTask THEN "p_done" ELSE "e_acq"

\* if rlen >= s.target.load(Relaxed)
LoadTarget(w) ==
  /\ pc[w] = "ld_target"
  /\ \E t \in targetW :
       IF rlen[w] >= t THEN Go(w, "g_acq") /\ UNCHANGED idx
       ELSE Go(w, NextPolyPc(w)) /\ idx' = [idx EXCEPT ![w] = @ + 1]
  /\ UNCHANGED <<mpc, tasks, lock, store, doneW, doneLast, gapW, gapLast, targetW, targetLast, polys, abortFlag,
                 raw, tmp, rlen, rgap, ins, lenIns, sawAbort, unitsAfterTrue, unitsAfterFlip, sieved, stoppedEarly>>

\* s.gap.store(rgap, Relaxed)
StoreGap(w) ==
  /\ pc[w] = "st_gap"
  /\ gapW' = gapW \cup {rgap[w]} /\ gapLast' = rgap[w]
  /\ Go(w, IF rgap[w] = 0 THEN "st_done" ELSE "st_target")
  /\ UNCHANGED <<mpc, tasks, lock, store, doneW, doneLast, targetW, targetLast, polys, abortFlag,
                 idx, raw, tmp, rlen, rgap, ins, lenIns, sawAbort, unitsAfterTrue, unitsAfterFlip, sieved, stoppedEarly>>

\* s.done.store(true, Relaxed); return
StoreDone(w) ==
  /\ pc[w] = "st_done"
  /\ doneW' = doneW \cup {TRUE} /\ doneLast' = TRUE
  /\ Go(w, AfterUnit)
  /\ UNCHANGED <<mpc, tasks, lock, store, gapW, gapLast, targetW, targetLast, polys, abortFlag,
                 idx, raw, tmp, rlen, rgap, ins, lenIns, sawAbort, unitsAfterTrue, unitsAfterFlip, sieved, stoppedEarly>>

\* s.target.store(rlen + rgap + min(10, fb / 4))
StoreTarget(w) ==
  /\ pc[w] = "st_target"
  /\ LET t == Min2(rlen[w] + rgap[w] + Slack, Inf) IN targetW' = targetW \cup {t} /\ targetLast' = t
  /\ Go(w, NextPolyPc(w)) /\ idx' = [idx EXCEPT ![w] = @ + 1]
  /\ UNCHANGED <<mpc, tasks, lock, store, doneW, doneLast, gapW, gapLast, polys, abortFlag,
                 raw, tmp, rlen, rgap, ins, lenIns, sawAbort, unitsAfterTrue, unitsAfterFlip, sieved, stoppedEarly>>

WorkerStep(w) ==
  \/ TakeTask(w) \/ LoadGap(w) \/ LoadDone(w) \/ PollAbort(w) \/ UnitStart(w) \/ LoadDonePoly(w) \/ SievePoly(w)
  \/ AcqW(w) \/ AddRead(w) \/ AddWrite(w) \/ RelW(w) \/ AcqR(w) \/ ReadLen(w) \/ ReadGap(w) \/ RelR(w)
  \/ IncPolys(w) \/ LoadTarget(w) \/ StoreGap(w) \/ StoreDone(w) \/ StoreTarget(w)

MainStep == Fork \/ Join \/ FinalAbortCheck \/ Finalize

Terminal == mpc \in {"m_done", "m_panic", "m_aborted"}

Next == MainStep \/ AbortFlips \/ (\E w \in Workers : WorkerStep(w)) \/ (Terminal /\ UNCHANGED vars)

Fairness == WF_vars(MainStep) /\ \A w \in Workers : WF_vars(WorkerStep(w))

Spec == Init /\ [][Next]_vars /\ Fairness

-----------------------------------------------------------------------------
(* properties *)
Sum(f) == LET RECURSIVE S(_) S(ws) == IF ws = {} THEN 0 ELSE LET w == CHOOSE x \in ws : TRUE IN f[w] + S(ws \ {w}) IN S(Workers)

InAdd(w) == pc[w] \in {"p_add", "p_add2", "p_relw"}
Reading(w) == pc[w] \in {"r_read", "r_rel", "g_read", "g_rel", "e_rel"}

TypeOK ==
  /\ tasks \in 0..NTasks /\ store.ins \in Nat /\ store.len \in Nat /\ store.valid \in BOOLEAN
  /\ doneW \subseteq BOOLEAN /\ lock.readers \subseteq Workers /\ lock.writer \in Workers \cup {None}

\* at most one thread inside RelationSet::add, and no reader meanwhile
WriterExclusive ==
  /\ Cardinality({w \in Workers : InAdd(w)}) <= 1
  /\ \A w \in Workers : InAdd(w) => ~(\E v \in Workers : Reading(v))

\* every insertion performed by a worker is in the store (whenever nobody is in the middle of one)
NoLostInsert ==
  (\A w \in Workers : pc[w] # "p_add2") =>
      (store.ins = Sum(ins) /\ store.len = Sum(lenIns))

\* what Finalize hands to final_step is the untorn store holding every insertion
FinalValid == mpc \in {"m_final", "m_done", "m_panic"} => (store.valid /\ store.ins = Sum(ins) /\ store.len = Sum(lenIns))

\* a zero gap / a true done flag is only ever published when the store really had enough relations, and
\* len never decreases: whoever stops early on such a value stops a finished sieve
FlagsTruthful == (0 \in gapW \/ TRUE \in doneW) => Gap(store.len) = 0

\* the parallel run does not stop short: it ends with enough relations, or the whole supply was sieved
\* (then the single-threaded run, which sieves the same polynomials, has no more either), or it was aborted
CompleteOrExhausted ==
  mpc \in {"m_final", "m_done"} => (Gap(store.len) = 0 \/ sieved = NTasks * PolysPerTask)

\* the panic of siqs.rs:164 means a real shortage of relations - or, at worst, that the whole supply of
\* polynomials was sieved without any completion check seeing the last relations arrive (the target is
\* set Slack beyond the need; this corner is the same with one thread and is not a scheduling matter)
NoSpuriousPanic == mpc = "m_panic" => (Gap(store.len) # 0 \/ (TRUE \notin doneW /\ sieved = NTasks * PolysPerTask))
\* what the code guarantees when Need <= FB is possible: a panic with enough relations needs a stale gap
PanicOnlyIfShortOrStale == mpc = "m_panic" => (Gap(store.len) # 0 \/ (gapLast # Gap(store.len) /\ 0 \in gapW))

\* C05 AbortBounded
\* (i)/(ii) a thread whose poll returned true starts no further unit; no thread starts more than one unit
\*          after the flip (the one it was cleared for by a poll that preceded the flip)
AbortNoNewUnit == \A w \in Workers : unitsAfterTrue[w] = 0 /\ unitsAfterFlip[w] <= 1
\* (iii) an abort observed by any poll of the sieve is observed by main: the partial relation set is never
\*       pushed through final_step, the sieve returns the empty divisor list
AbortNoFinalStep == (\E w \in Workers : sawAbort[w]) => mpc \notin {"m_final", "m_done", "m_panic"}
AbortBounded == AbortNoNewUnit /\ AbortNoFinalStep

\* (iv) and C04: the call terminates
Termination == <>Terminal
Perms == Permutations(Workers)
Joined == <>(mpc # "m_fork" /\ mpc # "m_join")
=============================================================================
