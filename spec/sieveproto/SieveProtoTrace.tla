--------------------------- MODULE SieveProtoTrace ---------------------------
(***************************************************************************)
(* C04 - results do not depend on thread count or interleaving.            *)
(*                                                                         *)
(* Trace lines, grouped by input (field "case"):                           *)
(*   op "input": n, its prime factors with certificate chains (witness);   *)
(*   op "run":   one call factor(n, alg, prefs) with prefs.threads = t     *)
(*               under one schedule perturbation.  base = TRUE marks the   *)
(*               run without a thread pool of the same (alg, preference    *)
(*               variant) = bkey; it comes first.  evs = the hook events   *)
(*               of the run in the order they were logged (the log mutex   *)
(*               orders them), each <<code, tid, a, b, c>> (see the driver *)
(*               harness/src/drivers/c04.rs, fn compact).                  *)
(*                                                                         *)
(* StrictC04 = the property statement, nothing else:                       *)
(*   returns        the call returns (no panic: no consistency assertion   *)
(*                  tripped; no hang: the watchdog saw progress stop);     *)
(*   valid          a returned list has product n, is sorted, has no 0/1   *)
(*                  (the strict predicate of C01);                         *)
(*   complete       if the run without pool of the same input/selector/    *)
(*                  preferences returned the full prime factorisation, so  *)
(*                  does this run; if it returned a list, this run does    *)
(*                  not return the failure value;                          *)
(*   writer_excl    the sections [rel_add enter, rel_add exit] (logged     *)
(*                  while the write lock is held) never overlap, and no    *)
(*                  reader logs from inside its read section meanwhile.    *)
(* Drift (the detailed model SieveProto, informational):                   *)
(*   path           per-thread program order follows the worker process    *)
(*                  of SieveProto (successor relation on event kinds,      *)
(*                  given the values the thread read);                     *)
(*   thin_air       a flag value that steered an exit (done = TRUE, gap =  *)
(*                  0) was stored by some thread earlier in the log        *)
(*                  (stores are logged before, loads after the access);    *)
(*   lost_insert    #w_req = #enter = #exit = #w_rel, and the length main  *)
(*                  reads after the join is the one left by the last       *)
(*                  insertion (NoLostInsert).                              *)
(***************************************************************************)
EXTENDS BigNat, Certs, TraceLib, FiniteSets
VARIABLES l, inp, base

NoEv == <<0, 0, 0, 0, 0>>

F0 == [inAdd |-> 0, reqs |-> 0, enters |-> 0, exits |-> 0, rels |-> 0, cyc |-> -1,
       doneSt |-> FALSE, gap0St |-> FALSE, last |-> <<>>, bad |-> {}, dr |-> {}, returned |-> FALSE,
       stale |-> FALSE]

Prev(s, t) == IF t \in DOMAIN s.last THEN s.last[t] ELSE NoEv

\* successor relation of the worker / main processes of SieveProto on logged events (prev p, current x)
PathOK(p, x) ==
  CASE x[1] = 18 /\ x[3] = 0 -> p[1] = 16                                   \* AcqW . AddRead
    [] x[1] = 18 /\ x[3] = 1 -> p[1] = 18 /\ p[3] = 0                       \* AddWrite
    [] x[1] = 17 -> p[1] = 18 /\ p[3] = 1                                   \* RelW
    [] x[1] \in {16, 30} -> p[1] \in {10, 17, 25, 7, 30}                    \* next raw relation of the polynomial
    [] x[1] = 12 -> p[1] = 11                                               \* ReadLen . LoadTarget . ReadGap
    [] x[1] = 13 -> p[1] = 12 /\ p[4] = x[4]                                \* StoreGap stores what ReadGap read
    [] x[1] = 14 -> \/ (p[1] = 13 /\ p[4] = 0) \/ (p[1] = 12 /\ p[4] = 0 /\ x[3] = 2)  \* StoreDone only after gap = 0
                    \/ (x[3] = 4 /\ p[1] = 7)                                \* ECM: a curve found a factor
    [] x[1] = 15 -> (p[1] = 13 /\ p[4] # 0) \/ (p[1] = 12 /\ p[4] # 0 /\ x[3] = 2)   \* StoreTarget only after gap # 0
    [] x[1] = 7  -> (p[1] = 6 /\ p[4] = 0) \/ p[1] = 3                      \* UnitStart after a poll that returned false
    [] x[1] = 4  -> p[1] \in {3, 5, 24, 14} \/ (p[1] = 6 /\ p[4] = 1)       \* skip: gap 0 | done (read or just stored) | abort
    [] x[1] = 21 -> p[1] = 20                                               \* Finalize
    [] OTHER -> TRUE

Step(s, x) ==
  LET t == x[2]
      p == Prev(s, t)
      c == x[1]
      heldRead == (c = 11 /\ x[5] = 1) \/ (c = 12 /\ x[3] \in {1, 3})
      strict == (IF (c = 30 \/ (c = 18 /\ x[3] = 0)) /\ s.inAdd # 0 THEN {"writer_overlap"} ELSE {})
                \cup (IF c = 18 /\ x[3] = 1 /\ s.inAdd # t THEN {"writer_overlap"} ELSE {})
                \cup (IF heldRead /\ s.inAdd # 0 THEN {"reader_in_writer"} ELSE {})
      needDone == c = 24 \/ (c = 9 /\ (x[3] = 1 \/ p[1] = 24)) \/ (c = 4 /\ x[4] = 2 /\ p[1] = 5)
      needGap0 == (c = 4 /\ x[4] = 1) \/ (c = 23 /\ x[3] = 1 /\ x[4] = 1)
      drift == (IF ~PathOK(p, x) THEN {"path"} ELSE {})
               \cup (IF needDone /\ ~s.doneSt THEN {"thin_air"} ELSE {})
               \cup (IF needGap0 /\ ~s.gap0St THEN {"thin_air"} ELSE {})
               \cup (IF c = 20 /\ s.cyc >= 0 /\ s.cyc # x[4] THEN {"lost_insert"} ELSE {})
  IN [s EXCEPT
        !.inAdd = IF c = 18 THEN (IF x[3] = 0 THEN t ELSE 0) ELSE @,
        \* entry 30 = x[4] whole uncontended insertions (w_req, enter, exit, w_rel) of thread t, folded by the driver
        !.reqs = IF c = 16 THEN @ + 1 ELSE IF c = 30 THEN @ + x[4] ELSE @,
        !.enters = IF c = 18 /\ x[3] = 0 THEN @ + 1 ELSE IF c = 30 THEN @ + x[4] ELSE @,
        !.exits = IF c = 18 /\ x[3] = 1 THEN @ + 1 ELSE IF c = 30 THEN @ + x[4] ELSE @,
        !.rels = IF c = 17 THEN @ + 1 ELSE IF c = 30 THEN @ + x[4] ELSE @,
        !.cyc = IF c = 18 /\ x[3] = 1 THEN x[4] ELSE IF c = 30 THEN x[3] ELSE IF c = 1 THEN -1 ELSE @,
        !.doneSt = IF c = 14 THEN TRUE ELSE IF c = 1 THEN FALSE ELSE @,
        !.gap0St = IF c = 13 /\ x[4] = 0 THEN TRUE ELSE IF c = 1 THEN FALSE ELSE @,
        !.stale = @ \/ (c = 21 /\ x[3] # 0 /\ s.gap0St),
        !.returned = @ \/ c = 27,
        !.last = (t :> x) @@ @,
        !.bad = @ \cup strict,
        !.dr = @ \cup drift]

Final(e) == FoldLeft(Step, F0, e.evs)

Sorted(list) == \A i \in 1..(Len(list) - 1) : Le(list[i], list[i + 1])
ValidList(e) == /\ \A i \in 1..Len(e.list) : IsNat(e.list[i]) /\ Gt(e.list[i], One)
                /\ Sorted(e.list)
                /\ Prod(e.list) = e.n

InputOK(e) ==
  /\ Len(e.chains) = Len(e.primes)
  /\ \A i \in 1..Len(e.primes) : ChainOK(e.chains[i]) /\ ChainPrime(e.chains[i]) = e.primes[i]
  /\ Prod(e.primes) = e.n
  /\ Sorted(e.primes)

Complete(e) == e.ret = "list" /\ e.list = inp.primes

JudgeRun(i, e) ==
  LET f == Final(e)
      returns == ~Has(e, "outcome") /\ e.ret \in {"list", "failure"} /\ f.returned
      hasBase == e.bkey \in DOMAIN base
  IN
  /\ Witness(i, "input_known", inp # <<>> /\ inp.n = e.n)
  /\ Strict(i, "returns", returns)
  /\ Strict(i, "valid", e.ret = "list" => ValidList(e))
  /\ Strict(i, "complete", (~e.base /\ hasBase /\ base[e.bkey].complete) => Complete(e))
  /\ Strict(i, "failure", (~e.base /\ hasBase /\ base[e.bkey].ret = "list" /\ returns) => e.ret = "list")
  /\ Strict(i, "writer_excl", f.bad = {})
  /\ Drift(i, "path", "path" \notin f.dr)
  /\ Drift(i, "thin_air", "thin_air" \notin f.dr)
  /\ Drift(i, "lost_insert", "lost_insert" \notin f.dr /\
                             (returns => (f.reqs = f.enters /\ f.enters = f.exits /\ f.exits = f.rels)))
  /\ (f.stale => Note(i, "stale_gap_at_finalize", e.threads))

Init == l = 1 /\ inp = <<>> /\ base = <<>>

Next ==
  /\ l <= NRec
  /\ l' = l + 1
  /\ LET e == Rec[l] IN
     CASE e.op = "input" ->
            /\ Witness(l, "input", InputOK(e))
            /\ inp' = [n |-> e.n, primes |-> e.primes]
            /\ base' = <<>>
       [] e.op = "run" ->
            /\ JudgeRun(l, e)
            /\ inp' = inp
            /\ base' = IF e.base /\ inp # <<>>
                       THEN (e.bkey :> [complete |-> Complete(e), ret |-> e.ret]) @@ base
                       ELSE base
       [] OTHER -> Strict(l, "unknown_op", FALSE) /\ UNCHANGED <<inp, base>>

Spec == Init /\ [][Next]_<<l, inp, base>>
=============================================================================
