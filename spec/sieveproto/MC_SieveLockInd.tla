--------------------------- MODULE MC_SieveLockInd ---------------------------
(***************************************************************************)
(* TLC link between SieveProto.tla (the model C04 / C05 check) and the     *)
(* abstraction SieveLockInd.tla used for the unbounded inductive result:   *)
(*   StepsMatch  every step of SieveProto is a step of SieveLockInd on the *)
(*               shared variables pc, lock, store, raw, tmp, ins, lenIns   *)
(*               (or leaves them unchanged);                               *)
(*   IndOnOrig   SieveLockInd!IndInv holds in every reachable state of     *)
(*               SieveProto, and the two properties are the same formulas. *)
(* Workers must be strings "w1".."w4" here (Sum is written out there).     *)
(***************************************************************************)
EXTENDS SieveProto

I == INSTANCE SieveLockInd

IndOnOrig == I!IndInv /\ (I!WriterExclusive <=> WriterExclusive) /\ (I!NoLostInsert <=> NoLostInsert)
            /\ \A w \in Workers : pc[w] \in I!AllPcs
StepsMatch == [][I!Next]_(I!vars)
InitMatch == I!Init
=============================================================================
