SPECIFICATION Spec
CONSTANTS
  Workers = {w1}
  NTasks = 3
  PolysPerTask = 2
  MaxRaw = 2
  Need = 2
  FB = 2
  Target0 = 1
  Slack = 0
  Seq = TRUE
  UseLock = TRUE
  UseGapAtomic = TRUE
  FinalTestsDone = TRUE
  AbortEnabled = TRUE
INVARIANT TypeOK
INVARIANT WriterExclusive
INVARIANT NoLostInsert
INVARIANT FinalValid
INVARIANT FlagsTruthful
INVARIANT CompleteOrExhausted
INVARIANT NoSpuriousPanic
INVARIANT AbortBounded
CHECK_DEADLOCK TRUE
