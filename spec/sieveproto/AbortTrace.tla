----------------------------- MODULE AbortTrace -----------------------------
(***************************************************************************)
(* C05 - an abort request stops work promptly and still yields a           *)
(* consistent answer.                                                      *)
(*                                                                         *)
(* One trace line = one call factor(n, alg, prefs) whose abort predicate   *)
(* is polls.fetch_add(1) >= k (it flips at poll index k and stays true).   *)
(* evs is the log of the call in the order the events were recorded,       *)
(* every entry a tuple <<code, tid, a, b, c>>:                             *)
(*    26 call (tid = the calling thread)          27 returned              *)
(*     1 an abortable stage starts, a = 1 siqs | 2 mpqs | 3 qs | 4 ecm     *)
(*       (one ecm() level; ecm_only/ecm_auto chain several)                *)
(*     6 a poll of the predicate: a = its index, b = 1 iff it returned     *)
(*       TRUE, c = 10*stage + site of the loop that polled (0 = lib.rs)    *)
(*     7 an abortable unit starts (SIQS: one A; MPQS: one polynomial       *)
(*       block; QS: one large block pair; ECM: one curve), a = stage       *)
(*                                                                         *)
(* StrictC05 (the property; delay is measured in units, never in time):    *)
(*   - the call returns: no panic, no hang;                                *)
(*   - it returns a list whose product is n, or the failure value;         *)
(*   - a thread whose poll returned TRUE starts no further abortable unit; *)
(*   - every thread polls between two units it starts, and a pool worker   *)
(*     polls before its first unit (so "its own next poll" exists: at most *)
(*     one unit per thread is started after the flip);                     *)
(*   - no sieving stage (setup + at least one unit before the next poll    *)
(*     in the sequential loops) is entered after some poll returned TRUE   *)
(*     - or at all, when the predicate was TRUE before the call (k = 0).   *)
(* Stages that never poll (trial division, rho, P-1, ECM128, linear        *)
(* algebra) run to their end; a new ecm() level (setup of its prime tables, *)
(* then curves) must not be entered after the flip either.                 *)
(***************************************************************************)
EXTENDS BigNat, TraceLib, FiniteSets
VARIABLE l

S0 == [caller |-> 0, polled |-> {}, trueT |-> {}, anyTrue |-> FALSE, started |-> {}, bad |-> {},
       lateEcm |-> 0, unitsAfter |-> 0]

Step(s, x) ==
  LET t == x[2] IN
  CASE x[1] = 26 -> [s EXCEPT !.caller = t]
    [] x[1] = 6  -> [s EXCEPT !.polled = @ \cup {t},
                              !.trueT = IF x[4] = 1 THEN @ \cup {t} ELSE @,
                              !.anyTrue = @ \/ (x[4] = 1)]
    [] x[1] = 7  -> [s EXCEPT !.polled = @ \ {t},
                              !.started = @ \cup {t},
                              !.unitsAfter = IF s.anyTrue THEN @ + 1 ELSE @,
                              !.bad = @ \cup (IF t \in s.trueT THEN {"unit_after_true_poll"} ELSE {})
                                        \cup (IF t \notin s.polled /\ (t \in s.started \/ t # s.caller)
                                              THEN {"unit_without_poll"} ELSE {})]
    [] x[1] = 1  -> [s EXCEPT !.lateEcm = IF s.anyTrue /\ x[3] = 4 THEN @ + 1 ELSE @,
                              !.bad = @ \cup (IF s.anyTrue /\ x[3] \in {1, 2, 3}
                                              THEN {"sieve_stage_after_abort"} ELSE {})]
    [] OTHER -> s

\* k = 0: the predicate is TRUE before the call, the flip precedes everything the call does (no stage may be entered
\* at all, whether or not the code has polled yet)
Final(e) == FoldLeft(Step, [S0 EXCEPT !.anyTrue = (e.k = 0)], e.evs)

Returned(e) == ~Has(e, "outcome") /\ e.ret \in {"list", "failure"}
ProductOK(e) == e.ret = "list" => (\A i \in 1..Len(e.list) : IsNat(e.list[i])) /\ Prod(e.list) = e.n

\* the predicate really was the declared one: poll i returned TRUE iff i >= k (harness sanity)
PredicateOK(e) == \A i \in 1..Len(e.evs) : e.evs[i][1] = 6 => ((e.evs[i][4] = 1) <=> (e.k >= 0 /\ e.evs[i][3] >= e.k))

Judge1(i, e) ==
  LET f == Final(e) IN
  /\ Witness(i, "predicate", PredicateOK(e))
  /\ Strict(i, "returns", Returned(e))
  /\ Strict(i, "product", ProductOK(e))
  /\ Strict(i, "unit_after_true_poll", "unit_after_true_poll" \notin f.bad)
  /\ Strict(i, "unit_without_poll", "unit_without_poll" \notin f.bad)
  /\ Strict(i, "sieve_stage_after_abort", "sieve_stage_after_abort" \notin f.bad)
  \* promptness: a new ecm() level (prime tables up to its B1, then curves) must not be entered once some poll
  \* returned TRUE (it was, on the pinned tree: seconds of table building after the request; repaired)
  /\ Strict(i, "ecm_level_after_abort", f.lateEcm = 0)

Init == l = 1
Next == l <= NRec /\ l' = l + 1 /\ Judge1(l, Rec[l])
Spec == Init /\ [][Next]_l
=============================================================================
