#!/bin/bash
# usage: bin/run_all.sh [quick|thorough] [ID ...]
# Runs the registered quick (or thorough) check of every property (or of the given ones) against /repo and prints
# one line per property.
TIER=${1:-quick}
shift
cd "$(dirname "$0")/.."
mkdir -p work
IDS="$@"
[ -z "$IDS" ] && IDS=$(python3 -c "import json;print(' '.join(c['property_id'] for c in json.load(open('MANIFEST.json'))['checks']))")
for id in $IDS; do
  S=$(date +%s)
  bin/check $id --tier $TIER > work/runall-$id.log 2>&1
  RC=$?
  echo "$id rc=$RC $(( $(date +%s) - S ))s $(grep -E '^(OK|FAIL|TOOL-ERROR)' work/runall-$id.log | tail -1)"
  grep -E "^(VIOLATION|KNOWN-FINDING|MODEL-DRIFT)" work/runall-$id.log | head -5
done
