#!/bin/bash
# Runs every registered quick (or $1=thorough) check against /repo and prints one line per property.
TIER=${1:-quick}
cd /verif
for id in $(python3 -c "import json;print(' '.join(c['property_id'] for c in json.load(open('MANIFEST.json'))['checks']))"); do
  S=$(date +%s)
  bin/check $id --tier $TIER > work/runall-$id.log 2>&1
  RC=$?
  echo "$id rc=$RC $(( $(date +%s) - S ))s $(grep -E '^(OK|FAIL|TOOL-ERROR)' work/runall-$id.log | tail -1)"
  grep -E "^(VIOLATION|KNOWN-FINDING|MODEL-DRIFT)" work/runall-$id.log | head -5
done
