#!/bin/bash
# Coordinator helper: commit the add-only cfg-guarded hook edits currently in /repo's working tree.
set -e
cd /repo
if git diff --quiet; then echo "no hook changes"; exit 0; fi
if git diff | grep -E '^-' | grep -vE '^---' | grep -q .; then echo "REFUSED: diff deletes/rewrites lines:"; git diff | grep -E '^-' | grep -vE '^---' | head; exit 1; fi
ERRS=$(cargo check --offline -q 2>&1 | grep -E "^error" | head -5 || true)
if [ -n "$ERRS" ]; then echo "REFUSED: does not compile with guard off"; echo "$ERRS"; exit 1; fi
FILES=$(git diff --name-only | tr '\n' ' ')
git commit -qam "verif hooks: accessors/events in ${FILES}behind cfg(yamaquasi_verif)"
git log --oneline | head -1
