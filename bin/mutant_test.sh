#!/bin/bash
# usage: bin/mutant_test.sh <PROPERTY-ID> <patch.diff> [extra args for bin/check]
# Applies a seeded change in a scratch git worktree of /repo's HEAD (never in /repo itself), runs the check of the
# property against that worktree (VERIF_REPO), prints the verdict, removes the worktree and its build output.
set -u
ID=$1; PATCH=$(readlink -f "$2"); shift 2
S=$(mktemp -d /tmp/mut-XXXXXX); rmdir "$S"
git -C /repo worktree add --detach "$S" HEAD -q || { echo "MUTANT-TEST $ID: cannot create worktree"; exit 3; }
KEY=$(python3 -c "import hashlib,sys;print(hashlib.sha1(sys.argv[1].encode()).hexdigest()[:10])" "$S")
cleanup() { git -C /repo worktree remove --force "$S" 2>/dev/null; rm -rf "$S" "/verif/work/h-alt-$KEY" "/verif/work/alt-$KEY"; }
trap cleanup EXIT
# hooks that builders have added to /repo's working tree but that are not committed yet (add-only, cfg-guarded) are part
# of the tree under test: the shared harness may already refer to them
git -C /repo diff HEAD > "$S.wt.diff"; if [ -s "$S.wt.diff" ]; then (cd "$S" && git apply "$S.wt.diff") || echo "MUTANT-TEST: working-tree hooks did not apply"; fi; rm -f "$S.wt.diff"
if ! (cd "$S" && (git apply --3way "$PATCH" 2>/dev/null || patch -p1 --no-backup-if-mismatch -s < "$PATCH")); then
  echo "MUTANT-TEST $ID $PATCH: patch does not apply"; exit 3; fi
if git -C "$S" diff --name-only --diff-filter=U | grep -q .; then echo "MUTANT-TEST $ID $PATCH: merge conflict"; exit 3; fi
cd /verif
LOG="/verif/work/mutant-$ID-$(basename $(dirname $PATCH)).log"
VERIF_REPO="$S" bin/check "$ID" "$@" > "$LOG" 2>&1
RC=$?
echo "MUTANT-TEST $ID $(basename $(dirname $PATCH)) rc=$RC $(grep -c '^VIOLATION' $LOG) violation lines"
grep -E "violation class|^TOOL-ERROR|^OK|^FAIL" "$LOG" | head -8
exit $RC
