#!/bin/bash
# usage: bin/mutant_test.sh <PROPERTY-ID> <patch.diff> [extra args for bin/check]
# Applies a seeded change to a scratch copy of /repo's working tree (never to /repo itself), runs the quick check of
# the property against that copy (VERIF_REPO), prints the verdict, removes the scratch copy and its build output.
set -u
ID=$1; PATCH=$(readlink -f "$2"); shift 2
S=$(mktemp -d /tmp/mut-XXXXXX)
rsync -a --exclude target --exclude .git /repo/ "$S/"
if ! (cd "$S" && patch -p1 --no-backup-if-mismatch -s < "$PATCH"); then echo "MUTANT-TEST $ID $PATCH: patch does not apply"; rm -rf "$S"; exit 3; fi
cd /verif
VERIF_REPO="$S" bin/check "$ID" "$@" > "$S.log" 2>&1
RC=$?
echo "MUTANT-TEST $ID $(basename $(dirname $PATCH)) rc=$RC $(grep -c '^VIOLATION' $S.log) violation lines"
grep -E "violation class|^TOOL-ERROR|^OK|^FAIL" "$S.log" | head -8
KEY=$(python3 -c "import hashlib,sys;print(hashlib.sha1(sys.argv[1].encode()).hexdigest()[:10])" "$S")
rm -rf "$S" "/verif/work/h-alt-$KEY" "/verif/work/alt-$KEY"
mv "$S.log" "/verif/work/mutant-$ID-$(basename $(dirname $PATCH)).log" 2>/dev/null
exit $RC
