#!/usr/bin/env python3
"""Writes seeded/README.md: one row per seeded change (from the independent mutation campaign) with the verdict of the
property's quick check, as recorded in each meta.json by bin/ingest_mutants.py."""
import glob, json, os
STRENGTHENED = {
 ("C01","m1"): "abort-pending preference cases added to the C01 driver",
 ("C01","m2"): "shape p3q (p^3 q, p inside the factor base) with extra instances for the sieves",
 ("C02","m1"): "strong-pseudoprime / Carmichael composites (all spsp(2,3) < 2^23, psi_5..psi_11, multiples) as Auto inputs",
 ("C02","m3"): "shape twotiny (2-3 primes just above trial division times a large prime)",
 ("C03","m1"): "exact 126..129-bit inputs for Auto and the Ecm128 selector",
 ("C04","m3"): "ECM seed-edge inputs (n = (2C+1)^-k mod 2^32: a curve seed equal to 1) under thread pools",
 ("C05","m3"): "p^2 q inputs (the sieve leaves a composite cofactor)",
 ("C12","m2"): "MPQS batch inversion through ONE workspace across chunks (hook batch_dinv_seq) + multi-chunk case",
 ("C13","m2"): "12-block interval with primes >= 2^18; reports chosen where such a prime divides on its 2nd+ hit",
 ("C13","m3"): "crowd2 root shape: mildly overflowing bucket in an odd block, planted reports always checked",
 ("C14","m3"): "odd column counts for Lanczos + last column supported on the dense block",
 ("C16","m1"): "P-1 chirp-z rows up to 1e6 (incl. (978e3,510,2048)) driven in quick",
 ("C16","m3"): "gcd_factors: Strict 'primes entering at different positions are separated' + all consecutive placements",
 ("C18","m1"): "double-large-prime runs + lines whose value is divisible by the square of a listed large prime always checked",
 ("C19","m3"): "random 16x16 relation lattices with |det| in chosen bit classes (2^62.4..2^63)",
 ("C20","m2"): "contract ACountFits: a_count <= C(4 nfacs, nfacs)",
 # second round (r2*)
 ("C04","r2m4"): "a crash of checked builds only: caught by C03 after abort-bounded 160..300-bit sieve inputs with pools were added (FactorShapes!BigSieveSet)",
 ("C05","r2m2"): "the change makes the driver process die (SIGKILL by its own watchdog): begin markers turn the call in progress into a rejected 'killed' event",
 ("C10","r2m4"): "quotient driven on every (p[0], q[0]) in {1, unit}^2 at lengths 2^k+1, 2^k+2 and neighbours (PolyShapes!QuotLead)",
 ("C12","r2m2"): "tiny n (24..32 bits) for MPQS with D^2 < n < D^4: polynomials with C > 0 and D inside the factor base",
 ("C13","r2m2"): "loss tolerance of a report computed from the root tables and the bucket parameters instead of the counters the code reports",
 ("C14","r2m3"): "Lanczos variant with two equal last rows on row counts that are not a multiple of 64",
 ("C15","r2m1"): "public conversion From<&ecm::Curve> driven on every small curve of both families: accepted => same group law",
 ("C15","r2m3"): "two-word moduli with the top bit set (2^128 - 159, (2^64-59)(2^64-83))",
 ("C16","r2m3"): "B1 = q^k + 1 configurations for every method",
 ("C19","r2m3"): "weighted cyclic shift matrices in both orientations (Berlekamp-Massey quotients of degree >= 2)",
 # third round (r3*), on the eight properties with a miss in round 2
 ("C04","r3m2"): "tiny inputs (36-44 bits) and an undersized factor base variant for MPQS/SIQS",
 ("C04","r3m3"): "a pass in the checked build profile (debug assertions, overflow checks) on inputs <= 66 bits (also caught by C03)",
 ("C05","r3m3"): "inputs with small prime factors in front (3pq, 2*3^2*1009*pq, 7p)",
 ("C10","r3m1"): "large transforms 2^10..2^14 with closed-form products at the packing-class boundaries (also caught by C20's dispatch contract); exposed the Karatsuba carry defect",
 ("C12","r3m4"): "one 300-bit SIQS family in the quick tier (A above 2^127)",
 ("C13","r3m4"): "factor base above 2^16 primes; reports chosen where a prime of index >= 65536 divides",
 ("C16","r3m3"): "batches of 4000 semiprimes of 30..44 bits through rho()/rho64()",
 # fourth round (r4*): C03 C04 C05 C10 C12 C13 C14 C16
 ("C05","r4m3"): "when the predicate is true before the call (k = 0) no stage may be entered at all",
 ("C10","r4m1"): "period-2 full-size operands at every second modulus size in the ten bits above each packing-class limit (also caught by C20)",
 ("C10","r4m4"): "multi-prime back end at the modulus sizes just below each step of its CRT width",
}
STRENGTHENED.update({
 ("C06","r5m4"): "Zhang's strong pseudoprimes to the first 14, 15, 17, 19 primes (p(2p-1)) as multiprecision inputs",
 ("C17","r6m1"): "SmoothBase / P-1 blocks at B1 = q + 1 for every proper prime power q",
 ("C01","r6m1"): "answers with two or more entries above one machine word (pq of 132..160 bits, pqr of 200 bits through the sieves)",
 ("C01","r6m3"): "structured P-1 inputs p^2 q [r]: p and q leave stage 1 in different blocks (shape sp2q)",
 ("C01","r6m4"): "volume: several hundred plain 108/120-bit semiprimes through SIQS (branches taken by a fraction of a percent of the inputs)",
 ("C10","r6m1"): "operands whose MONTGOMERY representatives are n-1..n-3 with n = 2^bits - small (pattern mtop) at every packing-class edge",
 ("C03","r6m2"): "shape topword: p*q just below 2^bits (32..64) for every word-sized selector (k*n, isqrt(k*n) at the word boundary)",
 ("C14","r6m4"): "Gauss on short wide matrices (1x70 .. 3x300: kernels of 65..300 dimensions)",
 ("C18","r6m2"): "one case in three writes into a directory that already holds the relation file of another discriminant",
 ("C19","r6m4"): "the Smith reduction as a presentation (op snf_hom): groups with 3-4 invariant factors, every relation must map to zero",
})

rows = []
for f in sorted(glob.glob(os.path.join(os.path.dirname(__file__), "..", "seeded", "*", "*", "meta.json"))):
    m = json.load(open(f))
    pid, name = f.split(os.sep)[-3], f.split(os.sep)[-2]
    v = (m.get("verif") or {})
    rows.append((pid, name, m.get("title", "?"), m.get("site", "?"), v.get("verdict", "-"), STRENGTHENED.get((pid, name), "")))
with open(os.path.join(os.path.dirname(__file__), "..", "seeded", "README.md"), "w") as o:
    o.write("# Seeded property-breaking changes\n\nProduced by independent sub-agents that saw only the property text and a scratch worktree; each was "
            "confirmed (applies, compiles, the 82 tests pass, its demonstration fails with the change and passes without) by "
            "`bin/confirm_mutant.sh`, then judged by `bin/mutant_test.sh <ID> patch.diff` (quick tier of the property's check against "
            "a scratch worktree with the change).  `patch.orig.diff` is kept where the patch had to be re-expressed against a later HEAD.\n\n")
    o.write("| property | change | title | site | verdict (quick) | check strengthened after a first miss |\n|---|---|---|---|---|---|\n")
    for r in rows:
        o.write("| %s | %s | %s | %s | %s | %s |\n" % tuple(str(x).replace("|", "/").replace("\n", " ") for x in r))
    c = {}
    for r in rows:
        c[r[4]] = c.get(r[4], 0) + 1
    o.write("\nTotals: %s\n" % ", ".join("%s %d" % kv for kv in sorted(c.items())))
print(len(rows), "rows")
