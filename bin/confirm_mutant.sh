#!/bin/bash
# usage: bin/confirm_mutant.sh <mutant-dir containing patch.diff + demo.rs|demo.patch + meta.json>
# Confirms in a fresh scratch worktree of /repo (HEAD) that the change (1) applies and compiles, (2) passes the
# repository's whole test suite, (3) makes the demonstration fail, and that (4) the demonstration passes without it.
# Prints CONFIRMED or NOT-CONFIRMED <reason>; removes the worktree and its build output.
set -u
M=$(readlink -f "$1")
W=$(mktemp -d /tmp/cm-XXXXXX); rmdir "$W"
git -C /repo worktree add --detach "$W" HEAD -q || { echo "NOT-CONFIRMED worktree"; exit 2; }
cleanup() { git -C /repo worktree remove --force "$W" 2>/dev/null; rm -rf "$W"; }
trap cleanup EXIT
cd "$W"
export CARGO_TARGET_DIR=/tmp/cm-target     # shared build cache across confirmations (same sources mostly)
# a demonstration may ask for the library's own scheduling hooks (cfg(yamaquasi_verif)) to force an interleaving
DEMOFLAGS=""
grep -qs "cfg yamaquasi_verif" "$M"/demo.rs "$M"/demo.patch 2>/dev/null && DEMOFLAGS="--cfg yamaquasi_verif --check-cfg cfg(yamaquasi_verif)"
rundemo() { RUSTFLAGS="$DEMOFLAGS" $DEMO; }
install_demo() {
  if [ -f "$M/demo.rs" ]; then mkdir -p tests; cp "$M/demo.rs" tests/mutant_demo.rs; DEMO="cargo test --offline -j 6 --test mutant_demo";
  elif [ -f "$M/demo.patch" ]; then patch -p1 -s --no-backup-if-mismatch < "$M/demo.patch" || return 1
     T=$(grep -A3 '^+.*#\[test\]' "$M/demo.patch" | grep -oE 'fn [a-zA-Z0-9_]+' | head -1 | cut -d' ' -f2); DEMO="cargo test --offline -j 6 --lib $T";
  else return 1; fi
}
# 4: demo passes on the clean tree
install_demo || { echo "NOT-CONFIRMED demo does not install"; exit 1; }
if ! rundemo > "$W/demo_clean.log" 2>&1; then echo "NOT-CONFIRMED demo fails on the clean tree"; tail -15 "$W/demo_clean.log"; exit 1; fi
grep -qE "test result: ok. [1-9]" "$W/demo_clean.log" || { echo "NOT-CONFIRMED demo ran no test on clean tree"; exit 1; }
# 1: apply
(git apply --3way "$M/patch.diff" 2>/dev/null || patch -p1 -s --no-backup-if-mismatch < "$M/patch.diff") || { echo "NOT-CONFIRMED patch does not apply"; exit 1; }
git diff --name-only --diff-filter=U | grep -q . && { echo "NOT-CONFIRMED merge conflict"; exit 1; }
# 3: demo fails with the change
if rundemo > "$W/demo_mut.log" 2>&1; then echo "NOT-CONFIRMED demo passes with the change"; exit 1; fi
grep -qE "error(\[E[0-9]+\])?:" "$W/demo_mut.log" && grep -q "could not compile" "$W/demo_mut.log" && { echo "NOT-CONFIRMED does not compile"; tail -20 "$W/demo_mut.log"; exit 1; }
# 2: suite passes with the change (without the demo)
rm -f tests/mutant_demo.rs; [ -f "$M/demo.patch" ] && patch -p1 -R -s --no-backup-if-mismatch < "$M/demo.patch"
cargo test --offline -j 6 --workspace > "$W/suite.log" 2>&1 || cargo test --offline -j 6 --workspace > "$W/suite.log" 2>&1   # one retry: matrix::gf2::test_smallmat is randomised
if ! grep -qE "^test result: ok. 82 passed" "$W/suite.log"; then echo "NOT-CONFIRMED suite fails with the change"; grep -E "FAILED|failed|panicked" "$W/suite.log" | head; exit 1; fi
N=$(grep -E "^test result: ok. 82 passed" "$W/suite.log" | wc -l)
[ "$N" -ge 1 ] || { echo "NOT-CONFIRMED suite did not report 82 passed"; grep "test result" "$W/suite.log" | head -3; exit 1; }
echo "CONFIRMED $(basename $(dirname $M))/$(basename $M): suite 82 passed with change; demo fails with change, passes without"
exit 0
