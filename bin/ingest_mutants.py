#!/usr/bin/env python3
"""usage: bin/ingest_mutants.py <ID> [--no-check]
For each /tmp/mw/<ID>/_mutants/m*: confirm it independently (bin/confirm_mutant.sh), copy the confirmed ones to
/verif/seeded/<ID>/<mK>/ and run the property's quick check against a scratch copy with the change applied
(bin/mutant_test.sh); the verdict is stored in meta.json under "verif"."""
import glob, json, os, shutil, subprocess, sys
def rebase_patch(dst):
    """Re-express patch.diff against the current HEAD of /repo (hooks and fixes landed after the change was seeded)."""
    import tempfile
    w = tempfile.mkdtemp(prefix="/tmp/rb-"); os.rmdir(w)
    subprocess.run(["git", "-C", "/repo", "worktree", "add", "--detach", w, "HEAD", "-q"], check=True)
    try:
        pf = os.path.join(dst, "patch.diff")
        r = subprocess.run("git apply --3way %s 2>/dev/null || patch -p1 -s --no-backup-if-mismatch < %s" % (pf, pf), shell=True, cwd=w)
        if r.returncode != 0:
            return False
        d = subprocess.run(["git", "diff", "HEAD"], cwd=w, stdout=subprocess.PIPE, text=True).stdout
        if d.strip() and d != open(pf).read():
            if not os.path.exists(os.path.join(dst, "patch.orig.diff")):
                shutil.copy(pf, os.path.join(dst, "patch.orig.diff"))
            open(pf, "w").write(d)
        return True
    finally:
        subprocess.run(["git", "-C", "/repo", "worktree", "remove", "--force", w])
        shutil.rmtree(w, ignore_errors=True)


pid = sys.argv[1]
nocheck = "--no-check" in sys.argv
root = sys.argv[sys.argv.index("--root") + 1] if "--root" in sys.argv else "/tmp/mw"
prefix = sys.argv[sys.argv.index("--prefix") + 1] if "--prefix" in sys.argv else ""
for m in sorted(glob.glob("%s/%s/_mutants/m*" % (root, pid))):
    name = prefix + os.path.basename(m)
    dst = "/verif/seeded/%s/%s" % (pid, name)
    if not os.path.exists(os.path.join(dst, "meta.json")):
        c = subprocess.run(["/verif/bin/confirm_mutant.sh", m], stdout=subprocess.PIPE, stderr=subprocess.STDOUT, text=True)
        line = [l for l in c.stdout.splitlines() if "CONFIRMED" in l]
        print(pid, name, line[-1] if line else c.stdout[-400:], flush=True)
        if c.returncode != 0:
            continue
        os.makedirs(dst, exist_ok=True)
        for f in os.listdir(m):
            shutil.copy(os.path.join(m, f), dst)
        try:
            meta = json.load(open(os.path.join(dst, "meta.json")))
        except Exception as e:
            meta = {"property": pid, "title": name, "note": "meta.json of the seeding agent was not valid JSON"}
        meta["confirmed"] = line[-1]
        json.dump(meta, open(os.path.join(dst, "meta.json"), "w"), indent=1)
    rebase_patch(dst)
    if nocheck:
        continue
    meta = json.load(open(os.path.join(dst, "meta.json")))
    t = subprocess.run(["/verif/bin/mutant_test.sh", pid, os.path.join(dst, "patch.diff")], stdout=subprocess.PIPE,
                       stderr=subprocess.STDOUT, text=True)
    print(t.stdout.strip(), flush=True)
    meta["verif"] = {"check": "bin/check %s --tier quick (VERIF_REPO=scratch copy with the change)" % pid,
                     "exit": t.returncode, "verdict": {0: "MISSED", 1: "CAUGHT"}.get(t.returncode, "TOOL-ERROR"),
                     "output": [l for l in t.stdout.splitlines() if "violation class" in l or "MUTANT-TEST" in l][:8]}
    json.dump(meta, open(os.path.join(dst, "meta.json"), "w"), indent=1)
