"""Core of the /verif runner: paths, harness build, TLC runs (model checking, generation,
trace validation with sharding), known-findings matching, evidence files, exit codes.

Exit codes of bin/check:  0 property held on everything explored (KNOWN-FINDING lines allowed)
                          1 violation (a line `VIOLATION property=<id> replay=<path>` is printed)
                          2 tool trouble (TLC error, build failure, checker timeout, rejected witness)
"""
import concurrent.futures as cf
import hashlib
import json
import os
import re
import shutil
import subprocess
import sys
import time

VERIF = os.path.abspath(os.path.join(os.path.dirname(__file__), "..", ".."))
REPO = os.path.abspath(os.environ.get("VERIF_REPO", "/repo"))
WORK = os.path.join(VERIF, "work")
SPEC = os.path.join(VERIF, "spec")
EVID = os.path.join(VERIF, "evidence")
REPLAYS = os.path.join(VERIF, "replays")
if REPO != "/repo":
    # runs against another checkout (mutation testing) must not overwrite the evidence of /repo
    _alt = os.path.join(WORK, "alt-" + hashlib.sha1(REPO.encode()).hexdigest()[:10])
    EVID = os.path.join(_alt, "evidence")
    REPLAYS = os.path.join(_alt, "replays")
NCPU = int(os.environ.get("VERIF_JOBS", "0")) or min(16, os.cpu_count() or 4)

JAVA_OPTS = "-Xss1g -Dtlc2.tool.queue.IStateQueue=StateDeque"
TLC_CP = "/opt/veriftools/tla/tla2tools.jar:/opt/veriftools/tla/CommunityModules-deps.jar"


class ToolError(Exception):
    pass


def log(*a):
    print(*a, file=sys.stderr, flush=True)


def repo_key():
    if REPO == "/repo":
        return "repo"
    return "alt-" + hashlib.sha1(REPO.encode()).hexdigest()[:10]


def workdir(*parts):
    d = os.path.join(WORK, repo_key(), *parts)
    os.makedirs(d, exist_ok=True)
    return d


# ------------------------------------------------------------------------------------------
# harness build
# ------------------------------------------------------------------------------------------
def harness_dir():
    d = os.path.join(WORK, "h-" + repo_key())
    os.makedirs(os.path.join(d, ".cargo"), exist_ok=True)
    src = os.path.join(VERIF, "harness")
    tmpl = open(os.path.join(src, "Cargo.toml.in")).read().replace("@REPO@", REPO)
    _write_if_changed(os.path.join(d, "Cargo.toml"), tmpl)
    _write_if_changed(
        os.path.join(d, ".cargo", "config.toml"),
        '[net]\noffline = true\n\n[build]\ntarget-dir = "target"\n'
        'rustflags = ["--cfg", "yamaquasi_verif", "--check-cfg", "cfg(yamaquasi_verif)"]\n',
    )
    lock = os.path.join(d, "Cargo.lock")
    if not os.path.exists(lock):
        shutil.copy(os.path.join(src, "Cargo.lock"), lock)
    link = os.path.join(d, "src")
    if os.path.islink(link) and os.readlink(link) != os.path.join(src, "src"):
        os.unlink(link)
    if not os.path.lexists(link):
        os.symlink(os.path.join(src, "src"), link)
    return d


def _write_if_changed(path, text):
    if os.path.exists(path) and open(path).read() == text:
        return
    with open(path, "w") as f:
        f.write(text)


_built = {}


def build_harness(profile="release"):
    """Builds the harness against the current tree of REPO; returns the binary path."""
    if profile in _built:
        return _built[profile]
    d = harness_dir()
    cmd = ["cargo", "build", "--offline", "--profile", profile]
    env = dict(os.environ, CARGO_NET_OFFLINE="true")
    t0 = time.time()
    p = subprocess.run(cmd, cwd=d, env=env, stdout=subprocess.PIPE, stderr=subprocess.STDOUT, text=True)
    if p.returncode != 0:
        log(p.stdout[-6000:])
        raise ToolError("harness build failed (profile %s)" % profile)
    log("[build] harness %s in %.1fs" % (profile, time.time() - t0))
    sub = "release" if profile == "release" else profile
    b = os.path.join(d, "target", sub, "ymqv")
    _built[profile] = b
    return b


_cli_built = {}


def build_cli(profile="release", bins=("ymqs", "ymcls")):
    """Builds the command-line programs of REPO itself (no verification cfg) from its current tree into a target
    directory under work/; returns {name: path}.  profile "relcheck" = release + debug assertions + overflow checks."""
    if profile in _cli_built:
        return _cli_built[profile]
    tdir = os.path.join(WORK, "h-" + repo_key(), "cli-target-" + profile)
    cmd = ["cargo", "build", "--offline", "--release", "--manifest-path", os.path.join(REPO, "Cargo.toml"), "--target-dir", tdir]
    for b in bins:
        cmd += ["--bin", b]
    env = dict(os.environ, CARGO_NET_OFFLINE="true")
    env.pop("RUSTFLAGS", None)
    if profile == "relcheck":
        env["CARGO_PROFILE_RELEASE_DEBUG_ASSERTIONS"] = "true"
        env["CARGO_PROFILE_RELEASE_OVERFLOW_CHECKS"] = "true"
    t0 = time.time()
    # cwd = REPO: the harness directory's .cargo/config.toml (verification cfg) must not apply to the product itself
    os.makedirs(tdir, exist_ok=True)
    p = subprocess.run(cmd, cwd=REPO, env=env, stdout=subprocess.PIPE, stderr=subprocess.STDOUT, text=True)
    if p.returncode != 0:
        log(p.stdout[-6000:])
        raise ToolError("build of the command-line programs failed (profile %s)" % profile)
    log("[build] ymqs/ymcls %s in %.1fs" % (profile, time.time() - t0))
    _cli_built[profile] = {b: os.path.join(tdir, "release", b) for b in bins}
    return _cli_built[profile]


def run_driver(args, out, profile="release", timeout=1800, env=None, stdin=None, allow_death=False):
    """Runs `ymqv <args> --out <out>`; the driver itself never fails because of the code under test
    (panics and hangs are events), so a non-zero status is a tool error."""
    b = build_harness(profile)
    e = dict(os.environ)
    e.setdefault("RUST_BACKTRACE", "0")
    if env:
        e.update(env)
    t0 = time.time()
    try:
        p = subprocess.run([b] + [str(a) for a in args] + ["--out", out], env=e, stdout=subprocess.PIPE,
                           stderr=subprocess.PIPE, text=True, timeout=timeout, input=stdin)
    except subprocess.TimeoutExpired:
        raise ToolError("driver timeout: %s" % " ".join(map(str, args)))
    if p.returncode != 0:
        if allow_death and (p.returncode < 0 or p.returncode in (101, 134, 137, 139)):
            # killed by a signal / aborted: the caller turns the call that was in progress into an event
            log("[driver] %s died with status %d" % (" ".join(map(str, args)), p.returncode))
            return p.returncode
        log(p.stdout[-3000:])
        log(p.stderr[-3000:])
        raise ToolError("driver failed (%d): %s" % (p.returncode, " ".join(map(str, args))))
    log("[driver] %s -> %s (%.1fs)" % (" ".join(map(str, args)), os.path.basename(out), time.time() - t0))
    return p.stdout


# ------------------------------------------------------------------------------------------
# TLC
# ------------------------------------------------------------------------------------------
def stage_spec(module_rel, dest):
    """Copies spec/lib and the module's directory into dest (TLC wants everything in one dir)."""
    os.makedirs(dest, exist_ok=True)
    moddir = os.path.join(SPEC, os.path.dirname(module_rel))
    for d in (os.path.join(SPEC, "lib"), moddir):
        for f in os.listdir(d):
            if f.endswith(".tla") or f.endswith(".cfg"):
                shutil.copy(os.path.join(d, f), os.path.join(dest, f))
    return dest


def _tlc_cmd(module, cfg, workers, extra, xmx):
    return ["java", "-XX:+UseParallelGC", "-Xmx%s" % xmx, "-cp", TLC_CP, "tlc2.TLC", "-workers", str(workers),
            "-noGenerateSpecTE", "-checkpoint", "0", "-config", cfg] + list(extra) + [module]   # no periodic checkpoints: the
    # depth-first state queue (StateDeque) cannot be checkpointed and a run longer than 30 min would abort


_RE_STATES = re.compile(r"(\d+) states generated, (\d+) distinct states found, (\d+) states left on queue")


def run_tlc(stage, module, cfg, workers=1, timeout=600, extra=(), env=None, xmx="3g", metadir=None):
    md = metadir or os.path.join(stage, "md-" + hashlib.sha1((module + cfg + str(time.time())).encode()).hexdigest()[:8])
    # TLC/SANY unpack their standard modules into a fresh directory under java.io.tmpdir at every start and leave it
    # there: keep that next to the run's metadir and remove it with it (thousands of runs would litter /tmp)
    jtmp = md + "-jtmp"
    os.makedirs(jtmp, exist_ok=True)
    e = dict(os.environ, JAVA_TOOL_OPTIONS=JAVA_OPTS + " -Djava.io.tmpdir=" + jtmp)
    if env:
        e.update(env)
    cmd = _tlc_cmd(module, cfg, workers, list(extra) + ["-metadir", md], xmx)
    t0 = time.time()
    try:
        p = subprocess.run(cmd, cwd=stage, env=e, stdout=subprocess.PIPE, stderr=subprocess.STDOUT, text=True, timeout=timeout)
        out, rc, timed_out = p.stdout, p.returncode, False
    except subprocess.TimeoutExpired as ex:
        out = ex.stdout.decode() if isinstance(ex.stdout, bytes) else (ex.stdout or "")
        rc, timed_out = -1, True
    shutil.rmtree(md, ignore_errors=True)
    shutil.rmtree(jtmp, ignore_errors=True)
    m = None
    for m in _RE_STATES.finditer(out):
        pass
    res = {
        "rc": rc,
        "timed_out": timed_out,
        "out": out,
        "wall_s": round(time.time() - t0, 2),
        "generated": int(m.group(1)) if m else 0,
        "distinct": int(m.group(2)) if m else 0,
        "queue": int(m.group(3)) if m else 0,
    }
    return res


def tuples(out, head):
    """Parses lines `<<"HEAD", ...>>` printed by PrintT into python lists (JSON-compatible subset)."""
    res = []
    for line in out.splitlines():
        line = line.strip()
        if line.startswith('<<"%s"' % head) and line.endswith(">>"):
            try:
                res.append(_parse_tla(line))
            except Exception:
                res.append([head, line])
    return res


def _parse_tla(s):
    # enough of TLA+ value syntax for tuples of ints / strings / booleans / nested tuples / records
    s = s.replace("<<", "[").replace(">>", "]").replace("TRUE", "true").replace("FALSE", "false")
    s = re.sub(r"\[([^\[\]]*?\|->[^\[\]]*?)\]", lambda m: "{" + _rec(m.group(1)) + "}", s)
    return json.loads(s)


def _rec(body):
    parts = []
    for kv in body.split(","):
        k, v = kv.split("|->")
        parts.append('"%s": %s' % (k.strip(), v.strip()))
    return ", ".join(parts)


def model_check(module_rel, cfg, workers=4, timeout=900, extra=(), env=None, xmx="6g", expect_error=False):
    """Exhaustive (or -simulate, through extra) TLC run of a model.  Returns a dict; raises ToolError
    if TLC did not finish cleanly.  A violated invariant is returned as res['violated']."""
    name = os.path.splitext(os.path.basename(module_rel))[0]
    stage = stage_spec(module_rel, workdir("mc", name + "-" + os.path.splitext(cfg)[0]))
    r = run_tlc(stage, name + ".tla", cfg, workers=workers, timeout=timeout, extra=extra, env=env, xmx=xmx)
    out = r["out"]
    r["violated"] = re.findall(r"Error: Invariant (\S+) is violated", out) + \
        re.findall(r"Error: Action property (\S+) is violated", out) + \
        (["Temporal"] if "Temporal properties were violated" in out else []) + \
        (["Deadlock"] if "Error: Deadlock reached" in out else [])
    r["finished"] = ("Model checking completed" in out) or ("Finished in" in out and not r["timed_out"])
    r["module"] = name
    r["cfg"] = cfg
    clean = "Model checking completed. No error has been found." in out or \
        (r["finished"] and not r["violated"] and "Error:" not in out)
    r["clean"] = clean
    if r["timed_out"]:
        raise ToolError("TLC timeout on %s/%s after %ss" % (name, cfg, timeout))
    if not clean and not r["violated"]:
        log(out[-4000:])
        raise ToolError("TLC error on %s/%s" % (name, cfg))
    if r["violated"] and not expect_error:
        log(out[-3000:])
    log("[tlc] %s %s: %d generated, %d distinct, %.1fs%s" % (name, cfg, r["generated"], r["distinct"], r["wall_s"],
                                                           " VIOLATED " + ",".join(r["violated"]) if r["violated"] else ""))
    return r


def read_ndjson(path):
    with open(path) as f:
        return [json.loads(x) for x in f if x.strip()]


def write_ndjson(path, evs):
    with open(path, "w") as f:
        for e in evs:
            f.write(json.dumps(e, separators=(",", ":")) + "\n")


def validate_trace(module_rel, cfg, trace_path, shards=None, group_key=None, timeout=900, xmx="3g", tag=None,
                   weight=None):
    """Validates an ndjson trace (events recorded from the implementation) against a trace spec.

    Events get a global index "i" (1-based) so that shards report original positions.  With group_key,
    all events with the same value of that field stay in one shard, in order (stateful traces: one
    group = one run, starting with its own init event).  Returns dict(events, rejects, notes, states).
    """
    name = os.path.splitext(os.path.basename(module_rel))[0]
    evs = read_ndjson(trace_path)
    for i, e in enumerate(evs):
        e["i"] = i + 1
    n = len(evs)
    if n == 0:
        raise ToolError("empty trace %s" % trace_path)
    k = shards or NCPU
    k = max(1, min(k, n))
    # partition
    if group_key is None:
        units = [[e] for e in evs]
    else:
        units, cur, last = [], None, object()
        for e in evs:
            g = e.get(group_key)
            if cur is None or g != last:
                cur = []
                units.append(cur)
                last = g
            cur.append(e)
    wfun = weight or (lambda e: 1)
    uw = [sum(wfun(e) for e in u) for u in units]
    # greedy balanced assignment keeping order inside a unit (units sorted by weight, largest first)
    order = sorted(range(len(units)), key=lambda j: -uw[j])
    k = min(k, len(units))
    bins = [[] for _ in range(k)]
    loads = [0] * k
    for j in order:
        b = loads.index(min(loads))
        bins[b].append(j)
        loads[b] += uw[j]
    stage = stage_spec(module_rel, workdir("tv", (tag or name)))
    jobs = []
    for b in range(k):
        idxs = sorted(bins[b])
        part = [e for j in idxs for e in units[j]]
        if not part:
            continue
        p = os.path.join(stage, "shard%02d.ndjson" % b)
        write_ndjson(p, part)
        jobs.append((b, p, len(part)))

    def one(job):
        b, p, cnt = job
        r = run_tlc(stage, name + ".tla", cfg, workers=1, timeout=timeout, env={"TRACE": p}, xmx=xmx,
                    metadir=os.path.join(stage, "md%02d" % b))
        r["shard"], r["count"] = b, cnt
        return r

    t0 = time.time()
    with cf.ThreadPoolExecutor(max_workers=min(NCPU, len(jobs))) as ex:
        results = list(ex.map(one, jobs))
    rejects, notes, states = [], [], 0
    for r in results:
        out = r["out"]
        comp = tuples(out, "TRACE-COMPLETE")
        if r["timed_out"]:
            raise ToolError("trace validation timeout (%s shard %d, %d events)" % (name, r["shard"], r["count"]))
        if not comp or comp[-1][1] != r["count"] or "No error has been found" not in out:
            log(out[-5000:])
            raise ToolError("trace validation did not complete (%s shard %d)" % (name, r["shard"]))
        seen = set()
        for t in tuples(out, "REJECT"):
            key = json.dumps(t)
            if key in seen:
                continue
            seen.add(key)
            rejects.append({"kind": t[1], "i": t[2], "tag": t[3]})
        for t in tuples(out, "NOTE"):
            notes.append(t[1:])
        states += r["generated"]
    rejects.sort(key=lambda r: r["i"])
    for r in rejects:
        r["event"] = evs[r["i"] - 1]
    log("[validate] %s: %d events, %d shards, %d rejects, %.1fs" % (tag or name, n, len(jobs), len(rejects), time.time() - t0))
    return {"events": n, "rejects": rejects, "notes": notes, "states": states, "spec": module_rel, "trace": trace_path,
            "wall_s": round(time.time() - t0, 2)}


# ------------------------------------------------------------------------------------------
# findings, evidence, verdict
# ------------------------------------------------------------------------------------------
def load_findings():
    p = os.path.join(VERIF, "known_findings.json")
    if not os.path.exists(p):
        return []
    return json.load(open(p))["findings"]


def _match(ev, pat):
    for k, v in pat.items():
        if k.endswith("_contains"):
            if v not in str(ev.get(k[:-9], "")):
                return False
        elif k.endswith("_max"):
            x = ev.get(k[:-4])
            if not isinstance(x, (int, float)) or x > v:
                return False
        elif k.endswith("_min"):
            x = ev.get(k[:-4])
            if not isinstance(x, (int, float)) or x < v:
                return False
        elif k.endswith("_in"):
            if ev.get(k[:-3]) not in v:
                return False
        elif ev.get(k) != v:
            return False
    return True


def known_finding(prop, ev):
    for f in load_findings():
        if f.get("status", "open") != "open":
            continue  # a fixed entry suppresses nothing
        if f["property"] == prop and _match(ev, f["match"]):
            return f
    return None


class Check:
    """Accumulates what a check did; decides exit status; writes the evidence file."""

    def __init__(self, prop, tier, seed, level):
        self.prop, self.tier, self.seed, self.level = prop, tier, seed, level
        self.t0 = time.time()
        self.mc = []          # model-checking runs
        self.tv = []          # trace validations
        self.violations = []  # dicts with 'what', 'event'
        self.known = {}       # finding id -> count
        self.drift = []
        self.witness_rejects = []
        self.samples = []
        self.cov = {}
        self.assumptions = []
        self.notes = []
        self.evaluations = 0
        self.nontrivial = set()
        self.rule = ""

    # --- model side
    def add_mc(self, r, invariants_expected_to_hold=True):
        self.mc.append({k: r[k] for k in ("module", "cfg", "generated", "distinct", "wall_s", "violated")})
        if r["violated"] and invariants_expected_to_hold:
            # a violated invariant of a design model on the unchanged spec is a tool/spec problem, never a
            # statement about the code
            raise ToolError("model %s/%s violates %s" % (r["module"], r["cfg"], r["violated"]))

    # --- implementation side
    def add_tv(self, res, drift_ok=True):
        self.tv.append({k: res[k] for k in ("events", "states", "spec", "wall_s")} | {"rejects": len(res["rejects"])})
        for r in res["rejects"]:
            ev = r["event"]
            if r["kind"] == "strict":
                f = known_finding(self.prop, ev)
                if f:
                    self.known.setdefault(f["id"], [f, 0])[1] += 1
                else:
                    self.violations.append({"tag": r["tag"], "event": ev})
            elif r["kind"] == "witness":
                self.witness_rejects.append({"tag": r["tag"], "event": ev})
            else:
                self.drift.append({"tag": r["tag"], "i": r["i"], "case": ev.get("case")})

    def violation(self, tag, ev):
        f = known_finding(self.prop, ev)
        if f:
            self.known.setdefault(f["id"], [f, 0])[1] += 1
        else:
            self.violations.append({"tag": tag, "event": ev})

    def sample(self, x):
        if len(self.samples) < 6:
            self.samples.append(x)

    def count(self, evs, key):
        """evaluations / distinct non-trivial bookkeeping from events: key(e) -> hashable or None (trivial)."""
        for e in evs:
            self.evaluations += 1
            k = key(e)
            if k is not None:
                self.nontrivial.add(k)

    def finish(self):
        os.makedirs(EVID, exist_ok=True)
        states = sum(m["distinct"] for m in self.mc) + sum(t["states"] for t in self.tv)
        transitions = sum(m["generated"] for m in self.mc) + sum(t["states"] for t in self.tv)
        cov = {
            "states": states,
            "transitions": transitions,
            "traces_validated_against_impl": sum(1 for t in self.tv if t["events"] > 0) if "traces" not in self.cov else self.cov.pop("traces"),
            "events_validated": sum(t["events"] for t in self.tv),
            "evaluations": max(self.evaluations, 1),
            "distinct_nontrivial": len(self.nontrivial),
            "rule": self.rule,
            "samples": self.samples or ["(none)"],
            "model_runs": self.mc,
            "trace_validations": self.tv,
            "model_drift": self.drift[:50],
            "known_findings_seen": {k: v[1] for k, v in self.known.items()},
            "notes": self.notes,
        }
        cov.update(self.cov)
        ev = {
            "property_id": self.prop,
            "tier": self.tier,
            "seed": self.seed,
            "level": self.level,
            "coverage": cov,
            "assumptions": self.assumptions,
            "wall_s": round(time.time() - self.t0, 2),
            "violations": len(self.violations),
        }
        rc = 0
        for fid, (f, cnt) in sorted(self.known.items()):
            print("KNOWN-FINDING: property=%s %s (%s; %d events)" % (self.prop, f["what"], fid, cnt))
        if self.drift:
            print("MODEL-DRIFT: property=%s %d events differ from the detailed model (not a violation)" % (self.prop, len(self.drift)))
        if self.violations:
            classes = {}
            for v in self.violations:
                e = v["event"]
                sh = e.get("shape") if isinstance(e.get("shape"), dict) else {}
                k = "%s op=%s outcome=%s loc=%s nshape=%s alg=%s" % (v["tag"], e.get("op"), e.get("outcome"), e.get("loc"),
                                                              sh.get("n"), e.get("alg"))
                classes[k] = classes.get(k, 0) + 1
            for k, c in sorted(classes.items(), key=lambda kv: -kv[1])[:40]:
                print("  violation class: %5d x %s" % (c, k))
            cov["violation_classes"] = classes
            os.makedirs(REPLAYS, exist_ok=True)
            seen = set()
            for v in self.violations[:20]:
                h = hashlib.sha1(json.dumps(v["event"], sort_keys=True).encode()).hexdigest()[:12]
                if h in seen:
                    continue
                seen.add(h)
                path = os.path.relpath(os.path.join(REPLAYS, "%s-%s.json" % (self.prop, h)), VERIF)
                with open(os.path.join(VERIF, path), "w") as f:
                    json.dump({"property": self.prop, "tier": self.tier, "seed": self.seed, "tag": v["tag"],
                               "event": v["event"]}, f, indent=1)
                print("VIOLATION property=%s replay=%s" % (self.prop, path))
                print("  rejected: %s %s" % (v["tag"], json.dumps(v["event"])[:300]))
            rc = 1
        with open(os.path.join(EVID, "%s.json" % self.prop), "w") as f:
            json.dump(ev, f, indent=1)
        if rc == 0 and self.witness_rejects:
            for w in self.witness_rejects[:5]:
                log("WITNESS-REJECT %s %s" % (w["tag"], json.dumps(w["event"])[:400]))
            raise ToolError("%d witness events rejected (harness certificates did not verify)" % len(self.witness_rejects))
        print("%s %s tier=%s: %d TLC states, %d events validated, %d violations, %.0fs" %
              ("OK" if rc == 0 else "FAIL", self.prop, self.tier, states, cov["events_validated"], len(self.violations),
               time.time() - self.t0))
        return rc


def gen_shapes(module_rel, cfg, out_path, head="SHAPE", workers=1, timeout=300):
    """Runs an input-space module (its invariant prints <<"SHAPE", ToJson(s)>> for every state) and writes
    the shapes as ndjson.  Returns (count, tlc result)."""
    r = model_check(module_rel, cfg, workers=workers, timeout=timeout)
    if r["violated"]:
        raise ToolError("shape module %s reports %s" % (module_rel, r["violated"]))
    shapes = []
    seen = set()
    for t in tuples(r["out"], head):
        if t[1] in seen:
            continue
        seen.add(t[1])
        shapes.append(json.loads(t[1]) if isinstance(t[1], str) else t[1])
    if not shapes:
        raise ToolError("no shapes from %s" % module_rel)
    shapes.sort(key=lambda s: json.dumps(s, sort_keys=True))
    write_ndjson(out_path, shapes)
    return len(shapes), r


def replay_filter(trace_path, replay, keys=("case",)):
    """Keeps only the events of the recorded failing case (same driver, seed and tier were re-run)."""
    evs = read_ndjson(trace_path)
    want = replay["event"]
    keep = [e for e in evs if all(e.get(k) == want.get(k) for k in keys) and e.get("op") == want.get("op")]
    if not keep:
        raise ToolError("replay: case %r not produced any more by the driver" % (want.get("case"),))
    write_ndjson(trace_path, keep)
    return len(keep)


# ------------------------------------------------------------------------------------------
# unbounded (inductive) results: Apalache and TLAPS  (growth item "ind"; thorough tier only)
# ------------------------------------------------------------------------------------------
_RE_OBL = re.compile(r"All (\d+) obligations? proved")
_RE_OBLF = re.compile(r"(\d+)/(\d+) obligations? failed")


def ind_enabled():
    """False when VERIF_NO_IND=1: the glue files skip their inductive block with a note."""
    return os.environ.get("VERIF_NO_IND", "") not in ("1", "true", "yes")


def apalache(module_rel, inv, init=None, next=None, cinit=None, length=1, timeout=900, extra=(), xmx="4g", tag=None):
    """Runs `apalache-mc check` on a (typed) module: with init=IndInit, length=1 this is the inductive step
    IndInit /\\ Next => Inv'; with init=Init, length=0 the base case.  Returns a dict with
    result = "ok" (no error up to `length`), "counterexample" (invariant violated) or "deadlock", wall_s, out.
    Raises ToolError on timeouts and on every other outcome (parse, type, solver errors)."""
    name = os.path.splitext(os.path.basename(module_rel))[0]
    key = tag or "%s-%s-%s-%s-%s-%d" % (name, init, next, inv, cinit, length)
    stage = stage_spec(module_rel, workdir("apa", re.sub(r"[^A-Za-z0-9_.-]", "_", key)))
    outdir = os.path.join(stage, "_out")
    shutil.rmtree(outdir, ignore_errors=True)
    cmd = ["apalache-mc", "check", "--length=%d" % length, "--inv=%s" % inv, "--out-dir=%s" % outdir]
    if init:
        cmd.append("--init=%s" % init)
    if next:
        cmd.append("--next=%s" % next)
    if cinit:
        cmd.append("--cinit=%s" % cinit)
    cmd += list(extra) + [name + ".tla"]
    e = dict(os.environ, JVM_ARGS="-Xmx%s" % xmx)
    t0 = time.time()
    try:
        p = subprocess.run(cmd, cwd=stage, env=e, stdout=subprocess.PIPE, stderr=subprocess.STDOUT, text=True, timeout=timeout)
    except subprocess.TimeoutExpired:
        subprocess.run(["pkill", "-f", outdir], stdout=subprocess.DEVNULL, stderr=subprocess.DEVNULL)
        raise ToolError("apalache timeout on %s (%s) after %ss" % (name, key, timeout))
    out = p.stdout
    wall = round(time.time() - t0, 2)
    shutil.rmtree(outdir, ignore_errors=True)
    r = {"tool": "apalache", "module": name, "init": init, "next": next, "inv": inv, "cinit": cinit, "length": length,
         "wall_s": wall, "out": out, "cmd": " ".join(cmd[:-1] + [name + ".tla"])}
    if "The outcome is: NoError" in out and p.returncode == 0:
        r["result"] = "ok"
    elif p.returncode == 12 and re.search(r"state invariant \d+ violated", out):
        r["result"] = "counterexample"
        m = re.search(r"State (\d+): state invariant (\d+) violated", out)
        r["violated_at"] = {"state": int(m.group(1)), "conjunct": int(m.group(2))} if m else None
    elif p.returncode == 12 and "deadlock" in out.lower():
        r["result"] = "deadlock"      # never expected: the restated models carry a stutter step
    else:
        log(out[-3000:])
        raise ToolError("apalache error on %s (%s), exit %d" % (name, key, p.returncode))
    log("[apalache] %s init=%s next=%s inv=%s cinit=%s length=%d: %s, %.1fs" %
        (name, init, next, inv, cinit, length, r["result"], wall))
    return r


def _tlapm_once(stage, name, threads, cleanfp, stretch, timeout):
    cmd = ["tlapm", "--threads", str(threads), "--stretch", str(stretch)] + (["--cleanfp"] if cleanfp else []) + [name + ".tla"]
    try:
        p = subprocess.run(cmd, cwd=stage, stdout=subprocess.PIPE, stderr=subprocess.STDOUT, text=True, timeout=timeout)
    except subprocess.TimeoutExpired:
        raise ToolError("tlapm timeout on %s after %ss" % (name, timeout))
    return cmd, p


def tlapm(module_rel, timeout=900, threads=4, cleanfp=True, tag=None, stretch=2, retries=2):
    """Checks every proof of a module with tlapm (all back ends the proofs name).  Returns a dict with
    result = "ok" (all obligations proved) or "failed" (some obligation not proved; `failed`, `obligations`,
    `failed_at` = source positions), wall_s, out.  Raises ToolError on timeouts and when tlapm did not get as
    far as counting obligations (parse errors, crashes).  Back-end timeouts are per obligation and wall-clock:
    on a loaded machine a true obligation can time out, so a failed run is repeated up to `retries` times with
    the fingerprints of the proved obligations kept and the time limits doubled (pass retries=0 for modules
    that are expected to fail)."""
    name = os.path.splitext(os.path.basename(module_rel))[0]
    stage = stage_spec(module_rel, workdir("tlaps", tag or name))
    t0 = time.time()
    attempt = 0
    while True:
        cmd, p = _tlapm_once(stage, name, threads, cleanfp and attempt == 0, stretch * (2 ** attempt),
                             max(60, timeout - (time.time() - t0)))
        out = p.stdout
        # the summary of the module itself is the last one (modules it extends are summarised before it)
        last_ok, last_bad = None, None
        for m in _RE_OBL.finditer(out):
            last_ok = m
        for m in _RE_OBLF.finditer(out):
            last_bad = m
        if last_bad and attempt < retries:
            attempt += 1
            log("[tlapm] %s: %s obligations failed, retrying with longer time limits (%d)" % (name, last_bad.group(1), attempt))
            continue
        break
    wall = round(time.time() - t0, 2)
    r = {"tool": "tlapm", "module": name, "wall_s": wall, "out": out, "cmd": " ".join(cmd), "attempts": attempt + 1}
    if last_bad:
        r.update(result="failed", failed=int(last_bad.group(1)), obligations=int(last_bad.group(2)),
                 failed_at=re.findall(r'File "\./%s\.tla", (line \d+, characters \d+-\d+)' % re.escape(name), out))
    elif last_ok and p.returncode == 0:
        r.update(result="ok", failed=0, obligations=int(last_ok.group(1)))
    else:
        log(out[-3000:])
        raise ToolError("tlapm error on %s, exit %d" % (name, p.returncode))
    log("[tlapm] %s: %s, %d obligations, %d failed, %.1fs" % (name, r["result"], r["obligations"], r["failed"], wall))
    return r


def ind_expect(r, want, what):
    """An inductive run of an UNCHANGED model that does not give the expected answer is a tool error (exit 2),
    never a violation: `want` is "ok" for the real model, "counterexample" / "failed" for its broken variant."""
    if r["result"] != want:
        log(r["out"][-3000:])
        raise ToolError("%s: %s gave %r, expected %r" % (what, r["tool"], r["result"], want))
    return {k: r[k] for k in r if k not in ("out",)}
