"""setup: build the harness (both profiles), parse all specs with SANY, run the BigNat self-test."""
import os, subprocess, sys
from . import core


def selftest():
    work = core.workdir("selftest")
    trace = os.path.join(work, "bn.ndjson")
    subprocess.run([sys.executable, os.path.join(core.SPEC, "selftest", "gen_bignat_vectors.py"), trace, "1", "40"],
                   check=True, stdout=subprocess.DEVNULL)
    res = core.validate_trace("selftest/BigNatSelfTest.tla", "BigNatSelfTest.cfg", trace, shards=8)
    if res["rejects"]:
        for r in res["rejects"][:10]:
            print("BigNat self-test reject:", r["tag"], r["i"])
        print("TOOL-ERROR: BigNat self-test failed")
        return 2
    print("selftest ok: %d vectors" % res["events"])
    ct = os.path.join(work, "certs.ndjson")
    core.run_driver(["selftest", "--seed", 1], ct)
    res = core.validate_trace("selftest/CertsSelfTest.tla", "CertsSelfTest.cfg", ct, shards=8)
    if res["rejects"]:
        print("TOOL-ERROR: certificate self-test failed", [(r["tag"], r["i"]) for r in res["rejects"]])
        return 2
    print("selftest ok: %d certificate chains" % res["events"])
    return 0


def run():
    core.build_harness("release")
    core.build_harness("relcheck")
    bad = 0
    for root, _, files in os.walk(core.SPEC):
        for f in sorted(files):
            if not f.endswith(".tla"):
                continue
            stage = core.stage_spec(os.path.relpath(os.path.join(root, f), core.SPEC), core.workdir("sany"))
            if "_TTrace_" in f:
                continue        # trace-explorer leftovers of a hand-run TLC are not specifications
            # proof modules (*Proofs*.tla, thorough tier) are written for the proof system: they import its standard module
            # TLAPS and use its more lenient scoping (a lemma may re-declare NEW x next to a VARIABLE x); tlapm parses and
            # checks them in the thorough tier of C07/C09/C15/C17, SANY is not their parser
            if "Proofs" in f:
                continue
            cmd = ["java", "-cp", core.TLC_CP, "tla2sany.SANY", f]
            p = subprocess.run(cmd, cwd=stage, stdout=subprocess.PIPE, stderr=subprocess.STDOUT, text=True)
            if p.returncode != 0 or "error" in p.stdout.lower().replace("errors: 0", ""):
                if "Semantic errors" in p.stdout or "Parse Error" in p.stdout or p.returncode != 0:
                    print("SANY failed on", f)
                    print(p.stdout[-1500:])
                    bad += 1
    if bad:
        print("TOOL-ERROR: %d specs do not parse" % bad)
        return 2
    return selftest()
