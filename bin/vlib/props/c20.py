"""C20 - parameter tables satisfy their consumers' preconditions at every size."""
import os
from .. import core

LEVEL = "model_checking"


def run(chk, replay=None):
    w = core.workdir("c20")
    # (V) dump of every derived parameter by the real functions, in both build profiles (an arithmetic
    # underflow only panics with overflow checks; in release it wraps into a huge value that the
    # contracts reject as well)
    evs_all = []
    profiles = ("release", "relcheck")
    if replay:
        profiles = (replay["event"].get("profile", "release"),)
    for profile in profiles:
        trace = os.path.join(w, "trace_%s.ndjson" % profile)
        core.run_driver(["c20", "--seed", chk.seed, "--profile", profile], trace, profile=profile)
        if replay:
            core.replay_filter(trace, replay)
        res = core.validate_trace("params/ParamsTrace.tla", "ParamsTrace.cfg", trace, timeout=1700, tag="ParamsTrace-" + profile,
                                  weight=lambda e: 3 if e["op"] == "params" else 1)
        chk.add_tv(res)
        notes = {}
        for nt in res["notes"]:
            key = "%s %s" % (nt[1], nt[2][0] if isinstance(nt[2], list) else nt[2])
            b = nt[2][1] if isinstance(nt[2], list) else None
            lo, hi, c = notes.get(key, (b, b, 0))
            notes[key] = (min(lo, b), max(hi, b), c + 1)
        for k, (lo, hi, c) in sorted(notes.items()):
            chk.notes.append({"profile": profile, "note": k, "bits_from": lo, "bits_to": hi, "events": c})
        evs = core.read_ndjson(trace)
        evs_all += evs

    def key(e):
        if e["op"] == "params":
            return ("p", e["alg"], e["bits"], e["dbl"], e["shape"])
        if e["op"] == "stage2":
            return ("s", e["table"], e["b2"]) if e.get("used") else None
        return ("c", e["bits"], e["lgsize"]) if e.get("row") else None
    chk.count(evs_all, key)
    chk.rule = ("exhaustive dump: bit lengths 1..512 x two shapes of n (smallest, 1 mod 8 / largest, 7 mod 8) x use_double x "
                "{siqs, mpqs, qs, cls}; ~2000 log-spaced B2 plus every discovered row and every midpoint between rows +-1 ulp for "
                "both stage-2 tables; modulus bits 1..512 x power-of-two sizes 16..2^20 for the convolution dispatch; all computed by "
                "the real functions in release and relcheck profiles. non-trivial = configuration whose parameters are consumed "
                "(stage-2 row used, convolution row exists); distinct by configuration")
    chk.cov["exhaustive"] = True
    chk.cov["ops"] = {}
    for e in evs_all:
        k = e["op"] + ("/" + e["alg"] if e["op"] == "params" else "/" + e["table"] if e["op"] == "stage2" else "")
        chk.cov["ops"][k] = chk.cov["ops"].get(k, 0) + 1
    chk.cov["stage2_rows_seen"] = {t: len({(str(e.get("d1")), str(e.get("d2"))) for e in evs_all if e["op"] == "stage2" and e["table"] == t})
                                   for t in ("ecm", "pm1")}
    chk.cov["conv_rows_seen"] = len({(e["fsize"], e["logpack"], e["stride"]) for e in evs_all if e["op"] == "conv" and e["row"]})
    chk.cov["panics_in_parameter_functions"] = sum(1 for e in evs_all if "outcome" in e)
    for e in evs_all[:: max(1, len(evs_all) // 5)]:
        chk.sample({k: e[k] for k in e if k in ("op", "case", "alg", "bits", "dbl", "table", "b2", "row", "lgsize")})
    chk.assumptions += ["TLC, SANY, CommunityModules Json/IOUtils/SequencesExt", "spec/lib/BigNat",
                        "contracts of spec/params/Params.tla were derived by reading the consumers (sieve.rs, siqs.rs, mpqs.rs, qsieve.rs, "
                        "classgroup.rs, fbase.rs, ecm.rs, ecm128.rs, pp1.rs, pollard_pm1.rs, arith_fft.rs, arith_poly.rs); they are necessary "
                        "conditions, not a proof that the consumers work",
                        "supported sizes: qs <= 400 and mpqs <= 448 bits (guards in the code), siqs and class group <= 448 bits (same 256-bit "
                        "polynomial arithmetic); larger sizes are evaluated but only reported as notes",
                        "largest factor-base prime bounded by the fb8-th and (2 fb+40)-th primes as enumerated by fbase::primes"]
