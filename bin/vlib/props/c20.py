"""C20 - parameter tables satisfy their consumers' preconditions at every size."""
import os
from .. import core

LEVEL = "model_checking"


def run(chk, replay=None):
    w = core.workdir("c20")
    # (V) dump of every derived parameter by the real functions, in both build profiles (an arithmetic
    # underflow only panics with overflow checks; in release it wraps into a huge value that the
    # contracts reject as well)
    evs_all = []
    profiles = ("release", "relcheck")
    # a replay of a consumer-run event (second leg) only needs the release dump as the input of the flow model
    flow_replay = bool(replay) and replay["event"].get("op") in ("flow", "flow2")
    if replay:
        profiles = ("release",) if flow_replay else (replay["event"].get("profile", "release"),)
    for profile in profiles:
        trace = os.path.join(w, "trace_%s.ndjson" % profile)
        core.run_driver(["c20", "--seed", chk.seed, "--profile", profile], trace, profile=profile)
        if flow_replay:
            continue
        if replay:
            core.replay_filter(trace, replay)
        res = core.validate_trace("params/ParamsTrace.tla", "ParamsTrace.cfg", trace, timeout=1700, tag="ParamsTrace-" + profile,
                                  weight=lambda e: 3 if e["op"] == "params" else 1)
        chk.add_tv(res)
        notes = {}
        for nt in res["notes"]:
            key = "%s %s" % (nt[1], nt[2][0] if isinstance(nt[2], list) else nt[2])
            b = nt[2][1] if isinstance(nt[2], list) else None
            lo, hi, c = notes.get(key, (b, b, 0))
            notes[key] = (min(lo, b), max(hi, b), c + 1)
        for k, (lo, hi, c) in sorted(notes.items()):
            chk.notes.append({"profile": profile, "note": k, "bits_from": lo, "bits_to": hi, "events": c})
        evs = core.read_ndjson(trace)
        evs_all += evs

    def key(e):
        if e["op"] == "params":
            return ("p", e["alg"], e["bits"], e["dbl"], e["shape"])
        if e["op"] == "stage2":
            return ("s", e["table"], e["b2"]) if e.get("used") else None
        return ("c", e["bits"], e["lgsize"]) if e.get("row") else None
    if not flow_replay:
        chk.count(evs_all, key)
    chk.rule = ("exhaustive dump: bit lengths 1..512 x two shapes of n (smallest, 1 mod 8 / largest, 7 mod 8) x use_double x "
                "{siqs, mpqs, qs, cls}; ~2000 log-spaced B2 plus every discovered row and every midpoint between rows +-1 ulp for "
                "both stage-2 tables; modulus bits 1..512 x power-of-two sizes 16..2^20 for the convolution dispatch; all computed by "
                "the real functions in release and relcheck profiles. non-trivial = configuration whose parameters are consumed "
                "(stage-2 row used, convolution row exists); distinct by configuration")
    chk.cov["exhaustive"] = True
    chk.cov["ops"] = {}
    for e in evs_all:
        k = e["op"] + ("/" + e["alg"] if e["op"] == "params" else "/" + e["table"] if e["op"] == "stage2" else "")
        chk.cov["ops"][k] = chk.cov["ops"].get(k, 0) + 1
    chk.cov["stage2_rows_seen"] = {t: len({(str(e.get("d1")), str(e.get("d2"))) for e in evs_all if e["op"] == "stage2" and e["table"] == t})
                                   for t in ("ecm", "pm1")}
    chk.cov["conv_rows_seen"] = len({(e["fsize"], e["logpack"], e["stride"]) for e in evs_all if e["op"] == "conv" and e["row"]})
    chk.cov["panics_in_parameter_functions"] = sum(1 for e in evs_all if "outcome" in e)
    if os.environ.get("VERIF_C20_FLOW", "1") != "0" and (flow_replay or not replay):
        flow(chk, w, replay if flow_replay else None)
    for e in evs_all[:: max(1, len(evs_all) // 5)]:
        chk.sample({k: e[k] for k in e if k in ("op", "case", "alg", "bits", "dbl", "table", "b2", "row", "lgsize")})
    chk.assumptions += ["TLC, SANY, CommunityModules Json/IOUtils/SequencesExt", "spec/lib/BigNat",
                        "contracts of spec/params/Params.tla were derived by reading the consumers (sieve.rs, siqs.rs, mpqs.rs, qsieve.rs, "
                        "classgroup.rs, fbase.rs, ecm.rs, ecm128.rs, pp1.rs, pollard_pm1.rs, arith_fft.rs, arith_poly.rs); they are necessary "
                        "conditions, not a proof that the consumers work",
                        "supported sizes: qs <= 400 and mpqs <= 448 bits (guards in the code), siqs and class group <= 448 bits (same 256-bit "
                        "polynomial arithmetic); larger sizes are evaluated but only reported as notes",
                        "largest factor-base prime bounded by the fb8-th and (2 fb+40)-th primes as enumerated by fbase::primes"]


# ------------------------------------------------------------------------------------------------------------
# second leg: the parameters flow into their real consumers (spec/params/ParamFlow.tla, ParamFlowTrace.tla)
# ------------------------------------------------------------------------------------------------------------
def _merge_shapes(shapes):
    """one run per (consumer, size, switch, residue class) / (table, B2): the reasons and sides are merged"""
    sieve, s2 = {}, {}
    for s in shapes:
        if s["fam"] in ("ecm", "pm1"):
            k = (s["fam"], s["b2"])
            d = s2.setdefault(k, dict(s, side=set()))
            d["side"].add(s["side"])
        else:
            k = (s["fam"], s["bits"], s["dbl"], s["shape"])
            d = sieve.setdefault(k, dict(s, side=set(), why=set()))
            d["side"].add(s["side"])
            d["why"].add(s["why"])
    out = []
    for k in sorted(sieve):
        d = sieve[k]
        out.append(dict(d, side="+".join(sorted(d["side"])), why="+".join(sorted(d["why"]))))
    for k in sorted(s2, key=lambda k: (k[0], float(k[1]))):
        d = s2[k]
        out.append(dict(d, side="+".join(sorted(d["side"]))))
    return out


def flow(chk, w, replay=None):
    import concurrent.futures as cf
    import json
    import random
    thorough = chk.tier == "thorough"
    rel = core.read_ndjson(os.path.join(w, "trace_release.ndjson"))
    dump_p, dump_s = os.path.join(w, "flow_dump_p.ndjson"), os.path.join(w, "flow_dump_s.ndjson")
    core.write_ndjson(dump_p, [e for e in rel if e["op"] == "params"])
    core.write_ndjson(dump_s, [e for e in rel if e["op"] == "stage2"])
    env = {"DUMP_P": dump_p, "DUMP_S": dump_s}
    # (M) the flow model over the dump of the real functions: NoStuck + FlowIsContract; prints the shapes
    # The dump is produced by the code under test, so a stuck flow is a statement about the code, not about the model: TLC goes
    # on (-continue) so that every shape is still printed, and the verdict comes from the Strict predicates (the first leg on the
    # same dumped values, ParamsOK on the parameters logged by every consumer run).  A stuck flow without any Strict rejection
    # would mean that the composition and the contracts disagree: that is our error (exit 2).
    r = core.model_check("params/ParamFlow.tla", "ParamFlow.cfg", workers=min(4, core.NCPU), timeout=1200, env=env, extra=["-continue"],
                         expect_error=True)
    stuck = "NoStuck" in r["violated"] or "FlowIsContract" in r["violated"]
    chk.add_mc(r, invariants_expected_to_hold=not stuck)
    if stuck:
        if not (chk.violations or chk.known):
            raise core.ToolError("ParamFlow: a flow is stuck on the dump although every contract of the first leg holds")
        chk.notes.append({"note": "flow model: some flows are stuck on the dumped parameters (see the violations of the first leg)",
                          "invariants": r["violated"]})
    shapes = []
    seen = set()
    for t in core.tuples(r["out"], "SHAPE"):
        if t[1] not in seen:
            seen.add(t[1])
            shapes.append(json.loads(t[1]))
    if not shapes:
        raise core.ToolError("ParamFlow printed no shapes")
    chk.cov["flow_model_shapes"] = len(shapes)
    # non-vacuity: a deliberately broken reading of the dump must get stuck (all three in thorough, one in quick)
    muts = ["interval_unaligned", "too_few_primes", "d2_not_pow2"]
    if not replay:
        for m in (muts if thorough else [muts[int(chk.seed) % 3]]):
            rm = core.model_check("params/ParamFlow.tla", "ParamFlow_mut_%s.cfg" % m, workers=min(4, core.NCPU), timeout=1200, env=env,
                                  expect_error=True)
            chk.add_mc(rm, invariants_expected_to_hold=False)
            if "NoStuck" not in rm["violated"]:
                raise core.ToolError("non-vacuity: ParamFlow with the broken reading '%s' does not violate NoStuck" % m)
    runs = _merge_shapes(shapes)
    sieve = [s for s in runs if s["fam"] not in ("ecm", "pm1")]
    s2 = [s for s in runs if s["fam"] in ("ecm", "pm1")]
    chk.cov["flow_breakpoint_runs_planned"] = {f: sum(1 for s in runs if s["fam"] == f) for f in sorted({s["fam"] for s in runs})}
    rnd = random.Random(int(chk.seed) * 7919 + 20)
    plans = {}
    if thorough:
        plans["release"] = (runs, 300, 1 << 20)
        plans["relcheck"] = (runs, 300, 1 << 18)
    else:
        # quick: every size up to 260 bits and every stage-2 request up to d2 = 16384 in release; a sample of the large sizes;
        # a sample of everything with the checks of the repository's own tests (overflow, debug assertions)
        small = [s for s in sieve if s["bits"] <= 260]
        big = [s for s in sieve if s["bits"] > 260]
        cheap_big = [s for s in big if s["fam"] in ("siqs", "cls")]
        plans["release"] = (small + rnd.sample(cheap_big, min(10, len(cheap_big))) + rnd.sample(big, min(4, len(big))) + s2, 230, 16384)
        plans["relcheck"] = (rnd.sample(small, min(90, len(small))) + rnd.sample(cheap_big, min(3, len(cheap_big))) + rnd.sample(s2, min(60, len(s2))),
                             200, 4096)
    if replay:
        prof = replay["event"].get("profile", "release")
        plans = {prof: (runs, 1000, 1 << 22)}
    evs_all = []
    for profile, (plan, real_max, maxd2) in plans.items():
        if replay:
            want = replay["event"]
            plan = [s for s in plan if s["fam"] == want.get("fam") and
                    (s.get("b2") == want.get("b2") if "b2" in want else (s.get("bits") in (want.get("bits"), want.get("nbits")) and s.get("dbl") == want.get("dbl")
                                                                          and s.get("shape") == want.get("shape")))]
        # heavy runs first inside each part (round-robin over the parts)
        plan = sorted(plan, key=lambda s: -(s.get("bits", 0)))
        shp = os.path.join(w, "flow_shapes_%s.ndjson" % profile)
        core.write_ndjson(shp, plan)
        parts = max(1, min(core.NCPU, 12, len(plan)))
        core.build_harness(profile)

        def one(i, plan=plan, profile=profile, parts=parts, shp=shp, real_max=real_max, maxd2=maxd2):
            # the code under test can take the driver process down (abort): the death becomes an event of the shape that was
            # in progress, and the part is resumed after it
            got, start = [], 0
            for attempt in range(25):
                out = os.path.join(w, "flow_%s_part%02d_%02d.ndjson" % (profile, i, attempt))
                for f in (out, out + ".cur"):
                    if os.path.exists(f):
                        os.unlink(f)
                rc = core.run_driver(["c20", "--mode", "flow", "--seed", chk.seed, "--profile", profile, "--shapes", shp, "--part", i,
                                      "--parts", parts, "--real-max", real_max, "--maxd2", maxd2, "--from", start], out, profile=profile,
                                     timeout=5400, allow_death=True)
                if os.path.exists(out):
                    for line in open(out):
                        try:
                            got.append(json.loads(line))
                        except ValueError:
                            pass   # a line cut by the death of the process
                if not isinstance(rc, int):
                    return got
                cur = open(out + ".cur").read().strip() if os.path.exists(out + ".cur") else ""
                if not cur.isdigit():
                    raise core.ToolError("flow driver died (%s) outside a consumer run" % rc)
                j = int(cur)
                sh = plan[j]
                base = {"case": "flow/%s/died/%s/%d" % (sh["fam"], profile, j), "fam": sh["fam"], "side": sh["side"], "profile": profile,
                        "outcome": "abort", "msg": "the process died with status %s during this run" % rc, "loc": ""}
                if sh["fam"] in ("ecm", "pm1"):
                    base.update({"op": "flow2", "m": "pm1" if sh["fam"] == "pm1" else "ecm", "table": sh["fam"], "b2": sh["b2"]})
                else:
                    base.update({"op": "flow", "alg": sh["fam"], "bits": sh["bits"], "nbits": sh["bits"], "dbl": sh["dbl"], "shape": sh["shape"],
                                 "why": sh["why"], "kind": "first", "abort": 0, "units_done": 0})
                got.append(base)
                start = j + 1
            raise core.ToolError("flow driver died 25 times in part %d" % i)
        with cf.ThreadPoolExecutor(max_workers=parts) as ex:
            outs = list(ex.map(one, range(parts)))
        evs = []
        for o in outs:
            evs += o
        trace = os.path.join(w, "flow_%s.ndjson" % profile)
        core.write_ndjson(trace, evs)
        if replay:
            core.replay_filter(trace, replay)
        res = core.validate_trace("params/ParamFlowTrace.tla", "ParamFlowTrace.cfg", trace, timeout=1700, tag="flow-" + profile)
        chk.add_tv(res)
        evs_all += core.read_ndjson(trace)

    def key(e):
        if e["op"] == "flow":
            return ("f", e["alg"], e["bits"], e["dbl"], e["shape"], e["kind"], e["profile"])
        return ("f2", e["m"], e["b2"], e["profile"]) if e.get("hdr") else None
    chk.count(evs_all, key)
    cov = {}
    for e in evs_all:
        fam = e["alg"] if e["op"] == "flow" else e["m"]
        c = cov.setdefault(fam, {"runs": 0, "sizes_or_requests": set(), "kinds": {}, "ended": {}, "outcomes": {}, "profiles": {}})
        c["runs"] += 1
        c["sizes_or_requests"].add(e["bits"] if e["op"] == "flow" else e["b2"])
        for f, v in (("kinds", e.get("kind", "stage2")), ("ended", e.get("ended") or "-"), ("profiles", e["profile"])):
            c[f][v] = c[f].get(v, 0) + 1
        if "outcome" in e:
            c["outcomes"][e["outcome"]] = c["outcomes"].get(e["outcome"], 0) + 1
    for c in cov.values():
        c["sizes_or_requests"] = len(c["sizes_or_requests"])
    chk.cov["flow"] = cov
    chk.cov["flow_stage2_reached"] = sum(1 for e in evs_all if e["op"] == "flow2" and (e.get("nb", 0) > 0 or e.get("conv")))
    chk.rule += ("; second leg: one real consumer run per (consumer, breakpoint, side) printed by the flow model ParamFlow.tla from the dump "
                 "(both sides of every size where a step-valued parameter changes or a numeric one kinks, the consumers' size guards +-1, a "
                 "32-bit grid; every stage-2 row and both neighbours of every selection change), on a constructed n of exactly that size; "
                 "non-trivial = the consumer was entered (stage-2 header seen for ECM/P+-1)")
    for e in evs_all[:: max(1, len(evs_all) // 3)][:3]:
        chk.sample({k: e[k] for k in e if k in ("op", "case", "alg", "m", "bits", "dbl", "kind", "b2", "side", "why", "ended")})
    chk.assumptions += ["second leg: breakpoints are derived by TLC from the dump of the real parameter functions (value changes of step-valued "
                        "parameters, kinks of at least 1/8 of numeric ones); a `match` arm that changes nothing visible in any dumped parameter "
                        "is not a breakpoint",
                        "second leg: sieve consumers are run to the end of their first unit of work (first polynomial / first block pair / first "
                        "A value) or to completion below 100 bits; stage-2 rows above the tier's d2 bound are covered by the contracts only"]
