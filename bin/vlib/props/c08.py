"""C08 - word-level division, inversion and square-root primitives are exact."""
import os
from .. import core

LEVEL = "model_checking"

HEAVY = {"sqrt_big": 4000, "pow_mod": 300, "mod_uint": 30, "divmod_uint": 20, "inv_mod64": 60, "perfect_power": 25,
         "fbase": 60, "isqrt": 15, "modu16_all": 10, "invert_all": 3, "sqrt_all": 3, "sqrt_mod": 6, "invert": 4,
         "divmod64": 8, "modu63": 8, "modi64": 12, "mod_u128": 8, "modu16": 1}


def run(chk, replay=None):
    thorough = chk.tier == "thorough"
    w = core.workdir("c08")
    # (M) scaled models: reciprocal division for small word widths, Kaliski almost-inverse
    recip = ["MC_Recip_8.cfg", "MC_Recip_10.cfg", "MC_Recip2w_6.cfg", "MC_Recip2w_8.cfg"] + \
            (["MC_Recip_12.cfg", "MC_Recip_14.cfg", "MC_Recip2w_10.cfg"] if thorough else [])
    for cfg in recip:
        chk.add_mc(core.model_check("wordarith/Reciprocal.tla", cfg, workers=4, timeout=1700))
    for cfg in ["MC_AInv_8.cfg"] + (["MC_AInv_9.cfg", "MC_AInv_10.cfg"] if thorough else []):
        chk.add_mc(core.model_check("wordarith/AlmostInverse.tla", cfg, workers=4, timeout=1700))
    # reachability of the two corrective branches (quotient estimate one too large; carry in the two-word reduction):
    # expected reachable, informational
    for cfg, inv in (("MC_Recip_reach_corr.cfg", "CorrectionUnreachable"), ("MC_Recip_reach_carry.cfg", "CarryUnreachable")):
        r = core.model_check("wordarith/Reciprocal.tla", cfg, workers=4, timeout=600, expect_error=True)
        chk.add_mc(r, invariants_expected_to_hold=False)
        chk.notes.append({"model": cfg, "branch_reachable": inv in r["violated"]})
    # (I) input space
    shapes = os.path.join(w, "shapes.ndjson")
    nshapes, r = core.gen_shapes("wordarith/WordShapes.tla", "WordShapes.cfg", shapes)
    chk.add_mc(r)
    # (V) real code; the thorough tier repeats the run on a build with debug assertions and overflow checks
    # (the configuration the repository's own tests run under): a panic there is an outcome, judged by the spec
    trace = os.path.join(w, "trace.ndjson")
    res = None
    for profile in (["release", "relcheck"] if thorough else ["release"]):
        tr = trace if profile == "release" else os.path.join(w, "trace_relcheck.ndjson")
        core.run_driver(["c08", "--seed", chk.seed, "--tier", chk.tier, "--shapes", shapes], tr, timeout=1700, profile=profile)
        if replay:
            core.replay_filter(tr, replay)
        r = core.validate_trace("wordarith/WordArithTrace.tla", "WordArithTrace.cfg", tr, timeout=1700,
                                weight=lambda e: HEAVY.get(e["op"], 5), tag="WordArithTrace-" + profile)
        chk.add_tv(r)
        for n in r["notes"][:20]:
            chk.notes.append({"profile": profile, "note": n})
        if res is None:
            res = r
        else:
            res["rejects"] = res["rejects"] + r["rejects"]
    evs = core.read_ndjson(trace)
    calls = 0
    ops = {}
    for e in evs:
        k = 1
        for f in ("ns", "xs", "is", "rs", "ps"):
            if isinstance(e.get(f), list):
                k = max(k, len(e[f]))
        calls += k
        ops.setdefault(e["op"], [0, 0])
        ops[e["op"]][0] += 1
        ops[e["op"]][1] += k
    chk.count(evs, lambda e: (e["op"], e.get("case")))
    chk.evaluations = calls
    chk.rule = ("one batch event per (routine, prime) or per chunk of scalar arguments; primes from the classes and operands "
                "from the patterns enumerated by WordShapes.tla (seeded filling); every batch contains operands other than "
                "0/1 so all are non-trivial; distinct by (routine, prime/chunk); `evaluations` counts individual calls")
    chk.cov["shapes"] = nshapes
    chk.cov["ops"] = {k: {"events": v[0], "calls": v[1]} for k, v in sorted(ops.items())}
    missing = [o for o in HEAVY if o not in ops]
    if missing and not replay and not res["rejects"]:
        raise core.ToolError("routines without any event: %s" % missing)
    for e in evs[:: max(1, len(evs) // 5)]:
        chk.sample({k: e[k] for k in e if k in ("op", "case", "p", "nps")})
    chk.assumptions += ["TLC, SANY, CommunityModules Json/IOUtils/SequencesExt", "spec/lib/BigNat, BigInt, Certs",
                        "harness encoding of machine words into base-4096 digits; 16/32-bit outputs saturated at 2^31-1",
                        "documented preconditions: Dividers p prime < 2^30 (modu63: top bit clear; modu16: p < 2^16), "
                        "Inverter p < 2^28 and 0 < x < p, sqrt_mod p prime (< 2^24, or multiword = 3 mod 4), "
                        "pow_mod modulus with p^2 inside the type, perfect_power n > 1 and exponents built from primes <= 19"]
