"""C18 - a reported class group is the true class group."""
import os
from .. import core

LEVEL = "model_checking"

KNOWN_NORESULT = ("failed to determine lattice index",)


def run(chk, replay=None):
    thorough = chk.tier == "thorough"
    w = core.workdir("c18")
    if replay and replay["event"].get("op") in ("run", "clscli"):     # a failing case of the stage "cls-proto" / "cls-cli"
        cls_stages(chk, thorough, replay)
        return
    if os.environ.get("VERIF_C18_ONLY") in ("cls", "clsv"):          # clsv: without the models                      # development: only the added stages
        cls_stages(chk, thorough, None)
        chk.rule = "stage cls-proto / cls-cli only (VERIF_C18_ONLY=cls)"
        return
    # (M) the definitions checked on themselves: reduced-form count (Heegner discriminants, the class numbers the
    # repository's test asserts, set vs counting operator), form arithmetic is a group law with the 2-rank of genus
    # theory, and the sign rule read off a sieve value agrees with form arithmetic
    cfgs = ["MC_Heegner.cfg", "MC_KnownH.cfg", "MC_Count.cfg", "MC_Group.cfg", "MC_Witness.cfg"]
    if thorough:
        cfgs += ["MC_GroupBig.cfg", "MC_WitnessBig.cfg"]
    for cfg in ([] if replay else cfgs):     # a replay only re-runs the recorded case
        r = core.model_check("classgroup/ClassGroupMC.tla", cfg, workers=4, timeout=1700)
        chk.add_mc(r)
    # (M) the relation store (spanning tree of large primes) and (G) its histories replayed into the real CRelationSet
    if not replay:
        for cfg in ["MC_CRelStore.cfg"] + (["MC_CRelStoreBig.cfg"] if thorough else []):
            chk.add_mc(core.model_check("classgroup/CRelStore.tla", cfg, workers=4, timeout=1700))
        hists = os.path.join(w, "hists.ndjson")
        nh, r = core.gen_shapes("classgroup/CRelStore.tla", "CRelStoreReplayThorough.cfg" if thorough else "CRelStoreReplay.cfg",
                                hists, head="REPLAY")
        chk.add_mc(r)
        strace = os.path.join(w, "store.ndjson")
        core.run_driver(["c18", "--mode", "store", "--hists", hists], strace)
        sres = core.validate_trace("classgroup/CRelStoreTrace.tla", "CRelStoreTrace.cfg", strace, timeout=1200, tag="CRelStoreTrace")
        chk.add_tv(sres)
        chk.cov["store_histories_replayed"] = nh
        chk.cov["ops_store"] = len(core.read_ndjson(strace))
    # (I) input space: every fundamental |D| < 3000 and (bit size, residue class) shapes
    shapes = os.path.join(w, "shapes.ndjson")
    nshapes, r = core.gen_shapes("classgroup/ClassGroupShapes.tla",
                                 "ClassGroupShapesThorough.cfg" if thorough else "ClassGroupShapes.cfg", shapes)
    chk.add_mc(r)
    # (V) the real code
    trace = os.path.join(w, "trace.ndjson")
    scratch = os.path.join(w, "scratch")
    # a share of the cases also goes through the real ymcls program built from the tree under test
    args = ["c18", "--seed", chk.seed, "--shapes", shapes, "--scratch", scratch, "--ymcls", core.build_cli("release")["ymcls"]]
    if thorough:
        args += ["--reps", 4, "--small-stride", 1, "--maxlines", 250, "--xcheck", 40, "--count-bound", 2 ** 30 - 1, "--npow", 4]
    else:
        args += ["--reps", 2, "--small-stride", 3, "--maxlines", 40, "--xcheck", 60, "--npow", 2]
    if replay:
        args += ["--only", replay["event"]["case"]]
    core.run_driver(args, trace, timeout=3000)
    if replay:
        core.replay_filter(trace, replay, keys=("case", "lineno") if replay["event"].get("op") == "line" else ("case",))

    def weight(e):
        if e["op"] == "result":
            return (30 + (e.get("n", 0) // 20000) + 40 * len(e.get("facs", [])) * (1 + e["bits"] // 40)
                    + len(e.get("pw", [])) * e["bits"] * e["bits"] // 5)
        if e["op"] == "line":
            return (1 + e["bits"] // 16) * (40 if "xc" in e else 1)
        return 1

    res = core.validate_trace("classgroup/ClassGroupTrace.tla", "ClassGroupTrace.cfg", trace, timeout=2400, weight=weight)
    chk.add_tv(res)
    evs = core.read_ndjson(trace)
    # bookkeeping
    ops, why, classes, sizes, threads = {}, {}, {}, {}, {}
    other_panics = []
    nou = noco = nxc = 0
    for e in evs:
        ops[e["op"]] = ops.get(e["op"], 0) + 1
        if e["op"] == "noresult":
            k = "%s: %s" % (e["why"], e.get("msg"))
            why[k] = why.get(k, 0) + 1
            if not (e["why"] == "none" or (e["why"] == "panic" and e.get("msg") in KNOWN_NORESULT)):
                other_panics.append({"case": e["case"], "dd": e["dd"], "why": e["why"], "msg": e.get("msg"), "loc": e.get("loc")})
        elif e["op"] == "result":
            n8 = e["d"][0] % 8 if e["d"] else 0
            cls = {7: "D=1mod8", 3: "D=5mod8"}.get(n8, "D=4D'")
            classes[cls] = classes.get(cls, 0) + 1
            sz = "<=12" if e["bits"] <= 12 else "<=24" if e["bits"] <= 24 else "<=64" if e["bits"] <= 64 else "<=128"
            sizes[sz] = sizes.get(sz, 0) + 1
            threads[str(e["threads"])] = threads.get(str(e["threads"]), 0) + 1
        elif e["op"] == "line":
            nou += "u" not in e
            noco += "co" not in e
            nxc += "xc" in e
    chk.count(evs, lambda e: None if e["op"] == "noresult" or (e["op"] == "result" and e["hd"] == "1")
              else (e["op"], e["dd"], e["threads"], e.get("lineno")))
    chk.rule = ("one run of classgroup::classgroup per case (every fundamental |D| < 3000 enumerated by ClassGroupShapes.tla "
                "[quick: every third one plus all |D| <= 200], seeded fundamental D per (bit size 12..128 x residue class mod 8 / 4D') "
                "shape, the repository's test discriminants; with and without a 4-thread pool); one result event per returned "
                "class group and one line event per (sampled) line of relations.sieve; non-trivial = a returned result with "
                "h > 1 or a relation line; distinct by (op, D, threads, line number); runs without a result (None, internal panic) "
                "are recorded and only their relation file is judged")
    chk.cov["shapes"] = nshapes
    chk.cov["ops"] = ops
    chk.cov["no_result"] = why
    chk.cov["results_by_class"] = classes
    chk.cov["results_by_size_bits"] = sizes
    chk.cov["results_by_threads"] = threads
    chk.cov["results_through_ymcls_program"] = sum(1 for e in evs if e["op"] == "result" and e.get("cli"))
    chk.cov["h_checked_against_form_count"] = sum(1 for e in evs if e["op"] == "result" and "n" in e)
    chk.cov["lagrange_checked_prime_forms"] = sum(len(e.get("pw", [])) for e in evs if e["op"] == "result")
    chk.cov["two_rank_checked"] = sum(1 for e in evs if e["op"] == "result" and "facs" in e)
    chk.cov["lines_without_logged_sieve_value"] = nou
    chk.cov["lines_without_coordinates"] = noco
    chk.cov["lines_of_runs_without_result"] = sum(1 for e in evs if e["op"] == "line" and not e.get("returned", True))
    chk.cov["lines_cross_checked_by_form_arithmetic"] = nxc
    if other_panics:
        chk.notes.append({"unjudged_runs_with_other_outcomes": other_panics[:20]})
    rs = [e for e in evs if e["op"] == "result"]
    for e in rs[:: max(1, len(rs) // 3)][:3]:
        chk.sample({k: e[k] for k in ("op", "case", "dd", "hd", "invd", "nlines")})
    ls = [e for e in evs if e["op"] == "line"]
    for e in ls[:: max(1, len(ls) // 3)][:3]:
        chk.sample({k: e[k] for k in ("op", "case", "dd", "text", "ud") if k in e})
    chk.assumptions += [
        "TLC, SANY, CommunityModules Json/IOUtils/SequencesExt; spec/lib BigNat/BigInt/Certs",
        "D negative fundamental (verified by TLC from n or from the certified factorisation; the two largest test discriminants "
        "of the repository are taken as given), |D| <= 128 bits",
        "the true class number is known independently (reduced-form count by TLC) only for |D| <= 10^7; beyond, the class "
        "number is checked only through f^h = 1 for a few prime forms f (Lagrange), invariants, 2-rank (genus theory), and "
        "coordinates killing the emitted relations",
        "the sieve value u logged by the cfg(yamaquasi_verif) hook in sieve_block_poly is only a witness: a relation it does not "
        "explain is decided by form composition/reduction in TLA+",
        "prime forms of the factor base are assumed to generate the class group when coordinates are interpreted",
    ]
    if not replay and os.environ.get("VERIF_C18_NO_CLS") != "1":
        cls_stages(chk, thorough, None)


# ---------------------------------------------------------------------------------------------------------------------
# growth item: the class-group sieve's concurrent protocol (ClsProto.tla) and the ymcls command line (ClsCli.tla)
# ---------------------------------------------------------------------------------------------------------------------
CLS_HOLD = ["MC_ClsProto_par.cfg", "MC_ClsProto_par2.cfg", "MC_ClsProto_abort.cfg", "MC_ClsProto_seq.cfg", "MC_ClsProto_live.cfg"]
CLS_HOLD_THOROUGH = ["MC_ClsProto_early.cfg", "MC_ClsProto_short.cfg", "MC_ClsProto_abort_live.cfg", "MC_ClsProto_w3.cfg", "MC_ClsProto_par_big.cfg"]
CLS_EXPECT_THOROUGH_ONLY = {"MC_ClsProto_reach_panic.cfg", "MC_ClsCli_reach_libfail.cfg"}
# reachability / non-vacuity / documented hazards: the invariant named is expected to be VIOLATED
CLS_EXPECT = {
    "MC_ClsProto_nolock.cfg": ("NoLostInsert", "model mutation: inserts without the write lock lose relations"),
    "MC_ClsProto_nolock_excl.cfg": ("WriterExclusive", "model mutation: without the lock two threads are inside CRelationSet::add"),
    "MC_ClsProto_checkfirst.cfg": ("BreakAfterInsert", "model mutation: completion tested before the insert drops the relation in hand"),
    "MC_ClsProto_orderdep.cfg": ("CompleteIfSingleComplete",
                                 "model-level hazard: the cycle count of the store depends on the insertion order (an edge between two "
                                 "vertices that join the tree later through other edges is never counted), so with a supply that is only just "
                                 "sufficient in sequential order a pool run can exhaust it and panic 'not enough polynomials'; the parameter "
                                 "tables give a supply far above the need, no real run gets there"),
    "MC_ClsProto_reach_cycle.cfg": ("NeverCycleOverPath", "non-vacuity: some run emits a stored relation over a closed cycle and finishes"),
    "MC_ClsProto_reach_panic.cfg": ("NeverPanics", "non-vacuity: a short supply ends in the panic of the final length test"),
}
CLSCLI_EXPECT = {
    "MC_ClsCli_reach_answer.cfg": ("NeverAnswers", "non-vacuity: some invocation prints a two-factor group"),
    "MC_ClsCli_reach_libfail.cfg": ("NeverLibFails", "non-vacuity: some invocation ends in a refusal of the library"),
    "MC_ClsCli_classnumber_early.cfg": ("ClassnumberOnlyOnSuccess", "documented observation: the file classnumber is written before the "
                                        "group computation can still fail"),
}
CLS_CODES = {1: "c_stage", 3: "c_task", 4: "c_task_skip", 5: "c_pre_poll", 6: "poll", 7: "c_unit_start", 8: "c_unit_end", 9: "c_unit_interrupt",
             10: "c_poly", 11: "c_r_done", 12: "c_block_break", 13: "c_loop_exit", 14: "c_st_done", 15: "cls_rel", 16: "c_w_req", 17: "c_w_acq",
             18: "c_store_add", 19: "c_emit", 20: "c_add", 21: "c_smooth_break", 22: "c_join", 23: "c_ret_none", 24: "c_final_len", 25: "c_result",
             26: "c_linalg", 27: "call", 28: "returned"}


def _cls_models(chk, thorough):
    """all configs of ClsProto / ClsCli, a few JVMs at a time"""
    import concurrent.futures as cf
    hold = [("classgroup/ClsProtoMC.tla", c) for c in CLS_HOLD + (CLS_HOLD_THOROUGH if thorough else [])]
    hold.append(("classgroup/ClsCli.tla", "MC_ClsCli.cfg"))
    expect = {}
    for c, v in CLS_EXPECT.items():
        if thorough or c not in CLS_EXPECT_THOROUGH_ONLY:
            expect[("classgroup/ClsProtoMC.tla", c)] = v
    for c, v in CLSCLI_EXPECT.items():
        expect[("classgroup/ClsCli.tla", c)] = v

    def mc(mcfg):
        return core.model_check(mcfg[0], mcfg[1], workers=1, timeout=1500, expect_error=mcfg in expect)
    jobs = hold + list(expect)
    with cf.ThreadPoolExecutor(max_workers=max(1, core.NCPU // 2)) as ex:
        for mcfg, r in zip(jobs, ex.map(mc, jobs)):
            if mcfg in expect:
                inv, what = expect[mcfg]
                chk.add_mc(r, invariants_expected_to_hold=False)
                if inv not in r["violated"]:
                    raise core.ToolError("model %s: expected TLC to reach a violation of %s" % (mcfg[1], inv))
                chk.notes.append({"model": mcfg[1], "violates_as_expected": inv, "meaning": what})
            else:
                chk.add_mc(r)


def cls_stages(chk, thorough, replay):
    from .c05 import run_sharded
    w = core.workdir("c18", "cls")
    rop = replay["event"].get("op") if replay else None
    # (M) the protocol with the real store model inside, and the command-line layer
    if not replay and os.environ.get("VERIF_C18_ONLY") != "clsv":
        _cls_models(chk, thorough)
    # (V) runs of classgroup() with pools of 1, 2, 3, 4, 8 threads under schedule perturbation
    if rop in (None, "run"):
        extra = ["--only", replay["event"]["case"]] if replay else []
        trace = run_sharded("cls", chk, w, extra)
        evs = core.read_ndjson(trace)
        if replay:
            want = replay["event"]
            evs = [e for e in evs if e["op"] == "input" or (e.get("base") and e.get("bkey") == want.get("bkey")) or e.get("run") == want.get("run")]
            if not any(e.get("run") == want.get("run") for e in evs):
                raise core.ToolError("replay: run %r not produced any more by the driver" % (want.get("run"),))
            core.write_ndjson(trace, evs)
        res = core.validate_trace("classgroup/ClsProtoTrace.tla", "ClsProtoTrace.cfg", trace, group_key="case", timeout=1700,
                                  weight=lambda e: 2000 + len(e.get("evs", [])), tag="cls-proto")
        chk.add_tv(res)
        runs = [e for e in evs if e["op"] == "run"]
        codes, cells, perts, outcomes = {}, {}, {}, {}
        for e in runs:
            for x in e.get("evs", []):
                codes[x[0]] = codes.get(x[0], 0) + 1
            k = "t%d%s" % (e["threads"], "/abort" if e.get("abort_at", -1) >= 0 else "")
            cells[k] = cells.get(k, 0) + 1
            perts[e["pert"]] = perts.get(e["pert"], 0) + 1
            o = e.get("outcome") or e["ret"]
            outcomes[o] = outcomes.get(o, 0) + 1

        def key(e):      # non-trivial: a pool run in which at least two threads inserted relations
            if e["op"] != "run" or e["threads"] < 2:
                return None
            return ("cls-proto", e["run"]) if len({x[1] for x in e.get("evs", []) if x[0] == 17}) >= 2 else None
        chk.count(runs, key)
        chk.cov["cls_proto_inputs"] = sum(1 for e in evs if e["op"] == "input")
        chk.cov["cls_proto_runs_by_threads"] = dict(sorted(cells.items()))
        chk.cov["cls_proto_runs_by_perturbation"] = perts
        chk.cov["cls_proto_outcomes"] = outcomes
        chk.cov["cls_proto_log_entries"] = {CLS_CODES.get(k, str(k)): v for k, v in sorted(codes.items())}
        chk.cov["cls_proto_store_replayed_runs"] = sum(1 for e in runs if e.get("store_replay"))
        chk.cov["cls_proto_gate_runs_released"] = sum(1 for e in runs if e.get("gate_released", 0) > 0)
        chk.cov["cls_proto_h_checked_against_form_count"] = sum(1 for e in evs if e["op"] == "input" and "n" in e)
        npool = [n for n in res["notes"] if n[1] == "pool_run_without_result"]
        if npool:
            chk.notes.append({"observation": "pool runs that ended in a refusal of the library although the run without pool returned a group "
                              "(not judged: C18 speaks about returned results)", "runs": len(npool)})
        if not replay:
            missing = sorted(set(CLS_CODES.values()) - {CLS_CODES.get(k) for k in codes})
            if missing:
                chk.notes.append({"vacuity": "cls-proto log entries never seen", "entries": missing})
        for e in [r for r in runs if r["threads"] >= 2][:2]:
            chk.sample({k: e[k] for k in ("op", "run", "dd", "threads", "pert", "ret", "hd", "invd", "raw_events") if k in e})
    # (V) the real ymcls program
    if rop in (None, "clscli"):
        shapes = os.path.join(w, "clscli_shapes.ndjson")
        nsh, r = core.gen_shapes("classgroup/ClsCliShapes.tla", "ClsCliShapes.cfg", shapes)
        chk.add_mc(r)
        ctrace = os.path.join(w, "clscli_trace.ndjson")
        args = ["cls", "--mode", "cli", "--bin", core.build_cli("release")["ymcls"], "--shapes", shapes, "--seed", chk.seed,
                "--jobs", max(2, core.NCPU // 2), "--scratch", os.path.join(w, "clscli_scratch")]
        if replay:
            args += ["--only", replay["event"]["case"]]
        core.run_driver(args, ctrace, timeout=3000)
        cres = core.validate_trace("classgroup/ClsCliTrace.tla", "ClsCliTrace.cfg", ctrace, timeout=900,
                                   weight=lambda e: 4 + (40 if "n" in e else 0), tag="cls-cli")
        chk.add_tv(cres)
        cevs = core.read_ndjson(ctrace)
        why = {}
        for e in cevs:
            why[e["why"]] = why.get(e["why"], 0) + 1
        chk.count(cevs, lambda e: ("cls-cli", e["case"]) if e["why"] == "answer" and e.get("invd") else None)
        chk.cov["cls_cli_shapes"] = nsh
        chk.cov["cls_cli_outcomes"] = why
        chk.cov["cls_cli_answers_checked_against_library"] = sum(1 for e in cevs if e["why"] == "answer" and "libh" in e)
        chk.cov["cls_cli_answers_checked_against_form_count"] = sum(1 for e in cevs if e["why"] == "answer" and "n" in e)
        left = [n for n in cres["notes"] if n[1] == "failed_run_left_classnumber_file"]
        chk.cov["cls_cli_failed_runs_with_classnumber_file"] = len(left)
        if not replay:
            missing = {"usage", "answer", "number", "size", "residue", "verbosity", "outdir"} - set(why)
            if missing:
                chk.notes.append({"vacuity": "ymcls outcomes never seen", "outcomes": sorted(missing)})
    chk.rule += ("; stage cls-proto: classgroup() on seeded fundamental D of 16..64 bits (both residue classes) without pool and with pools "
                 "of 1, 2, 3, 4, 8 threads under schedule perturbation (random yields/sleeps, writer gate, task gate, late-writer gate), "
                 "double large primes for a share, abort predicate flipping at a poll index; non-trivial = pool run in which >= 2 threads "
                 "inserted relations; stage cls-cli: one invocation of the real ymcls per class of ClsCliShapes.tla, non-trivial = an "
                 "answer with a non-trivial group")
    chk.assumptions += [
        "cls-proto: hook events of src/classgroup.rs / src/relationcls.rs are logged at the accesses they name; c_w_acq, c_store_add, c_emit, "
        "c_add are logged while the write lock is held, c_r_done while the hook's own read lock is held (the log mutex gives their order)",
        "cls-proto: schedules are sampled (perturbation + gates), not enumerated; the exhaustive interleaving claim is the model's "
        "(ClsProto.tla, 2-3 workers, the store of CRelStore.tla inside); relaxed loads in the model may return any value written so far",
        "cls-cli: exit status / stdout / first panic message / files of OUTPUTDIR of the ymcls process as read by the driver; argument "
        "classes are known by construction; D = 0 is not driven (ymcls -0 does not terminate: observation outside the property)",
    ]
