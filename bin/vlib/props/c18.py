"""C18 - a reported class group is the true class group."""
import os
from .. import core

LEVEL = "model_checking"

KNOWN_NORESULT = ("failed to determine lattice index",)


def run(chk, replay=None):
    thorough = chk.tier == "thorough"
    w = core.workdir("c18")
    # (M) the definitions checked on themselves: reduced-form count (Heegner discriminants, the class numbers the
    # repository's test asserts, set vs counting operator), form arithmetic is a group law with the 2-rank of genus
    # theory, and the sign rule read off a sieve value agrees with form arithmetic
    cfgs = ["MC_Heegner.cfg", "MC_KnownH.cfg", "MC_Count.cfg", "MC_Group.cfg", "MC_Witness.cfg"]
    if thorough:
        cfgs += ["MC_GroupBig.cfg", "MC_WitnessBig.cfg"]
    for cfg in ([] if replay else cfgs):     # a replay only re-runs the recorded case
        r = core.model_check("classgroup/ClassGroupMC.tla", cfg, workers=4, timeout=1700)
        chk.add_mc(r)
    # (M) the relation store (spanning tree of large primes) and (G) its histories replayed into the real CRelationSet
    if not replay:
        for cfg in ["MC_CRelStore.cfg"] + (["MC_CRelStoreBig.cfg"] if thorough else []):
            chk.add_mc(core.model_check("classgroup/CRelStore.tla", cfg, workers=4, timeout=1700))
        hists = os.path.join(w, "hists.ndjson")
        nh, r = core.gen_shapes("classgroup/CRelStore.tla", "CRelStoreReplayThorough.cfg" if thorough else "CRelStoreReplay.cfg",
                                hists, head="REPLAY")
        chk.add_mc(r)
        strace = os.path.join(w, "store.ndjson")
        core.run_driver(["c18", "--mode", "store", "--hists", hists], strace)
        sres = core.validate_trace("classgroup/CRelStoreTrace.tla", "CRelStoreTrace.cfg", strace, timeout=1200, tag="CRelStoreTrace")
        chk.add_tv(sres)
        chk.cov["store_histories_replayed"] = nh
        chk.cov["ops_store"] = len(core.read_ndjson(strace))
    # (I) input space: every fundamental |D| < 3000 and (bit size, residue class) shapes
    shapes = os.path.join(w, "shapes.ndjson")
    nshapes, r = core.gen_shapes("classgroup/ClassGroupShapes.tla",
                                 "ClassGroupShapesThorough.cfg" if thorough else "ClassGroupShapes.cfg", shapes)
    chk.add_mc(r)
    # (V) the real code
    trace = os.path.join(w, "trace.ndjson")
    scratch = os.path.join(w, "scratch")
    # a share of the cases also goes through the real ymcls program built from the tree under test
    args = ["c18", "--seed", chk.seed, "--shapes", shapes, "--scratch", scratch, "--ymcls", core.build_cli("release")["ymcls"]]
    if thorough:
        args += ["--reps", 4, "--small-stride", 1, "--maxlines", 250, "--xcheck", 40, "--count-bound", 2 ** 30 - 1, "--npow", 4]
    else:
        args += ["--reps", 2, "--small-stride", 3, "--maxlines", 40, "--xcheck", 60, "--npow", 2]
    if replay:
        args += ["--only", replay["event"]["case"]]
    core.run_driver(args, trace, timeout=3000)
    if replay:
        core.replay_filter(trace, replay, keys=("case", "lineno") if replay["event"].get("op") == "line" else ("case",))

    def weight(e):
        if e["op"] == "result":
            return (30 + (e.get("n", 0) // 20000) + 40 * len(e.get("facs", [])) * (1 + e["bits"] // 40)
                    + len(e.get("pw", [])) * e["bits"] * e["bits"] // 5)
        if e["op"] == "line":
            return (1 + e["bits"] // 16) * (40 if "xc" in e else 1)
        return 1

    res = core.validate_trace("classgroup/ClassGroupTrace.tla", "ClassGroupTrace.cfg", trace, timeout=2400, weight=weight)
    chk.add_tv(res)
    evs = core.read_ndjson(trace)
    # bookkeeping
    ops, why, classes, sizes, threads = {}, {}, {}, {}, {}
    other_panics = []
    nou = noco = nxc = 0
    for e in evs:
        ops[e["op"]] = ops.get(e["op"], 0) + 1
        if e["op"] == "noresult":
            k = "%s: %s" % (e["why"], e.get("msg"))
            why[k] = why.get(k, 0) + 1
            if not (e["why"] == "none" or (e["why"] == "panic" and e.get("msg") in KNOWN_NORESULT)):
                other_panics.append({"case": e["case"], "dd": e["dd"], "why": e["why"], "msg": e.get("msg"), "loc": e.get("loc")})
        elif e["op"] == "result":
            n8 = e["d"][0] % 8 if e["d"] else 0
            cls = {7: "D=1mod8", 3: "D=5mod8"}.get(n8, "D=4D'")
            classes[cls] = classes.get(cls, 0) + 1
            sz = "<=12" if e["bits"] <= 12 else "<=24" if e["bits"] <= 24 else "<=64" if e["bits"] <= 64 else "<=128"
            sizes[sz] = sizes.get(sz, 0) + 1
            threads[str(e["threads"])] = threads.get(str(e["threads"]), 0) + 1
        elif e["op"] == "line":
            nou += "u" not in e
            noco += "co" not in e
            nxc += "xc" in e
    chk.count(evs, lambda e: None if e["op"] == "noresult" or (e["op"] == "result" and e["hd"] == "1")
              else (e["op"], e["dd"], e["threads"], e.get("lineno")))
    chk.rule = ("one run of classgroup::classgroup per case (every fundamental |D| < 3000 enumerated by ClassGroupShapes.tla "
                "[quick: every third one plus all |D| <= 200], seeded fundamental D per (bit size 12..128 x residue class mod 8 / 4D') "
                "shape, the repository's test discriminants; with and without a 4-thread pool); one result event per returned "
                "class group and one line event per (sampled) line of relations.sieve; non-trivial = a returned result with "
                "h > 1 or a relation line; distinct by (op, D, threads, line number); runs without a result (None, internal panic) "
                "are recorded and only their relation file is judged")
    chk.cov["shapes"] = nshapes
    chk.cov["ops"] = ops
    chk.cov["no_result"] = why
    chk.cov["results_by_class"] = classes
    chk.cov["results_by_size_bits"] = sizes
    chk.cov["results_by_threads"] = threads
    chk.cov["results_through_ymcls_program"] = sum(1 for e in evs if e["op"] == "result" and e.get("cli"))
    chk.cov["h_checked_against_form_count"] = sum(1 for e in evs if e["op"] == "result" and "n" in e)
    chk.cov["lagrange_checked_prime_forms"] = sum(len(e.get("pw", [])) for e in evs if e["op"] == "result")
    chk.cov["two_rank_checked"] = sum(1 for e in evs if e["op"] == "result" and "facs" in e)
    chk.cov["lines_without_logged_sieve_value"] = nou
    chk.cov["lines_without_coordinates"] = noco
    chk.cov["lines_of_runs_without_result"] = sum(1 for e in evs if e["op"] == "line" and not e.get("returned", True))
    chk.cov["lines_cross_checked_by_form_arithmetic"] = nxc
    if other_panics:
        chk.notes.append({"unjudged_runs_with_other_outcomes": other_panics[:20]})
    rs = [e for e in evs if e["op"] == "result"]
    for e in rs[:: max(1, len(rs) // 3)][:3]:
        chk.sample({k: e[k] for k in ("op", "case", "dd", "hd", "invd", "nlines")})
    ls = [e for e in evs if e["op"] == "line"]
    for e in ls[:: max(1, len(ls) // 3)][:3]:
        chk.sample({k: e[k] for k in ("op", "case", "dd", "text", "ud") if k in e})
    chk.assumptions += [
        "TLC, SANY, CommunityModules Json/IOUtils/SequencesExt; spec/lib BigNat/BigInt/Certs",
        "D negative fundamental (verified by TLC from n or from the certified factorisation; the two largest test discriminants "
        "of the repository are taken as given), |D| <= 128 bits",
        "the true class number is known independently (reduced-form count by TLC) only for |D| <= 10^7; beyond, the class "
        "number is checked only through f^h = 1 for a few prime forms f (Lagrange), invariants, 2-rank (genus theory), and "
        "coordinates killing the emitted relations",
        "the sieve value u logged by the cfg(yamaquasi_verif) hook in sieve_block_poly is only a witness: a relation it does not "
        "explain is decided by form composition/reduction in TLA+",
        "prime forms of the factor base are assumed to generate the class group when coordinates are interpreted",
    ]
