"""C19 - integer determinants, lattice indices and Smith forms are exact."""
import json
import os
from .. import core

LEVEL = "model_checking"


def run(chk, replay=None):
    thorough = chk.tier == "thorough"
    w = core.workdir("c19")
    # (M) the generator's bookkeeping (det = sign * prod factors, group = (+) Z/diag, redundant rows in the
    # lattice) against the definitions (Leibniz determinant, determinantal divisors) for k <= 3, exhaustively
    for cfg in ["MC_UniMat_2.cfg", "MC_UniMat_3.cfg"] + (["MC_UniMat_2_deep.cfg"] if thorough else []):
        r = core.model_check("unimat/UniMat.tla", cfg, workers=4, timeout=1700)
        chk.add_mc(r)
    # (G) behaviours by simulation of the same model
    num = 1200 if thorough else 300
    r = core.model_check("unimat/UniMat.tla", "Sim_UniMat.cfg", workers=1, timeout=900,
                         extra=["-simulate", "num=%d" % num, "-depth", "80", "-seed", str(chk.seed)])
    behs = [json.loads(t[1]) for t in core.tuples(r["out"], "BEH")]
    if len(behs) < num // 2:
        raise core.ToolError("UniMat simulation produced only %d behaviours" % len(behs))
    r["generated"] = r["distinct"] = sum(b["steps"] + 2 for b in behs)
    chk.add_mc(r)
    beh = os.path.join(w, "beh.ndjson")
    core.write_ndjson(beh, behs)
    # (I) variants built on top of the behaviours, Berlekamp-Massey sequence classes
    shapes = os.path.join(w, "shapes.ndjson")
    nshapes, r = core.gen_shapes("unimat/UniMatShapes.tla", "UniMatShapes_thorough.cfg" if thorough else "UniMatShapes.cfg", shapes)
    chk.add_mc(r)
    # (V) real code
    trace = os.path.join(w, "trace.ndjson")
    core.run_driver(["c19", "--seed", chk.seed, "--tier", chk.tier, "--beh", beh, "--shapes", shapes], trace, timeout=3000)
    if replay:
        core.replay_filter(trace, replay)
    res = core.validate_trace("unimat/UniMatTrace.tla", "UniMatTrace.cfg", trace, timeout=2400,
                              weight=lambda e: 1 + (e.get("k", 0) ** 2) // 40 + (len(e.get("seq", [])) ** 2) // 40)
    chk.add_tv(res)
    evs = core.read_ndjson(trace)

    def key(e):
        if e["op"] in ("selftest",):
            return None
        if e["op"] == "bm":
            return ("bm", e["L"], e["pkind"], e["skind"])
        if e.get("k", 0) <= 1:
            return None
        return (e["op"], e["case"], e.get("bounds"))

    chk.count(evs, key)
    chk.rule = ("matrices = final states of %d random behaviours of UniMat.tla (k in 1..12, diagonal start, unimodular row/column "
                "operations, sign changes, scalings, redundant rows) plus native variants enumerated by UniMatShapes.tla (embedding in "
                "K x K up to %d, sparse/dense operation mixes, rows scaled by 40..58-bit tokens); each goes to every routine whose "
                "documented domain contains it; non-trivial = dimension >= 2 (and every Berlekamp-Massey class); distinct by "
                "(routine, case, bounds shape)" % (len(behs), 300 if thorough else 120))
    cov = {"behaviours": len(behs), "shapes": nshapes, "ops": {}, "refusals": {}, "degenerate_wiedemann": 0, "det_crt_primes": {},
           "dims": {}, "snf_group_checked": 0, "index_bits_max": 0}
    for e in evs:
        op = e["op"]
        cov["ops"][op] = cov["ops"].get(op, 0) + 1
        if e.get("outcome"):
            k = "%s:%s" % (op, e.get("rk"))
            cov["refusals"][k] = cov["refusals"].get(k, 0) + 1
        if op == "det_dense" and "nprimes" in e:
            cov["det_crt_primes"][str(e["nprimes"])] = cov["det_crt_primes"].get(str(e["nprimes"]), 0) + 1
        if "k" in e:
            d = "%s:%d" % (op, 10 * (e["k"] // 10))
            cov["dims"][d] = cov["dims"].get(d, 0) + 1
        if op == "snf" and e.get("grp") and not e.get("outcome"):
            cov["snf_group_checked"] += 1
    cov["degenerate_wiedemann"] = sum(1 for d in chk.drift if d["tag"] in ("det_sparse", "detp4"))
    chk.cov.update(cov)
    for e in evs[1:: max(1, len(evs) // 5)]:
        chk.sample({k: e[k] for k in e if k in ("op", "case", "variant", "k", "bounds", "nprimes", "L", "outcome", "rk")})
    chk.assumptions += [
        "TLC, SANY, CommunityModules; spec/lib BigNat/BigInt (self-tested)",
        "harness encoding of i64/i128/bnum values into base-4096 digits (self-test event at the head of the trace)",
        "native variants (larger K, token scaling) use the bookkeeping rules model checked in UniMat.tla for k <= 3; for K <= 64 "
        "the trace specification re-derives det(M) modulo 32749 and 32719 from the logged matrix (Witness); for K > 64 only the bookkeeping",
        "domains read off the code (DESIGN Appendix B): det_matz |det| >= 2 and log2 estimate exact to 1e-12; compute_lattice_index "
        "and SmithNormalForm get >= max(4, k+1) non-zero generators, |entries| < 2^27, index < 2^120, bounds bracketing the index "
        "with hmax*1.1/(hmin*0.9) < 1.47; SparseMat entries < 2^15, detz only for n >= 8 with |det| decided by the first "
        "floor(n/4)-1 prime groups; Berlekamp-Massey on 2L terms of an order-L recurrence with >= 2 non-zero terms, p prime < 2^62",
        "announced refusals are not judged (Drift): 'failed to determine lattice index', floating-point Gram-Schmidt assertions, "
        "SmithNormalForm::reduce's own `det == h` assertion (incomplete reduction modulo h, the code's HACK/FIXME), Wiedemann "
        "returning 0 when the Krylov minimal polynomial has degree < n (FIXME in _detp4); every other panic is a violation",
    ]
