"""C10 - polynomial products, convolutions and multipoint evaluation match their schoolbook definitions."""
import os
from .. import core

LEVEL = "exploration"


def weight(e):
    la, lb, ln = len(e.get("a", [])), max(1, len(e.get("b", []))), max(1, len(e.get("n", [])))
    if e["op"] == "fint":
        return 1 + (e["N"] ** 2) // 64
    if e["op"] == "conv_big":
        terms = len(e.get("ap", [])) * len(e.get("bp", [])) if e.get("pat") == "sparse" else 3
        return 1 + (len(e.get("ks", [])) * terms * ln * ln) // 100
    return 1 + (la * lb * ln * ln) // 500


def run(chk, replay=None):
    thorough = chk.tier == "thorough"
    w = core.workdir("c10")
    # (M) the packing table of convolve_modn: every row, every modulus size, every transform size
    r = core.model_check("poly/ConvDispatch.tla", "ConvDispatch.cfg", workers=2, timeout=600)
    chk.add_mc(r)
    # (M) the closed forms used for large transforms equal the schoolbook cyclic product
    chk.add_mc(core.model_check("poly/PolyBigMC.tla", "PolyBigMC.cfg", workers=4, timeout=900))
    # (I) input space
    shapes = os.path.join(w, "shapes.ndjson")
    nshapes, r = core.gen_shapes("poly/PolyShapes.tla", "PolyShapes_thorough.cfg" if thorough else "PolyShapes.cfg", shapes)
    chk.add_mc(r)
    # (V) real code; TLC recomputes every definition
    trace = os.path.join(w, "trace.ndjson")
    core.run_driver(["c10", "--seed", chk.seed, "--tier", chk.tier, "--shapes", shapes], trace, timeout=1800)
    if replay:
        core.replay_filter(trace, replay)
    res = core.validate_trace("poly/PolyTrace.tla", "PolyTrace.cfg", trace, timeout=2700, weight=weight)
    chk.add_tv(res)
    evs = core.read_ndjson(trace)

    def key(e):
        if e["op"] == "selftest":
            return None
        if e["op"] == "fint":
            return None if e["shape"]["pa"] == "zero" and e["shape"]["pb"] == "zero" else ("fint", e["N"], e["fop"], str(e["a"])[:80], str(e["b"])[:80], e["s"], e["k"])
        if e.get("shape", {}).get("coef") == "zero":
            return None
        return (e["op"], e.get("alg"), e.get("nd"), e.get("la"), e.get("lb"), e.get("size"), e.get("offset"), e.get("N"), e.get("logpack"))

    chk.count(evs, key)
    chk.rule = ("one or a few calls per shape of PolyShapes.tla (operation x modulus size 2..500 bits x operand length x length relation x "
                "coefficient pattern {0, 1, n-1, random, mixed} x output offset x packing class / CRT width), thinned by a fixed arithmetic "
                "filter and capped by what TLC can recompute, concretised with seeded random filling; non-trivial = not all-zero operands; "
                "distinct by (operation, algorithm, modulus, lengths, size, offset, packing class)")
    cov = {"shapes": nshapes, "ops": {}, "crt_widths": {}, "ss_classes": {}, "fint": {}, "fft_path": 0, "wrap": 0, "max_len": {}, "panics": 0}
    for e in evs:
        k = "%s/%s" % (e["op"], e.get("alg") or e.get("fop"))
        cov["ops"][k] = cov["ops"].get(k, 0) + 1
        if e.get("alg") == "ntt" and "w" in e:
            cov["crt_widths"][str(e["w"])] = cov["crt_widths"].get(str(e["w"]), 0) + 1
        if e.get("alg") == "ss":
            c = "N%d/logpack%d/stride%d" % (e["N"], e["logpack"], e["stride"])
            cov["ss_classes"][c] = cov["ss_classes"].get(c, 0) + 1
        if e["op"] == "fint":
            c = "N%d" % e["N"]
            cov["fint"][c] = cov["fint"].get(c, 0) + 1
        if e.get("fft"):
            cov["fft_path"] += 1
        if e.get("wrap"):
            cov["wrap"] += 1
        if e.get("outcome"):
            cov["panics"] += 1
        if "la" in e:
            b = str(e.get("bits"))
            cov["max_len"][b] = max(cov["max_len"].get(b, 0), e["la"], e["lb"])
    chk.cov.update(cov)
    for e in evs[1:: max(1, len(evs) // 5)]:
        chk.sample({k: e[k] for k in e if k in ("op", "alg", "case", "shape", "bits", "size", "offset", "la", "lb", "N", "fop")})
    chk.assumptions += [
        "TLC, SANY, CommunityModules; spec/lib BigNat (self-tested)",
        "zn.from_int / zn.to_int (Montgomery conversion, property C07) used to hand residues to the code and to read results back",
        "dense random operands within sizes <= 128 (64-bit moduli), <= 64 (128-bit), <= 48 (256-bit), <= 32 (500-bit), doubled in the "
        "thorough tier; transform sizes 2^10..2^14 (2^16 thorough) are covered by operands with a closed-form product (period-2 full-size "
        "values, sparse operands; closed forms proved equal to the definition on small sizes in PolyBigMC.tla) on sampled coefficients",
        "documented preconditions (DESIGN Appendix B): odd moduli of 2..500 bits, residues < n, power-of-two transform sizes >= 2, "
        "operands no longer than the transform, mzp.k >= log2(size), mul_karatsuba on balanced lengths (equal or differing by one), "
        "middlemul p.len = 2 q.len - 1, inverse/quotient with invertible constant term, multi_eval with at least as many points as "
        "coefficients in whole chunks, FFT paths only on rings created with size >= 28",
        "the packing classes of convolve_modn are transcribed from the code into PolyShapes.tla / ConvDispatch.tla (a changed table makes "
        "the enumeration stale, not wrong)",
    ]
