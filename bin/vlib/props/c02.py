"""C02 - automatic mode returns the complete prime factorization (also the sieve / ECM selectors inside their
working range).  Glue shared with C01 / C03: see c01.py."""
from . import c01

LEVEL = "model_checking"


def run(chk, replay=None):
    thorough = chk.tier == "thorough"
    c01.run_common(chk, replay, "C02", ["release", "relcheck"] if thorough else ["release"])
    chk.rule = ("one factor() call per (shape x bit-length class x selector x thread count) enumerated by FactorShapes.tla "
                "(Prop = C02: Auto on every shape up to 128 bits (thorough 160), Qs/Mpqs/Siqs on 40..100 bits (thorough 120), "
                "Ecm with cofactors <= 40 bits, Ecm128 up to 80 bits); inputs are products of primes of the certified pool, "
                "every pool prime's Pocklington chain is verified by TLC (op cert), and the returned list must consist of "
                "those primes; plus every n < 2^16 (Auto) and every p*q < 2^17 without factor below 200 (Auto, Ecm, Ecm128) "
                "judged by trial division inside TLC. non-trivial = input above 16 bits (or small n with >= 2 factors); "
                "distinct by (selector, n, profile)")
    chk.assumptions += [
        "working ranges as in DESIGN 3/C02 (FactorTrace.InScopeC02): Auto always; Qs/Mpqs/Siqs when the part of n surviving "
        "trial division has 40..200 bits; Ecm when every prime factor but the largest has at most 40 bits; Ecm128 up to 80 bits",
        "a panic / timeout is not judged here (no list was returned): it is C03's matter",
        "model side: AutoComplete holds under the explicit assumption Lucky (the last-resort algorithm - ECM128 below 80 bits, "
        "SIQS above - splits every composite that is not a prime power) and an exact pseudoprime(); the README concedes the "
        "former, C06 covers the latter up to 64 bits",
    ]
