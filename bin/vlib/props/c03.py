"""C03 - factoring is total: it answers or fails cleanly, never crashes (release and release+debug/overflow checks).
Glue shared with C01 / C02: see c01.py."""
from . import c01

LEVEL = "model_checking"


def run(chk, replay=None):
    c01.run_common(chk, replay, "C03", ["release", "relcheck"])
    chk.rule = ("one factor() call per (shape x bit-length class x selector x preference) enumerated by FactorShapes.tla "
                "(Prop = C03: the general grid, semiprimes at every bit length 16..64 for the selectors whose crashes live at "
                "small sizes, word-boundary values, the 400/448-bit guards, every bit length 501..512, inputs above 512 bits), "
                "plus every n < 2^12 and every p*q < 2^17 without factor below 200 for all ten selectors; each call runs in a "
                "child process (stack exhaustion / abort become events) under a deadline, in both build profiles; "
                "FactorTrace.tla (Prop = C03) accepts only return(list), return(failure) or, above 512 bits, the size "
                "assertion of the modular ring before any sub-algorithm started. non-trivial = input above 16 bits (or small "
                "n with >= 2 factors); distinct by (selector, n, profile)")
    chk.assumptions += [
        "'refused up front' as in DESIGN 3/C03: above 512 bits (after trial division) a panic located in "
        "src/arith_montgomery.rs (ZmodN::new size assertion) with no sub-algorithm entered before it, or any clean answer",
        "deadline 600 s per call in the quick tier (every driven call normally takes < 10 s, all but ~20 of them < 1 s; a loaded machine must not turn a slow call into a reported hang)",
        "the ymqs binary is run on the 404 invocation classes of CliShapes.tla only (numbers <= 128 bits, near-limit q*P, "
        "oversize and malformed arguments); its declared refusals are panics located in src/bin/ymqs.rs",
    ]
