"""C05 - an abort request stops work promptly and still yields a consistent answer."""
import concurrent.futures as cf
import os
from .. import core

LEVEL = "model_checking"


def run_sharded(driver, chk, w, extra=(), profile="release"):
    """Runs the driver as NCPU processes (the event sink of the library is process-wide: one factor() call at a
    time per process) and concatenates their traces."""
    core.build_harness(profile)
    n = core.NCPU
    outs = [os.path.join(w, "part%02d.ndjson" % i) for i in range(n)]

    def one(i):
        return core.run_driver([driver, "--seed", chk.seed, "--tier", chk.tier, "--shard", i, "--nshards", n] + list(extra), outs[i],
                               profile=profile, timeout=3000, allow_death=True)
    with cf.ThreadPoolExecutor(max_workers=n) as ex:
        rcs = list(ex.map(one, range(n)))
    trace = os.path.join(w, "trace.ndjson")
    import json
    with open(trace, "w") as f:
        for o, rc in zip(outs, rcs):
            # the driver flushes a "begin" marker before every call it makes in-process; a process that was killed
            # (runaway memory, abort) leaves the marker of the call it was in: that call becomes an event with
            # outcome "killed", which the trace specification rejects like a panic or a hang
            pending = None
            for line in open(o):
                line = line.strip()
                if not line:
                    continue
                try:
                    e = json.loads(line)
                except ValueError:
                    continue            # torn last line of a killed process
                if e.get("op") == "begin":
                    pending = e
                    continue
                f.write(json.dumps(e, separators=(",", ":")) + "\n")
            if isinstance(rc, int) and rc != 0:
                if pending is None:
                    raise core.ToolError("driver %s died (%d) outside any call" % (driver, rc))
                e = dict(pending)
                e.update({"op": "abort_run" if driver == "c05" else "run", "evs": [], "ret": "none", "list": [], "polls": 0, "dry_polls": 0,
                          "units": 0, "outcome": "killed", "status": rc, "msg": "driver process died during this call", "loc": ""})
                f.write(json.dumps(e, separators=(",", ":")) + "\n")
    return trace


def sim_stats(r):
    """-simulate prints its own statistics line; fill the state counts from it"""
    import re
    m = re.search(r"The number of states generated: (\d+)", r["out"])
    if m and not r["generated"]:
        r["generated"] = r["distinct"] = int(m.group(1))
    return r


def model_part(chk, thorough):
    """(M) SieveProto with the AbortFlips fault action: AbortBounded."""
    cfgs = ["MC_SieveProto_abort.cfg", "MC_SieveProto_abort_live.cfg", "MC_SieveProto_mpqs.cfg", "MC_SieveProto_seq.cfg"]
    with cf.ThreadPoolExecutor(max_workers=2) as ex:
        for r in ex.map(lambda c: core.model_check("sieveproto/SieveProto.tla", c, workers=2, timeout=1500), cfgs):
            chk.add_mc(r)
    if thorough:
        r = core.model_check("sieveproto/SieveProto.tla", "MC_SieveProto_w3.cfg", workers=4, timeout=1500,
                             extra=["-simulate", "num=5000", "-depth", "400"])
        chk.add_mc(sim_stats(r))
    chk.notes.append({"model": "SieveProto with the AbortFlips fault action (2 workers x 2 tasks x 2 polynomials; MPQS flavour; sequential loop; "
                      "thorough: 3 workers by simulation): AbortBounded = a worker whose poll returned true starts no unit, no worker starts "
                      "more than one unit after the flip, an abort seen by any worker is seen by main's final check so the partial relation "
                      "set never reaches final_step; Termination under weak fairness"})


def run(chk, replay=None):
    thorough = chk.tier == "thorough"
    w = core.workdir("c05")
    if not replay:
        model_part(chk, thorough)
    extra = []
    if replay:
        extra = ["--only", replay["event"]["case"]]
    trace = run_sharded("c05", chk, w, extra)
    if replay:
        core.replay_filter(trace, replay)
    res = core.validate_trace("sieveproto/AbortTrace.tla", "AbortTrace.cfg", trace, timeout=1700,
                              weight=lambda e: 5 + len(e["evs"]))
    chk.add_tv(res)
    evs = core.read_ndjson(trace)
    # non-trivial: the predicate flipped while abortable work remained (some poll returned true)
    chk.count(evs, lambda e: (e["case"],) if any(x[0] == 6 and x[3] == 1 for x in e["evs"]) else None)
    chk.rule = ("one call per (input of 64-110 bits [thorough: -160] from certified primes x selector Auto/Siqs/Mpqs/Qs/Ecm x threads none/4 x "
                "flip index k); k over all of 0..N when the dry run polls N <= 64 times, else 0,1,2, stage boundaries +-1, 32 evenly "
                "spaced, N-1, N; non-trivial = some poll returned true; distinct by (input, selector, threads, k)")
    groups = {}
    for e in evs:
        g = groups.setdefault(e["alg"] + "/t%d" % e["threads"], {"runs": 0, "aborted": 0, "max_polls": 0, "failure": 0, "list": 0,
                                                                  "max_wall_ms_after_flip": 0.0})
        g["runs"] += 1
        ab = any(x[0] == 6 and x[3] == 1 for x in e["evs"])
        g["aborted"] += ab
        g["max_polls"] = max(g["max_polls"], e["polls"])
        g[e["ret"]] = g.get(e["ret"], 0) + 1
        if ab:
            g["max_wall_ms_after_flip"] = max(g["max_wall_ms_after_flip"], e["wall_ms"])
    chk.cov["by_selector_threads"] = groups
    codes = {}
    for e in evs:
        for x in e["evs"]:
            codes[x[0]] = codes.get(x[0], 0) + 1
    names = {1: "stage", 6: "poll", 7: "unit_start", 26: "call", 27: "returned"}
    chk.cov["log_entries"] = {names.get(k, str(k)): v for k, v in sorted(codes.items())}
    chk.cov["flip_sites"] = {}
    for e in evs:
        for x in e["evs"]:
            if x[0] == 6 and x[3] == 1:
                s = {0: "lib.rs"}.get(x[4], "%s/%s" % ({1: "siqs", 2: "mpqs", 3: "qs", 4: "ecm"}.get(x[4] // 10), {1: "par", 2: "seq", 3: "final"}.get(x[4] % 10)))
                chk.cov["flip_sites"][s] = chk.cov["flip_sites"].get(s, 0) + 1
                break
    late = [n for n in res["notes"] if n[1] == "ecm_levels_entered_after_abort"]
    if late:
        chk.notes.append({"observation": "after an abort ecm_only/ecm_auto still enter later ecm() levels (prime tables are built, every curve "
                          "is skipped by its poll): no abortable unit starts, so StrictC05 holds; wall-clock cost is in "
                          "by_selector_threads[Ecm/*].max_wall_ms_after_flip", "runs": len(late), "max_levels": max(n[2] for n in late)})
    for e in evs[:: max(1, len(evs) // 5)]:
        chk.sample({k: e[k] for k in ("case", "alg", "threads", "k", "dry_polls", "polls", "units", "ret", "n_dec")})
    chk.assumptions += ["TLC, SANY, CommunityModules", "spec/lib/BigNat", "hooks: unit_start/stage events sit where the units of work begin "
                        "(src/siqs.rs, mpqs.rs, qsieve.rs, ecm.rs)", "the abort predicate is monotone (flip at a poll index); wall-clock latency is "
                        "recorded, never judged", "inputs <= 110 bits (quick) / 160 bits (thorough); classgroup sieve not driven"]
