"""C15 - elliptic-curve arithmetic implements the group law; chain multiplications equal double-and-add."""
import json
import os
from .. import core

LEVEL = "model_checking"

SCALAR_OPS = ("chainmul64", "dbladd64", "mul128", "chainmul1024")


def _weight(e):
    """relative cost of an event for TLC (balances the shards)"""
    w = {1: 1, 2: 1.3, 3: 3, 4: 5, 5: 7, 6: 9, 7: 12, 8: 14}.get(e.get("words", 1), 1)
    if e["op"] in SCALAR_OPS:
        bits = max(1, int(e.get("kd", "1")).bit_length())
        return max(1, w * 6 * bits / 64.0)
    if e["op"] in ("chain64", "chain1024"):
        return 0.1
    return w


def run(chk, replay=None):
    thorough = chk.tier == "thorough"
    w = core.workdir("c15")
    dev_fast = bool(os.environ.get("VERIF_DEV_NOMODELS"))  # builder's shortcut for mutation runs: (V) part only
    # ---------------- (M) addition-chain builders, width-aware
    longest = []
    for cfg in (["AddChain_16.cfg"] if dev_fast else ["AddChain_8.cfg", "AddChain_12.cfg", "AddChain_16.cfg"]):
        r = core.model_check("edwards/AddChain.tla", cfg, workers=4, timeout=900)
        chk.add_mc(r)
        if cfg == "AddChain_16.cfg":
            longest = sorted(t[1] for t in core.tuples(r["out"], "LONG"))
    if not longest:
        raise core.ToolError("AddChain_16 printed no longest-chain scalars")
    # documented hazards: the pre-fix halving (kk + rop)/2 leaves the word; the length bound claimed by the
    # code's comment (W/2) is exceeded.  Both are expected violations of the OLD design, recorded as notes.
    for cfg, inv, what in (("AddChain_old_12.cfg", "NoOverflow", "old halving (kk + rop) / 2 overflows the word (odd k >= 2^W - 7)"),
                           ("AddChain_claim_12.cfg", "LenBoundClaimed", "chain length W/2 + 1 is reachable (buffer of W/2 opcodes overruns)")):
        r = core.model_check("edwards/AddChain.tla", cfg, workers=1, timeout=300, expect_error=True)
        chk.add_mc(r, invariants_expected_to_hold=False)
        if inv not in r["violated"]:
            raise core.ToolError("model %s no longer exhibits the documented hazard %s" % (cfg, inv))
        chk.notes.append({"model": cfg, "hazard": what, "tlc_counterexample_found": True})
    for cfg in ([] if dev_fast else ["AddChainLong_6_2.cfg", "AddChainLong_5_3.cfg"] + (["AddChainLong_8_2.cfg", "AddChainLong_6_3.cfg"] if thorough else [])):
        chk.add_mc(core.model_check("edwards/AddChainLong.tla", cfg, workers=4, timeout=1500))
    # ---------------- (M) formula sets against the definition on a toy ring, all curve points
    for cfg in ([] if dev_fast else ["Edwards_35.cfg"] + (["Edwards_77.cfg", "Edwards_221.cfg"] if thorough else [])):
        chk.add_mc(core.model_check("edwards/Edwards.tla", cfg, workers=4, timeout=1700))
    # ---- BEGIN inductive block (growth item "ind": unbounded results, thorough tier only) ----
    if thorough and not replay and not dev_fast:
        _inductive(chk)
    # ---- END inductive block ----
    # ---------------- (I) input space, (G) longest-chain scalars from the model
    shapes_p = os.path.join(w, "shapes.ndjson")
    nshapes, r = core.gen_shapes("edwards/C15Shapes.tla", "C15Shapes.cfg", shapes_p)
    chk.add_mc(r)
    pick = sorted(set(longest[:: max(1, len(longest) // (24 if thorough else 8))] + [longest[0], longest[-1], 0xF777]))
    long_p = os.path.join(w, "long.ndjson")
    core.write_ndjson(long_p, [{"k": k} for k in pick])
    # ---------------- (V) real code
    trace = os.path.join(w, "trace.ndjson")
    core.run_driver(["c15", "--seed", chk.seed, "--tier", chk.tier, "--long", long_p], trace)
    if replay:
        core.replay_filter(trace, replay)
    res = core.validate_trace("edwards/EdwardsTrace.tla", "EdwardsTrace.cfg", trace, timeout=3000, weight=_weight)
    chk.add_tv(res)
    evs = core.read_ndjson(trace)
    # every enumerated shape must have been exercised (vacuity guard; a missing shape is a tool problem)
    if not replay:
        seen = {(e["op"], e.get("words"), e.get("tw")) for e in evs if "outcome" not in e}
        missing = [s for s in core.read_ndjson(shapes_p) if (s["op"], s["words"], s["tw"]) not in seen]
        if missing:
            raise core.ToolError("C15 shapes not exercised: %s" % json.dumps(missing[:5]))
    chk.cov["shapes"] = nshapes
    chk.cov["longest_chain_scalars_from_model"] = len(pick)

    def key(e):
        if e["op"] in ("chain64", "chain1024") + SCALAR_OPS:
            k = int(e["kd"])
            return None if k < 8 else (e["op"], e.get("curve"), e["kd"])
        if e["op"] == "curve":
            return (e["op"], e["case"])
        return (e["op"], e.get("curve"), e.get("i"), e.get("j"))

    chk.count(evs, key)
    chk.rule = ("operations x modulus size x curve family enumerated by C15Shapes.tla (every shape must occur); moduli: fixed primes and "
                "seeded products of two primes of 1, 2, 4, 8 words (thorough: 1..8); curves: (3k+5,4k+5) family and Suyama-11 seeds; points [j]G "
                "computed by the harness; scalars: 0..300, powers of two, 2^j-1, the 32 values below 2^64, around 2^32/2^48/2^63, SmoothBase "
                "blocks, random, and the longest-chain scalars printed by the AddChain model scaled to 64 bits; non-trivial = scalar >= 8 or a "
                "formula event; distinct by (op, curve, points or scalar)")
    chk.cov["ops"] = {}
    for e in evs:
        chk.cov["ops"][e["op"]] = chk.cov["ops"].get(e["op"], 0) + 1
    chk.cov["panics"] = sum(1 for e in evs if "outcome" in e)
    for e in evs[:: max(1, len(evs) // 5)]:
        chk.sample({k: e[k] for k in e if k in ("op", "case", "cls", "words", "tw", "kd")})
    chk.assumptions += ["TLC, SANY, CommunityModules", "spec/lib/BigNat (self-tested)", "harness encoding of residues into base-4096 digits",
                        "zn.to_int removes the Montgomery factor (C07)",
                        "moduli odd, coprime to 6, <= 500 bits; composite moduli are products of two large primes so that the documented "
                        "exceptional cases of the non-unified extended additions (probability ~ 1/smallest prime factor) are not met inside "
                        "the chain multiplications",
                        "the extended additions are judged outside their documented exceptional set (affine denominators of the dedicated "
                        "formulas vanish, e.g. P = Q)"]


# ---- BEGIN inductive block (growth item "ind") ----
def _inductive(chk):
    """make_addition_chain beyond the TLC word sizes: Value(chain so far, kk) = k and 1 <= kk < M with the overflow
    flag never raised for EVERY word modulus M (TLAPS, AddChainProofs.tla); chain length <= W/2 + 1 (2 len <= W + 3)
    for every W in 4..64, i.e. including the 64-bit word of the code (Apalache, unbounded integers, AddChainIndApa.tla);
    TLC link of the restatement AddChainInd.tla to AddChain.tla; counterexamples / failed proofs for the broken variants.
    Anything unexpected here is a tool error (exit 2), never a violation."""
    if not core.ind_enabled():
        chk.notes.append("inductive block skipped (VERIF_NO_IND=1)")
        return
    ind = {"claim": "AddChainInd: mul * kk + add = k, 1 <= kk < M, no overflow of kk/2 + rop/2 + 1 inductive for every word "
                    "modulus M >= 1 (TLAPS); LenInv => 2 len <= W + 3 (len <= W/2 + 1 for even W) inductive for every W in "
                    "4..64 with M = 2^W (Apalache); the steps of AddChain.tla are steps of AddChainInd and its ghosts mean "
                    "Apply(chain, ., v) = mul v + add (TLC, W = 9 and 12)",
           "runs": []}
    for cfg in ("MC_AddChainInd_9.cfg", "MC_AddChainInd_12.cfg"):
        chk.add_mc(core.model_check("edwards/MC_AddChainInd.tla", cfg, workers=4, timeout=900))
    ind["runs"].append(core.ind_expect(core.tlapm("edwards/AddChainProofs.tla", timeout=900), "ok", "AddChainProofs"))
    ind["runs"].append(core.ind_expect(core.tlapm("edwards/AddChainProofsBad.tla", timeout=900, retries=0), "failed", "AddChainProofsBad"))
    A = "edwards/AddChainIndApa.tla"
    for kw, want in ((dict(cinit="CInitAny", init="Init", inv="IndInv", length=0), "ok"),            # base, W in 4..64
                     (dict(cinit="CInitAny", init="IndInit", inv="IndInv", length=1), "ok"),         # step, W in 4..64
                     (dict(cinit="CInit64", init="IndInit", inv="IndInv", length=1), "ok"),          # step, the code's word
                     # the code before the fix: (kk + rop) / 2 in the word raises the overflow flag
                     (dict(cinit="CInit64", init="IndInit", next="NextSum", inv="IndInv", length=1), "counterexample"),
                     # the length the code's comment claimed (W/2) is exceeded: reachable counterexample for W = 4
                     (dict(cinit="CInit4", init="Init", inv="LenBoundClaimed", length=8), "counterexample")):
        ind["runs"].append(core.ind_expect(core.apalache(A, timeout=900, **kw), want, "AddChainIndApa %s" % kw))
    chk.cov["inductive"] = ind
    chk.notes.append("inductive: chain value / no overflow proved for every word modulus (tlapm, %d obligations, %.0fs); "
                     "length bound inductive for W = 4..64 (apalache)" % (ind["runs"][0]["obligations"], ind["runs"][0]["wall_s"]))
    chk.assumptions.append("tlapm (Z3, Zenon, Isabelle, PTL back ends) and apalache-mc/Z3 for the unbounded addition-chain "
                           "invariants; AddChainInd.tla restates AddChain.tla (linked by TLC: MC_AddChainInd.tla)")
# ---- END inductive block ----
