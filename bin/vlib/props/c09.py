"""C09 - multiprecision gcd, extended gcd and modular inverse are exact, with valid Bezout cofactors.

(M) Gcd.tla scaled loop model; (V) GcdTrace.tla on API results (Strict); (V') GcdStepTrace.tla: one event per iteration
of the real gcd_internal loop (hooks in arith_gcd.rs) replayed against the loop model at the real word size (Drift only;
VERIF_C09_STEPS=0 switches it off)."""
import os
from .. import core

LEVEL = "model_checking"
STEPS = os.environ.get("VERIF_C09_STEPS", "1") != "0"   # per-iteration binding of the loop model (GcdStepTrace.tla)

REACH = {  # reachability questions of the scaled model <-> what the real loop does (counted from the step trace)
    "FastUnreachable": lambda e: e["op"] == "fast",
    "SlowPlusUnreachable": lambda e: e["op"] == "slow" and e["plus"],
    "NegSignUnreachable": lambda e: e["op"] == "fast" and "A" in e and (e["A"]["neg"] or e["B"]["neg"]) and (e["C"]["neg"] or e["D"]["neg"]),
    "SlowWideUnreachable": lambda e: e["op"] == "slow" and e["why"] & 1 != 0,
    "SlowTopSmallUnreachable": lambda e: e["op"] == "slow" and e["why"] == 4,
    "BothZeroUnreachable": lambda e: e["op"] == "exit" and e["how"] == "ret_y",
}


def step_binding(chk, w, steps, api_rejects):
    """(V') one event per iteration of the real loop, replayed against the loop model at the real word size.
    Everything here is Drift; the negative controls show that the trace specification is not vacuous."""
    sevs = core.read_ndjson(steps)
    # (at most ~20 000 events per JVM: the thorough trace is a few hundred thousand events of 1000-bit numbers)
    r = core.validate_trace("gcd/GcdStepTrace.tla", "GcdStepTrace.cfg", steps, group_key="case", timeout=1700,
                            shards=max(core.NCPU, (len(sevs) + 19999) // 20000),
                            weight=lambda e: 3 if "A" in e else 1, tag="steps")
    chk.add_tv(r)
    kinds = {}

    def bump(k):
        kinds[k] = kinds.get(k, 0) + 1

    why = {}
    for e in sevs:
        op = e["op"]
        if op == "slow":
            bump("slow_plus" if e["plus"] else "slow")
            why[str(e["why"])] = why.get(str(e["why"]), 0) + 1
        elif op == "exit":
            bump(e["how"])
        elif op == "enter":
            bump("enter")
            bump("enter_N%d_%s" % (e["N"], "ext" if e["ext"] else "plain"))
        else:
            bump(op)
    chk.cov["step_events"] = kinds
    chk.cov["step_slow_reasons"] = {"mask_counts": why, "legend": "1: x within 36 bits of the type width, 2: y within 36 bits, "
                                    "4: top word of y below 2^32"}
    rels = {}
    for e in sevs:
        if e["op"] == "enter":
            rels[e["shape"]["rel"]] = rels.get(e["shape"]["rel"], 0) + 1
    chk.cov["step_calls_by_relation"] = rels
    need = ["enter", "swap", "slow", "slow_plus", "fast", "fin64", "ret_x", "ret_y", "result",
            "enter_N8_ext", "enter_N8_plain", "enter_N16_ext", "enter_N16_plain"]
    missing = [k for k in need if not kinds.get(k)]
    missing += ["slow_reason_%s" % k for k in ("1", "4") if not any(int(m) & int(k) for m in why)]
    # (a loop that no longer follows the model may also stop taking some branch: that is reported as drift, and
    #  a run cut short by hung calls reports those first)
    clean = not r["rejects"] and not api_rejects
    if missing and clean:
        raise core.ToolError("step trace is vacuous for %s" % missing)
    if missing:
        chk.notes.append({"step_kinds_not_seen": missing})
    # scaled model checking <-> real code, per reachability question
    for q, f in REACH.items():
        cnt = sum(1 for e in sevs if f(e))
        mcr = {n["model"]: n["branch_reachable"] for n in chk.notes if isinstance(n, dict) and "model" in n and n.get("question") == q}
        chk.notes.append({"question": q, "scaled_model_reachable": mcr, "real_code_events": cnt,
                          "agree": {m: v == (cnt > 0) for m, v in mcr.items()}})
    # negative controls: recorded groups with one field corrupted / one event dropped must be rejected
    # (they start from accepted runs: meaningless when the recorded runs themselves drift from the model)
    if not clean:
        chk.notes.append({"step_negative_controls": "skipped: the recorded step trace is not accepted as it is"})
        return
    groups, cur = [], None
    for e in sevs:
        if e["op"] == "enter":
            cur = []
            groups.append(cur)
        if cur is not None:
            cur.append(e)

    def pick(pred):
        for g in groups:
            if g[0]["ext"] and g[0]["N"] == 8 and pred(g):
                return g
        raise core.ToolError("negative control: no suitable recorded run")

    def has(g, op, **kw):
        return [j for j, e in enumerate(g) if e["op"] == op and all(e.get(k) == v for k, v in kw.items())]

    import copy

    def variant(name, g, fn):
        g2 = copy.deepcopy(g)
        g2 = fn(g2) or g2
        for e in g2:
            e["case"] = "neg:%s" % name
            e.pop("i", None)
        return g2

    def bumpnat(d):
        return [(d[0] + 1) % 4096] + d[1:] if d else [1]

    def fastnz(g):  # fast events whose cofactor A is non-zero (so that flipping its sign is a change)
        return [j for j in has(g, "fast") if g[j]["A"]["mag"]]

    gf = pick(lambda g: len(has(g, "fast")) >= 2 and has(g, "swap") and fastnz(g))
    gs = pick(lambda g: has(g, "slow"))
    j_f = fastnz(gf)[0]
    j_s = has(gs, "slow")[0]

    def drop(j):
        return lambda g: g[:j] + g[j + 1:]

    def setf(j, k, f):
        def go(g):
            g[j][k] = f(g[j][k])
        return go

    controls = [
        ("unchanged", gf, lambda g: None, False),
        ("drop-fast-event", gf, drop(j_f), True),
        ("drop-swap-event", gf, drop(has(gf, "swap")[0]), True),
        ("drop-enter-event", gf, drop(0), True),
        ("drop-exit-event", gf, drop(has(gf, "exit")[0]), True),
        ("x-corrupted", gf, setf(j_f, "x", bumpnat), True),
        ("matrix-entry-corrupted", gf, setf(j_f, "a", lambda v: {"neg": v["neg"], "mag": bumpnat(v["mag"])}), True),
        ("cofactor-sign-flipped", gf, setf(j_f, "A", lambda v: {"neg": not v["neg"] and v["mag"] != [], "mag": v["mag"]}), True),
        ("negx-flipped", gf, setf(j_f, "negx", lambda v: not v), True),
        ("slow-plus-flipped", gs, setf(j_s, "plus", lambda v: not v), True),
        ("slow-quotient-corrupted", gs, setf(j_s, "q", bumpnat), True),
        ("result-corrupted", gf, setf(len(gf) - 1, "g", bumpnat), True),
        ("exit-value-corrupted", gf, setf(has(gf, "exit")[0], "g", bumpnat), True),
        ("x-grown", gf, setf(j_f, "x", lambda d: d + [0] * 6 + [1]), True),          # progress
        ("matrix-entry-too-large", gf, setf(j_f, "a", lambda v: {"neg": v["neg"], "mag": [0, 0, 0, 16]}), True),   # 2^40
    ]
    neg = os.path.join(w, "steps_neg.ndjson")
    core.write_ndjson(neg, [e for name, g, fn, _ in controls for e in variant(name, g, fn)])
    rn = core.validate_trace("gcd/GcdStepTrace.tla", "GcdStepTrace.cfg", neg, group_key="case", timeout=600, shards=1,
                             tag="steps-neg")
    seen = {}
    for x in rn["rejects"]:
        if x["kind"] != "drift":
            raise core.ToolError("negative control produced a %s reject" % x["kind"])
        seen.setdefault(x["event"]["case"][4:], []).append(x["tag"])
    for name, _, _, must in controls:
        if must != bool(seen.get(name)):
            raise core.ToolError("negative control %s: %s" % (name, "not rejected" if must else "rejected %s" % seen[name]))
    chk.cov["step_negative_controls"] = {k: sorted(set(v)) for k, v in seen.items()}
    chk.tv.append({"events": rn["events"], "states": rn["states"], "spec": rn["spec"] + " (negative controls)",
                   "wall_s": rn["wall_s"], "rejects": len(rn["rejects"])})
    chk.assumptions.append("step trace: hooks of arith_gcd.rs (cfg yamaquasi_verif) report the loop state faithfully; "
                           "their judgement is Drift only")


def run(chk, replay=None):
    thorough = chk.tier == "thorough"
    w = core.workdir("c09")
    # (M) scaled model of the gcd_internal loop: invariants, no overflow, termination
    for cfg in (["MC_Gcd_10.cfg"] if thorough else ["MC_Gcd_8.cfg"]):
        chk.add_mc(core.model_check("gcd/Gcd.tla", cfg, workers=4, timeout=1700))
    # every continuation of the loop is reachable in the model (expected: all three "unreachable" claims violated)
    # (SlowWide needs operands within G bits of the scaled type width: not reachable below 2^6, reachable below 2^8)
    for inv, cfg in [(i, "MC_Gcd_reach_%s.cfg" % i) for i in
                     ("FastUnreachable", "SlowPlusUnreachable", "NegSignUnreachable", "SlowWideUnreachable",
                      "SlowTopSmallUnreachable", "BothZeroUnreachable")] + [("SlowWideUnreachable", "MC_Gcd_reach8_SlowWideUnreachable.cfg")]:
        r = core.model_check("gcd/Gcd.tla", cfg, workers=2, timeout=600, expect_error=True)
        chk.add_mc(r, invariants_expected_to_hold=False)
        chk.notes.append({"model": r["cfg"], "question": inv, "branch_reachable": inv in r["violated"]})
    # ---- BEGIN inductive block (growth item "ind": unbounded results, thorough tier only) ----
    if thorough and not replay:
        _inductive(chk)
    # ---- END inductive block ----
    # (I) input space
    shapes = os.path.join(w, "shapes.ndjson")
    nshapes, r = core.gen_shapes("gcd/GcdShapes.tla", "GcdShapes_%s.cfg" % ("thorough" if thorough else "quick"), shapes)
    chk.add_mc(r)
    # (V) real code; the thorough tier repeats the run on a build with debug assertions and overflow checks
    trace = os.path.join(w, "trace.ndjson")
    steps = os.path.join(w, "steps.ndjson")

    def weight(e):
        bits = 12 * max(len(e.get("a", e.get("n", []))), len(e.get("b", e.get("p", []))), 1)
        return 1 + (bits // 64) ** 2

    res = None
    for profile in (["release", "relcheck"] if thorough else ["release"]):
        tr = trace if profile == "release" else os.path.join(w, "trace_relcheck.ndjson")
        args = ["c09", "--seed", chk.seed, "--reps", 1, "--shapes", shapes]
        if STEPS and profile == "release" and not replay:
            # per-iteration hooks of gcd_internal: every 8th shape of each (instantiation, relation) class in quick,
            # every shape in thorough (full lattice invariant at every step for all / one in four of them)
            args += ["--steps-every", 2 if thorough else 8, "--lat-every", 4 if thorough else 1, "--steps-out", steps]
        core.run_driver(args, tr, timeout=1700, profile=profile)
        if replay:
            core.replay_filter(tr, replay)
        r = core.validate_trace("gcd/GcdTrace.tla", "GcdTrace.cfg", tr, timeout=1700, weight=weight, tag="GcdTrace-" + profile)
        chk.add_tv(r)
        if res is None:
            res = r
        else:
            res["rejects"] = res["rejects"] + r["rejects"]
    if STEPS and not replay:
        step_binding(chk, w, steps, bool(res["rejects"]))
    evs = core.read_ndjson(trace)
    trivial = ("azero", "bzero", "bothzero")
    chk.count(evs, lambda e: None if e["shape"]["rel"] in trivial else (e["op"], e["case"]))
    chk.rule = ("[API] one gcd event (gcd_internal extended + big_gcd) and up to two inv_mod events (both argument orders) per "
                "(instantiation x width pair x relation) enumerated by GcdShapes.tla, plus ZmodN::inv/gcd on a quarter of "
                "the 512-bit shapes; seeded random filling; non-trivial = both operands non-zero; distinct by (op, case). "
                "[steps] for every 8th shape (quick) / every shape (thorough) of each (instantiation, relation) class, both "
                "gcd_internal<N,true> and <N,false> are run once more with the per-iteration hooks on: one group of events per call")
    chk.cov["shapes"] = nshapes
    ops, rels = {}, {}
    for e in evs:
        ops[e["op"]] = ops.get(e["op"], 0) + 1
        rels[e["shape"]["rel"]] = rels.get(e["shape"]["rel"], 0) + 1
    chk.cov["ops"] = ops
    chk.cov["relations"] = rels
    chk.cov["inv_mod_err"] = sum(1 for e in evs if e["op"] == "inv_mod" and e.get("ok") is False)
    chk.cov["inv_mod_ok"] = sum(1 for e in evs if e["op"] == "inv_mod" and e.get("ok") is True)
    for o in ("gcd", "inv_mod", "zn_inv", "zn_gcd"):
        if o not in ops and not replay and not res["rejects"]:  # (a run cut short by hung calls reports those first)
            raise core.ToolError("no %s event" % o)
    for e in evs[:: max(1, len(evs) // 5)]:
        chk.sample({k: e[k] for k in e if k in ("op", "case", "shape", "N")})
    chk.assumptions += ["TLC, SANY, CommunityModules Json/IOUtils/SequencesExt", "spec/lib/BigNat, BigInt",
                        "harness encoding of words into base-4096 digits (bnum only as witness producer: the Bezout witness "
                        "is verified by the spec)",
                        "operands <= 64N - 12 bits (500 / 1012), modulus of inv_mod > 1, ZmodN modulus odd <= 500 bits"]


# ---- BEGIN inductive block (growth item "ind") ----
def _inductive(chk):
    """Cofactor invariant x = A n + B p, y = C n + D p, unimodularity (also of the reduce64 matrix) and the Bezout
    identity of the result for UNBOUNDED integers: TLAPS proof (GcdProofs.tla) of the restated loop GcdInd.tla, TLC
    link of the restatement to Gcd.tla, Apalache counterexamples / failed proofs for the broken variants.
    Anything unexpected here is a tool error (exit 2), never a violation."""
    if not core.ind_enabled():
        chk.notes.append("inductive block skipped (VERIF_NO_IND=1)")
        return
    ind = {"claim": "GcdInd!IndInv (Lattice, Unimodular, RedUnimod, BezoutOK) is inductive over the unbounded integers for "
                    "every step with any quotient, including dot_product's sign bookkeeping (TLAPS); every step of the scaled "
                    "model Gcd.tla (WB=4, NW=3, all pairs below 2^8) is a step of GcdInd and the recursion of Red is a path "
                    "of GcdInd's reduce64 steps (TLC)",
           "runs": []}
    chk.add_mc(core.model_check("gcd/MC_GcdInd.tla", "MC_GcdInd_8.cfg", workers=4, timeout=1700))
    ind["runs"].append(core.ind_expect(core.tlapm("gcd/GcdProofs.tla", timeout=900), "ok", "GcdProofs"))
    bad = core.ind_expect(core.tlapm("gcd/GcdProofsBad.tla", timeout=900, retries=0), "failed", "GcdProofsBad")
    if bad["failed"] < 2:
        raise core.ToolError("GcdProofsBad: %d failed obligations, expected both false claims to fail" % bad["failed"])
    ind["runs"].append(bad)
    # Apalache finds concrete counterexamples to induction for the broken variants (wrong sign of the rounded step's
    # cofactors; dot_product flag without the b < 0 case).  The positive direction is left to TLAPS: the non-linear
    # queries do not terminate in Z3.
    for nxt in ("NextBadSlow", "NextBadDot"):
        ind["runs"].append(core.ind_expect(core.apalache("gcd/GcdInd.tla", "IndInv", init="IndInit", next=nxt, length=1,
                                                         timeout=900), "counterexample", "GcdInd " + nxt))
    chk.cov["inductive"] = ind
    chk.notes.append("inductive: cofactor invariant and unimodularity proved for unbounded integers (tlapm, %d obligations, %.0fs)" %
                     (ind["runs"][0]["obligations"], ind["runs"][0]["wall_s"]))
    chk.assumptions.append("tlapm (Z3, Zenon, Isabelle, PTL back ends) and apalache-mc/Z3 for the unbounded cofactor invariant; "
                           "GcdInd.tla restates Gcd.tla without its size-dependent guards (linked by TLC: MC_GcdInd.tla)")
# ---- END inductive block ----
