"""C09 - multiprecision gcd, extended gcd and modular inverse are exact, with valid Bezout cofactors."""
import os
from .. import core

LEVEL = "model_checking"


def run(chk, replay=None):
    thorough = chk.tier == "thorough"
    w = core.workdir("c09")
    # (M) scaled model of the gcd_internal loop: invariants, no overflow, termination
    for cfg in (["MC_Gcd_10.cfg"] if thorough else ["MC_Gcd_8.cfg"]):
        chk.add_mc(core.model_check("gcd/Gcd.tla", cfg, workers=4, timeout=1700))
    # every continuation of the loop is reachable in the model (expected: all three "unreachable" claims violated)
    for inv in ("FastUnreachable", "SlowPlusUnreachable", "NegSignUnreachable"):
        r = core.model_check("gcd/Gcd.tla", "MC_Gcd_reach_%s.cfg" % inv, workers=2, timeout=600, expect_error=True)
        chk.add_mc(r, invariants_expected_to_hold=False)
        chk.notes.append({"model": r["cfg"], "branch_reachable": inv in r["violated"]})
    # (I) input space
    shapes = os.path.join(w, "shapes.ndjson")
    nshapes, r = core.gen_shapes("gcd/GcdShapes.tla", "GcdShapes_%s.cfg" % ("thorough" if thorough else "quick"), shapes)
    chk.add_mc(r)
    # (V) real code; the thorough tier repeats the run on a build with debug assertions and overflow checks
    trace = os.path.join(w, "trace.ndjson")

    def weight(e):
        bits = 12 * max(len(e.get("a", e.get("n", []))), len(e.get("b", e.get("p", []))), 1)
        return 1 + (bits // 64) ** 2

    res = None
    for profile in (["release", "relcheck"] if thorough else ["release"]):
        tr = trace if profile == "release" else os.path.join(w, "trace_relcheck.ndjson")
        core.run_driver(["c09", "--seed", chk.seed, "--reps", 1, "--shapes", shapes], tr, timeout=1700, profile=profile)
        if replay:
            core.replay_filter(tr, replay)
        r = core.validate_trace("gcd/GcdTrace.tla", "GcdTrace.cfg", tr, timeout=1700, weight=weight, tag="GcdTrace-" + profile)
        chk.add_tv(r)
        if res is None:
            res = r
        else:
            res["rejects"] = res["rejects"] + r["rejects"]
    evs = core.read_ndjson(trace)
    trivial = ("azero", "bzero", "bothzero")
    chk.count(evs, lambda e: None if e["shape"]["rel"] in trivial else (e["op"], e["case"]))
    chk.rule = ("one gcd event (gcd_internal extended + big_gcd) and up to two inv_mod events (both argument orders) per "
                "(instantiation x width pair x relation) enumerated by GcdShapes.tla, plus ZmodN::inv/gcd on a quarter of "
                "the 512-bit shapes; seeded random filling; non-trivial = both operands non-zero; distinct by (op, case)")
    chk.cov["shapes"] = nshapes
    ops, rels = {}, {}
    for e in evs:
        ops[e["op"]] = ops.get(e["op"], 0) + 1
        rels[e["shape"]["rel"]] = rels.get(e["shape"]["rel"], 0) + 1
    chk.cov["ops"] = ops
    chk.cov["relations"] = rels
    chk.cov["inv_mod_err"] = sum(1 for e in evs if e["op"] == "inv_mod" and e.get("ok") is False)
    chk.cov["inv_mod_ok"] = sum(1 for e in evs if e["op"] == "inv_mod" and e.get("ok") is True)
    for o in ("gcd", "inv_mod", "zn_inv", "zn_gcd"):
        if o not in ops and not replay and not res["rejects"]:  # (a run cut short by hung calls reports those first)
            raise core.ToolError("no %s event" % o)
    for e in evs[:: max(1, len(evs) // 5)]:
        chk.sample({k: e[k] for k in e if k in ("op", "case", "shape", "N")})
    chk.assumptions += ["TLC, SANY, CommunityModules Json/IOUtils/SequencesExt", "spec/lib/BigNat, BigInt",
                        "harness encoding of words into base-4096 digits (bnum only as witness producer: the Bezout witness "
                        "is verified by the spec)",
                        "operands <= 64N - 12 bits (500 / 1012), modulus of inv_mod > 1, ZmodN modulus odd <= 500 bits"]
