"""C07 - Montgomery modular arithmetic equals ordinary arithmetic modulo n."""
import os
from .. import core

LEVEL = "model_checking"


def run(chk, replay=None):
    thorough = chk.tier == "thorough"
    w = core.workdir("c07")
    # (M) scaled word-level model of the combined multiply/reduce loop
    for cfg in (["MC_CIOS_4_1.cfg", "MC_CIOS_4_2.cfg", "MC_CIOS_8_2.cfg"] + (["MC_CIOS_4_3.cfg", "MC_CIOS_16_2.cfg"] if thorough else [])):
        r = core.model_check("montgomery/MontCIOS.tla", cfg, workers=4, timeout=1500)
        chk.add_mc(r)
        for t in core.tuples(r["out"], "REACH"):
            chk.notes.append({"model": cfg, "reach": t[1:]})
    # reachability of the two corner branches the code is unsure about (expected: overflow branch reachable,
    # final carry "FIXME: can it happen?" unreachable); informational
    for cfg, inv in (("MC_CIOS_reach_ovf.cfg", "OverflowBranchUnreachable"), ("MC_CIOS_reach_fc.cfg", "FinalCarryUnreachable")):
        r = core.model_check("montgomery/MontCIOS.tla", cfg, workers=4, timeout=600, expect_error=True)
        chk.add_mc(r, invariants_expected_to_hold=False)
        chk.notes.append({"model": cfg, "branch_reachable": inv in r["violated"]})
    # (I) input space
    shapes = os.path.join(w, "shapes.ndjson")
    nshapes, r = core.gen_shapes("montgomery/MontShapes.tla", "MontShapes.cfg", shapes)
    chk.add_mc(r)
    # (V) real code
    trace = os.path.join(w, "trace.ndjson")
    core.run_driver(["c07", "--seed", chk.seed, "--reps", 4 if thorough else 1, "--shapes", shapes], trace)
    if replay:
        core.replay_filter(trace, replay)
    res = core.validate_trace("montgomery/MontgomeryTrace.tla", "MontgomeryTrace.cfg", trace, timeout=1700,
                              weight=lambda e: 40 if e["op"] in ("zn_inv", "zn_gcd", "mg64") else 1)
    chk.add_tv(res)
    evs = core.read_ndjson(trace)
    chk.count(evs, lambda e: None if e.get("shape", {}).get("x") in ("zero", "one") and e["op"] != "zn_inv"
              else (e["op"], e.get("nd"), str(e.get("a")), str(e.get("b")), str(e.get("x"))))
    chk.rule = ("one event per (word count 1..8 x modulus shape x operand shapes x operation) enumerated by MontShapes.tla, "
                "concretised with seeded random filling; non-trivial = operands other than 0/1; distinct by "
                "(op, modulus, operands)")
    chk.cov["shapes"] = nshapes
    chk.cov["ops"] = {}
    for e in evs:
        chk.cov["ops"][e["op"]] = chk.cov["ops"].get(e["op"], 0) + 1
    for e in evs[:: max(1, len(evs) // 4)]:
        chk.sample({k: e[k] for k in e if k in ("op", "shape", "nd", "case")})
    chk.assumptions += ["TLC, SANY, CommunityModules Json/IOUtils/SequencesExt", "spec/lib/BigNat (self-tested against Python integers in setup)",
                        "harness encoding of u64 words into base-4096 digits",
                        "moduli odd, <= 500 bits; residues < n (documented preconditions)"]
