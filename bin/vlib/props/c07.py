"""C07 - Montgomery modular arithmetic equals ordinary arithmetic modulo n."""
import os
from .. import core

LEVEL = "model_checking"


def run(chk, replay=None):
    thorough = chk.tier == "thorough"
    w = core.workdir("c07")
    # (M) scaled word-level model of the combined multiply/reduce loop
    for cfg in (["MC_CIOS_4_1.cfg", "MC_CIOS_4_2.cfg", "MC_CIOS_8_2.cfg"] + (["MC_CIOS_4_3.cfg", "MC_CIOS_16_2.cfg"] if thorough else [])):
        r = core.model_check("montgomery/MontCIOS.tla", cfg, workers=4, timeout=1500)
        chk.add_mc(r)
        for t in core.tuples(r["out"], "REACH"):
            chk.notes.append({"model": cfg, "reach": t[1:]})
    # reachability of the two corner branches the code is unsure about (expected: overflow branch reachable,
    # final carry "FIXME: can it happen?" unreachable); informational
    for cfg, inv in (("MC_CIOS_reach_ovf.cfg", "OverflowBranchUnreachable"), ("MC_CIOS_reach_fc.cfg", "FinalCarryUnreachable")):
        r = core.model_check("montgomery/MontCIOS.tla", cfg, workers=4, timeout=600, expect_error=True)
        chk.add_mc(r, invariants_expected_to_hold=False)
        chk.notes.append({"model": cfg, "branch_reachable": inv in r["violated"]})
    # ---- BEGIN inductive block (growth item "ind": unbounded results, thorough tier only) ----
    if thorough and not replay:
        _inductive(chk)
    # ---- END inductive block ----
    # (I) input space
    shapes = os.path.join(w, "shapes.ndjson")
    nshapes, r = core.gen_shapes("montgomery/MontShapes.tla", "MontShapes.cfg", shapes)
    chk.add_mc(r)
    # (V) real code
    trace = os.path.join(w, "trace.ndjson")
    core.run_driver(["c07", "--seed", chk.seed, "--reps", 4 if thorough else 1, "--shapes", shapes], trace)
    if replay:
        core.replay_filter(trace, replay)
    res = core.validate_trace("montgomery/MontgomeryTrace.tla", "MontgomeryTrace.cfg", trace, timeout=1700,
                              weight=lambda e: 40 if e["op"] in ("zn_inv", "zn_gcd", "mg64") else 1)
    chk.add_tv(res)
    evs = core.read_ndjson(trace)
    chk.count(evs, lambda e: None if e.get("shape", {}).get("x") in ("zero", "one") and e["op"] != "zn_inv"
              else (e["op"], e.get("nd"), str(e.get("a")), str(e.get("b")), str(e.get("x"))))
    chk.rule = ("one event per (word count 1..8 x modulus shape x operand shapes x operation) enumerated by MontShapes.tla, "
                "concretised with seeded random filling; non-trivial = operands other than 0/1; distinct by "
                "(op, modulus, operands)")
    chk.cov["shapes"] = nshapes
    chk.cov["ops"] = {}
    for e in evs:
        chk.cov["ops"][e["op"]] = chk.cov["ops"].get(e["op"], 0) + 1
    for e in evs[:: max(1, len(evs) // 4)]:
        chk.sample({k: e[k] for k in e if k in ("op", "shape", "nd", "case")})
    chk.assumptions += ["TLC, SANY, CommunityModules Json/IOUtils/SequencesExt", "spec/lib/BigNat (self-tested against Python integers in setup)",
                        "harness encoding of u64 words into base-4096 digits",
                        "moduli odd, <= 500 bits; residues < n (documented preconditions)"]



# ---- BEGIN inductive block (growth item "ind") ----
def _inductive(chk):
    """The Montgomery loop for a SYMBOLIC word base: T Bi = xlo y + K n, 0 <= T < 2n, exact division by B, and at the
    end res < n with res B^i = (x mod B^i) y (mod n), for every base B >= 1, every modulus n >= 1 with n ninv = -1
    (mod B) and any number of words (TLAPS, MontProofs.tla on the number-level restatement MontInd.tla); TLC link: the
    word-level model MontCIOS.tla (carries, overflow correction, conditional subtraction) implements MontInd step by
    step; Apalache counterexamples / failed proofs for the broken variants.
    Anything unexpected here is a tool error (exit 2), never a violation."""
    if not core.ind_enabled():
        chk.notes.append("inductive block skipped (VERIF_NO_IND=1)")
        return
    ind = {"claim": "MontInd!IndInv (Pre, Window 0 <= T < 2n, Split, Congr, ResultOK) is inductive for every word base B >= 1 "
                    "and unbounded integers (TLAPS); every step of the word-level MontCIOS.tla (B = 4 with 2 and 3 words, "
                    "B = 8 with 2 words) is a step of MontInd and x is fully consumed at the end (TLC)",
           "runs": []}
    for cfg in ("MC_MontInd_4_2.cfg", "MC_MontInd_8_2.cfg", "MC_MontInd_4_3.cfg"):
        chk.add_mc(core.model_check("montgomery/MC_MontInd.tla", cfg, workers=4, timeout=1700))
    ind["runs"].append(core.ind_expect(core.tlapm("montgomery/MontProofs.tla", timeout=900), "ok", "MontProofs"))
    bad = core.ind_expect(core.tlapm("montgomery/MontProofsBad.tla", timeout=900, retries=0), "failed", "MontProofsBad")
    if bad["failed"] < 2:
        raise core.ToolError("MontProofsBad: %d failed obligations, expected both false claims to fail" % bad["failed"])
    ind["runs"].append(bad)
    A = "montgomery/MontInd.tla"
    for kw, want in ((dict(init="Init", length=0), "ok"),
                     (dict(init="IndInit", next="NextBadM", length=1), "counterexample"),     # m without the factor ninv
                     (dict(init="IndInit", next="NextBadF", length=1), "counterexample")):    # no conditional subtraction
        ind["runs"].append(core.ind_expect(core.apalache(A, "IndInv", cinit="CInit16", timeout=900, **kw), want,
                                           "MontInd %s" % kw))
    chk.cov["inductive"] = ind
    chk.notes.append("inductive: Montgomery loop invariant proved for a symbolic word base (tlapm, %d obligations, %.0fs)" %
                     (ind["runs"][0]["obligations"], ind["runs"][0]["wall_s"]))
    chk.assumptions.append("tlapm (Z3, Zenon, Isabelle, PTL back ends) and apalache-mc/Z3 for the symbolic-base Montgomery "
                           "invariant; MontInd.tla restates MontCIOS.tla at the level of numbers (linked by TLC: MC_MontInd.tla)")
# ---- END inductive block ----
