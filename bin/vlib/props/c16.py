"""C16 - group-order methods (P-1, P+1, ECM) find every factor their bounds promise, and nothing false."""
import json
import os
from .. import core

LEVEL = "model_checking"


def _weight(e):
    if e["op"] == "grid":
        return max(1.0, (e.get("b2rep") or e.get("b2") or 1000) / 3000.0)
    if e["op"] == "inst":
        return 3 if e["m"] in ("ecm", "ecm128") else 2
    if e["op"] == "expmod":
        return 4 if e.get("via") == "exp_modn_large" else 1
    return 0.3


def run(chk, replay=None):
    thorough = chk.tier == "thorough"
    w = core.workdir("c16")
    dev_fast = bool(os.environ.get("VERIF_DEV_NOMODELS"))  # builder's shortcut for mutation runs
    # ---------------- real code: tables, grids of real runs, constructed instances, splits
    trace = os.path.join(w, "trace.ndjson")
    if replay and str(replay["event"].get("op", "")).endswith("_batch"):
        return rho_model(chk, w, replay)          # the recorded case belongs to the Pollard rho stage
    core.run_driver(["c16", "--seed", chk.seed, "--tier", chk.tier], trace, timeout=3000)
    evs = core.read_ndjson(trace)
    rows = [dict(e, poly=bool(e.get("poly"))) for e in evs if e["op"] == "row"]
    if not rows:
        raise core.ToolError("no stage-2 table rows discovered")
    # ---------------- (M) Promise for every row of both tables (rows come from the code, loops are transcribed)
    if not dev_fast:
        rows_p = os.path.join(w, "rows.ndjson")
        core.write_ndjson(rows_p, rows)
        r = core.model_check("stage2/Stage2Grid.tla", "Stage2Grid.cfg", workers=4, timeout=2500, env={"ROWS": os.path.abspath(rows_p)})
        chk.add_mc(r)
        fails = core.tuples(r["out"], "ROWFAIL")
        oks = core.tuples(r["out"], "ROWOK")
        chk.cov["model_rows_ok"] = len(oks)
        chk.cov["model_rows_failing"] = [{"method": t[1], "b2": t[2], "d1": t[3], "d2": t[4], "uncovered_primes": t[5], "first": -t[6], "last": t[7]}
                                         for t in fails]
        if not oks and not fails:
            raise core.ToolError("Stage2Grid evaluated no row")
    # ---------------- (V)
    if replay:
        core.replay_filter(trace, replay)
        evs = core.read_ndjson(trace)
    res = core.validate_trace("stage2/Stage2Trace.tla", "Stage2Trace.cfg", trace, timeout=3000, weight=_weight)
    chk.add_tv(res)
    if not dev_fast and not replay:
        # the model and the logged grids must tell the same story; a difference means the transcription is stale
        vfail = {(r_["event"].get("m"), r_["event"].get("b2rep")) for r_ in res["rejects"] if r_["kind"] == "strict" and r_["event"]["op"] == "grid"}
        mfail = {("pm1" if t[1] == "pm1poly" else t[1], t[2]) for t in fails}
        if vfail != mfail:
            chk.notes.append({"model_vs_logged_grids_differ": {"model_only": sorted(map(str, mfail - vfail)), "logged_only": sorted(map(str, vfail - mfail))}})
        # every configuration must have produced a grid event (vacuity guard)
        ngrid = sum(1 for e in evs if e["op"] == "grid")
        if ngrid < len([r_ for r_ in rows if r_["table"] == "params"]) * 3:
            raise core.ToolError("too few grid events (%d)" % ngrid)

    def key(e):
        if e["op"] == "inst":
            return (e["m"], e["b1"], e["b2"], e["l"], e["nd"])
        if e["op"] == "grid":
            return (e["op"], e["case"])
        if e["op"] == "split":
            return (e["via"], e["nd"]) if e.get("some") else None
        if e["op"] in ("expmod", "cheb"):
            return (e["op"], e["case"])
        return None

    chk.count(evs, key)
    chk.rule = ("rows of both stage-2 tables discovered from the code (B2 <= 1e5 quick / 1.4e6 thorough) x methods (P-1 walk and chirp-z, P+1, ECM, "
                "ECM128, PM1Base) x B1 (smallest admissible and the hard-wired strategy pairs): one grid event per configuration from a real run; "
                "instances n = p*q built to order for stage-2 primes l = first/last three of (B1, B2eff], primes next to multiples of d1 and at the "
                "band edges k*d1 +- d1/2 for k in {1, 2, d2/2, d2-1, d2, d2+1}, and random ones (instances up to B2 = 3.4e4 quick / 1.4e6 thorough); "
                "rho64/rho/rho_impl on semiprimes and squares of 8..32-bit primes, gcd_factors on cumulative products with chosen entry "
                "positions; non-trivial = an instance, a grid, a returned split, a helper call; distinct by (method, B1, B2, l, n)")
    chk.cov["ops"] = {}
    for e in evs:
        k = e["op"] + ("/" + str(e.get("m") or e.get("via") or e.get("table") or "") if e["op"] != "cheb" else "")
        chk.cov["ops"][k] = chk.cov["ops"].get(k, 0) + 1
    inst = [e for e in evs if e["op"] == "inst"]
    chk.cov["instances_found"] = sum(1 for e in inst if e.get("some"))
    chk.cov["instances"] = len(inst)
    for e in (inst[:: max(1, len(inst) // 4)] + [e for e in evs if e["op"] == "grid"][:2])[:6]:
        chk.sample({k: e[k] for k in e if k in ("op", "case", "m", "b1", "b2", "b2rep", "d1", "d2", "l", "nd", "pd", "q", "seed", "partsd")})
    chk.assumptions += ["TLC, SANY, CommunityModules", "spec/lib/BigNat, Certs (self-tested)", "spec/lib/EdwardsLaw (the definition checked under C15)",
                        "B1 >= largest prime factor of d1 (true of every hard-wired pair; a stage-2 prime dividing d1 is never formed)",
                        "effective B2 = the B2 the run reports (table value); for P-1 min(requested, reported) since its prime walk stops at the requested bound",
                        "PM1Base reports no B2: its effective bound is the last prime its walk visits for the given budget (logged by the run)",
                        "chebyshev_modn is not defined at exponent 0 (never called with it)",
                        "hook events s2_* report the exponents pushed / multiples built at push time; for the chirp-z path the giant multiples are "
                        "derived from the logged number of kept convolution outputs"]
    if not replay:
        rho_model(chk, w, None)


def rho_model(chk, w, replay):
    """Pollard rho (Brent): spec/rho/RhoFn.tla is an EXACT model of rho64 for moduli below 2^15 (Montgomery form included).
    (M) the loop as a state machine over all odd composites of a range and all increments 1..9: results are genuine splits,
    Brent's bookkeeping, agreement with the pure function; the hazard question "does rho() ever fail" (factor_impl's
    Algo::Rho branch would fall through); (V) real calls in batches: Strict = genuine split, Drift = the model's split."""
    thorough = chk.tier == "thorough"
    dev_fast = bool(os.environ.get("VERIF_DEV_NOMODELS"))
    if not dev_fast and not replay:
        chk.add_mc(core.model_check("rho/MC_PollardRho.tla", "MC_Rho_all_thorough.cfg" if thorough else "MC_Rho_all.cfg", workers=4, timeout=1500))
        # non-vacuity: a run can fail although one of its differences showed a factor (TLC must find one)
        r = core.model_check("rho/MC_PollardRho.tla", "MC_Rho_missed.cfg", workers=2, timeout=600, expect_error=True)
        chk.add_mc(r, invariants_expected_to_hold=False)
        if "NeverMissed" not in r["violated"]:
            raise core.ToolError("PollardRho: the non-vacuity configuration no longer fails")
        hi = 32767 if thorough else 6000
        r = core.model_check("rho/RhoHazard.tla", "RhoHazard.cfg", workers=1, timeout=1500, env={"LO": "9", "HI": str(hi)})
        chk.add_mc(r)
        fails = core.tuples(r["out"], "RHOFAIL")
        if not fails:
            raise core.ToolError("RhoHazard printed nothing")
        chk.cov["rho_model"] = {"exact_below": 32768, "hazard_range": [9, hi], "inputs_on_which_rho_fails_for_all_c": fails[0][3]}
    tr = os.path.join(w, "rho.ndjson")
    core.run_driver(["rho", "--seed", chk.seed, "--tier", chk.tier], tr, timeout=900)
    if replay:
        core.replay_filter(tr, replay)
    res = core.validate_trace("rho/RhoTrace.tla", "RhoTrace.cfg", tr, timeout=1500, tag="rho",
                              weight=lambda e: len(e.get("ns", [])) * (3 if e["op"] == "semi_batch" else 1))
    chk.add_tv(res)
    evs = core.read_ndjson(tr)
    ops = {}
    calls = 0
    for e in evs:
        ops[e["op"]] = ops.get(e["op"], 0) + 1
        calls += len(e.get("ns", []))
    if not replay and (calls < 1000 or len(ops) < 3):
        raise core.ToolError("rho stage: too few calls (%d) or ops (%r)" % (calls, ops))
    chk.cov.setdefault("rho_model", {}).update({"batches": ops, "real_calls_compared_with_model": calls,
                                                "splits_returned": sum(1 for e in evs for r_ in e.get("rs", []) if r_)})
