"""C14 - binary kernel solvers (dense Gauss, block Lanczos) return only genuine, non-zero dependencies;
Gauss returns an independent family of size ncols - rank."""
import copy
import hashlib
import json
import os
from .. import core

LEVEL = "model_checking"

RANK_MAX = 520          # must match RankMax in spec/gf2/Gf2Trace.cfg

FULL = ["MC_Gauss_0x3.cfg", "MC_Gauss_1x4.cfg", "MC_Gauss_5x2.cfg", "MC_Gauss_2x5.cfg", "MC_Gauss_3x4.cfg"]
QUICK = ["MC_Gauss_4x4.cfg", "MC_Gauss_3x5.cfg", "MC_Gauss_2x7.cfg", "MC_Gauss_3x6.cfg"]
THOROUGH = ["MC_Gauss_4x5.cfg", "MC_Gauss_5x4.cfg"]
EMIT = ["MC_Gauss_emit_3x4.cfg", "MC_Gauss_emit_4x3.cfg", "MC_Gauss_emit_2x5.cfg"]


def _weight(e):
    """rough TLC cost of an event: transposition + one pass over the rows per returned vector +
    the in-spec rank for matrices up to RANK_MAX columns"""
    entries = sum(len(c) for c in e.get("m", []))
    nv = len(e.get("k", [])) + len(e.get("wit", []))
    w = 200 + entries + nv * (e.get("nrows", 0) + entries // 8)
    if e.get("op") == "kernel_gauss" and e.get("ncols", 0) <= RANK_MAX:
        w += e["ncols"] * e["ncols"] * 8
    return w


def _size_class(e):
    c = e.get("ncols", 0)
    return "<=64" if c <= 64 else "65..%d" % RANK_MAX if c <= RANK_MAX else "%d..2000" % (RANK_MAX + 1) if c <= 2000 \
        else "2001..3500" if c <= 3500 else ">3500"


def _selftest_events():
    """Vacuity self-test of the trace specification: hand-written events (independent of the code under
    test), one valid and the others damaged so that exactly one clause should fire; TLC must reject each
    with the expected tag.  (Python only writes the inputs and compares tags; the judgement is TLC's.)"""
    # 3 x 5, rank 3: c0+c1+c2 = 0, c2+c3+c4 = 0
    m = [[0], [1], [0, 1], [2], [0, 1, 2]]
    good = {"op": "kernel_gauss", "nrows": 3, "ncols": 5, "m": m, "k": [[0, 1, 2], [2, 3, 4]], "priv": [0, 3]}
    out = []

    def add(name, kind, tag, **chg):
        e = copy.deepcopy(good)
        for f, v in chg.items():
            if v is None:
                e.pop(f, None)
            else:
                e[f] = v
        e["case"] = "selftest/" + name
        e["st_expect"] = [kind, tag]
        out.append(e)

    add("valid", "none", "")
    add("not-in-kernel", "strict", "kernel_gauss:nonzero-in-kernel", k=[[0, 1], [2, 3, 4]])
    add("zero-vector", "strict", "kernel_gauss:nonzero-in-kernel", k=[[], [2, 3, 4]], priv=None)
    add("index-range", "strict", "kernel_gauss:index-range", k=[[0, 1, 2, 5], [2, 3, 4]])
    add("repeated-index", "witness", "repeated-index", k=[[0, 1, 2, 2], [2, 3, 4]])
    add("count", "strict", "gauss:count", k=[[0, 1, 2]], priv=[0])
    add("count-bounds", "strict", "gauss:count-bounds", k=[], priv=[])
    add("dependent", "strict", "gauss:independent", k=[[0, 1, 2], [2, 3, 4], [0, 1, 3, 4]], priv=None, dep=[0, 1, 2])
    add("bad-dep", "witness", "dep-certificate", priv=None, dep=[0, 1])
    add("bad-priv", "witness", "priv-certificate", priv=[2, 3])
    add("no-certificate", "witness", "no-independence-certificate", priv=None)
    add("count-witness", "strict", "gauss:count-witness", k=[[0, 1, 2]], priv=[0], wit=[[0, 1, 2], [2, 3, 4]], wpriv=[0, 3])
    add("bad-count-witness", "witness", "wit-certificate", k=[[0, 1, 2]], priv=[0], wit=[[0, 1, 2], [2, 3]], wpriv=[0, 3])
    add("tri-ok", "none", "", priv=None, tri=[{"combo": [0, 1], "piv": 0}, {"combo": [1], "piv": 2}])
    add("bad-tri", "witness", "tri-certificate", priv=None, tri=[{"combo": [0], "piv": 2}, {"combo": [1], "piv": 3}])
    add("panic", "strict", "kernel_gauss:panic", k=None, priv=None, outcome="panic")
    add("timeout", "drift", "kernel_gauss:timeout", k=None, priv=None, outcome="timeout")
    add("bad-input", "witness", "input", m=[[0], [1], [0, 1], [2], [0, 1, 3]])
    add("model-agrees", "none", "", expect=[[0, 1, 2], [2, 3, 4]])
    add("model-differs", "drift", "gauss:model-result", expect=[[2, 3, 4], [0, 1, 2]])
    add("lanczos-valid", "none", "", op="kernel_lanczos", priv=None, k=[[0, 1, 2], [0, 1, 2], [0, 1, 3, 4]])
    add("lanczos-empty", "none", "", op="kernel_lanczos", priv=None, k=[])
    add("lanczos-not-in-kernel", "strict", "kernel_lanczos:nonzero-in-kernel", op="kernel_lanczos", priv=None, k=[[0, 1, 2], [1, 3]])
    add("lanczos-zero", "strict", "kernel_lanczos:nonzero-in-kernel", op="kernel_lanczos", priv=None, k=[[]])
    add("lanczos-panic", "strict", "kernel_lanczos:panic", op="kernel_lanczos", priv=None, k=None, outcome="panic")
    return out


def run(chk, replay=None):
    thorough = chk.tier == "thorough"
    w = core.workdir("c14")
    workers = min(8, core.NCPU)
    if replay and str(replay.get("event", {}).get("case", "")).startswith("lsteps/"):
        return _lanczos_steps(chk, w, thorough, replay)
    if os.environ.get("VERIF_C14_ONLY", "") == "lsteps":          # development switch: only the recorded Lanczos runs
        chk.notes.append("VERIF_C14_ONLY=lsteps: partial run (Lanczos step traces only)")
        chk.rule = "partial run"
        return _lanczos_steps(chk, w, thorough, None, models=False)
    # (M) kernel_gauss as a state machine, started on every matrix of the given dimensions
    if not replay:
        for cfg in FULL + QUICK + (THOROUGH if thorough else []):
            r = core.model_check("gf2/Gf2Kernel.tla", cfg, workers=workers, timeout=3000)
            chk.add_mc(r)
    # (G) explicit small matrices with known corank, (I) abstract shapes of the random ones
    mats = os.path.join(w, "mats.ndjson")
    nmats, r = core.gen_shapes("gf2/Gf2Gen.tla", "Gf2Gen.cfg", mats)
    chk.add_mc(r)
    shapes = os.path.join(w, "shapes.ndjson")
    nshapes, r = core.gen_shapes("gf2/Gf2Shapes.tla", "Gf2Shapes_%s.cfg" % chk.tier, shapes)
    chk.add_mc(r)
    # (G) terminal behaviours of the model (every matrix of a few tiny dimensions + the model's result)
    model = os.path.join(w, "model.ndjson")
    beh = []
    for cfg in EMIT:
        r = core.model_check("gf2/Gf2Kernel.tla", cfg, workers=1, timeout=900)
        chk.add_mc(r)
        beh += [json.loads(t[1]) for t in core.tuples(r["out"], "REPLAY")]
    if not beh:
        raise core.ToolError("the model emitted no behaviours")
    core.write_ndjson(model, beh)
    # (V) the real code
    trace = os.path.join(w, "trace.ndjson")
    outp = core.run_driver(["c14", "--seed", chk.seed, "--tier", chk.tier, "--reps", 5 if thorough else 3,
                            "--mats", mats, "--model", model, "--shapes", shapes], trace, timeout=7000)
    drv = json.loads(outp.strip().splitlines()[-1])
    if replay:
        core.replay_filter(trace, replay)
        chk.notes.append("replay: kernel_lanczos draws system randomness, a replayed call need not return the same vectors")
    res = core.validate_trace("gf2/Gf2Trace.tla", "Gf2Trace.cfg", trace, timeout=3000, weight=_weight)
    chk.add_tv(res)
    evs = core.read_ndjson(trace)
    # vacuity self-test of the trace specification on damaged copies of recorded events
    if not replay:
        tam = _selftest_events()
        tpath = os.path.join(w, "tamper.ndjson")
        core.write_ndjson(tpath, tam)
        tres = core.validate_trace("gf2/Gf2Trace.tla", "Gf2Trace.cfg", tpath, shards=1, tag="Gf2Trace-selftest")
        got = {}
        for rj in tres["rejects"]:
            got.setdefault(rj["i"], set()).add((rj["kind"], rj["tag"]))
        for i, e in enumerate(tam, 1):
            kind, tag = e["st_expect"]
            g = got.get(i, set())
            ok = (not g) if kind == "none" else ((kind, tag) in g)
            if not ok:
                raise core.ToolError("trace spec self-test: %s expected %s/%s, TLC said %s" % (e["case"], kind, tag, sorted(g)))
        chk.notes.append({"trace_spec_selftest": "%d hand-written events (valid and damaged), each judged by the intended clause" % len(tam)})
        chk.mc.append({"module": "Gf2Trace(selftest)", "cfg": "Gf2Trace.cfg", "generated": tres["states"],
                       "distinct": tres["states"], "wall_s": tres["wall_s"], "violated": []})

    def key(e):
        if "outcome" in e or not e.get("k"):
            return None
        return (e["op"], hashlib.sha1(json.dumps([e["nrows"], e["m"]]).encode()).hexdigest()[:16])
    chk.count(evs, key)
    chk.rule = ("Gauss: every explicit matrix printed by Gf2Gen.tla (<= 64 columns, known corank: zero, identity, full, staircase, "
                "duplicates, highest/lowest-bit edge columns around word sizes, Sylvester-type, planted combinations) and one seeded "
                "random matrix per shape of Gf2Shapes.tla (rows x columns x planted corank x density profile sieve/uniform/dense x "
                "zero/duplicate columns; tiny grid, word/SIMD-block edge sizes, 1000..%d columns); Lanczos: %d runs of every "
                "Lanczos shape (128..%d rows, rank >= 100). Non-trivial = the call returned at least one vector; distinct by "
                "(routine, matrix)." % (6000 if thorough else 3000, 5 if thorough else 3, 6000 if thorough else 3000))
    chk.cov["generated_matrices"] = nmats
    chk.cov["model_behaviours_replayed"] = len(beh)
    chk.cov["shapes"] = nshapes
    chk.cov["lanczos_shapes_skipped_outside_domain"] = drv.get("lanczos_skipped_outside_domain", 0)
    ops, sizes, coranks, vecs = {}, {}, {}, {}
    for e in evs:
        ops[e["op"]] = ops.get(e["op"], 0) + 1
        sk = "%s %s" % (e["op"], _size_class(e))
        sizes[sk] = sizes.get(sk, 0) + 1
        if "k" in e:
            vecs[e["op"]] = vecs.get(e["op"], 0) + len(e["k"])
        if e["op"] == "kernel_gauss" and "k" in e:
            n = len(e["k"])
            ck = "0" if n == 0 else "1" if n == 1 else "2..9" if n < 10 else "10..49" if n < 50 else "50..99" if n < 100 else ">=100"
            coranks[ck] = coranks.get(ck, 0) + 1
    chk.cov["ops"] = ops
    chk.cov["events_by_size_class"] = sizes
    chk.cov["gauss_events_by_returned_family_size"] = coranks
    chk.cov["vectors_checked"] = vecs
    chk.cov["certificates"] = {c: sum(1 for e in evs if c in e) for c in ("priv", "dep", "tri", "wit")}
    chk.cov["max_ncols"] = max(e["ncols"] for e in evs)
    seen_cls = set()
    for e in sorted(evs, key=lambda e: -e["ncols"]):
        cls = (e["op"], _size_class(e), str(e["case"]).split("/")[0])
        if cls in seen_cls or not e.get("k"):
            continue
        seen_cls.add(cls)
        chk.sample({"op": e["op"], "case": e["case"], "shape": e.get("shape"), "nrows": e["nrows"], "ncols": e["ncols"],
                    "returned_vectors": len(e.get("k", [])), "first_vector_weight": len(e["k"][0])})
    chk.assumptions += [
        "TLC, SANY, CommunityModules Json/IOUtils/SequencesExt (FoldLeft)",
        "the harness's encoding of matrices (lists of row indices per column -> the library's bit vectors / SparseMat) and of "
        "returned bit vectors (-> lists of set positions)",
        "Gf2 Part 2 (transposition fold, elimination rank) agrees with the definitions: model-checked on every matrix of the "
        "small configurations (invariant Part2Agrees)",
        "preconditions: at least one column, equal column lengths, duplicate-free row lists; kernel_lanczos only on matrices "
        "with >= 128 rows and rank >= 100 (its first step does not terminate when the rank is not well above the block size 64)",
        "|K| = ncols - rank is computed by the spec up to %d columns; above, TLC checks ncols - nrows <= |K|, independence "
        "(=> |K| <= ncols - rank) and any larger independent kernel family the harness's own elimination finds (none found => "
        "equality rests on that elimination not missing one)" % RANK_MAX,
    ]
    if not replay and LANCZOS_STEPS:
        _lanczos_steps(chk, w, thorough, None)
    chk.notes.append("a call that does not return before the deadline (300 s; normal < 5 s; after two such calls no further Lanczos call is made) is reported as drift, not as a violation: "
                     "the property speaks about returned vectors")


# ------------------------------------------------------------------------------------------------
# growth item "lanczos-steps": a model of the block Lanczos iteration (spec/gf2/Lanczos.tla) and the
# validation of recorded runs of kernel_lanczos, block by block, against it (spec/gf2/LanczosTrace.tla).
# Everything judged here is implementation-shaped => Drift; the returned vectors of the same calls go
# through Gf2Trace.tla (Strict) like every other kernel_lanczos event.
# ------------------------------------------------------------------------------------------------
LANCZOS_STEPS = os.environ.get("VERIF_NO_LSTEPS", "") not in ("1", "true", "yes")

L_QUICK = ["MC_Lanczos_q_3x3_w2.cfg", "MC_Lanczos_q_5x6_w2.cfg", "MC_Lanczos_q_6x6_w3.cfg"]
L_THOROUGH = ["MC_Lanczos_t_3x4_w2.cfg", "MC_Lanczos_t_4x3_w2.cfg", "MC_Lanczos_t_4x6_w2.cfg", "MC_Lanczos_t_4x6_w3.cfg", "MC_Lanczos_t_6x7_w2.cfg",
              "MC_Lanczos_t_7x7_w3.cfg"]
# broken variants of the model (non-vacuity): TLC must report exactly this invariant
L_BROKEN = [("MC_Lanczos_nv_nofilter.cfg", "ResultOK"), ("MC_Lanczos_nv_finalq.cfg", "ResultOK"),
            ("MC_Lanczos_nv_badselect.cfg", "SelectionOK"), ("MC_Lanczos_nv_threeterm.cfg", "WOrthogonal")]
# reachability questions on the unchanged model: the "invariant" is the negation of what must be reachable
L_ASK = [("MC_Lanczos_ask_classical.cfg", "ClassicalInclusion"), ("MC_Lanczos_ask_classical_noalt.cfg", "ClassicalInclusion"),
         ("MC_Lanczos_ask_fourblocks.cfg", "NeverFourBlocks"), ("MC_Lanczos_ask_skips.cfg", "NeverSkips"),
         ("MC_Lanczos_ask_kernel.cfg", "NeverFindsKernel"), ("MC_Lanczos_ask_deficient.cfg", "NeverDeficient")]


def _lz_weight(e):
    return 40 if e.get("heavy") or e.get("op") == "lz_init" else 1


def _lz_tamper(evs, exclude=()):
    """Binding demonstration / vacuity self-test of LanczosTrace.tla: one recorded run of the real code,
    copied and damaged in one place per copy; TLC must reject each copy with the intended tag (and accept
    the undamaged copy).  Python only edits the copies and compares tags."""
    runs, order = {}, []
    for e in evs:
        if e["case"] not in runs:
            order.append(e["case"])
        runs.setdefault(e["case"], []).append(e)

    def fit(c):
        r = runs[c]
        its = [e for e in r if e["op"] == "lz_iter"]
        return (r[0]["op"] == "lz_init" and r[-1]["op"] == "lz_exit" and 8 <= len(its) <= 40
                and any(e["freed"] for e in its) and any(0 < e["rk"] < 64 for e in its[:-2]))
    pick = next((c for c in order if c not in exclude and fit(c)), None)
    if pick is None:
        return None, []
    base = runs[pick]
    out = []

    def add(name, kind, tag, edit):
        r = copy.deepcopy(base)
        r = edit(r) or r
        for e in r:
            e["case"] = "tamper/" + name
            e.pop("i", None)
        r[0]["st_expect"] = [kind, tag]
        out.extend(r)

    def iters(r):
        return [e for e in r if e["op"] == "lz_iter"]

    def it_at(r, pred):
        return next(e for e in iters(r) if pred(e))
    deficient = lambda e: 0 < e["rk"] < 64 and not e["term"]

    def zero_rowcol(rows, s):
        rows[s] = []
        for x in rows:
            if s in x:
                x.remove(s)
    add("valid", "none", "", lambda r: None)
    add("drop-iteration", "drift", "iter:sequence", lambda r: [e for e in r if not (e["op"] == "lz_iter" and e["idx"] == 3)])
    add("drop-exit", "drift", "init:previous-run-not-closed", lambda r: r[:-1] + copy.deepcopy(r))

    def e_maskbit(r):
        it_at(r, lambda e: not e["term"])["mask"].pop()
    add("mask-bit-lost", "drift", "iter:rank-mask", e_maskbit)

    def e_smaller(r):
        e = it_at(r, lambda e: not e["term"] and e["idx"] >= 2)
        e["mask"].pop()
        e["rk"] -= 1
    add("selection-not-maximal", "drift", "iter:selection-maximal", e_smaller)

    def e_minor(r):
        e = it_at(r, lambda e: not e["term"] and e["idx"] >= 2)
        zero_rowcol(e["gram"], e["mask"][0])
    add("selected-minor-singular", "drift", "iter:selection-invertible", e_minor)

    def e_asym(r):
        e = it_at(r, lambda e: not e["term"] and e["idx"] >= 2)
        g = e["gram"]
        if 1 in g[0]:
            g[0].remove(1)
        else:
            g[0] = sorted(g[0] + [1])
    add("gram-asymmetric", "drift", "iter:gram-symmetric", e_asym)

    def e_other(r):
        # a block with rank < 64 whose selection is replaced by the first rk rows
        e = it_at(r, deficient)
        e["mask"] = list(range(e["rk"]))
    add("first-rows-selected", "drift", "iter:pseudoinverse", e_other)

    def e_proj(r):
        it_at(r, lambda e: e["idx"] >= 3)["proj"].pop(0)
    add("projection-lost", "drift", "iter:projections", e_proj)

    def e_freed(r):
        it_at(r, lambda e: e["freed"])["freed"].pop()
    add("free-lost", "drift", "iter:freed", e_freed)

    def e_freedflag(r):
        it_at(r, lambda e: e["freed"])["freed"][0][1] = False
    add("freed-block-not-orthogonal", "drift", "iter:skip-sound", e_freedflag)

    def e_rev(r):
        e = it_at(r, lambda e: e["idx"] == 2)
        e["rev"] = not e["rev"]
    add("direction", "drift", "iter:direction", e_rev)

    def e_yorth(r):
        it_at(r, lambda e: e["idx"] == 2)["yorth"] = False
    add("y-not-orthogonal", "drift", "iter:y-orthogonal", e_yorth)

    def e_term(r):
        it_at(r, lambda e: e["idx"] == 2)["term"] = True
    add("termination-flag", "drift", "iter:termination-test", e_term)

    def e_pinv(r):
        e = it_at(r, lambda e: not e["term"] and e["idx"] >= 2)
        s = e["mask"][0]
        e["ginvg"][s] = []
    add("pseudoinverse", "drift", "iter:pseudoinverse", e_pinv)

    def e_nz(r):
        e = it_at(r, lambda e: not e["term"] and e["idx"] >= 2)
        e["nz"].remove(e["mask"][0])
    add("selected-zero-column", "drift", "iter:selected-nonzero", e_nz)

    def e_small(r):
        r[0]["nx"] = r[0]["nrows"] = 100
    add("rank-sum", "drift", "iter:rank-sum", e_small)
    add("iteration-bound", "drift", "exit:iteration-bound", e_small)

    def e_blocks(r):
        r[-1]["blocks"] += 1
    add("exit-blocks", "drift", "exit:sequence", e_blocks)

    def e_kept(r):
        r[-1]["kept"] = r[-1]["dimker"] + 1
    add("exit-kept", "drift", "exit:candidates", e_kept)

    def e_ret(r):
        r[-1]["returned"] = r[-1]["kept"] + 1
    add("exit-returned", "drift", "exit:returned", e_ret)

    def e_ginit(r):
        r[0]["gginv"][7] = [6]
    add("init-inverse", "drift", "init:gram-inverse", e_ginit)

    def e_ginit2(r):
        zero_rowcol(r[0]["gram"], 5)
    add("init-singular", "drift", "init:gram-invertible", e_ginit2)

    def e_lsize(r):
        r[0]["lsize"] = 32
    add("init-lsize", "drift", "init:lsize", e_lsize)
    return pick, out


def _lanczos_steps(chk, w, thorough, replay, models=True):
    import concurrent.futures as cf
    # ---- (M) the model, its broken variants and the reachability questions
    if not replay and models:
        jobs = [(c, None, str(chk.seed)) for c in L_QUICK + (L_THOROUGH if thorough else [])]
        jobs += [(c, inv, "1") for c, inv in L_BROKEN + L_ASK]

        def one(job):
            cfg, inv, seed = job
            big = cfg in L_THOROUGH
            return job, core.model_check("gf2/Lanczos.tla", cfg, workers=1, timeout=(6000 if big else 900),
                                         extra=["-seed", seed], expect_error=inv is not None)
        jobs.sort(key=lambda j: j[0] not in L_THOROUGH)          # the long ones first
        with cf.ThreadPoolExecutor(max_workers=max(1, min(core.NCPU, 8))) as ex:
            results = list(ex.map(one, jobs))
        for (cfg, inv, _), r in results:
            if inv is None:
                chk.add_mc(r)
            else:
                chk.add_mc(r, invariants_expected_to_hold=False)
                if r["violated"] != [inv]:
                    raise core.ToolError("Lanczos model %s: expected TLC to report %s, got %s" % (cfg, inv, r["violated"]))
        chk.notes.append({"lanczos_model_non_vacuity": "broken variants rejected by TLC: " + ", ".join(
            "%s -> %s" % (c[len("MC_Lanczos_nv_"):-4], i) for c, i in L_BROKEN)})
        chk.notes.append({"lanczos_model_reachability": "runs exhibited by TLC on the unchanged model (stated as violated 'never' invariants): "
                          "a block whose unselected columns were not all selected in the previous block, with and without the alternating "
                          "rank direction (the classical three-term condition is NOT an invariant of the code: it copes through the carry "
                          "mask, invariants SkipSound / WOrthogonal / ThreeTermWhenClassical hold); >= 4 blocks; a freed block; a non-empty "
                          "result; a rank-deficient block"})
    # ---- (V) recorded runs
    shapes = os.path.join(w, "shapes.ndjson")
    if not os.path.exists(shapes):
        n, r = core.gen_shapes("gf2/Gf2Shapes.tla", "Gf2Shapes_%s.cfg" % chk.tier, shapes)
    steps = os.path.join(w, "lsteps.ndjson")
    lres = os.path.join(w, "lsteps_results.ndjson")
    outp = core.run_driver(["c14", "--seed", chk.seed, "--tier", chk.tier, "--shapes", shapes, "--lsteps", steps], lres, timeout=7000)
    drv = json.loads(outp.strip().splitlines()[-1])
    if replay:
        core.replay_filter(lres, replay)
        chk.add_tv(core.validate_trace("gf2/Gf2Trace.tla", "Gf2Trace.cfg", lres, timeout=3000, weight=_weight, tag="lanczos-steps-results"))
        return
    # the property itself on the vectors returned by the hooked calls (Strict)
    res = core.validate_trace("gf2/Gf2Trace.tla", "Gf2Trace.cfg", lres, timeout=3000, weight=_weight, tag="lanczos-steps-results")
    chk.add_tv(res)
    # the steps (Drift)
    if not core.read_ndjson(steps):
        # no call reached its first block (calls that hang before it are timeouts in the result trace above)
        chk.notes.append("lanczos-steps: the hooked calls recorded no step event (%d result events)" % len(core.read_ndjson(lres)))
        chk.cov["lanczos_steps"] = {"ops": {}, "runs": drv.get("runs", 0)}
        return
    sres = core.validate_trace("gf2/LanczosTrace.tla", "LanczosTrace.cfg", steps, group_key="case", timeout=3000,
                               weight=_lz_weight, tag="lanczos-steps")
    chk.add_tv(sres)
    sevs = core.read_ndjson(steps)
    revs = core.read_ndjson(lres)
    # binding demonstration on damaged copies of a recorded run
    # (a run that the specification already rejects somewhere is no basis for the self-test)
    pick, tam = _lz_tamper(sevs, exclude={rj["event"].get("case") for rj in sres["rejects"]})
    if pick is None:
        chk.notes.append("lanczos-steps: no recorded run suitable for the tamper self-test (accepted by the specification, 8..40 blocks, a freed block, a rank-deficient block)")
    else:
        tpath = os.path.join(w, "lsteps_tamper.ndjson")
        core.write_ndjson(tpath, tam)
        tres = core.validate_trace("gf2/LanczosTrace.tla", "LanczosTrace.cfg", tpath, group_key="case", timeout=3000,
                                   weight=_lz_weight, tag="lanczos-steps-selftest")
        got = {}
        for rj in tres["rejects"]:
            got.setdefault(rj["event"]["case"], set()).add((rj["kind"], rj["tag"]))
        ncopies = 0
        for e in tam:
            if "st_expect" not in e:
                continue
            ncopies += 1
            kind, tag = e["st_expect"]
            g = got.get(e["case"], set())
            ok = (not g) if kind == "none" else ((kind, tag) in g)
            if not ok:
                raise core.ToolError("LanczosTrace self-test: %s expected %s/%s, TLC said %s" % (e["case"], kind, tag, sorted(g)))
        chk.notes.append({"lanczos_steps_selftest": "recorded run %s copied %d times, each copy damaged in one field / one event dropped: "
                          "every copy rejected by the intended clause, the undamaged copy accepted" % (pick, ncopies)})
        chk.mc.append({"module": "LanczosTrace(selftest)", "cfg": "LanczosTrace.cfg", "generated": tres["states"],
                       "distinct": tres["states"], "wall_s": tres["wall_s"], "violated": []})
    # evidence
    ops = {}
    for e in sevs:
        ops[e["op"]] = ops.get(e["op"], 0) + 1
    its = [e for e in sevs if e["op"] == "lz_iter"]
    exits = [e for e in sevs if e["op"] == "lz_exit"]
    inits = [e for e in sevs if e["op"] == "lz_init"]

    def rk_class(e):
        return "0 (termination)" if e["rk"] == 0 else "64" if e["rk"] == 64 else "60..63" if e["rk"] >= 60 else "1..59"
    by_rk, by_proj = {}, {}
    for e in its:
        by_rk[rk_class(e)] = by_rk.get(rk_class(e), 0) + 1
        k = str(len(e["proj"]))
        by_proj[k] = by_proj.get(k, 0) + 1
    chk.cov["lanczos_steps"] = {
        "ops": ops,
        "runs": drv.get("runs", 0),
        "runs_by_columns": {k: sum(1 for e in inits if _size_class(e) == k) for k in sorted({_size_class(e) for e in inits})},
        "blocks_by_rank_of_selection": by_rk,
        "blocks_by_number_of_projections": by_proj,
        "blocks_with_matrices_checked": sum(1 for e in its if e.get("heavy")),
        "blocks_freed": sum(len(e["freed"]) for e in its),
        "max_blocks_in_a_run": max([e["blocks"] for e in exits] or [0]),
        "candidates_before_after_filtering": [sum(e["dimker"] for e in exits), sum(e["kept"] for e in exits)],
        "runs_with_null_candidates_filtered": sum(1 for e in exits if e["kept"] < e["dimker"]),
        "classical_inclusion_failures_noted": sum(1 for n in sres["notes"] if len(n) > 1 and n[1] == "classical-inclusion-fails"),
        "result_events": len(revs),
        "skipped_outside_domain": drv.get("lanczos_skipped_outside_domain", 0),
    }
    chk.count(revs, lambda e: None if ("outcome" in e or not e.get("k")) else
              (e["op"], hashlib.sha1(json.dumps([e["nrows"], e["m"]]).encode()).hexdigest()[:16]))
    big = max(exits, key=lambda e: e["blocks"], default=None)
    if big is not None:
        chk.sample({"op": "lz_exit", "case": big["case"], "blocks": big["blocks"], "candidates": big["dimker"], "kept": big["kept"]})
    chk.assumptions += [
        "lanczos-steps: the hooks of src/matrix/gf2.rs (cfg yamaquasi_verif) report the values the code computed (Gram matrices, masks, "
        "projected / freed blocks) and three products computed only for the record (Gram * inverse, pseudoinverse * masked Gram, "
        "W^T Q Y = 0); hexadecimal words are turned into lists of bit positions by the harness",
        "lanczos-steps: Lanczos.tla returns Y*k for EVERY non-zero k of ker(Mx*Y) (a superset of any basis kernel_gauss may pick); the "
        "pseudoinverse is modelled by its definition (unique), not by the elimination that computes it",
        "lanczos-steps: sampled configurations of Lanczos.tla draw matrices / initial blocks with RandomSubset under TLC's -seed "
        "(the check's seed for the models that must hold, seed 1 for the broken variants and reachability questions)",
    ]
