"""C14 - binary kernel solvers (dense Gauss, block Lanczos) return only genuine, non-zero dependencies;
Gauss returns an independent family of size ncols - rank."""
import copy
import hashlib
import json
import os
from .. import core

LEVEL = "model_checking"

RANK_MAX = 520          # must match RankMax in spec/gf2/Gf2Trace.cfg

FULL = ["MC_Gauss_0x3.cfg", "MC_Gauss_1x4.cfg", "MC_Gauss_5x2.cfg", "MC_Gauss_2x5.cfg", "MC_Gauss_3x4.cfg"]
QUICK = ["MC_Gauss_4x4.cfg", "MC_Gauss_3x5.cfg", "MC_Gauss_2x7.cfg", "MC_Gauss_3x6.cfg"]
THOROUGH = ["MC_Gauss_4x5.cfg", "MC_Gauss_5x4.cfg"]
EMIT = ["MC_Gauss_emit_3x4.cfg", "MC_Gauss_emit_4x3.cfg", "MC_Gauss_emit_2x5.cfg"]


def _weight(e):
    """rough TLC cost of an event: transposition + one pass over the rows per returned vector +
    the in-spec rank for matrices up to RANK_MAX columns"""
    entries = sum(len(c) for c in e.get("m", []))
    nv = len(e.get("k", [])) + len(e.get("wit", []))
    w = 200 + entries + nv * (e.get("nrows", 0) + entries // 8)
    if e.get("op") == "kernel_gauss" and e.get("ncols", 0) <= RANK_MAX:
        w += e["ncols"] * e["ncols"] * 8
    return w


def _size_class(e):
    c = e.get("ncols", 0)
    return "<=64" if c <= 64 else "65..%d" % RANK_MAX if c <= RANK_MAX else "%d..2000" % (RANK_MAX + 1) if c <= 2000 \
        else "2001..3500" if c <= 3500 else ">3500"


def _selftest_events():
    """Vacuity self-test of the trace specification: hand-written events (independent of the code under
    test), one valid and the others damaged so that exactly one clause should fire; TLC must reject each
    with the expected tag.  (Python only writes the inputs and compares tags; the judgement is TLC's.)"""
    # 3 x 5, rank 3: c0+c1+c2 = 0, c2+c3+c4 = 0
    m = [[0], [1], [0, 1], [2], [0, 1, 2]]
    good = {"op": "kernel_gauss", "nrows": 3, "ncols": 5, "m": m, "k": [[0, 1, 2], [2, 3, 4]], "priv": [0, 3]}
    out = []

    def add(name, kind, tag, **chg):
        e = copy.deepcopy(good)
        for f, v in chg.items():
            if v is None:
                e.pop(f, None)
            else:
                e[f] = v
        e["case"] = "selftest/" + name
        e["st_expect"] = [kind, tag]
        out.append(e)

    add("valid", "none", "")
    add("not-in-kernel", "strict", "kernel_gauss:nonzero-in-kernel", k=[[0, 1], [2, 3, 4]])
    add("zero-vector", "strict", "kernel_gauss:nonzero-in-kernel", k=[[], [2, 3, 4]], priv=None)
    add("index-range", "strict", "kernel_gauss:index-range", k=[[0, 1, 2, 5], [2, 3, 4]])
    add("repeated-index", "witness", "repeated-index", k=[[0, 1, 2, 2], [2, 3, 4]])
    add("count", "strict", "gauss:count", k=[[0, 1, 2]], priv=[0])
    add("count-bounds", "strict", "gauss:count-bounds", k=[], priv=[])
    add("dependent", "strict", "gauss:independent", k=[[0, 1, 2], [2, 3, 4], [0, 1, 3, 4]], priv=None, dep=[0, 1, 2])
    add("bad-dep", "witness", "dep-certificate", priv=None, dep=[0, 1])
    add("bad-priv", "witness", "priv-certificate", priv=[2, 3])
    add("no-certificate", "witness", "no-independence-certificate", priv=None)
    add("count-witness", "strict", "gauss:count-witness", k=[[0, 1, 2]], priv=[0], wit=[[0, 1, 2], [2, 3, 4]], wpriv=[0, 3])
    add("bad-count-witness", "witness", "wit-certificate", k=[[0, 1, 2]], priv=[0], wit=[[0, 1, 2], [2, 3]], wpriv=[0, 3])
    add("tri-ok", "none", "", priv=None, tri=[{"combo": [0, 1], "piv": 0}, {"combo": [1], "piv": 2}])
    add("bad-tri", "witness", "tri-certificate", priv=None, tri=[{"combo": [0], "piv": 2}, {"combo": [1], "piv": 3}])
    add("panic", "strict", "kernel_gauss:panic", k=None, priv=None, outcome="panic")
    add("timeout", "drift", "kernel_gauss:timeout", k=None, priv=None, outcome="timeout")
    add("bad-input", "witness", "input", m=[[0], [1], [0, 1], [2], [0, 1, 3]])
    add("model-agrees", "none", "", expect=[[0, 1, 2], [2, 3, 4]])
    add("model-differs", "drift", "gauss:model-result", expect=[[2, 3, 4], [0, 1, 2]])
    add("lanczos-valid", "none", "", op="kernel_lanczos", priv=None, k=[[0, 1, 2], [0, 1, 2], [0, 1, 3, 4]])
    add("lanczos-empty", "none", "", op="kernel_lanczos", priv=None, k=[])
    add("lanczos-not-in-kernel", "strict", "kernel_lanczos:nonzero-in-kernel", op="kernel_lanczos", priv=None, k=[[0, 1, 2], [1, 3]])
    add("lanczos-zero", "strict", "kernel_lanczos:nonzero-in-kernel", op="kernel_lanczos", priv=None, k=[[]])
    add("lanczos-panic", "strict", "kernel_lanczos:panic", op="kernel_lanczos", priv=None, k=None, outcome="panic")
    return out


def run(chk, replay=None):
    thorough = chk.tier == "thorough"
    w = core.workdir("c14")
    workers = min(8, core.NCPU)
    # (M) kernel_gauss as a state machine, started on every matrix of the given dimensions
    if not replay:
        for cfg in FULL + QUICK + (THOROUGH if thorough else []):
            r = core.model_check("gf2/Gf2Kernel.tla", cfg, workers=workers, timeout=3000)
            chk.add_mc(r)
    # (G) explicit small matrices with known corank, (I) abstract shapes of the random ones
    mats = os.path.join(w, "mats.ndjson")
    nmats, r = core.gen_shapes("gf2/Gf2Gen.tla", "Gf2Gen.cfg", mats)
    chk.add_mc(r)
    shapes = os.path.join(w, "shapes.ndjson")
    nshapes, r = core.gen_shapes("gf2/Gf2Shapes.tla", "Gf2Shapes_%s.cfg" % chk.tier, shapes)
    chk.add_mc(r)
    # (G) terminal behaviours of the model (every matrix of a few tiny dimensions + the model's result)
    model = os.path.join(w, "model.ndjson")
    beh = []
    for cfg in EMIT:
        r = core.model_check("gf2/Gf2Kernel.tla", cfg, workers=1, timeout=900)
        chk.add_mc(r)
        beh += [json.loads(t[1]) for t in core.tuples(r["out"], "REPLAY")]
    if not beh:
        raise core.ToolError("the model emitted no behaviours")
    core.write_ndjson(model, beh)
    # (V) the real code
    trace = os.path.join(w, "trace.ndjson")
    outp = core.run_driver(["c14", "--seed", chk.seed, "--tier", chk.tier, "--reps", 5 if thorough else 3,
                            "--mats", mats, "--model", model, "--shapes", shapes], trace, timeout=7000)
    drv = json.loads(outp.strip().splitlines()[-1])
    if replay:
        core.replay_filter(trace, replay)
        chk.notes.append("replay: kernel_lanczos draws system randomness, a replayed call need not return the same vectors")
    res = core.validate_trace("gf2/Gf2Trace.tla", "Gf2Trace.cfg", trace, timeout=3000, weight=_weight)
    chk.add_tv(res)
    evs = core.read_ndjson(trace)
    # vacuity self-test of the trace specification on damaged copies of recorded events
    if not replay:
        tam = _selftest_events()
        tpath = os.path.join(w, "tamper.ndjson")
        core.write_ndjson(tpath, tam)
        tres = core.validate_trace("gf2/Gf2Trace.tla", "Gf2Trace.cfg", tpath, shards=1, tag="Gf2Trace-selftest")
        got = {}
        for rj in tres["rejects"]:
            got.setdefault(rj["i"], set()).add((rj["kind"], rj["tag"]))
        for i, e in enumerate(tam, 1):
            kind, tag = e["st_expect"]
            g = got.get(i, set())
            ok = (not g) if kind == "none" else ((kind, tag) in g)
            if not ok:
                raise core.ToolError("trace spec self-test: %s expected %s/%s, TLC said %s" % (e["case"], kind, tag, sorted(g)))
        chk.notes.append({"trace_spec_selftest": "%d hand-written events (valid and damaged), each judged by the intended clause" % len(tam)})
        chk.mc.append({"module": "Gf2Trace(selftest)", "cfg": "Gf2Trace.cfg", "generated": tres["states"],
                       "distinct": tres["states"], "wall_s": tres["wall_s"], "violated": []})

    def key(e):
        if "outcome" in e or not e.get("k"):
            return None
        return (e["op"], hashlib.sha1(json.dumps([e["nrows"], e["m"]]).encode()).hexdigest()[:16])
    chk.count(evs, key)
    chk.rule = ("Gauss: every explicit matrix printed by Gf2Gen.tla (<= 64 columns, known corank: zero, identity, full, staircase, "
                "duplicates, highest/lowest-bit edge columns around word sizes, Sylvester-type, planted combinations) and one seeded "
                "random matrix per shape of Gf2Shapes.tla (rows x columns x planted corank x density profile sieve/uniform/dense x "
                "zero/duplicate columns; tiny grid, word/SIMD-block edge sizes, 1000..%d columns); Lanczos: %d runs of every "
                "Lanczos shape (128..%d rows, rank >= 100). Non-trivial = the call returned at least one vector; distinct by "
                "(routine, matrix)." % (6000 if thorough else 3000, 5 if thorough else 3, 6000 if thorough else 3000))
    chk.cov["generated_matrices"] = nmats
    chk.cov["model_behaviours_replayed"] = len(beh)
    chk.cov["shapes"] = nshapes
    chk.cov["lanczos_shapes_skipped_outside_domain"] = drv.get("lanczos_skipped_outside_domain", 0)
    ops, sizes, coranks, vecs = {}, {}, {}, {}
    for e in evs:
        ops[e["op"]] = ops.get(e["op"], 0) + 1
        sk = "%s %s" % (e["op"], _size_class(e))
        sizes[sk] = sizes.get(sk, 0) + 1
        if "k" in e:
            vecs[e["op"]] = vecs.get(e["op"], 0) + len(e["k"])
        if e["op"] == "kernel_gauss" and "k" in e:
            n = len(e["k"])
            ck = "0" if n == 0 else "1" if n == 1 else "2..9" if n < 10 else "10..49" if n < 50 else "50..99" if n < 100 else ">=100"
            coranks[ck] = coranks.get(ck, 0) + 1
    chk.cov["ops"] = ops
    chk.cov["events_by_size_class"] = sizes
    chk.cov["gauss_events_by_returned_family_size"] = coranks
    chk.cov["vectors_checked"] = vecs
    chk.cov["certificates"] = {c: sum(1 for e in evs if c in e) for c in ("priv", "dep", "tri", "wit")}
    chk.cov["max_ncols"] = max(e["ncols"] for e in evs)
    seen_cls = set()
    for e in sorted(evs, key=lambda e: -e["ncols"]):
        cls = (e["op"], _size_class(e), str(e["case"]).split("/")[0])
        if cls in seen_cls or not e.get("k"):
            continue
        seen_cls.add(cls)
        chk.sample({"op": e["op"], "case": e["case"], "shape": e.get("shape"), "nrows": e["nrows"], "ncols": e["ncols"],
                    "returned_vectors": len(e.get("k", [])), "first_vector_weight": len(e["k"][0])})
    chk.assumptions += [
        "TLC, SANY, CommunityModules Json/IOUtils/SequencesExt (FoldLeft)",
        "the harness's encoding of matrices (lists of row indices per column -> the library's bit vectors / SparseMat) and of "
        "returned bit vectors (-> lists of set positions)",
        "Gf2 Part 2 (transposition fold, elimination rank) agrees with the definitions: model-checked on every matrix of the "
        "small configurations (invariant Part2Agrees)",
        "preconditions: at least one column, equal column lengths, duplicate-free row lists; kernel_lanczos only on matrices "
        "with >= 128 rows and rank >= 100 (its first step does not terminate when the rank is not well above the block size 64)",
        "|K| = ncols - rank is computed by the spec up to %d columns; above, TLC checks ncols - nrows <= |K|, independence "
        "(=> |K| <= ncols - rank) and any larger independent kernel family the harness's own elimination finds (none found => "
        "equality rests on that elimination not missing one)" % RANK_MAX,
    ]
    chk.notes.append("a call that does not return before the deadline (300 s; normal < 5 s; after two such calls no further Lanczos call is made) is reported as drift, not as a violation: "
                     "the property speaks about returned vectors")
