"""C14 - binary kernel solvers (dense Gauss, block Lanczos) return only genuine, non-zero dependencies;
Gauss returns an independent family of size ncols - rank."""
import copy
import hashlib
import json
import os
from .. import core

LEVEL = "model_checking"

RANK_MAX = 520          # must match RankMax in spec/gf2/Gf2Trace.cfg

FULL = ["MC_Gauss_0x3.cfg", "MC_Gauss_1x4.cfg", "MC_Gauss_5x2.cfg", "MC_Gauss_2x5.cfg", "MC_Gauss_3x4.cfg"]
QUICK = ["MC_Gauss_4x4.cfg", "MC_Gauss_3x5.cfg", "MC_Gauss_2x7.cfg", "MC_Gauss_3x6.cfg"]
THOROUGH = ["MC_Gauss_4x5.cfg", "MC_Gauss_5x4.cfg"]


def _weight(e):
    """rough TLC cost of an event: transposition + one pass over the rows per returned vector +
    the in-spec rank for matrices up to RANK_MAX columns"""
    entries = sum(len(c) for c in e.get("m", []))
    nv = len(e.get("k", [])) + len(e.get("wit", []))
    w = 200 + entries + nv * (e.get("nrows", 0) + entries // 8)
    if e.get("op") == "kernel_gauss" and e.get("ncols", 0) <= RANK_MAX:
        w += e["ncols"] * e["ncols"] * 8
    return w


def _size_class(e):
    c = e.get("ncols", 0)
    return "<=64" if c <= 64 else "65..%d" % RANK_MAX if c <= RANK_MAX else "%d..2000" % (RANK_MAX + 1) if c <= 2000 \
        else "2001..3500" if c <= 3500 else ">3500"


def _tamper(evs):
    """Vacuity self-test of the trace specification: small recorded events are damaged in ways that
    break exactly one clause each; TLC must reject every one of them with the expected tag.  (Python
    only prepares the inputs and compares tags; the judgement is TLC's.)"""
    def pick(pred):
        for e in evs:
            if "outcome" not in e and e["ncols"] <= 40 and pred(e):
                return copy.deepcopy(e)
        return None

    out = []

    def add(e, name, kind, tag):
        if e is None:
            raise core.ToolError("self-test: no recorded event suitable for tamper case %s" % name)
        e["case"] = "selftest/" + name
        e["expect"] = [kind, tag]
        out.append(e)

    g = lambda e: e["op"] == "kernel_gauss"
    # 1 a vector outside the kernel: toggle a column with a non-empty row list in vector 0
    e = pick(lambda e: g(e) and len(e["k"]) >= 2 and any(len(c) > 0 for c in e["m"]))
    if e:
        j = next(j for j, c in enumerate(e["m"]) if c)
        v = set(e["k"][0])
        v ^= {j}
        e["k"][0] = sorted(v)
        if not e["k"][0]:
            e["k"][0] = [j]
    add(e, "not-in-kernel", "strict", "kernel_gauss:nonzero-in-kernel")
    # 2 a zero vector
    e = pick(lambda e: g(e) and len(e["k"]) >= 1)
    if e:
        e["k"][0] = []
        e.pop("priv", None)
    add(e, "zero-vector", "strict", "kernel_gauss:nonzero-in-kernel")
    # 3 index out of range
    e = pick(lambda e: g(e) and len(e["k"]) >= 1)
    if e:
        e["k"][0] = e["k"][0] + [e["ncols"]]
    add(e, "index-range", "strict", "kernel_gauss:index-range")
    # 4 one vector missing: count clause (rank computed by the spec)
    e = pick(lambda e: g(e) and len(e["k"]) >= 2 and "priv" in e)
    if e:
        e["k"].pop()
        e["priv"].pop()
    add(e, "count", "strict", "gauss:count")
    # 5 dependent family with a dependency certificate: vector 0 replaced by the sum of vectors 1 and 2
    e = pick(lambda e: g(e) and len(e["k"]) >= 3)
    if e:
        e["k"][0] = sorted(set(e["k"][1]) ^ set(e["k"][2]))
        e.pop("priv", None)
        e["dep"] = [0, 1, 2]
    add(e, "dependent", "strict", "gauss:independent")
    # 6 a wrong dependency certificate is a witness matter
    e = pick(lambda e: g(e) and len(e["k"]) >= 2)
    if e:
        e.pop("priv", None)
        e["dep"] = [0, 1]
    add(e, "bad-dep", "witness", "dep-certificate")
    # 7 a wrong private-coordinate certificate is a witness matter
    e = pick(lambda e: g(e) and len(e["k"]) >= 2 and "priv" in e)
    if e:
        e["priv"][0] = e["priv"][1]
    add(e, "bad-priv", "witness", "priv-certificate")
    # 8 counter-witness: drop a vector and hand the full family in as witness
    e = pick(lambda e: g(e) and len(e["k"]) >= 2 and "priv" in e)
    if e:
        e["wit"], e["wpriv"] = copy.deepcopy(e["k"]), list(e["priv"])
        e["k"].pop()
        e["priv"].pop()
    add(e, "count-witness", "strict", "gauss:count-witness")
    # 9 general (triangular) independence certificate accepted: no reject expected
    e = pick(lambda e: g(e) and len(e["k"]) >= 2 and "priv" in e)
    if e:
        p = e.pop("priv")
        e["tri"] = [{"combo": [i], "piv": p[i]} for i in range(len(p))]
    add(e, "tri-ok", "none", "")
    # 10 ... and a wrong one rejected as witness
    e = pick(lambda e: g(e) and len(e["k"]) >= 2 and "priv" in e)
    if e:
        p = e.pop("priv")
        e["tri"] = [{"combo": [i], "piv": p[0]} for i in range(len(p))]
    add(e, "bad-tri", "witness", "tri-certificate")
    # 11 panic
    e = pick(g)
    if e:
        e.pop("k")
        e["outcome"] = "panic"
    add(e, "panic", "strict", "kernel_gauss:panic")
    # 12 more columns than rows + kernel: bound clause (keep the matrix, drop all vectors)
    e = pick(lambda e: g(e) and e["ncols"] > e["nrows"] and len(e["k"]) >= 1)
    if e:
        e["k"], e["priv"] = [], []
    add(e, "count-bounds", "strict", "gauss:count-bounds")
    # Lanczos events: the smallest recorded one, damaged the same way
    lz = [x for x in evs if x["op"] == "kernel_lanczos" and "outcome" not in x and x.get("k")]
    if lz:
        base = min(lz, key=lambda x: x["ncols"])
        e = copy.deepcopy(base)
        j = next(j for j, c in enumerate(e["m"]) if c)
        e["k"] = [sorted(set(e["k"][0]) ^ {j})] or [[j]]
        add(e, "lanczos-not-in-kernel", "strict", "kernel_lanczos:nonzero-in-kernel")
        e = copy.deepcopy(base)
        e["k"] = [[]]
        add(e, "lanczos-zero", "strict", "kernel_lanczos:nonzero-in-kernel")
    return out


def run(chk, replay=None):
    thorough = chk.tier == "thorough"
    w = core.workdir("c14")
    workers = min(8, core.NCPU)
    # (M) kernel_gauss as a state machine, started on every matrix of the given dimensions
    if not replay:
        for cfg in FULL + QUICK + (THOROUGH if thorough else []):
            r = core.model_check("gf2/Gf2Kernel.tla", cfg, workers=workers, timeout=3000)
            chk.add_mc(r)
    # (G) explicit small matrices with known corank, (I) abstract shapes of the random ones
    mats = os.path.join(w, "mats.ndjson")
    nmats, r = core.gen_shapes("gf2/Gf2Gen.tla", "Gf2Gen.cfg", mats)
    chk.add_mc(r)
    shapes = os.path.join(w, "shapes.ndjson")
    nshapes, r = core.gen_shapes("gf2/Gf2Shapes.tla", "Gf2Shapes_%s.cfg" % chk.tier, shapes)
    chk.add_mc(r)
    # (V) the real code
    trace = os.path.join(w, "trace.ndjson")
    outp = core.run_driver(["c14", "--seed", chk.seed, "--tier", chk.tier, "--reps", 5 if thorough else 3,
                            "--mats", mats, "--shapes", shapes], trace, timeout=7000)
    drv = json.loads(outp.strip().splitlines()[-1])
    if replay:
        core.replay_filter(trace, replay)
        chk.notes.append("replay: kernel_lanczos draws system randomness, a replayed call need not return the same vectors")
    res = core.validate_trace("gf2/Gf2Trace.tla", "Gf2Trace.cfg", trace, timeout=3000, weight=_weight, xmx="4g")
    chk.add_tv(res)
    evs = core.read_ndjson(trace)
    # vacuity self-test of the trace specification on damaged copies of recorded events
    if not replay:
        tam = _tamper(evs)
        tpath = os.path.join(w, "tamper.ndjson")
        core.write_ndjson(tpath, tam)
        tres = core.validate_trace("gf2/Gf2Trace.tla", "Gf2Trace.cfg", tpath, shards=1, tag="Gf2Trace-selftest")
        got = {}
        for rj in tres["rejects"]:
            got.setdefault(rj["i"], set()).add((rj["kind"], rj["tag"]))
        for i, e in enumerate(tam, 1):
            kind, tag = e["expect"]
            g = got.get(i, set())
            ok = (not g) if kind == "none" else ((kind, tag) in g)
            if not ok:
                raise core.ToolError("trace spec self-test: %s expected %s/%s, TLC said %s" % (e["case"], kind, tag, sorted(g)))
        chk.notes.append({"trace_spec_selftest": "%d damaged events, each rejected by the intended clause" % len(tam)})
        chk.mc.append({"module": "Gf2Trace(selftest)", "cfg": "Gf2Trace.cfg", "generated": tres["states"],
                       "distinct": tres["states"], "wall_s": tres["wall_s"], "violated": []})

    def key(e):
        if "outcome" in e or not e.get("k"):
            return None
        return (e["op"], hashlib.sha1(json.dumps([e["nrows"], e["m"]]).encode()).hexdigest()[:16])
    chk.count(evs, key)
    chk.rule = ("Gauss: every explicit matrix printed by Gf2Gen.tla (<= 64 columns, known corank: zero, identity, full, staircase, "
                "duplicates, highest/lowest-bit edge columns around word sizes, Sylvester-type, planted combinations) and one seeded "
                "random matrix per shape of Gf2Shapes.tla (rows x columns x planted corank x density profile sieve/uniform/dense x "
                "zero/duplicate columns; tiny grid, word/SIMD-block edge sizes, 1000..%d columns); Lanczos: %d runs of every "
                "Lanczos shape (128..%d rows, rank >= 100). Non-trivial = the call returned at least one vector; distinct by "
                "(routine, matrix)." % (6000 if thorough else 3000, 5 if thorough else 3, 6000 if thorough else 3000))
    chk.cov["generated_matrices"] = nmats
    chk.cov["shapes"] = nshapes
    chk.cov["lanczos_shapes_skipped_outside_domain"] = drv.get("lanczos_skipped_outside_domain", 0)
    ops, sizes, coranks, vecs = {}, {}, {}, {}
    for e in evs:
        ops[e["op"]] = ops.get(e["op"], 0) + 1
        sk = "%s %s" % (e["op"], _size_class(e))
        sizes[sk] = sizes.get(sk, 0) + 1
        if "k" in e:
            vecs[e["op"]] = vecs.get(e["op"], 0) + len(e["k"])
        if e["op"] == "kernel_gauss" and "k" in e:
            n = len(e["k"])
            ck = "0" if n == 0 else "1" if n == 1 else "2..9" if n < 10 else "10..49" if n < 50 else "50..99" if n < 100 else ">=100"
            coranks[ck] = coranks.get(ck, 0) + 1
    chk.cov["ops"] = ops
    chk.cov["events_by_size_class"] = sizes
    chk.cov["gauss_events_by_returned_family_size"] = coranks
    chk.cov["vectors_checked"] = vecs
    chk.cov["certificates"] = {c: sum(1 for e in evs if c in e) for c in ("priv", "dep", "tri", "wit")}
    chk.cov["max_ncols"] = max(e["ncols"] for e in evs)
    for e in evs[:: max(1, len(evs) // 5)]:
        chk.sample({"op": e["op"], "case": e["case"], "shape": e.get("shape"), "nrows": e["nrows"], "ncols": e["ncols"],
                    "returned_vectors": len(e.get("k", []))})
    chk.assumptions += [
        "TLC, SANY, CommunityModules Json/IOUtils/SequencesExt (FoldLeft)",
        "the harness's encoding of matrices (lists of row indices per column -> the library's bit vectors / SparseMat) and of "
        "returned bit vectors (-> lists of set positions)",
        "Gf2 Part 2 (transposition fold, elimination rank) agrees with the definitions: model-checked on every matrix of the "
        "small configurations (invariant Part2Agrees)",
        "preconditions: at least one column, equal column lengths, duplicate-free row lists; kernel_lanczos only on matrices "
        "with >= 128 rows and rank >= 100 (its first step does not terminate when the rank is not well above the block size 64)",
        "|K| = ncols - rank is computed by the spec up to %d columns; above, TLC checks ncols - nrows <= |K|, independence "
        "(=> |K| <= ncols - rank) and any larger independent kernel family the harness's own elimination finds (none found => "
        "equality rests on that elimination not missing one)" % RANK_MAX,
    ]
    chk.notes.append("a call that does not return before the deadline (1800 s; normal < 5 s) is reported as drift, not as a violation: "
                     "the property speaks about returned vectors")
