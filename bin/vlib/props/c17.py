"""C17 - prime enumeration is exact and smoothness exponents cover every prime power."""
import concurrent.futures as cf
import os
from .. import core

LEVEL = "model_checking"


def _weight(e):
    op = e["op"]
    if op in ("primes_chunk", "sieve_block"):
        return 40 if e.get("b", 0) >= 1 else 3
    if op in ("smooth", "pm1_blocks", "pm1base"):
        b1 = e.get("b1", 0)
        return 3 + b1 // 1500 + (40 if b1 > 65536 else 0)
    return 1


def run(chk, replay=None):
    thorough = chk.tier == "thorough"
    w = core.workdir("c17")
    core.build_harness()
    tier = "thorough" if thorough else "quick"
    # (M) models run in the background while the trace is recorded and validated
    pool = cf.ThreadPoolExecutor(max_workers=2)
    f_sieve = pool.submit(core.model_check, "primes/PrimeSieveModel.tla", "MC_Sieve_%s.cfg" % tier, 2, 1500)
    f_bound = pool.submit(core.model_check, "primes/PrimesBound.tla", "MC_Bound_%s.cfg" % tier, 1, 1700)
    # (V) real code
    trace = os.path.join(w, "trace.ndjson")
    core.run_driver(["c17", "--seed", chk.seed, "--tier", tier], trace, timeout=1500)
    if replay:
        core.replay_filter(trace, replay)
    res = core.validate_trace("primes/PrimesTrace.tla", "PrimesTrace.cfg", trace, timeout=1700, weight=_weight)
    chk.add_tv(res)
    for f in (f_sieve, f_bound):
        r = f.result()
        chk.add_mc(r)
        for t in core.tuples(r["out"], "REACH"):
            chk.notes.append({"model": r["cfg"], "reach": t[1:]})
    evs = core.read_ndjson(trace)

    def key(e):
        op = e["op"]
        if op in ("primes", "primes_chunk"):
            return None if e["k"] <= 2 else (op, e.get("src"), e["k"], e.get("b"))
        if op in ("sieve_block", "sieve_end"):
            return (op, e["b"])
        return None if e.get("b1", 0) < 8 else (op, e.get("b1"), e.get("use_large"))
    chk.count(evs, key)
    chk.rule = ("primes(k) for every k of a fixed list (all small k, both sides of every power of two, 6542, 10^5, seeded extras); "
                "PrimeSieve::next() for a fixed list of call numbers (first, last, middle, around 2^8/2^10/2^15/2^16, seeded extras) "
                "and the calls after the last block; SmoothBase::new(B1, use_large), the stage-1 blocks of pm1_impl(B1) and "
                "PM1Base::new() for every B1 of 4..300 and both sides of the 4096 / 65536 thresholds; non-trivial = k > 2 resp. "
                "B1 >= 8; distinct by (operation, k or block number or (B1, use_large))")
    chk.cov["ops"] = {}
    for e in evs:
        chk.cov["ops"][e["op"]] = chk.cov["ops"].get(e["op"], 0) + 1
    picks = [e for e in evs if (e["op"], e.get("k"), e.get("b"), e.get("b1")) in
             (("primes", 100000, None, None), ("sieve_block", None, 65535, None), ("smooth", None, None, 65537),
              ("pm1_blocks", None, None, 4096), ("primes_chunk", 100000, 19, None))]
    for e in picks[:6]:
        chk.sample({k: e[k] for k in e if k in ("op", "case", "k", "b", "b1", "use_large", "len", "n64", "n1024", "first", "lastv")})
    chk.assumptions += ["TLC, SANY, CommunityModules", "spec/lib/BigNat (self-tested)",
                        "spec/primes/SieveDefs17: the specification's own primes (definition-level sieve, cross-checked against trial "
                        "division by ASSUME on 0..2000 and 64000..65535)",
                        "harness: cutting a returned list into runs of equal value div 2^16 and logging offsets; base-4096 digit encoding",
                        "hooks ecm::vhook_smooth, pollard_pm1::vhook_smooth and the three pm1_blk events return the values the code uses",
                        "B1 >= 4 (pm1_impl asserts B1 > 3); n for pm1_impl is a safe prime so stage 1 is never cut short"]
