"""C17 - prime enumeration is exact and smoothness exponents cover every prime power."""
import concurrent.futures as cf
import os
from .. import core

LEVEL = "model_checking"


def _weight(e):
    op = e["op"]
    if op in ("primes_chunk", "sieve_block"):
        return 40 if e.get("b", 0) >= 1 else 3
    if op in ("smooth", "pm1_blocks", "pm1base"):
        b1 = e.get("b1", 0)
        return 3 + b1 // 1500 + (40 if b1 > 65536 else 0)
    return 1


def run(chk, replay=None):
    thorough = chk.tier == "thorough"
    w = core.workdir("c17")
    core.build_harness()
    tier = "thorough" if thorough else "quick"
    # (M) models run in the background while the trace is recorded and validated
    pool = cf.ThreadPoolExecutor(max_workers=2)
    f_sieve = pool.submit(core.model_check, "primes/PrimeSieveModel.tla", "MC_Sieve_%s.cfg" % tier, 2, 1500)
    f_bound = pool.submit(core.model_check, "primes/PrimesBound.tla", "MC_Bound_%s.cfg" % tier, 1, 1700)
    # (V) real code
    trace = os.path.join(w, "trace.ndjson")
    core.run_driver(["c17", "--seed", chk.seed, "--tier", tier], trace, timeout=1500)
    if replay:
        core.replay_filter(trace, replay)
    res = core.validate_trace("primes/PrimesTrace.tla", "PrimesTrace.cfg", trace, timeout=1700, weight=_weight)
    chk.add_tv(res)
    for f in (f_sieve, f_bound):
        r = f.result()
        chk.add_mc(r)
        for t in core.tuples(r["out"], "REACH"):
            chk.notes.append({"model": r["cfg"], "reach": t[1:]})
    # ---- BEGIN inductive block (growth item "ind": unbounded results, thorough tier only) ----
    if thorough and not replay:
        _inductive(chk)
    # ---- END inductive block ----
    evs = core.read_ndjson(trace)

    def key(e):
        op = e["op"]
        if op in ("primes", "primes_chunk"):
            return None if e["k"] <= 2 else (op, e.get("src"), e["k"], e.get("b"))
        if op in ("sieve_block", "sieve_end"):
            return (op, e["b"])
        return None if e.get("b1", 0) < 8 else (op, e.get("b1"), e.get("use_large"))
    chk.count(evs, key)
    chk.rule = ("primes(k) for every k of a fixed list (all small k, both sides of every power of two, 6542, 10^5, seeded extras); "
                "PrimeSieve::next() for a fixed list of call numbers (first, last, middle, around 2^8/2^10/2^15/2^16, seeded extras) "
                "and the calls after the last block; SmoothBase::new(B1, use_large), the stage-1 blocks of pm1_impl(B1) and "
                "PM1Base::new() for every B1 of 4..300 and both sides of the 4096 / 65536 thresholds; non-trivial = k > 2 resp. "
                "B1 >= 8; distinct by (operation, k or block number or (B1, use_large))")
    chk.cov["ops"] = {}
    for e in evs:
        chk.cov["ops"][e["op"]] = chk.cov["ops"].get(e["op"], 0) + 1
    picks = [e for e in evs if (e["op"], e.get("k"), e.get("b"), e.get("b1")) in
             (("primes", 100000, None, None), ("sieve_block", None, 65535, None), ("smooth", None, None, 65537),
              ("pm1_blocks", None, None, 4096), ("primes_chunk", 100000, 19, None))]
    for e in picks[:6]:
        chk.sample({k: e[k] for k in e if k in ("op", "case", "k", "b", "b1", "use_large", "len", "n64", "n1024", "first", "lastv")})
    chk.assumptions += ["TLC, SANY, CommunityModules", "spec/lib/BigNat (self-tested)",
                        "spec/primes/SieveDefs17: the specification's own primes (definition-level sieve, cross-checked against trial "
                        "division by ASSUME on 0..2000 and 64000..65535)",
                        "harness: cutting a returned list into runs of equal value div 2^16 and logging offsets; base-4096 digit encoding",
                        "hooks ecm::vhook_smooth, pollard_pm1::vhook_smooth and the three pm1_blk events return the values the code uses",
                        "B1 >= 4 (pm1_impl asserts B1 > 3); n for pm1_impl is a safe prime so stage 1 is never cut short"]


# ---- BEGIN inductive block (growth item "ind") ----
def _inductive(chk):
    """OffsetInv / InBounds of the rolling-offsets sieve for EVERY block width, block count and list of moduli:
    TLAPS proof (PrimeSieveProofs.tla) of the restated model PrimeSieveInd.tla, TLC link of the restatement to
    PrimeSieveModel.tla, Apalache runs on concrete moduli and counterexamples / failed proofs for the broken variants.
    Anything unexpected here is a tool error (exit 2), never a violation."""
    if not core.ind_enabled():
        chk.notes.append("inductive block skipped (VERIF_NO_IND=1)")
        return
    ind = {"claim": "PrimeSieveInd!IndInv (TypeOK, PhaseInv, LoopInv, OffsetInv, InBounds) is inductive for every width w >= 1, "
                    "every block count, every NP and all moduli P[k] >= 1 (TLAPS); PrimeSieveModel's steps are steps of "
                    "PrimeSieveInd and IndInv holds on its reachable states (TLC, widths 4 9 16 17 25 32)",
           "runs": []}
    # the restatement is linked to the model the check uses
    for wd in (4, 9, 16, 17, 25, 32):
        chk.add_mc(core.model_check("primes/MC_PrimeSieveInd.tla", "MC_PrimeSieveInd_%d.cfg" % wd, workers=2, timeout=600))
    # the proof, and its non-vacuity (same scripts on `while o <= len` and on initial offsets p - w mod p)
    ind["runs"].append(core.ind_expect(core.tlapm("primes/PrimeSieveProofs.tla", timeout=900), "ok", "PrimeSieveProofs"))
    bad = core.ind_expect(core.tlapm("primes/PrimeSieveProofsBad.tla", timeout=900, retries=0), "failed", "PrimeSieveProofsBad")
    if bad["failed"] < 2:
        raise core.ToolError("PrimeSieveProofsBad: %d failed obligations, expected both false claims to fail" % bad["failed"])
    ind["runs"].append(bad)
    # Apalache (moduli 2 3 5 7): base case for a symbolic width, step for width 60 and any block count; the broken
    # variants give counterexamples
    A = "primes/PrimeSieveInd.tla"
    for kw, want in ((dict(init="Init", length=0), "ok"),
                     (dict(init="IndInit60", length=1), "ok"),
                     (dict(init="InitBad", length=0), "counterexample"),
                     (dict(init="IndInit60", next="NextBad", length=1), "counterexample")):
        ind["runs"].append(core.ind_expect(core.apalache(A, "IndInv", cinit="CInitSmall", timeout=900, **kw), want,
                                           "PrimeSieveInd %s" % kw))
    chk.cov["inductive"] = ind
    chk.notes.append("inductive: OffsetInv/InBounds proved for all widths (tlapm, %d obligations, %.0fs)" %
                     (ind["runs"][0]["obligations"], ind["runs"][0]["wall_s"]))
    chk.assumptions.append("tlapm (Z3, Zenon, Isabelle, PTL back ends) and apalache-mc/Z3 for the unbounded offsets invariant; "
                           "PrimeSieveInd.tla restates PrimeSieveModel.tla (linked by TLC: MC_PrimeSieveInd.tla)")
# ---- END inductive block ----
