"""C04 - results do not depend on thread count or thread interleaving."""
import concurrent.futures as cf
import os
from .. import core
from .c05 import run_sharded, sim_stats

LEVEL = "model_checking"

HOLD = ["MC_SieveProto_par.cfg", "MC_SieveProto_needle.cfg", "MC_SieveProto_live.cfg", "MC_SieveProto_mpqs.cfg",
        "MC_SieveProto_seq.cfg", "MC_SieveProto_oldtest_needgt.cfg", "MC_SieveProto_hazard_weak.cfg"]
# reachability / non-vacuity: the invariant named in the config is expected to be VIOLATED
EXPECT = {"MC_SieveProto_hazard.cfg": ("NoSpuriousPanic", "code before the fix (final test on the gap atomic) with Need <= FB: a stale non-zero gap "
                                       "stored after another worker's gap = 0 / done makes Finalize panic although enough relations exist; "
                                       "reproduced on the real code by the ReadGap gate, fixed in /repo (final test now reads done)"),
          "MC_SieveProto_nolock.cfg": ("NoLostInsert", "model mutation: inserts without the write lock lose updates (the lock is what NoLostInsert rests on)"),
          "MC_SieveProto_nolock_excl.cfg": ("WriterExclusive", "model mutation: without the lock two threads are inside RelationSet::add")}


def models(chk, thorough):
    def mc(c):
        return core.model_check("sieveproto/SieveProto.tla", c, workers=2, timeout=1500, expect_error=c in EXPECT)
    with cf.ThreadPoolExecutor(max_workers=max(1, core.NCPU // 2)) as ex:
        for r in ex.map(mc, HOLD + list(EXPECT)):
            if r["cfg"] in EXPECT:
                inv, what = EXPECT[r["cfg"]]
                chk.add_mc(r, invariants_expected_to_hold=False)
                if inv not in r["violated"]:
                    raise core.ToolError("model %s: expected TLC to reach a violation of %s" % (r["cfg"], inv))
                chk.notes.append({"model": r["cfg"], "violates_as_expected": inv, "meaning": what})
            else:
                chk.add_mc(r)
    if thorough:
        chk.add_mc(core.model_check("sieveproto/SieveProto.tla", "MC_SieveProto_par_big.cfg", workers=4, timeout=1700))
        chk.add_mc(sim_stats(core.model_check("sieveproto/SieveProto.tla", "MC_SieveProto_w3.cfg", workers=4, timeout=1500,
                                              extra=["-simulate", "num=5000", "-depth", "400"])))


def replay_keep(trace, replay):
    want = replay["event"]
    evs = core.read_ndjson(trace)
    keep = [e for e in evs if e.get("case") == want.get("case") and
            (e["op"] == "input" or (e["op"] == "run" and e.get("bkey") == want.get("bkey") and
                                    (e.get("base") or (e.get("threads") == want.get("threads") and e.get("pert") == want.get("pert")))))]
    if not any(e["op"] == "run" and not e.get("base") for e in keep):
        raise core.ToolError("replay: case %r not produced any more by the driver" % (want.get("run"),))
    core.write_ndjson(trace, keep)


def run(chk, replay=None):
    thorough = chk.tier == "thorough"
    w = core.workdir("c04")
    if not replay:
        models(chk, thorough)
        # ---- BEGIN inductive block (growth item "ind": unbounded results, thorough tier only) ----
        if thorough:
            _inductive(chk)
        # ---- END inductive block ----
    extra = ["--only", replay["event"]["case"]] if replay else []
    trace = run_sharded("c04", chk, w, extra)
    if replay:
        replay_keep(trace, replay)
    res = core.validate_trace("sieveproto/SieveProtoTrace.tla", "SieveProtoTrace.cfg", trace, group_key="case", timeout=1700,
                              weight=lambda e: 2000 + len(e.get("evs", [])))
    chk.add_tv(res)
    evs = core.read_ndjson(trace)
    # the same protocol in the checked build profile (debug assertions of the relation store and of the sieves, overflow
    # checks) on the small inputs, where a pool worker meets the ends of the polynomial supply
    if not replay or replay["event"].get("profile") == "relcheck":
        w2 = core.workdir("c04", "relcheck")
        trace2 = run_sharded("c04", chk, w2, list(extra) + ["--maxbits", 66, "--sels", "Siqs,Mpqs,Qs"], profile="relcheck")
        if replay:
            replay_keep(trace2, replay)
        evs2 = core.read_ndjson(trace2)
        for e in evs2:
            e["profile"] = "relcheck"
            if "run" in e:
                e["run"] = "%s/relcheck" % e["run"]
        core.write_ndjson(trace2, evs2)
        res2 = core.validate_trace("sieveproto/SieveProtoTrace.tla", "SieveProtoTrace.cfg", trace2, group_key="case", timeout=1700,
                                   weight=lambda e: 2000 + len(e.get("evs", [])), tag="SieveProtoTrace-relcheck")
        chk.add_tv(res2)
        chk.cov["runs_in_checked_profile"] = sum(1 for e in evs2 if e["op"] == "run")
        if not replay:
            evs = evs + evs2
        else:
            evs = evs2
    runs = [e for e in evs if e["op"] == "run"]
    # non-trivial: a run with a pool (>= 2 threads) in which at least two threads inserted relations or ran units
    def key(e):
        if e["op"] != "run" or e["threads"] < 2:
            return None
        tids = {x[1] for x in e["evs"] if x[0] in (7, 16)}
        return (e["run"],) if len(tids) >= 2 else None
    chk.count(evs, key)
    chk.rule = ("runs of factor() on products of certified primes (48-100 bits, 2-3 factors) x selector Siqs/Mpqs/Qs/Ecm/Auto x preference variant "
                "(default; double large primes + large_factor 40; no large primes; oversized factor bases) x threads in {none,1,2,3,4,8,16} x "
                "schedule perturbation (seeded random yields/sleeps at the sched points; gates: ReadGap->StoreDone, writer held for k readers, "
                "task check->StoreDone); non-trivial = pool run where >= 2 threads started units or inserted relations; distinct by run")
    cells, perts, codes = {}, {}, {}
    for e in runs:
        c = cells.setdefault("%s/t%d" % (e["alg"], e["threads"]), 0)
        cells["%s/t%d" % (e["alg"], e["threads"])] = c + 1
        perts[e["pert"]] = perts.get(e["pert"], 0) + 1
        for x in e["evs"]:
            codes[x[0]] = codes.get(x[0], 0) + 1
    names = {1: "stage", 2: "stage2", 3: "task", 4: "task_skip", 5: "pre_poll", 6: "poll", 7: "unit_start", 8: "unit_end", 9: "unit_interrupt",
             10: "poly", 11: "r_len", 12: "r_gap", 13: "st_gap", 14: "st_done", 15: "st_target", 16: "w_req", 17: "w_rel", 18: "rel_add",
             19: "join", 20: "final_len", 21: "finalize", 22: "sieve_ret", 23: "loop_exit", 24: "fin_done", 25: "half", 26: "call",
             27: "returned", 28: "lib_qs", 29: "skip_cycles_folded", 30: "uncontended_inserts_folded"}
    chk.cov["runs_by_selector_threads"] = dict(sorted(cells.items()))
    chk.cov["runs_by_perturbation"] = perts
    chk.cov["log_entries"] = {names.get(k, str(k)): v for k, v in sorted(codes.items())}
    chk.cov["gate_runs_released"] = sum(1 for e in runs if e["gate_released"] > 0)
    chk.cov["outcomes"] = {}
    for e in runs:
        k = e.get("outcome") or e["ret"]
        chk.cov["outcomes"][k] = chk.cov["outcomes"].get(k, 0) + 1
    stale = [n for n in res["notes"] if n[1] == "stale_gap_at_finalize"]
    chk.notes.append({"observation": "runs that reached Finalize with a stale non-zero gap atomic although some thread had stored gap = 0 "
                      "(harmless since the final test reads done; before the fix these panicked whenever len <= fb)", "runs": len(stale),
                      "examples": [evs[n[0] - 1]["run"] for n in stale[:5]]})
    for e in runs[:: max(1, len(runs) // 5)]:
        chk.sample({k: e[k] for k in ("run", "alg", "variant", "threads", "pert", "ret", "raw_events", "gate_released", "n_dec")})
    chk.assumptions += ["TLC, SANY, CommunityModules", "spec/lib/BigNat, Certs (certificates of the input primes verified by TLC)",
                        "hook events of src/siqs.rs, mpqs.rs, qsieve.rs, ecm.rs, relations.rs are logged at the accesses they name; the log mutex gives "
                        "their real-time order (stores logged before, loads after the access)",
                        "schedules are sampled (perturbation + gates), not enumerated; the exhaustive interleaving claim is the model's, at 2 workers",
                        "relaxed atomics in the model may return any value written so far (weaker than the hardware)",
                        "classgroup sieve not driven (covered structurally by the same protocol)"]


# ---- BEGIN inductive block (growth item "ind") ----
def _inductive(chk):
    """WriterExclusive / NoLostInsert as an inductive invariant for N = 3 and 4 workers and UNBOUNDED counters
    (Apalache on SieveLockInd.tla: the lock and the two-step RelationSet::add restated, the rest of the protocol
    abstracted to free moves outside the locked regions); TLC link: every step of SieveProto.tla is a step of the
    abstraction; counterexamples to induction for the broken variants (no write lock; readers admitted beside a
    writer).  Anything unexpected here is a tool error (exit 2), never a violation."""
    if not core.ind_enabled():
        chk.notes.append("inductive block skipped (VERIF_NO_IND=1)")
        return
    ind = {"claim": "SieveLockInd!IndInv (TypeOK, LockInv, SumInv, TmpInv) is inductive and implies WriterExclusive and "
                    "NoLostInsert for 3 and 4 workers with unbounded insertion counters and any control flow outside the locked "
                    "regions (Apalache); every step of SieveProto.tla (2 and 3 workers) is a step of SieveLockInd (TLC)",
           "runs": []}
    for cfg in ("MC_SieveLockInd_w2.cfg", "MC_SieveLockInd_w3.cfg"):
        chk.add_mc(core.model_check("sieveproto/MC_SieveLockInd.tla", cfg, workers=4, timeout=1700))
    A = "sieveproto/SieveLockInd.tla"
    for kw, want in ((dict(cinit="CInit3", init="Init", length=0), "ok"),
                     (dict(cinit="CInit3", init="IndInit", length=1), "ok"),
                     (dict(cinit="CInit4", init="Init", length=0), "ok"),
                     (dict(cinit="CInit4", init="IndInit", length=1), "ok"),
                     (dict(cinit="CInit3", init="IndInit", next="NextNoLock", length=1), "counterexample"),
                     (dict(cinit="CInit3", init="IndInit", next="NextBadR", length=1), "counterexample")):
        ind["runs"].append(core.ind_expect(core.apalache(A, "Inv", timeout=1200, **kw), want, "SieveLockInd %s" % kw))
    chk.cov["inductive"] = ind
    chk.notes.append("inductive: WriterExclusive / NoLostInsert inductive for 3 and 4 workers, unbounded counters (apalache, %.0fs)" %
                     sum(r["wall_s"] for r in ind["runs"]))
    chk.assumptions.append("apalache-mc/Z3 for the unbounded lock invariant; SieveLockInd.tla abstracts SieveProto.tla "
                           "(linked by TLC: MC_SieveLockInd.tla)")
# ---- END inductive block ----
