"""C11 - every combined relation is a true congruence, the packed form decodes to the same congruence,
the final step yields only proper divisors."""
import collections
import concurrent.futures as cf
import json
import os
from .. import core

LEVEL = "model_checking"

BRANCHES = {"complete", "single_store", "single_trivial", "single_cycle", "single_replace", "square", "both_known",
            "replace_p", "replace_q", "p_known", "q_known", "walk_pq", "walk_qp", "walk_gone", "double_store",
            "double_overwrite"}


def _hists(r):
    return [json.loads(t[1]) for t in core.tuples(r["out"], "HIST")]


def _run_hist_parallel(chk, w, name, hists, tag, pack_every, profile="release"):
    """replays histories with several driver processes (each realises its slice with its own seeded stream)"""
    k = min(8, len(hists) // 200 + 1)      # independent of VERIF_JOBS: case names and seeds must replay
    parts = [hists[i::k] for i in range(k)]
    outs = []

    def one(i):
        hp = os.path.join(w, "%s.hists.%d.ndjson" % (name, i))
        op = os.path.join(w, "%s.trace.%d.ndjson" % (name, i))
        core.write_ndjson(hp, parts[i])
        core.run_driver(["c11", "--mode", "hist", "--seed", chk.seed * 1000 + i, "--tag", "%s%d" % (tag, i), "--hists", hp,
                         "--pack-every", pack_every], op, timeout=3000, profile=profile)
        return op

    core.build_harness(profile)
    with cf.ThreadPoolExecutor(max_workers=max(1, min(k, core.NCPU))) as ex:
        outs = list(ex.map(one, range(k)))
    evs = []
    for o in outs:
        evs += core.read_ndjson(o)
    path = os.path.join(w, "%s.trace.ndjson" % name)
    core.write_ndjson(path, evs)
    return path


def _keep_case(path, replay):
    want = replay["event"].get("case")
    evs = [e for e in core.read_ndjson(path) if e.get("case") == want]
    core.write_ndjson(path, evs)
    return len(evs)


def _weight(e):
    op = e["op"]
    if op == "rel":
        return 12
    if op == "raw":
        return 8
    if op == "add":
        return 4 + 4 * len(e.get("pub", []))
    return 1


def run(chk, replay=None):
    thorough = chk.tier == "thorough"
    w = core.workdir("c11")
    pool = cf.ThreadPoolExecutor(max_workers=5)

    # (M) store model: every history of insertions, exhaustively (runs while the drivers work)
    # quick: all 26 operations, 3 large primes, length <= 4 (475 255 states).  thorough adds all 26 operations at
    # length 5 (12 356 631 states, 12 min with 4 workers) and 4 large primes at length 4 with one parity for
    # complete/double relations (25 operations, 406 901 states)
    mc_cfgs = ["MC_RelStore_3_4.cfg"]
    if thorough:
        mc_cfgs = ["MC_RelStore_3_5.cfg", "MC_RelStore_4_4r.cfg"]
    mcw = max(2, core.NCPU // 2) if len(mc_cfgs) == 1 else max(2, (core.NCPU * 2 // 3) // len(mc_cfgs))
    mc_jobs = []
    if not replay:      # a replay only re-validates the recorded case
        mc_jobs = [pool.submit(core.model_check, "relstore/RelStore.tla", c, mcw, 7200) for c in mc_cfgs]
        mc_jobs.append(pool.submit(core.model_check, "relstore/Pack.tla", "MC_Pack_3.cfg", 2, 1800))

    # (G) histories printed by the model
    r = core.model_check("relstore/RelStore.tla", "Gen_RelStore_3.cfg", workers=min(4, core.NCPU), timeout=900)
    chk.add_mc(r)
    hs = _hists(r)
    hs4 = []
    if thorough:
        # every third history of length 4 (which third depends on the seed)
        r = core.model_check("relstore/RelStore.tla", "Gen_RelStore_4.cfg", workers=min(4, core.NCPU), timeout=1800)
        chk.add_mc(r)
        hs4 = [h for i, h in enumerate(_hists(r)) if (i + chk.seed) % 3 == 0]
    sims = []
    for cfg, num, depth in ([("Sim_RelStore_6.cfg", 400 if thorough else 120, 17)] +
                            ([("Sim_RelStore_8.cfg", 150, 31)] if thorough else [("Sim_RelStore_8.cfg", 25, 31)])):
        r = core.model_check("relstore/RelStore.tla", cfg, workers=1, timeout=1800,
                             extra=["-simulate", "num=%d" % num, "-depth", str(depth), "-seed", str(chk.seed)])
        chk.add_mc(r)
        sims += _hists(r)
    if not hs or not sims:
        raise core.ToolError("no histories generated")
    br = collections.Counter()
    for h in hs + hs4 + sims:
        for b in h["br"]:
            br[b] += 1
    missing = BRANCHES - set(br)
    if missing:
        raise core.ToolError("branches of the store model never taken by the generated histories: %s" % sorted(missing))
    chk.cov["model_branches_in_replayed_histories"] = dict(br)
    chk.cov["histories"] = {"exhaustive_len3_plus_rare_len4": len(hs), "third_of_len4": len(hs4), "simulated": len(sims)}

    # (I) shapes for the packed form
    shapes = os.path.join(w, "packshapes.ndjson")
    nshapes, r = core.gen_shapes("relstore/PackShapes.tla", "PackShapes.cfg", shapes)
    chk.add_mc(r)
    chk.cov["pack_shapes"] = nshapes

    # (V) real code
    traces = []
    traces.append(("hist", _run_hist_parallel(chk, w, "hist", hs, "h", 4), "case"))
    traces.append(("sim", _run_hist_parallel(chk, w, "sim", sims, "s", 2), "case"))
    if thorough:
        traces.append(("hist4", _run_hist_parallel(chk, w, "hist4", hs4, "g", 16), "case"))
        # the same with debug assertions and overflow checks compiled in (the profile of the repository's tests)
        traces.append(("sim-relcheck", _run_hist_parallel(chk, w, "simrc", sims, "r", 2, profile="relcheck"), "case"))
    pk = os.path.join(w, "pack.trace.ndjson")
    core.run_driver(["c11", "--mode", "pack", "--seed", chk.seed, "--shapes", shapes, "--reps", 2 if thorough else 1], pk)
    traces.append(("pack", pk, None))
    sv = os.path.join(w, "sieve.trace.ndjson")
    core.run_driver(["c11", "--mode", "sieve", "--seed", chk.seed, "--tier", chk.tier], sv, timeout=7000)
    traces.append(("sieve", sv, "case"))

    allevs = []
    for name, path, gk in traces:
        if replay:
            if _keep_case(path, replay) == 0:
                continue
        res = core.validate_trace("relstore/RelStoreTrace.tla", "RelStoreTrace.cfg", path, group_key=gk, timeout=3400,
                                  weight=_weight, tag="c11-" + name)
        chk.add_tv(res)
        allevs += core.read_ndjson(path)
    if replay and not allevs:
        raise core.ToolError("replay: case %r not produced any more by the driver" % (replay["event"].get("case"),))

    for j in mc_jobs:
        chk.add_mc(j.result())
    pool.shutdown()
    # (M) last link of the final step, and its excluded corner a = b = 0 (documented hazard, informational)
    if not replay:
        chk.add_mc(core.model_check("relstore/TryFactor.tla", "MC_TryFactor.cfg", workers=1, timeout=600))
        r = core.model_check("relstore/TryFactor.tla", "MC_TryFactor_zero.cfg", workers=1, timeout=600, expect_error=True)
        chk.add_mc(r, invariants_expected_to_hold=False)
        chk.notes.append({"model": "MC_TryFactor_zero.cfg", "try_factor_asserts_on_a_b_zero": "ZeroZero" in r["violated"]})

    # bookkeeping
    def key(e):
        op = e["op"]
        if op == "add":
            big = [p for p in e.get("pub", []) if p["len"] >= 2]
            return ("add", e["case"], e["id"]) if big else None
        if op == "rel":
            return ("rel", e["case"]) if e["r"]["len"] >= 2 else None
        if op == "pack":
            return ("pack", json.dumps(e["r"]["f"])) if e["r"]["f"] else None
        if op == "final_step":
            return ("fs", e["case"]) if e.get("divs") else None
        return None

    chk.count([e for e in allevs if e["op"] in ("add", "rel", "raw", "pack", "final_step")], key)
    chk.rule = ("add: one event per insertion of every history printed by RelStore.tla (all histories of length 3 over 3 large "
                "primes and 16 operations, the length-4 ones ending in a rare branch, -simulate histories of length 16/30 over "
                "6/8 large primes) plus one closing single relation per large prime, each realised as a real valid relation "
                "modulo a random n = p*q (64-256 bits); non-trivial = the call published a combined relation (cycle length "
                ">= 2), distinct by (history, position). rel/raw: published / inserted relations of real QS, MPQS, SIQS runs "
                "(hook events of RelationSet::add); non-trivial = cycle length >= 2. pack: shapes of PackShapes.tla and relations "
                "that went through the store; non-trivial = non-empty factor list, distinct by factor list. final_step: the "
                "published set of every history and subsets of the relations of every sieve run; non-trivial = divisors returned.")
    ops = collections.Counter()
    for e in allevs:
        ops[e["op"] + ("/" + e["src"] if e["op"] in ("pack", "final_step") and "src" in e else "")] += 1
    chk.cov["ops"] = dict(ops)
    chk.cov["final_step_skipped"] = dict(collections.Counter(e["why"] for e in allevs if e["op"] == "skip"))
    pl = collections.Counter()
    for e in allevs:
        if e["op"] == "add":
            for p in e.get("pub", []):
                pl[min(p["len"], 8)] += 1
    chk.cov["published_by_cycle_length_in_histories"] = {str(k): v for k, v in sorted(pl.items())}
    chk.cov["sieve_runs"] = [dict(e["run"], case=e["case"]) for e in allevs if e["op"] == "reset" and "run" in e]
    for e in allevs:
        if e["op"] == "reset" and "run" in e and ("outcome" in e["run"]["result"] or "failed" in e["run"]["result"]):
            chk.notes.append({"sieve_run_without_result": e["case"], "result": e["run"]["result"]})
    adds = [e for e in allevs if e["op"] == "add" and e.get("pub")]
    for e in adds[:: max(1, len(adds) // 3)][:3]:
        chk.sample({"op": "add", "case": e["case"], "aop": e["aop"], "published": len(e["pub"]),
                    "cycle_lengths": [p["len"] for p in e["pub"]]})
    for opn in ("rel", "pack", "final_step"):
        for e in allevs:
            if e["op"] == opn:
                chk.sample({k: e[k] for k in e if k in ("op", "case", "src", "nd", "nrels", "divsd", "alg")})
                break
    chk.assumptions += [
        "TLC, SANY, CommunityModules Json/IOUtils/SequencesExt", "spec/lib/BigNat (self-tested against Python integers in setup)",
        "harness encoding of numbers into base-4096 digits",
        "inputs of the store are valid relations: built valid by construction (x = sqrt of the target by CRT) and re-verified by "
        "TLC as witness events; inputs of real sieve runs are checked natively (a sample and every natively invalid one by TLC); "
        "inputs of final_step from sieve runs are checked natively (quick) in addition to the sampled TLC verdicts",
        "large primes are primes in (factor base bound, maxlarge), maxlarge <= 2^32 - 1, double cofactors >= maxlarge "
        "(what fbase::cofactor hands to RelationSet::add)",
        "final_step is only given sets in which at least one relation survives its singleton filter: with none it calls "
        "kernel_gauss on zero columns (index panic), the documented C03 edge (DESIGN Appendix B)",
    ]
