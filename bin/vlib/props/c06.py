"""C06 - primality decisions are exact on 64 bits and one-sided above."""
import concurrent.futures as cf
import os
from .. import core

LEVEL = "model_checking"


def _weight(e):
    op = e["op"]
    if op == "isprime_block":
        return 4 if e["lo"] < (1 << 22) else 40
    k = e.get("wit", {}).get("kind")
    if k == "chain":
        bits = e.get("bits", 64)
        return 60 + (bits * bits) // 40
    if k == "small":
        return 3
    return 6 + (30 if e.get("fs") else 0)


def run(chk, replay=None):
    thorough = chk.tier == "thorough"
    tier = "thorough" if thorough else "quick"
    w = core.workdir("c06")
    core.build_harness()
    pool = cf.ThreadPoolExecutor(max_workers=2)
    # (M) tiered Miller model = definition of primality on the whole first tier (and the model has teeth:
    # with base 2 alone the invariant fails, at 2047)
    f_model = pool.submit(core.model_check, "primality/MillerModel.tla", "MC_Miller_%s.cfg" % tier, 4 if thorough else 2, 1700)
    f_haz = pool.submit(core.model_check, "primality/MillerModel.tla", "MC_Miller_hazard.cfg", 1, 600, (), None, "3g", True)
    # (V) real code
    trace = os.path.join(w, "trace.ndjson")
    core.run_driver(["c06", "--seed", chk.seed, "--tier", tier], trace, timeout=1700)
    if replay:
        core.replay_filter(trace, replay)
    res = core.validate_trace("primality/PrimalityTrace.tla", "PrimalityTrace.cfg", trace, timeout=1700, weight=_weight)
    chk.add_tv(res)
    chk.add_mc(f_model.result())
    rh = f_haz.result()
    chk.add_mc(rh, invariants_expected_to_hold=False)
    if "ModelExact" not in rh["violated"]:
        raise core.ToolError("MillerModel with base 2 alone should fail at 2047: the model lost its teeth")
    chk.notes.append({"model": "MC_Miller_hazard.cfg", "expected_violation_seen": True})
    evs = core.read_ndjson(trace)

    def key(e):
        if e["op"] == "isprime_block":
            return ("blk", e["lo"])
        if e.get("wit", {}).get("kind") == "small" and e["wit"]["ps"] < 200:
            return None
        return (e["op"], e.get("pd"))
    chk.count(evs, key)
    chk.rule = ("blocks of consecutive integers (all of 0..2^16 quick / 0..2^22 thorough, windows at 2^20, psi_2, psi_3, 2^31, seeded "
                "windows) judged by TLC's own primes; single numbers with a witness: every spsp(2,3) below 2^24 (2^27), the psi_k "
                "table, published strong pseudoprimes, p(2p-1), p(3p-2), Chernick and Carmichael numbers next to 2^20/2^32/2^40/2^64 "
                "and seeded up to 500 bits, even numbers and small-factor numbers at word boundaries, certified primes of every "
                "size 32..64 bits, next to 2^40 and 2^64, 65..256 (500) bits, primes = 1 mod 2^64, products of two certified primes; "
                "non-trivial = anything but single numbers below 200; distinct by block start or by number")
    chk.cov["ops"] = {}
    chk.cov["families"] = {}
    for e in evs:
        chk.cov["ops"][e["op"]] = chk.cov["ops"].get(e["op"], 0) + 1
        if "fam" in e:
            k = "%s/%s/%s" % (e["op"], e["fam"], e["wit"]["kind"])
            chk.cov["families"][k] = chk.cov["families"].get(k, 0) + 1
    seen = set()
    for e in evs:
        k = (e["op"], e.get("fam"))
        if k in seen or e.get("fam") in (None, "even", "boundary", "smallfactor"):
            continue
        seen.add(k)
        if k in (("isprime64", "psi"), ("pseudoprime", "psi"), ("isprime64", "prime_edge"), ("pseudoprime", "prime_lowword1"),
                 ("pseudoprime", "carmichael"), ("isprime64", "chernick")):
            chk.sample({x: e[x] for x in e if x in ("op", "case", "fam", "r64", "rmp", "r", "bits")})
    chk.assumptions += ["TLC, SANY, CommunityModules", "spec/lib/BigNat, Certs (self-tested)",
                        "spec/primality/SieveDefs06: the specification's own primes below 2^16 (cross-checked against trial division by ASSUME)",
                        "harness encoding of numbers into base-4096 digits; witnesses are verified by the spec, not trusted",
                        "pseudoprime is called on inputs of at most 500 bits (documented limit of the modular ring)"]
