"""C01 - a returned factorization always multiplies back to the input.

Also hosts the glue shared by C01 / C02 / C03 (same model spec/factor/Factor.tla, same trace specification
spec/factor/FactorTrace.tla with the constant Prop selecting the Strict predicate, same driver machinery
harness/src/drivers/factor_common.rs)."""
import concurrent.futures as cf
import os

from .. import core

LEVEL = "model_checking"

ABNORMAL = ("panic", "timeout", "abort")


def model_runs(chk, prop):
    """(M) the orchestration model; every check re-establishes the invariants its property rests on."""
    thorough = chk.tier == "thorough"
    cfgs = {"C01": ["MC_Factor.cfg"] + (["MC_Factor_liar.cfg"] if thorough else []),
            "C02": ["MC_Factor_auto.cfg"],
            "C03": ["MC_Factor.cfg"]}[prop]
    with cf.ThreadPoolExecutor(max_workers=2) as ex:
        futs = [ex.submit(core.model_check, "factor/Factor.tla", c, workers=max(1, min(4, core.NCPU // 2)), timeout=1500)
                for c in cfgs]
        hz = None
        if prop == "C03":
            hz = ex.submit(core.model_check, "factor/Factor.tla", "MC_Factor_rhohazard.cfg", workers=1, timeout=600,
                           expect_error=True)
        for f in futs:
            chk.add_mc(f.result())
        if hz is not None:
            r = hz.result()
            chk.add_mc(r, invariants_expected_to_hold=False)
            chk.notes.append({
                "model_level_hazard": "Algo::Rho: if pollard_rho::rho returned None on a composite <= 64 bits, factor_impl "
                                      "falls out of the match into the sieve block and reaches unreachable!(\"impossible\") "
                                      "(lib.rs). Reproduced in the model only (config MC_Factor_rhohazard.cfg, RhoMayFail = TRUE: "
                                      "NoDeadBranch violated = %s); no real input makes rho() fail in the driven input space, "
                                      "so this is a note, not a finding." % ("NoDeadBranch" in r["violated"])})


def drive(chk, prop, w, shapes, profile, replay=None, certs=None):
    trace = os.path.join(w, "trace_%s.ndjson" % profile)
    args = [prop.lower(), "--seed", chk.seed, "--tier", chk.tier, "--profile", profile, "--shapes", shapes, "--jobs", core.NCPU]
    if certs:
        args += ["--certs", certs]
    if replay:
        args += ["--only", replay["event"]["case"]]
    core.run_driver(args, trace, profile=profile, timeout=6000)
    return trace


def weight(e):
    op = e["op"]
    if op == "small":
        return 1
    if op == "cert":
        return 40 * len(e["chain"])
    if op == "call":
        return 8 + len(e["primes"])
    return 6


def bookkeeping(chk, prop, evs, nshapes):
    ops, outcomes, algs, sites = {}, {}, {}, {}
    for e in evs:
        ops[e["op"]] = ops.get(e["op"], 0) + 1
        if e["op"] in ("ret", "small"):
            k = "%s/%s" % (e.get("profile", "release"), e["kind"])
            outcomes[k] = outcomes.get(k, 0) + 1
            algs[e["alg"]] = algs.get(e["alg"], 0) + 1
            if e["kind"] in ABNORMAL:
                s = "%s %s %s %s" % (e["alg"], e["kind"], e.get("file"), (e.get("msg") or "")[:60].replace("\n", " "))
                sites[s] = sites.get(s, 0) + 1
    chk.cov["ops"] = ops
    chk.cov["outcomes"] = outcomes
    chk.cov["calls_per_selector"] = algs
    chk.cov["abnormal_sites"] = sites
    chk.cov["shapes"] = nshapes
    # vacuity: every op of the trace specification must be exercised
    need = {"call", "ret", "small", "f_small", "fi_enter", "fi_pp", "fi_ppend", "fi_alg", "fi_split", "fi_push", "fi_divs"}
    if prop == "C02":
        need.add("cert")
    missing = sorted(need - set(ops))
    if missing:
        chk.notes.append({"vacuity": "ops never seen in this run", "ops": missing})

    def key(e):
        if e["op"] == "ret":
            # non-trivial: the call reached a sub-algorithm or a perfect-power / multi-factor answer
            return (e["alg"], e.get("nd"), e.get("profile")) if (e["bits"] > 16) else None
        if e["op"] == "small":
            return (e["alg"], e["n"], e.get("profile")) if len(e["fs"]) >= 2 or e["kind"] != "list" else None
        return None
    chk.count([e for e in evs if e["op"] in ("ret", "small")], key)
    rets = [e for e in evs if e["op"] == "ret"]
    for e in rets[:: max(1, len(rets) // 5)]:
        chk.sample({k: e[k] for k in ("case", "alg", "nd", "kind", "fsd", "shape", "profile") if k in e})


def cli_layer(chk, prop, w, profiles, replay=None):
    """The command-line layer (spec/factor/Cli.tla): the model of main(), its input space, and real runs of the ymqs
    binary built from the tree under test validated by CliTrace.tla (Prop selects the Strict predicate)."""
    if replay and replay["event"].get("op") != "cli":
        return
    if not replay:
        chk.add_mc(core.model_check("factor/Cli.tla", "MC_Cli.cfg", workers=2, timeout=300))
        for c in ("MC_Cli_reach_answer.cfg", "MC_Cli_reach_fail.cfg"):
            r = core.model_check("factor/Cli.tla", c, workers=1, timeout=300, expect_error=True)
            chk.add_mc(r, invariants_expected_to_hold=False)
            if not r["violated"]:
                raise core.ToolError("Cli.tla: %s is vacuous (no run answers / fails)" % c)
    shapes = os.path.join(w, "cli_shapes.ndjson")
    nsh, r = core.gen_shapes("factor/CliShapes.tla", "CliShapes.cfg", shapes)
    chk.add_mc(r)
    ncli = 0
    for profile in profiles:
        bins = core.build_cli(profile)
        trace = os.path.join(w, "cli_trace_%s.ndjson" % profile)
        args = ["cli", "--bin", bins["ymqs"], "--shapes", shapes, "--seed", chk.seed, "--jobs", max(2, core.NCPU // 2)]
        if replay:
            args += ["--only", replay["event"]["case"]]
        core.run_driver(args, trace, profile="release", timeout=3000)
        evs = core.read_ndjson(trace)
        for e in evs:
            e["profile"] = profile
        core.write_ndjson(trace, evs)
        res = core.validate_trace("factor/CliTrace.tla", "CliTrace_%s.cfg" % prop, trace, timeout=900,
                                  weight=lambda e: 4 + len(e.get("out", [])), tag="%s-cli-%s" % (prop.lower(), profile))
        chk.add_tv(res)
        ncli += len(evs)
        why = {}
        for e in evs:
            why[e["why"]] = why.get(e["why"], 0) + 1
        chk.cov["cli_outcomes_%s" % profile] = why
        if not replay:
            missing = {"usage", "answer", "number", "size", "verbosity", "mode"} - set(why)
            if missing:
                chk.notes.append({"vacuity": "command-line outcomes never seen", "outcomes": sorted(missing)})
    chk.cov["cli_invocations"] = ncli
    chk.cov["cli_shapes"] = nsh
    chk.assumptions.append("command line: the exit status / stdout / first panic message of the ymqs process as read by the "
                           "driver; argument classes (decimal or not, size class, option validity) are known by construction")


def squfof_layer(chk, w, replay=None):
    """Shanks's square forms (Algo::Squfof): spec/squfof/SqufofFn.tla is an EXACT model of squfof::squfof for 50 n < 2^31.
    (M) the loops as a state machine over every input of the domain factor_impl guarantees (no prime factor below 53):
    form identity, no division by zero, no unsigned underflow, genuine splits, agreement with the pure function; a
    non-vacuity config outside the domain (k n a perfect square: division by zero) that TLC must reject.
    (V) real calls in batches: Strict = a returned pair is a genuine split; Drift = it is the model's result."""
    thorough = chk.tier == "thorough"
    if replay and replay["event"].get("op") != "squfof_batch":
        return
    if not replay:
        chk.add_mc(core.model_check("squfof/MC_Squfof.tla", "MC_Squfof_thorough.cfg" if thorough else "MC_Squfof.cfg", workers=4, timeout=2400))
        r = core.model_check("squfof/MC_Squfof.tla", "MC_Squfof_any.cfg", workers=1, timeout=300, expect_error=True)
        chk.add_mc(r, invariants_expected_to_hold=False)
        if "NoDivZero" not in r["violated"]:
            raise core.ToolError("Squfof: the non-vacuity configuration no longer fails")
    tr = os.path.join(w, "squfof.ndjson")
    core.run_driver(["rho", "--what", "squfof", "--seed", chk.seed, "--tier", chk.tier], tr, timeout=900)
    if replay:
        core.replay_filter(tr, replay)
    res = core.validate_trace("squfof/SqufofTrace.tla", "SqufofTrace.cfg", tr, timeout=2400, tag="squfof",
                              weight=lambda e: len(e.get("ns", [])))
    chk.add_tv(res)
    evs = core.read_ndjson(tr)
    calls = sum(len(e.get("ns", [])) for e in evs)
    if not replay and calls < 1000:
        raise core.ToolError("squfof stage: too few calls (%d)" % calls)
    chk.cov["squfof_model"] = {"exact_below": (1 << 31) // 50, "real_calls_compared_with_model": calls,
                               "splits_returned": sum(1 for e in evs for r_ in e.get("rs", []) if r_ and r_[0] > 0),
                               "none_returned": sum(1 for e in evs for r_ in e.get("rs", []) if not r_),
                               "panics": sum(1 for e in evs for r_ in e.get("rs", []) if r_ and r_[0] == 0)}


def run_common(chk, replay, prop, profiles):
    w = core.workdir(prop.lower())
    if replay and replay["event"].get("op") == "squfof_batch":
        squfof_layer(chk, w, replay)
        return
    if replay and replay["event"].get("op") == "cli":
        cli_layer(chk, prop, w, [replay["event"].get("profile", "release")], replay)
        return
    if not replay:
        model_runs(chk, prop)
    # (I) input space
    shapes = os.path.join(w, "shapes.ndjson")
    nshapes, r = core.gen_shapes("factor/FactorShapes.tla", "FactorShapes_%s_%s.cfg" % (prop, chk.tier), shapes)
    chk.add_mc(r)
    if replay:
        profiles = [replay["event"].get("profile", "release")]
    all_evs = []
    certs = os.path.join(w, "certs.ndjson") if prop == "C02" else None
    for profile in profiles:
        # (V) real code
        trace = drive(chk, prop, w, shapes, profile, replay, certs)
        evs = core.read_ndjson(trace)
        if certs and profile == profiles[0]:
            os.environ["CERTS"] = certs       # read by FactorTrace.tla (IOEnv.CERTS)
            res = core.validate_trace("factor/FactorTrace.tla", "FactorTrace_%s.cfg" % prop, certs, timeout=1700,
                                      weight=weight, tag="%s-certs" % prop.lower())
            chk.add_tv(res)
            all_evs += core.read_ndjson(certs)
        res = core.validate_trace("factor/FactorTrace.tla", "FactorTrace_%s.cfg" % prop, trace, group_key="case",
                                  timeout=1700, weight=weight, tag="%s-%s" % (prop.lower(), profile))
        chk.add_tv(res)
        all_evs += evs
    bookkeeping(chk, prop, all_evs, nshapes)
    if prop in ("C01", "C03"):
        cli_layer(chk, prop, w, profiles, replay)
    if prop == "C01" and not replay:
        squfof_layer(chk, w)
    chk.assumptions += [
        "TLC, SANY, CommunityModules Json/IOUtils/SequencesExt/FiniteSetsExt",
        "spec/lib/BigNat (self-tested against Python integers in setup)",
        "harness encoding of integers into base-4096 digits (decimal strings of the hooks are re-parsed by bnum)",
        "inputs stay below 2^1024 (the library's integer type); selectors Rho/Squfof/Qs64 only on inputs whose part "
        "surviving trial division has at most 64 bits (asserted precondition)",
        "preferences restricted to the combinations enumerated by FactorShapes.tla (QsPrefs / ThreadPrefs)",
    ]


def run(chk, replay=None):
    thorough = chk.tier == "thorough"
    run_common(chk, replay, "C01", ["release", "relcheck"] if thorough else ["release"])
    chk.rule = ("one factor() call per (shape x bit-length class x selector x preference combination) enumerated by "
                "FactorShapes.tla (Prop = C01), concretised with seeded certified primes, plus every n < 2^16 (Auto) / "
                "< 2^12 and every p*q < 2^17 without factor below 200 (other selectors); each call is validated by "
                "FactorTrace.tla (Prop = C01): product, order, no 0/1, divisibility of the returned list, and with the "
                "hooks every split / perfect power / push keeps ProductInv. non-trivial = input above 16 bits (or small n "
                "with >= 2 factors); distinct by (selector, n, profile)")
    chk.assumptions.append("C01 does not promise primality: composite entries and FactoringFailure are accepted; a panic "
                           "is C03's matter")
