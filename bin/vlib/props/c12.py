"""C12 - sieving polynomials carry correct roots and square-root identities."""
import os
from .. import core

LEVEL = "model_checking"


def run(chk, replay=None):
    thorough = chk.tier == "thorough"
    w = core.workdir("c12")
    if not replay:
        # (M) scaled models of the three sieves: Gray code walk of SIQS (every index, incremental roots),
        # classical QS forward/backward roots over 17 large-block shifts, MPQS make_poly / prepare_prime
        r = core.model_check("qspoly/SiqsPoly.tla", "MC_SiqsPoly.cfg" if thorough else "MC_SiqsPoly_quick.cfg", workers=4, timeout=1500)
        chk.add_mc(r)
        r = core.model_check("qspoly/QsWalk.tla", "MC_QsWalk.cfg", workers=2, timeout=900)
        chk.add_mc(r)
        r = core.model_check("qspoly/MpqsRoots.tla", "MC_MpqsRoots.cfg", workers=2, timeout=900)
        chk.add_mc(r)
        r = core.model_check("qspoly/MpqsRoots.tla", "MC_MpqsRoots_reach.cfg", workers=1, timeout=600, expect_error=True)
        chk.add_mc(r, invariants_expected_to_hold=False)
        chk.notes.append({"model": "MpqsRoots", "composite_D_explored": "SomeCompositeD" in r["violated"]})
    # (V) real polynomials
    trace = os.path.join(w, "trace.ndjson")
    core.run_driver(["c12", "--seed", chk.seed, "--tier", chk.tier], trace, timeout=3000)
    if replay:
        core.replay_filter(trace, replay, keys=("case", "fam", "idx", "dd"))
    res = core.validate_trace("qspoly/QsPolyTrace.tla", "QsPolyTrace.cfg", trace, timeout=3000,
                              weight=lambda e: len(e.get("ps", [])) * (4 if e["op"] == "fbase" and e.get("complete") else 1) + 20)
    chk.add_tv(res)
    evs = core.read_ndjson(trace)

    def key(e):
        if e["op"] == "siqs_poly":
            return ("s", e["nd"], e.get("ad"), e["idx"]) if len(e.get("afac", [])) > 0 else None
        if e["op"] == "mpqs_poly":
            return ("m", e["nd"], e.get("dd"))
        if e["op"] == "qs_roots":
            return ("q", e["nd"])
        if e["op"] == "fbase":
            return ("f", e.get("nd"), e.get("size"))
        return None
    chk.count(evs, key)
    chk.rule = ("inputs: semiprimes of 20..200 bits (thorough: ..400) in every odd class mod 8, without multiplier, with the selected "
                "one and with even multipliers (all classes mod 8 of k n), negative discriminants for the class group variant; per input "
                "the first / middle / last selected A and As made of the extremes of the candidate pool, every index of the Gray code "
                "walk (first and last 64 beyond 128), all factor-base primes up to 600 primes else primes < 1024, divisors of A, 2, the "
                "64 largest and 200 random; MPQS D values around the ideal one, inside the factor base, and a constructed composite "
                "pseudo-square; QS forward and backward tables. non-trivial = polynomial with a non-unit A / any MPQS, QS, factor-base "
                "event; distinct by (N, A or D, index)")
    ops = {}
    pc = 0
    for e in evs:
        ops[e["op"]] = ops.get(e["op"], 0) + 1
        pc += len(e.get("ps", []))
    chk.cov["ops"] = ops
    chk.cov["prime_entries_checked"] = pc
    chk.cov["siqs_kinds"] = {str(k): sum(1 for e in evs if e["op"] == "siqs_poly" and e.get("kind") == k) for k in (1, 2)}
    chk.cov["siqs_nfacs"] = sorted({len(e.get("afac", [])) for e in evs if e["op"] == "siqs_poly"})
    chk.cov["classes_mod8_of_kn"] = sorted({int(e["nd"]) % 8 for e in evs if e["op"] == "siqs_poly"})
    chk.cov["mpqs_composite_D"] = sum(1 for e in evs if e["op"] == "mpqs_poly" and e.get("dprime") is False)
    chk.cov["mpqs_D_in_fbase"] = sum(1 for e in evs if e["op"] == "mpqs_poly" and 0 in e.get("dp", [1]))
    chk.cov["panics"] = sum(1 for e in evs if "outcome" in e)
    chk.cov["note_events"] = sum(1 for e in evs if e["op"] == "note")
    for e in evs[:: max(1, len(evs) // 5)]:
        chk.sample({k: e[k] for k in e if k in ("op", "case", "fam", "idx", "nd", "ad", "dd", "kind")})
    chk.assumptions += ["TLC, SANY, CommunityModules Json/IOUtils/SequencesExt", "spec/lib/BigNat, BigInt",
                        "a polynomial of degree <= 2 over Z/p has at most 2 roots (argument written in QsRoots.tla) - root sets are decided "
                        "without enumerating residues",
                        "inputs are semiprimes without tiny factors, as the sieves receive them after trial division",
                        "the classical sieve's large-block shift (a closure inside qsieve()) is covered by the model QsWalk only"]
