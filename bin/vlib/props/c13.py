"""C13 - sieve reports list every factor-base prime dividing each candidate."""
import os
from .. import core

LEVEL = "model_checking"


def run(chk, replay=None):
    thorough = chk.tier == "thorough"
    w = core.workdir("c13")
    if not replay:
        # (M) scaled model of the cursors, bucket tables, recycling and factor recovery: one run per prime class,
        # every root table of the class, two blocks, then a recycled second sieve
        for sc in ("small", "medium", "large", "vlarge"):
            r = core.model_check("sieve/SieveCursor.tla", "MC_SieveCursor_%s.cfg" % sc, workers=4, timeout=1500)
            chk.add_mc(r)
        # reachability: the counted-overflow tolerance is really exercised by the model (expected: violated)
        r = core.model_check("sieve/SieveCursor.tla", "MC_SieveCursor_reach.cfg", workers=2, timeout=600, expect_error=True)
        chk.add_mc(r, invariants_expected_to_hold=False)
        chk.notes.append({"model": "SieveCursor", "overflow_loss_reachable": "NeverLoses" in r["violated"]})
    # (V) the real sieve through its public API
    trace = os.path.join(w, "trace.ndjson")
    core.run_driver(["c13", "--seed", chk.seed, "--tier", chk.tier], trace, timeout=3000)
    evs = core.read_ndjson(trace)
    if replay:
        # a case is stateful: keep the whole case of the recorded event
        want = replay["event"].get("case")
        keep = [e for e in evs if e.get("case") == want]
        if not keep:
            raise core.ToolError("replay: case %r not produced any more by the driver" % (want,))
        core.write_ndjson(trace, keep)
        evs = keep
    nprimes = {}
    for e in evs:
        if e["op"] == "fb":
            nprimes[e["case"]] = len(e["primes"])
    res = core.validate_trace("sieve/SieveTrace.tla", "SieveTrace.cfg", trace, timeout=3000, group_key="case",
                              weight=lambda e: 5 + len(e.get("reports", [])) * nprimes.get(e.get("case"), 1000))
    chk.add_tv(res)
    tol = [n for n in res["notes"] if "tolerated-overflow-loss" in str(n)]

    def key(e):
        if e["op"] != "block" or not e.get("reports"):
            return None
        return (e["case"], e["b"], e.get("offset", {}).get("neg"), len(e["reports"]))
    chk.count(evs, key)
    reports = sum(len(e.get("reports", [])) for e in evs if e["op"] == "block")
    pairs = sum(len(e.get("reports", [])) * nprimes.get(e["case"], 0) for e in evs if e["op"] == "block")
    chk.evaluations = max(chk.evaluations, reports)
    chk.rule = ("factor bases with fewer than 16 primes and with the largest prime just across 2^13, 2^15, 2^16 (thorough: 2^19); root "
                "tables: real (x^2 - n shifted), all 0, all p-1, single root for every small prime, random, all large primes crowded in "
                "one bucket (counted overflow); 1, 2, 3, 8 blocks; thresholds 24..60 with and without root compensation; recycled state "
                "across 5 polynomials; rehash after large-block shifts; a sample of the reports of every block (first, last, random) is "
                "checked against ALL primes. non-trivial = block with at least one report; distinct by (case, block)")
    ops = {}
    for e in evs:
        ops[e["op"]] = ops.get(e["op"], 0) + 1
    chk.cov["ops"] = ops
    chk.cov["reports_checked"] = reports
    chk.cov["position_prime_pairs_checked"] = pairs
    chk.cov["blocks_using_overflow_tolerance"] = len(tol)
    chk.cov["sieves_recycled"] = sum(1 for e in evs if e["op"] == "new" and e.get("recycled"))
    chk.cov["sieves_with_counted_overflow"] = sum(1 for e in evs if e["op"] in ("new", "rehash") and any(t["n"] > 0 for t in e.get("novf", [])))
    chk.cov["max_prime_by_base"] = sorted({e["bound"] for e in evs if e["op"] == "fb"})
    chk.cov["panics"] = sum(1 for e in evs if "outcome" in e)
    for e in [e for e in evs if e["op"] == "block"][:: max(1, ops.get("block", 1) // 5)]:
        chk.sample({"case": e["case"], "b": e["b"], "thr": e["thr"], "nrep": e["nrep"], "checked": len(e["reports"])})
    chk.assumptions += ["TLC, SANY, CommunityModules Json/IOUtils", "root tables respect the documented precondition: roots < p, two distinct "
                        "roots for primes >= 2^15", "the overflow tolerance uses the sieve's own counters (n_overflows, read through a "
                        "cfg-guarded accessor); the scaled model SieveCursor checks that this accounting bounds the loss",
                        "reports are sampled (first, last, random) - every sampled report is checked against all primes (largest base: all "
                        "primes >= 2^15 and one in eight of the others)"]
