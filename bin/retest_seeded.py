#!/usr/bin/env python3
"""usage: bin/retest_seeded.py <ID>/<name> ... | --all [--only-missed]
Re-runs the quick check of the property (or of meta.verif.check_id when the change is another property's ground)
against a scratch copy of /repo with the seeded change applied, and rewrites the verdict in meta.json."""
import glob, json, os, subprocess, sys
sys.path.insert(0, os.path.dirname(os.path.abspath(__file__)))
args = [a for a in sys.argv[1:] if not a.startswith("--")]
if "--all" in sys.argv:
    args = sorted(os.path.relpath(os.path.dirname(p), "/verif/seeded") for p in glob.glob("/verif/seeded/*/*/meta.json"))
import importlib.util
spec = importlib.util.spec_from_file_location("ing", "/verif/bin/ingest_mutants.py")
src = open("/verif/bin/ingest_mutants.py").read().split("\npid = sys.argv[1]")[0]
ns = {}
exec(src, ns)
for a in args:
    dst = os.path.join("/verif/seeded", a)
    mp = os.path.join(dst, "meta.json")
    meta = json.load(open(mp))
    old = meta.get("verif", {})
    if "--only-missed" in sys.argv and old.get("verdict") == "CAUGHT":
        continue
    pid = a.split("/")[0]
    cid = old.get("check_id", pid)
    if not ns["rebase_patch"](dst):
        print(a, "PATCH DOES NOT APPLY", flush=True)
        continue
    t = subprocess.run(["/verif/bin/mutant_test.sh", cid, os.path.join(dst, "patch.diff")], stdout=subprocess.PIPE,
                       stderr=subprocess.STDOUT, text=True)
    lines = [l for l in t.stdout.splitlines() if "violation class" in l or "MUTANT-TEST" in l][:8]
    verdict = {0: "MISSED", 1: "CAUGHT"}.get(t.returncode, "TOOL-ERROR")
    print(a, cid, verdict, "|", " ; ".join(l.strip() for l in lines[:3]), flush=True)
    v = {"check": "bin/check %s --tier quick (VERIF_REPO=scratch copy with the change)" % cid, "exit": t.returncode,
         "verdict": verdict, "output": lines}
    for k in ("check_id", "note"):
        if k in old:
            v[k] = old[k]
    meta["verif"] = v
    json.dump(meta, open(mp, "w"), indent=1)
