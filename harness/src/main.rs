//! ymqv: drives remyoudompheng/yamaquasi and records what it does as ndjson traces that the TLA+
//! trace specifications of /verif/spec validate.  One sub-command per driver.

mod drivers;
pub mod gen;
pub mod trace;

fn main() {
    let argv: Vec<String> = std::env::args().collect();
    if argv.len() < 2 {
        eprintln!("usage: ymqv <driver> [--tier quick|thorough] [--seed N] --out FILE ...");
        std::process::exit(2);
    }
    trace::install_panic_hook();
    let args = trace::parse_args(&argv[2..]);
    // a panic of the driver itself (not of guarded code under test) is a tool error: say where
    let code = match trace::guard(|| drivers::dispatch(&argv[1], &args)) {
        Ok(c) => c,
        Err(e) => {
            eprintln!("ymqv {}: driver panicked: {}", argv[1], e);
            101
        }
    };
    // abandoned (timed out) threads die here
    std::process::exit(code);
}
