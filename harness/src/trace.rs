//! Trace output and guarded execution shared by every driver.
//!
//! Numbers that may exceed 31 bits are written as little-endian base-4096 digit arrays (the
//! `BigNat` representation of spec/lib); signed ones as {"neg":bool,"mag":[digits]}.
//! A panic or a hang of the code under test is *data*: it becomes an `outcome` field of the event.

use std::cell::RefCell;
use std::collections::HashMap;
use std::fs::File;
use std::io::{BufWriter, Write};
use std::panic::{self, AssertUnwindSafe};
use std::sync::mpsc;
use std::time::Duration;

use bnum::{BInt, BUint};
use serde_json::{json, Map, Value};

pub fn digits_from_words(w: &[u64]) -> Value {
    // base 4096 = 12 bits
    let nbits = 64 * w.len();
    let mut out: Vec<u64> = Vec::with_capacity(nbits / 12 + 1);
    let mut pos = 0;
    while pos < nbits {
        let wi = pos / 64;
        let off = pos % 64;
        let mut d = w[wi] >> off;
        if off > 52 && wi + 1 < w.len() {
            d |= w[wi + 1] << (64 - off);
        }
        out.push(d & 0xfff);
        pos += 12;
    }
    while let Some(&0) = out.last() {
        out.pop();
    }
    Value::from(out)
}

pub fn dn<const N: usize>(x: &BUint<N>) -> Value {
    digits_from_words(&x.digits()[..])
}

pub fn du(x: u64) -> Value {
    digits_from_words(&[x])
}

pub fn du128(x: u128) -> Value {
    digits_from_words(&[x as u64, (x >> 64) as u64])
}

pub fn di<const N: usize>(x: &BInt<N>) -> Value {
    let neg = x.is_negative();
    let mag = x.unsigned_abs();
    json!({"neg": neg, "mag": dn(&mag)})
}

pub fn di64(x: i64) -> Value {
    json!({"neg": x < 0, "mag": du(x.unsigned_abs())})
}

pub fn di128(x: i128) -> Value {
    json!({"neg": x < 0, "mag": du128(x.unsigned_abs())})
}

/// decimal string, for humans and replays
pub fn dec<const N: usize>(x: &BUint<N>) -> Value {
    Value::from(x.to_string())
}

pub struct Out {
    w: BufWriter<File>,
    pub n: usize,
}

impl Out {
    pub fn create(path: &str) -> Out {
        Out { w: BufWriter::new(File::create(path).expect("cannot create trace file")), n: 0 }
    }
    pub fn ev(&mut self, v: Value) {
        if v.get("skipped").and_then(|x| x.as_bool()) == Some(true) {
            return; // a call that was not made (hang budget exhausted)
        }
        serde_json::to_writer(&mut self.w, &v).unwrap();
        self.w.write_all(b"\n").unwrap();
        self.n += 1;
    }
    /// event built from a base object plus extra fields
    pub fn ev2(&mut self, mut base: Value, extra: Value) {
        if let (Some(b), Some(e)) = (base.as_object_mut(), extra.as_object()) {
            for (k, v) in e {
                b.insert(k.clone(), v.clone());
            }
        }
        self.ev(base)
    }
    /// pushes what was recorded so far to the file (drivers that run risky calls in-process flush a "begin"
    /// marker before each call so that a killed process still tells which call it was in)
    pub fn flush(&mut self) {
        self.w.flush().unwrap();
    }
    pub fn finish(mut self) -> usize {
        self.w.flush().unwrap();
        self.n
    }
}

thread_local! {
    static LAST_PANIC: RefCell<Option<(String, String)>> = RefCell::new(None);
}

pub fn install_panic_hook() {
    panic::set_hook(Box::new(|info| {
        let msg = if let Some(s) = info.payload().downcast_ref::<&str>() {
            s.to_string()
        } else if let Some(s) = info.payload().downcast_ref::<String>() {
            s.clone()
        } else {
            "?".to_string()
        };
        let loc = info.location().map(|l| format!("{}:{}", l.file(), l.line())).unwrap_or_default();
        LAST_PANIC.with(|p| *p.borrow_mut() = Some((msg, loc)));
    }));
}

fn panic_value() -> Value {
    let (msg, loc) = LAST_PANIC.with(|p| p.borrow_mut().take()).unwrap_or_default();
    let mut msg = msg;
    msg.truncate(200);
    // keep only the path inside the repository so that findings match across checkouts
    let loc = match loc.find("src/") {
        Some(i) => loc[i..].to_string(),
        None => loc,
    };
    json!({"outcome": "panic", "msg": msg, "loc": loc})
}

/// Runs f, turning a panic into Err({"outcome":"panic","msg":..,"loc":..}).
pub fn guard<T>(f: impl FnOnce() -> T) -> Result<T, Value> {
    match panic::catch_unwind(AssertUnwindSafe(f)) {
        Ok(v) => Ok(v),
        Err(_) => Err(panic_value()),
    }
}

/// Runs f in its own thread (with a large stack) under a deadline.  A thread that does not come
/// back is abandoned (outcome "timeout"); it dies with the process.
pub fn guard_deadline<T: Send + 'static>(secs: f64, f: impl FnOnce() -> T + Send + 'static) -> Result<T, Value> {
    // Hang budget: every abandoned call keeps a core busy and costs a whole deadline.  After HANG_BUDGET calls
    // that did not return, further guarded calls of this process are not made at all: they yield an event
    // marked "skipped", which `Out::ev` drops (the timeout events already recorded decide the verdict).
    if HANGS.load(std::sync::atomic::Ordering::SeqCst) >= HANG_BUDGET {
        return Err(json!({"outcome": "timeout", "skipped": true, "deadline_s": secs}));
    }
    let (tx, rx) = mpsc::channel();
    let h = std::thread::Builder::new()
        .stack_size(64 << 20)
        .spawn(move || {
            let r = match panic::catch_unwind(AssertUnwindSafe(f)) {
                Ok(v) => Ok(v),
                Err(_) => Err(panic_value()),
            };
            let _ = tx.send(r);
        })
        .expect("spawn");
    match rx.recv_timeout(Duration::from_secs_f64(secs)) {
        Ok(r) => {
            let _ = h.join();
            r
        }
        Err(_) => {
            HANGS.fetch_add(1, std::sync::atomic::Ordering::SeqCst);
            Err(json!({"outcome": "timeout", "deadline_s": secs}))
        }
    }
}

pub static HANGS: std::sync::atomic::AtomicUsize = std::sync::atomic::AtomicUsize::new(0);
pub const HANG_BUDGET: usize = 4;

pub type Args = HashMap<String, String>;

pub fn parse_args(argv: &[String]) -> Args {
    let mut m = HashMap::new();
    let mut i = 0;
    while i < argv.len() {
        if let Some(k) = argv[i].strip_prefix("--") {
            if i + 1 < argv.len() && !argv[i + 1].starts_with("--") {
                m.insert(k.to_string(), argv[i + 1].clone());
                i += 2;
            } else {
                m.insert(k.to_string(), "true".to_string());
                i += 1;
            }
        } else {
            i += 1;
        }
    }
    m
}

pub fn arg_u64(a: &Args, k: &str, default: u64) -> u64 {
    a.get(k).map(|s| s.parse().expect("numeric argument")).unwrap_or(default)
}

pub fn arg_str<'a>(a: &'a Args, k: &str, default: &'a str) -> &'a str {
    a.get(k).map(|s| s.as_str()).unwrap_or(default)
}

pub fn obj(pairs: &[(&str, Value)]) -> Value {
    let mut m = Map::new();
    for (k, v) in pairs {
        m.insert(k.to_string(), v.clone());
    }
    Value::Object(m)
}

/// Reads an ndjson file (shapes generated by TLC).
pub fn read_ndjson(path: &str) -> Vec<Value> {
    let s = std::fs::read_to_string(path).expect("cannot read ndjson");
    s.lines().filter(|l| !l.trim().is_empty()).map(|l| serde_json::from_str(l).expect("bad json line")).collect()
}
