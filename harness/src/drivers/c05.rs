//! C05 driver: factor() with an abort predicate that flips at a chosen poll index.
//!
//! The predicate is `polls.fetch_add(1) >= k`.  For each (input, selector, threads) a dry run
//! (k = infinity) counts the N polls of an undisturbed run and where the stages begin; then k
//! ranges over 0..=N (all of them when N <= 64, else 0,1,2, stage boundaries +-1, 32 evenly
//! spaced values, N-1, N).  One trace line per run (`op:"abort_run"`) with the polls, stage
//! starts and unit starts in log order (compact integer form) and the value returned.
//! Nothing is judged here: AbortTrace.tla decides.

use std::cell::Cell;
use std::sync::atomic::{AtomicUsize, Ordering};
use std::sync::Arc;

use serde_json::{json, Value};

use yamaquasi::{Preferences, Verbosity};

use super::c04::{algo_of, install_global_panic_hook, install_pert, make_input, outcome_fields, run_factor, st_code, Pert, RunOut, PROGRESS};
use crate::gen::{Pool, Uint};
use crate::trace::*;

thread_local! {
    // (run generation, number of true polls logged by this thread in that run)
    static TRUE_LOGGED: Cell<(usize, u32)> = Cell::new((0, 0));
}
static RUN_GEN: AtomicUsize = AtomicUsize::new(0);

fn abort_at(k: usize, polls: Arc<AtomicUsize>, gen: usize) -> Box<dyn Fn() -> bool + Sync> {
    Box::new(move || {
        let idx = polls.fetch_add(1, Ordering::SeqCst);
        let res = idx >= k;
        PROGRESS.fetch_add(1, Ordering::Relaxed);
        // every false poll is logged; of the true ones the first 3 of each thread (a parallel MPQS
        // loop polls once per remaining block, 100 000 times)
        let log = !res || TRUE_LOGGED.with(|c| {
            let (g, n) = c.get();
            let n = if g == gen { n } else { 0 };
            c.set((gen, n + 1));
            n < 3
        });
        if log {
            yamaquasi::verif::ev(|| format!("\"op\":\"poll\",\"idx\":{},\"res\":{}", idx, res));
        }
        res
    })
}

/// [code, tid, a, b]: 1 stage start (a = stage code 1 siqs 2 mpqs 3 qs 4 ecm)
///                    6 poll (a = index, b = 1 if it returned true) -- c = 10*stage + site of the loop it belongs to (0: lib.rs)
///                    7 unit start (a = stage code)   26 call   27 returned
fn compact5(events: &[Value]) -> (Vec<Value>, usize, usize) {
    let mut out = vec![];
    let mut pending: std::collections::HashMap<i64, i64> = Default::default();
    let (mut nunits, mut dropped) = (0, 0);
    for e in events {
        let tid = e["tid"].as_i64().unwrap_or(0);
        let st = st_code(e["st"].as_str().unwrap_or(""));
        match e["op"].as_str().unwrap_or("") {
            "stage" => out.push(json!([1, tid, st, 0, 0])),
            "pre_poll" => {
                let site = match e["site"].as_str().unwrap_or("") { "par" => 1, "seq" => 2, _ => 3 };
                pending.insert(tid, st * 10 + site);
            }
            "task_skip" | "loop_exit" | "sieve_ret" | "unit_start" => {
                pending.remove(&tid);
                if e["op"] == "unit_start" {
                    nunits += 1;
                    out.push(json!([7, tid, st, 0, 0]));
                }
            }
            "poll" => {
                let site = pending.remove(&tid).unwrap_or(0);
                out.push(json!([6, tid, e["idx"].as_i64().unwrap_or(0), e["res"].as_bool().unwrap_or(false) as i64, site]));
            }
            "call" => out.push(json!([26, tid, 0, 0, 0])),
            "returned" => out.push(json!([27, tid, 0, 0, 0])),
            _ => dropped += 1,
        }
    }
    (out, nunits, dropped)
}

fn one_run(inp: &super::c04::Input, sel: &str, threads: Option<usize>, k: usize, idle_s: f64) -> (RunOut, usize) {
    let polls = Arc::new(AtomicUsize::new(0));
    let gen = RUN_GEN.fetch_add(1, Ordering::SeqCst) + 1;
    let p2 = polls.clone();
    install_pert(&Pert { kind: "none".into(), seed: 0 });
    let r = run_factor(inp.n, algo_of(sel), move || {
        let mut prefs = Preferences::default();
        prefs.verbosity = Verbosity::Silent;
        prefs.threads = threads;
        prefs.should_abort = Some(abort_at(k, p2, gen));
        prefs
    }, idle_s, &|op| matches!(op, "stage" | "pre_poll" | "task_skip" | "loop_exit" | "sieve_ret" | "unit_start" | "poll" | "call" | "returned"));
    (r, polls.load(Ordering::SeqCst))
}

pub fn run(args: &Args) -> i32 {
    install_global_panic_hook();
    let seed = arg_u64(args, "seed", 1);
    let tier = arg_str(args, "tier", "quick").to_string();
    let thorough = tier == "thorough";
    let shard = arg_u64(args, "shard", 0) as usize;
    let nshards = arg_u64(args, "nshards", 1) as usize;
    let only = args.get("only").cloned();
    let idle_s = arg_u64(args, "idle", 60) as f64;
    let mut out = Out::create(arg_str(args, "out", "c05.ndjson"));
    let mut pool = Pool::new(seed ^ 0xc05);

    let mut shapes: Vec<(&str, Vec<u32>)> = vec![
        ("b64", vec![32, 32]),
        ("b70", vec![35, 35]),
        ("b76", vec![38, 38]),
        ("b82", vec![41, 41]),
        ("b88", vec![44, 44]),
        ("b96", vec![48, 48]),
        ("b104", vec![52, 52]),
        ("b110", vec![55, 55]),
        ("t90", vec![30, 30, 30]),
        ("t108", vec![36, 36, 36]),
        ("u100", vec![30, 70]),
        ("q104", vec![26, 26, 26, 26]),
        // p^2 * q: the sieve leaves a composite cofactor (p^2 or p*q), so the recursion after the sieve is entered
        ("sq84", vec![28, 28]),
        ("sq96", vec![30, 36]),
        // small prime factors in front (removed by the entry point's trial division before any stage): what is
        // returned after an abort must still multiply to the ORIGINAL n.  sm3: 3 * p * q, smx: 2 * 3^2 * 1009 * p * q,
        // sm7: 7 * p with p prime
        ("sm3b70", vec![35, 35]),
        ("smxb82", vec![41, 41]),
        ("sm7p60", vec![60]),
    ];
    if thorough {
        shapes.extend(vec![("b120", vec![60, 60]), ("b130", vec![65, 65]), ("t130", vec![40, 44, 46]), ("b140", vec![70, 70]),
                           ("u150", vec![40, 110]), ("b160", vec![80, 80])]);
    }
    let selectors = ["Auto", "Siqs", "Mpqs", "Qs", "Ecm"];
    let kmax_all = if thorough { 512 } else { 64 };
    let spaced = if thorough { 64 } else { 32 };
    let (mut work, mut work_ecm) = (0usize, 0usize);
    let mut stop = false;
    // the Ecm selector keeps building prime tables for later ecm() levels after an abort (about 4 s
    // per aborted run): fewer inputs and flip points for it in the quick tier
    let ecm_shapes: &[&str] = if thorough { &["b64", "b82", "t90", "u100", "b120", "t130"] } else { &["b70", "u100"] };
    for (name, bits) in shapes.iter() {
        let inp = if name.starts_with("sq") {
            let mut inp = make_input(&mut pool, &format!("{}-s{}", name, seed), bits);
            // square the first prime
            let p = inp.primes[0];
            inp.n = inp.n * p;
            inp.primes.insert(0, p);
            let c = inp.chains[0].clone();
            inp.chains.insert(0, c);
            inp
        } else if name.starts_with("sm") {
            let mut inp = make_input(&mut pool, &format!("{}-s{}", name, seed), bits);
            let m: u64 = if name.starts_with("sm3") { 3 } else if name.starts_with("smx") { 2 * 9 * 1009 } else { 7 };
            inp.n = inp.n * Uint::from(m);
            inp
        } else {
            make_input(&mut pool, &format!("{}-s{}", name, seed), bits)
        };
        for sel in selectors {
            if sel == "Qs" && inp.n.bits() > 100 {
                continue; // the plain QS needs seconds per run above 100 bits
            }
            if sel == "Ecm" && !ecm_shapes.contains(name) {
                continue;
            }
            for threads in [None, Some(4usize)] {
                // heavy (Ecm) and light groups are dealt round-robin separately
                let mine = if sel == "Ecm" {
                    work_ecm += 1;
                    work_ecm % nshards == shard
                } else {
                    work += 1;
                    (work * 2654435761usize >> 7) % nshards == shard
                };
                if !mine || stop {
                    continue;
                }
                let tname = threads.map(|t| t.to_string()).unwrap_or("none".into());
                let group = format!("{}/{}/t{}", inp.id, sel, tname);
                if let Some(o) = &only {
                    if !o.starts_with(&group) {
                        continue;
                    }
                }
                // dry run
                let begin = |out: &mut Out, k: i64| {
                    out.ev(json!({"op": "begin", "case": format!("{}/k{}", group, k), "group": group, "alg": sel,
                                  "threads": threads.map(|t| t as i64).unwrap_or(0), "k": k, "bits": inp.n.bits(), "n": dn(&inp.n),
                                  "n_dec": inp.n.to_string()}));
                    out.flush();
                };
                begin(&mut out, -1);
                let (dry, n_polls) = one_run(&inp, sel, threads, usize::MAX, idle_s);
                let (dev, _, _) = compact5(&dry.events);
                // stage boundaries: poll indices at which the loop of the poll changes
                let mut ks: Vec<usize> = vec![];
                if sel == "Ecm" && !thorough {
                    ks.extend([0, 1, n_polls / 2, n_polls]);
                } else if n_polls <= kmax_all {
                    ks.extend(0..=n_polls);
                } else {
                    ks.extend([0, 1, 2, n_polls - 1, n_polls]);
                    let mut last = -1;
                    for e in &dev {
                        if e[0] == 6 {
                            let site = e[4].as_i64().unwrap() / 10;
                            let idx = e[2].as_i64().unwrap() as usize;
                            if site != last {
                                ks.extend([idx.saturating_sub(1), idx, idx + 1]);
                                last = site;
                            }
                        }
                    }
                    for j in 0..spaced {
                        ks.push(j * n_polls / spaced);
                    }
                }
                ks.sort();
                ks.dedup();
                let mut runs: Vec<(i64, RunOut, usize)> = vec![(-1, dry, n_polls)];
                for &k in &ks {
                    if let Some(o) = &only {
                        if *o != format!("{}/k{}", group, k) {
                            continue;
                        }
                    }
                    begin(&mut out, k as i64);
                    let (r, np) = one_run(&inp, sel, threads, k, idle_s);
                    let hung = r.hung;
                    runs.push((k as i64, r, np));
                    if hung {
                        stop = true;
                        break;
                    }
                }
                for (k, r, np) in runs {
                    let (evs, nunits, _) = compact5(&r.events);
                    let mut e = json!({
                        "op": "abort_run", "case": format!("{}/k{}", group, k), "group": group, "alg": sel,
                        "threads": threads.map(|t| t as i64).unwrap_or(0), "k": k, "dry_polls": n_polls, "polls": np,
                        "units": nunits, "raw_events": r.raw_count, "wall_ms": (r.wall_ms * 10.0).round() / 10.0,
                        "bits": inp.n.bits(), "n": dn(&inp.n), "n_dec": inp.n.to_string(), "evs": evs,
                    });
                    let of = outcome_fields(&r.outcome);
                    for (kk, v) in of.as_object().unwrap() {
                        e[kk] = v.clone();
                    }
                    out.ev(e);
                }
                out.flush();
            }
        }
    }
    out.finish();
    0
}
